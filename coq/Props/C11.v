(* C11 - transpiling never runs user code, fails only cleanly (the evaluator and its call sites).
   Nothing but statements, closed by [exact], each followed by Print Assumptions. *)
From Coq Require Import ZArith QArith List Bool.
From RV Require Import Base.Wire Base.Text Lang.PyAst Lang.PySem Gen.SafeCasts Lang.ConstEval Proofs.ConstEvalP Proofs.ConstEvalCostP Proofs.ConstEvalBoundP.
From RV Require Import Lang.Regex Gen.Regexes Proofs.RegexP Proofs.RegexTableP Gen.SetSites Lang.FoldSession Proofs.FoldSessionP Gen.SafeCasts Lang.NameSession Proofs.NameSessionP.
From RV Require Import Lang.VariantCost Proofs.VariantCostP.
From RV Require Import Lang.NestDepth Proofs.NestDepthP Gen.NestDepth Proofs.NestDepthTableP.
Import ListNotations.
Open Scope Z_scope.

(* every primitive operation the evaluator performs is an operator of _BIN applied to two evaluated values,
   a cast of _SAFE_CASTS, or one of the constructor-fixed kinds (str + str, negation, str of an f-string part, len, abs,
   max/min, comparison, truth test, lookup in the environment dict) *)
Theorem C11_whitelist : forall e cenv p, In p (snd (eval_const_fx cenv e)) -> allowed p.
Proof. exact whitelist. Qed.
Print Assumptions C11_whitelist.

(* the cast table of the current source holds nothing but int, float, str, bool *)
Theorem C11_safe_casts_pure : forall f, In f safe_casts -> In f pure_casts.
Proof. exact safe_casts_pure. Qed.
Print Assumptions C11_safe_casts_pure.

(* the instrumented evaluator is the evaluator *)
Theorem C11_fx_is_eval_const : forall cenv e, fst (eval_const_fx cenv e) = eval_const cenv e.
Proof. exact eval_const_fx_fst. Qed.
Print Assumptions C11_fx_is_eval_const.

(* a method call, attribute, subscript, lambda, comprehension, starred, call of any other name, keyword call,
   wrong arity, operator outside _BIN/_UN: ValueError at once - nothing below the node is evaluated and no
   primitive is performed *)
Theorem C11_no_eval_of_unsupported : forall e cenv,
  unsupported_head e = true -> eval_const_fx cenv e = (CFail KValue, []).
Proof. exact no_eval_of_unsupported. Qed.
Print Assumptions C11_no_eval_of_unsupported.

Theorem C11_value_has_supported_head : forall e cenv v, eval_const cenv e = CVal v -> unsupported_head e = false.
Proof. exact value_has_supported_head. Qed.
Print Assumptions C11_value_has_supported_head.

Example C11_no_eval_nonvacuous :
  eval_const_fx [] (ECall [111;115] [EBin Add (EInt 1) (EInt 1)] []) = (CFail KValue, []) /\
  eval_const_fx [] (EBin Add (EInt 1) (EMethod (EName [120]) [121] [EBin Add (EInt 1) (EInt 1)] [])) = (CFail KValue, []) /\
  snd (eval_const_fx [] (EBin Add (EInt 1) (EInt 1))) = [PArith Add].
Proof. exact no_eval_example. Qed.
Print Assumptions C11_no_eval_nonvacuous.

(* which exception kinds leave the evaluator (on the modelled domain: CPython's recursion limit is not modelled - a
   RecursionError is caught by the call sites or turned into ValueError by parse(); no IEEE infinities):
   ValueError anywhere; ZeroDivisionError only below / // % **; TypeError only below unary minus, a comparison,
   max/min or a bit operator *)
Theorem C11_error_kinds_partial : forall cenv e k,
  eval_const cenv e = CFail k -> mentions (src k) e = true.
Proof. exact error_kinds. Qed.
Print Assumptions C11_error_kinds_partial.

(* at the call sites nothing but ValueError gets out *)
Theorem C11_call_sites_clean : forall cenv e,
  (forall k, resolve_numeric cenv e <> Raises k) /\
  (forall k, resolve_float cenv e <> Raises k) /\
  (forall k, resolve_bool cenv e <> Raises k) /\
  (forall k, assign_binding cenv e <> Raises k) /\
  (forall k, glyph_bitmap cenv e = Raises k -> k = KValue).
Proof. exact call_sites_clean. Qed.
Print Assumptions C11_call_sites_clean.

Theorem C11_sleep_site_clean : forall cenv e k, resolve_sleep cenv e <> Raises k.
Proof. exact sleep_site_clean. Qed.
Print Assumptions C11_sleep_site_clean.

Example C11_error_kinds_nonvacuous :
  eval_const [] (EBin Div (EInt 1) (EInt 0)) = CFail KZeroDiv /\
  eval_const [] (EUn USub (EStr [97])) = CFail KType /\
  eval_const [] (EBin LShift (EInt 1) (EInt (-1))) = CFail KValue /\
  resolve_numeric [] (EBin Div (EInt 1) (EInt 0)) = Fallback /\
  glyph_bitmap [] (EBin Div (EInt 1) (EInt 0)) = Raises KValue.
Proof. exact error_kinds_nonvacuous. Qed.
Print Assumptions C11_error_kinds_nonvacuous.

(* the size of every integer the evaluator builds is bounded (the repaired F-C11-exponent-blowup; fold_max_bits is
   _MAX_CONST_BITS of the current source, Gen/SafeCasts.v):
   one application of _apply_bin - any operator of _BIN, any two values - yields at most
   max(fold_max_bits, widest operand + 1) bits: ** << * are refused (ValueError, caught by the call sites like every
   other evaluator error) when the predicted size exceeds the bound, the other operators grow an operand by one bit at most *)
Theorem C11_fold_step_bounded : forall op a b v, apply_bin op a b = CVal v ->
  bits v <= Z.max fold_max_bits (Z.max (bits a) (bits b) + 1).
Proof. exact fold_step_bounded. Qed.
Print Assumptions C11_fold_step_bounded.

(* whole expressions, every environment: on the arithmetic fragment (literals, names, operators, conditions; the guard
   excludes calls - int(<float>), int(<str>), len - whose results the exact-rational floats and the strings of the model
   do not bound, not a defect of the code) the folded value has at most max(fold_max_bits, widest leaf) + size bits:
   linear in the input, where the unrepaired evaluator reached 2^n + 1 bits on the n + 5 characters of 2**2**n *)
Theorem C11_fold_bits_bounded : forall cenv e v, arith_only e = true -> eval_const cenv e = CVal v ->
  bits v <= Z.max fold_max_bits (leaf_bits cenv e) + Z.of_nat (esize e).
Proof. exact fold_bits_bounded_arith. Qed.
Print Assumptions C11_fold_bits_bounded.

(* the former witness family: 2 ** (2 ** n) is not folded as soon as its value would exceed the bound *)
Theorem C11_tower_refused : forall n, 0 <= n -> fold_max_bits < 2 * 2 ^ n -> eval_const [] (tower n) = CFail KValue.
Proof. exact tower_refused. Qed.
Print Assumptions C11_tower_refused.

(* non-vacuity: small towers are still folded (2**2**3 = 256), the first refused tower, 1 << (bound - 1) is folded and
   1 << bound is not, a product one bit too wide, 9**9**9, an expression of the arithmetic fragment, the measure *)
Example C11_fold_bound_nonvacuous :
  eval_const [] (tower 3) = CVal (VInt 256) /\
  eval_const [] (tower (Z.log2 fold_max_bits)) = CFail KValue /\
  eval_const [] (EBin LShift (EInt 1) (EInt (fold_max_bits - 1))) = CVal (VInt (2 ^ (fold_max_bits - 1))) /\
  eval_const [] (EBin LShift (EInt 1) (EInt fold_max_bits)) = CFail KValue /\
  eval_const [] (EBin Mult (EInt (2 ^ fold_max_bits)) (EInt 2)) = CFail KValue /\
  eval_const [] (EBin Pow (EInt 9) (EBin Pow (EInt 9) (EInt 9))) = CFail KValue /\
  arith_only (EBin Add (EName [120]) (EBin Mult (EInt 3) (EInt 5))) = true /\
  bits (VInt 255) = 8 /\ bits (VInt (-256)) = 9.
Proof. exact fold_bound_examples. Qed.
Print Assumptions C11_fold_bound_nonvacuous.

(* ... and the NUMBER of primitive operations is linear: fewer than twice the number of AST nodes, for every
   expression and environment.  With the bound on the operands above, the work of transpile-time evaluation is
   polynomial in the size of the input. *)
Theorem C11_operations_linear : forall cenv e, (length (snd (eval_const_fx cenv e)) < 2 * esize e)%nat.
Proof. exact ops_linear. Qed.
Print Assumptions C11_operations_linear.

Example C11_operations_linear_nonvacuous :
  length (snd (eval_const_fx [] (EBin Add (EBin Add (EBin Add (EInt 1) (EInt 2)) (EInt 3)) (EInt 4)))) = 3%nat /\
  esize (EBin Add (EBin Add (EBin Add (EInt 1) (EInt 2)) (EInt 3)) (EInt 4)) = 7%nat.
Proof. exact ops_linear_example. Qed.
Print Assumptions C11_operations_linear_nonvacuous.

(* ---------------------------------------------------------------- 'terminates promptly': the regular expressions
   (Lang/Regex.v: [ends r w] = the list of successes of the backtracking search, one entry per way of matching r against a
   prefix of w; [paths] = its length = what the engine walks through when the rest of the pattern fails everywhere).
   Gen/Regexes.v is regenerated on every run: every re.compile / re.match / re.fullmatch / re.sub ... pattern of
   parser.py, emitter.py, ast.py, __init__.py and toolchain/pio.py, parsed by CPython's own re._parser. *)

(* a FLAT expression - every unbounded repeat is over one character set, no group under * or + - has polynomially many
   backtracking paths on EVERY text: one factor (length + 1) per repeat *)
Theorem C11_flat_paths_bounded : forall r w, flat r = true -> (paths r w <= width r (length w))%nat.
Proof. exact flat_paths_bounded. Qed.
Print Assumptions C11_flat_paths_bounded.

Theorem C11_flat_paths_polynomial : forall r w, flat r = true -> (paths r w <= (length w + 2) ^ rsize r)%nat.
Proof. exact flat_paths_polynomial. Qed.
Print Assumptions C11_flat_paths_polynomial.

(* every regular expression of the current source is flat (star height <= 1) ... *)
Theorem C11_regex_table_flat : forall e, In e regex_table -> flat (re_rx e) = true.
Proof. exact regex_table_flat. Qed.
Print Assumptions C11_regex_table_flat.

Theorem C11_regex_table_star_height : forall e, In e regex_table -> (star_height (re_rx e) <= 1)%nat.
Proof. exact regex_table_star_height. Qed.
Print Assumptions C11_regex_table_star_height.

(* ... hence none of them can backtrack more than polynomially, whatever the line *)
Theorem C11_regex_table_polynomial : forall e w, In e regex_table ->
  (paths (re_rx e) w <= (length w + 2) ^ rsize (re_rx e))%nat.
Proof. exact regex_table_polynomial. Qed.
Print Assumptions C11_regex_table_polynomial.

(* the inventory is the real one: more than 60 entries, the two target() patterns among them, none with run-time parts *)
Example C11_regex_table_nonvacuous :
  (60 <= length regex_table)%nat /\ regex_dynamic = [] /\
  existsb (name_is [82;69;95;84;65;82;71;69;84;95;67;65;76;76]) regex_table = true /\
  existsb (name_is [82;69;95;84;65;82;71;69;84;95;73;78;76;73;78;69]) regex_table = true.
Proof. exact table_sane. Qed.
Print Assumptions C11_regex_table_nonvacuous.

(* the obligation is what separates the two: the nested quantifier (?:[S]*[N]+)* - a repeated group whose body ends in an
   unbounded run - has at least 2^n paths on n characters of N, for every pair of sets and every n; so has the port fragment
   (?:[S]*[N]+)+[S]* of a "path-like segments" spelling of the target() pattern *)
Theorem C11_nested_quantifier_exponential : forall S N x, cmem N x = true -> cmem S x = false ->
  forall n, (2 ^ n <= paths (segments S N) (repeat x n))%nat.
Proof. exact segments_exponential. Qed.
Print Assumptions C11_nested_quantifier_exponential.

Theorem C11_port_fragment_exponential : forall S N x, cmem N x = true -> cmem S x = false ->
  forall n, (2 ^ n <= paths (port_fragment S N) (repeat x (Datatypes.S n)))%nat.
Proof. exact port_fragment_exponential. Qed.
Print Assumptions C11_port_fragment_exponential.

(* 12 name characters: 4095 paths through the nested spelling, 12 through the flat character class of the source *)
Example C11_port_fragment_witness :
  paths (port_fragment cs_sep cs_name) (repeat 97 12) = 4095%nat /\
  paths (rplus (RSet cs_port)) (repeat 97 12) = 12%nat /\
  flat (rplus (RSet cs_port)) = true /\
  paths (rplus (rplus (RSet cs_name))) (repeat 97 10) = 1023%nat.
Proof. exact port_examples. Qed.
Print Assumptions C11_port_fragment_witness.

(* ---------------------------------------------------------------- 'never mutates its input-independent state':
   folded list objects across the parse() calls of one process (Lang/FoldSession.v) *)

(* an evaluator that builds a new object per evaluation: a script's output is its own, whatever was transpiled before and
   after it and whatever the module-level objects hold; and a parse() leaves those objects as it found them *)
Theorem C11_fold_session_stateless : forall before ms p after,
  nth_error (fsession false ms (before ++ p :: after)) (length before) = Some (alone p).
Proof. exact session_stateless. Qed.
Print Assumptions C11_fold_session_stateless.

Theorem C11_parse_leaves_module_store : forall ms p, parse1 false ms p = (alone p, ms).
Proof. exact parse_pure. Qed.
Print Assumptions C11_parse_leaves_module_store.

(* the guard is tight: a module-level memo of folded values keyed by source text hands out one list object twice *)
Theorem C11_fold_memo_refuted : exists A B, nth_error (fsession true ms_empty [A; B]) 1 <> Some (alone B).
Proof. exact memo_refutes. Qed.
Print Assumptions C11_fold_memo_refuted.

Example C11_fold_memo_witness :
  alone leak_B = [OLenIs 3; OPattern [1; 0; 1]] /\
  fsession true ms_empty [leak_B; leak_A; leak_B; leak_A] =
    [ [OLenIs 3; OPattern [1; 0; 1]];
      [OLenIs 5; OPattern [1; 0; 1; 0; 1]];
      [OLenIs 5; OPattern [1; 0; 1; 0; 1]];
      [OLenIs 7; OPattern [1; 0; 1; 0; 1; 0; 1]] ].
Proof. exact memo_leaks. Qed.
Print Assumptions C11_fold_memo_witness.

(* the CURRENT source (Gen/SetSites.v, the inventory C10 uses): no function of parser.py / emitter.py / ast.py mutates or
   hands out a module-level object (but the verification hook its own log) - there is nothing a memo could live in *)
Theorem C11_no_mutated_module_state : forall m, In m module_state -> m_mutated m = true -> m_name m = hook_log.
Proof. exact no_leaky_state. Qed.
Print Assumptions C11_no_mutated_module_state.

Theorem C11_current_source_has_no_fold_memo : memo_possible = false.
Proof. exact no_memo_possible. Qed.
Print Assumptions C11_current_source_has_no_fold_memo.

Theorem C11_fold_session_stateless_current_source : forall before ms p after,
  nth_error (fsession memo_possible ms (before ++ p :: after)) (length before) = Some (alone p).
Proof. exact session_stateless_current_source. Qed.
Print Assumptions C11_fold_session_stateless_current_source.

Example C11_fold_session_nonvacuous :
  alone leak_A = [OLenIs 5; OPattern [1; 0; 1; 0; 1]] /\
  fsession false (mk_ms [[9; 9]] [([1; 0; 1], 0%nat)]) [leak_B; leak_A; leak_B] =
    [[OLenIs 3; OPattern [1; 0; 1]]; [OLenIs 5; OPattern [1; 0; 1; 0; 1]]; [OLenIs 3; OPattern [1; 0; 1]]].
Proof. exact session_nonvacuous. Qed.
Print Assumptions C11_fold_session_nonvacuous.

(* the whitelist of foldable builtin names (_SAFE_NAME_REFERENCES) across the parse() calls of one process (Lang/NameSession.v):
   a script that itself binds len / str / int ... - recorded nowhere (the code) or in the per-parse context: every script's
   folds are its own, whatever was transpiled before; a parse() leaves the module-level whitelist as it found it *)
Theorem C11_name_session_stateless : forall mode, local_mode mode = true -> forall before p after,
  nth_error (nsession mode safe_name_references (before ++ p :: after)) (length before) = Some (nalone mode p).
Proof. exact nsession_stateless_alone. Qed.
Print Assumptions C11_name_session_stateless.

Theorem C11_parse_leaves_whitelist : forall mode wl p, local_mode mode = true -> snd (nparse1 mode wl p) = wl.
Proof. exact nparse_leaves_whitelist. Qed.
Print Assumptions C11_parse_leaves_whitelist.

(* the guard is tight: "shadowing" by discarding the name from the module-level set outlives the parse *)
Theorem C11_name_shadow_in_module_set_refuted :
  exists A B, nth_error (nsession ShModule safe_name_references [A; B]) 1 <> Some (nalone ShModule B).
Proof. exact shadow_module_refutes. Qed.
Print Assumptions C11_name_shadow_in_module_set_refuted.

Example C11_name_shadow_witness :
  nalone ShModule shadow_B = [NFolded n_len 3; NFolded n_str 12] /\
  nsession ShModule safe_name_references [shadow_B; shadow_A; shadow_B] =
    [[NFolded n_len 3; NFolded n_str 12]; [NRuntime n_len 3]; [NRuntime n_len 3; NFolded n_str 12]].
Proof. exact shadow_leaks. Qed.
Print Assumptions C11_name_shadow_witness.

Example C11_name_session_nonvacuous :
  nsession ShPerParse safe_name_references [shadow_B; shadow_A; shadow_B] =
    [[NFolded n_len 3; NFolded n_str 12]; [NRuntime n_len 3]; [NFolded n_len 3; NFolded n_str 12]] /\
  nsession ShNone safe_name_references [shadow_A; shadow_B] = [[NFolded n_len 3]; [NFolded n_len 3; NFolded n_str 12]].
Proof. exact shadow_per_parse. Qed.
Print Assumptions C11_name_session_nonvacuous.

(* the CURRENT source (Gen/SetSites.v): the whitelist object is in the inventory, is mutated nowhere and is used in membership
   tests only - it cannot reach anything that could change it *)
Theorem C11_whitelist_confined_current_source : wl_listed = true /\ whitelist_escapes = false.
Proof. exact whitelist_confined. Qed.
Print Assumptions C11_whitelist_confined_current_source.

Theorem C11_name_session_stateless_current_source : forall before p after,
  nth_error (nsession current_mode safe_name_references (before ++ p :: after)) (length before) = Some (nalone current_mode p).
Proof. exact nsession_stateless_current_source. Qed.
Print Assumptions C11_name_session_stateless_current_source.

(* F-C11-blank-run-cubic (open finding): flat is polynomial, not linear.  The argument part  \s*(.*?)\s*  of every declaration /
   method pattern is three adjacent runs that all accept a blank: C(n + 3, 3) backtracking paths on n blanks - the degree-3
   growth measured on the real transpiler (`led = Led(<n blanks>)!`: 0.07 s, 0.44 s, 3.1 s, 21 s for n = 400 ... 3200) *)
Example C11_blank_run_cubic_witness :
  flat blank_args = true /\
  Z.of_nat (paths blank_args (repeat 32 8)) = 165 /\
  Z.of_nat (paths blank_args (repeat 32 16)) = 969 /\
  Z.of_nat (paths blank_args (repeat 32 32)) = 6545 /\
  Z.of_nat (paths blank_args (repeat 32 64)) = 47905.
Proof. exact blank_args_cubic. Qed.
Print Assumptions C11_blank_run_cubic_witness.

(* ---------------------------------------------------------------- 'terminates promptly': pieces of a script that refer to
   each other (Lang/VariantCost.v).  A user function is parsed again for every call signature it is called with - the work of
   the def / call machinery is the number of _parse_function invocations, each of which parses a whole body and meets the
   calls inside it.  [vrun true] is _ensure_function_variant as the source has it: the memo in front of _parse_function is
   looked up through the alias table (requested signature -> the signature the variant was stored under after its
   parameters were promoted).  For EVERY script of the fragment (any call graph: recursion, forward calls, calls of all
   earlier helpers; any promotion) and every fuel: *)

(* no (function, call signature) is parsed twice *)
Theorem C11_variant_parsed_once : forall fuel p, NoDup (forced (trace (vrun true fuel p))).
Proof. exact variant_parsed_once. Qed.
Print Assumptions C11_variant_parsed_once.

Theorem C11_variant_parsed_once_count : forall fuel p k, (count_occ key_dec (forced (trace (vrun true fuel p))) k <= 1)%nat.
Proof. exact variant_parsed_once_count. Qed.
Print Assumptions C11_variant_parsed_once_count.

(* a forced parse only happens for a call signature that occurs (was recorded in function_call_signatures) *)
Theorem C11_variant_parsed_only_when_called : forall fuel p k,
  In k (forced (trace (vrun true fuel p))) -> In k (sigs (vrun true fuel p)).
Proof. exact variant_parsed_only_when_called. Qed.
Print Assumptions C11_variant_parsed_only_when_called.

(* hence the number of body parses is at most (defs of the script) + (distinct (function, signature) pairs called): at most
   linear in the number of call sites, where the raw lookup below needs fan-out ^ depth *)
Theorem C11_variant_parses_bounded : forall fuel p,
  (length (trace (vrun true fuel p)) <= n_defs p + length (sigs (vrun true fuel p)))%nat.
Proof. exact variant_parses_bounded. Qed.
Print Assumptions C11_variant_parses_bounded.

(* the guard is tight: with the fast path keyed by the RAW call signature (no alias resolution) a helper whose parameter is
   promoted to String is parsed again at every call *)
Theorem C11_variant_raw_lookup_refuted : exists p k, (2 <= count_occ key_dec (forced (trace (vrun false 100 p))) k)%nat.
Proof. exact variant_raw_lookup_refuted. Qed.
Print Assumptions C11_variant_raw_lookup_refuted.

(* the helper chain tag0(v) = v + ";", tag_k(v) = tag_{k-1}(v) + tag_{k-1}(v) + tag_{k-1}(v) + v, y = tag_d(7): 2d + 2 body
   parses through the alias table, (more than) tripling per level without; fuel never runs out; the recorded order of
   parses and the alias table of the model on a small chain *)
Example C11_variant_chain_series :
  map (fun d => Z.of_nat (parses true (chain d 3))) depths = [2; 4; 6; 8; 10; 12] /\
  map (fun d => Z.of_nat (parses false (chain d 3))) depths = [2; 9; 31; 98; 300; 907] /\
  map (fun d => oof (vrun false 2000 (chain d 3))) depths = map (fun _ => false) depths /\
  rev (trace (vrun true 100 (chain 2 3))) = [(0, None); (1, None); (0, Some [0]); (2, None); (1, Some [0]); (2, Some [0])] /\
  alias (vrun true 100 (chain 1 3)) = [((1, [0]), [3]); ((0, [0]), [3])] /\
  n_defs (chain 5 3) = 6%nat /\ length (sigs (vrun true 2000 (chain 5 3))) = 6%nat.
Proof. exact variant_chain_series. Qed.
Print Assumptions C11_variant_chain_series.

(* ---------------------------------------------------------------------------------------------------------------------
   'never crashes with an internal error' over the WHOLE pipeline parse() -> emit(): the interpreter stack.
   parse() turns its own RecursionError into ValueError (_nesting_as_value_error); emit() recurses over the same block
   tree and - since the repair of F-C11-emit-stack-window - does the same.  Lang/NestDepth.v: frames each stage needs on a
   program tree, from constants per block slot and per simple statement, and the outcome of the pipeline (0 firmware, 1 clean
   ValueError from parse, 2 RecursionError from emit, 3 clean ValueError from emit) with [guarded] = emit() has the wrapper;
   Gen/NestDepth.v: the constants MEASURED and the guard OBSERVED on the current source (deepest frame of the real parse /
   emit on ladders, linear fit re-checked; the real emit() run with fewer frames than it needs; fail-closed).  [room] = frames
   the caller leaves when it enters a stage - every theorem holds for every room, i.e. for every recursion limit and every
   depth of the caller's own stack.
   --------------------------------------------------------------------------------------------------------------------- *)

(* the outcome of the pipeline, for EVERY pair of constant tables, with and without the guard *)
Theorem C11_pipeline_outcome_characterised : forall g ps es room p,
  (pipeline g ps es room p = 0 <-> (need_prog ps p <= room /\ need_prog es p <= room)) /\
  (pipeline g ps es room p = 1 <-> room < need_prog ps p) /\
  (pipeline g ps es room p = 2 <-> (g = false /\ need_prog ps p <= room /\ room < need_prog es p)) /\
  (pipeline g ps es room p = 3 <-> (g = true /\ need_prog ps p <= room /\ room < need_prog es p)).
Proof. exact pipeline_cases. Qed.
Print Assumptions C11_pipeline_outcome_characterised.

(* an internal error exactly when emit() is unguarded and parse's need <= room < emit's need *)
Theorem C11_stack_crash_iff_unguarded_window : forall g ps es room p,
  pipeline g ps es room p = 2 <-> (g = false /\ need_prog ps p <= room /\ room < need_prog es p).
Proof. exact pipeline_crash_iff. Qed.
Print Assumptions C11_stack_crash_iff_unguarded_window.

(* a guarded emit(): whatever the constants of the two stages are - every tree, every room - never an internal error *)
Theorem C11_guarded_emit_never_crashes : forall ps es room p, pipeline true ps es room p <> 2.
Proof. exact guarded_pipeline_clean. Qed.
Print Assumptions C11_guarded_emit_never_crashes.

(* the obligation on the CURRENT source: emit() is guarded (broken by removing or narrowing the wrapper of emit()) *)
Theorem C11_emit_is_guarded_current_source : emit_guarded = true.
Proof. exact nest_emit_guarded. Qed.
Print Assumptions C11_emit_is_guarded_current_source.

(* the statement the finding F-C11-emit-stack-window refuted, now without any guard on the program: on the current source the
   pipeline never ends in an internal error - for every room and EVERY program tree (the four statements of the finding
   included) *)
Theorem C11_nesting_never_crashes_emit : forall room p, pipeline emit_guarded parse_stage emit_stage room p <> 2.
Proof. exact nest_pipeline_clean. Qed.
Print Assumptions C11_nesting_never_crashes_emit.

Theorem C11_nesting_outcome_is_firmware_or_clean_rejection : forall room p,
  pipeline emit_guarded parse_stage emit_stage room p = 0 \/ pipeline emit_guarded parse_stage emit_stage room p = 1
  \/ pipeline emit_guarded parse_stage emit_stage room p = 3.
Proof. exact nest_pipeline_outcomes. Qed.
Print Assumptions C11_nesting_outcome_is_firmware_or_clean_rejection.

(* the former window of the finding is a clean rejection by emit() *)
Theorem C11_former_window_is_clean_rejection : forall room p,
  need_prog parse_stage p <= room -> room < need_prog emit_stage p -> pipeline emit_guarded parse_stage emit_stage room p = 3.
Proof. exact nest_window_rejects. Qed.
Print Assumptions C11_former_window_is_clean_rejection.

(* the guard changes the KIND of the failure and nothing else: the same scripts yield firmware, the same are rejected by
   parse(), and the clean rejections by emit() are exactly the former crashes *)
Theorem C11_guard_only_changes_the_kind : forall ps es room p,
  (pipeline true ps es room p = 0 <-> pipeline false ps es room p = 0) /\
  (pipeline true ps es room p = 1 <-> pipeline false ps es room p = 1) /\
  (pipeline true ps es room p = 3 <-> pipeline false ps es room p = 2).
Proof. exact guard_only_changes_the_kind. Qed.
Print Assumptions C11_guard_only_changes_the_kind.

(* which depths still yield firmware.  For EVERY pair of constant tables: when emit's prelude, frames per level and header
   constants are dominated by parse's, emit needs no more frames than parse on every program tree whose simple statements
   are thin - so everything parse() accepts is emitted *)
Theorem C11_emit_stack_within_parse_stack : forall ps es, blocks_dominated ps es = true ->
  forall p, (forall l, In l (leaves_of_list p) -> thin ps es l = true) -> need_prog es p <= need_prog ps p.
Proof. exact prog_dominated. Qed.
Print Assumptions C11_emit_stack_within_parse_stack.

Theorem C11_accepted_nesting_is_emitted : forall g ps es, blocks_dominated ps es = true ->
  forall room p, (forall l, In l (leaves_of_list p) -> thin ps es l = true) -> fits ps room p = true -> pipeline g ps es room p = 0.
Proof. exact accepted_yields_firmware. Qed.
Print Assumptions C11_accepted_nesting_is_emitted.

(* ... in particular on the current source (dominance of the measured tables is a hypothesis here, reported by the harness
   from the extracted model - with a guarded emit() a deeper emitter costs accepted depth, not cleanliness, so it is no
   longer an obligation) *)
Theorem C11_accepted_nesting_is_emitted_current_source : blocks_dominated parse_stage emit_stage = true ->
  forall room p, (forall l, In l (leaves_of_list p) -> thin parse_stage emit_stage l = true) ->
  fits parse_stage room p = true -> pipeline emit_guarded parse_stage emit_stage room p = 0.
Proof. exact nest_accepted_yields_firmware. Qed.
Print Assumptions C11_accepted_nesting_is_emitted_current_source.

Theorem C11_enough_room_yields_firmware : forall g ps es p room,
  need_prog ps p <= room -> need_prog es p <= room -> pipeline g ps es room p = 0.
Proof. exact enough_room_yields_firmware. Qed.
Print Assumptions C11_enough_room_yields_firmware.

(* NECESSITY of the guard, for every pair of tables: one frame more per level than parse, in any slot, fails on some accepted
   ladder around any simple statement - an internal error without the guard, a clean ValueError with it (the shape of a
   refactoring that moves a recursive _emit_block call into a helper) *)
Theorem C11_extra_frame_per_level_opens_window : forall ps es k l extra,
  (k < length (st_frames es))%nat -> 0 < extra ->
  0 <= getz (st_frames ps) k -> getz (st_frames ps) k <= getz (st_frames es) k ->
  exists d room, pipeline false ps (bump_frames es k extra) room [ladder k d l] = 2
                 /\ pipeline true ps (bump_frames es k extra) room [ladder k d l] = 3.
Proof. exact extra_frame_opens_window. Qed.
Print Assumptions C11_extra_frame_per_level_opens_window.

(* non-vacuity, on a pair of tables that does not depend on the source (two slots, three statements, the third two frames
   deeper in emit than in parse): dominated tables; the window (levels 8 and 9 of 10 frames) with and without the guard; a
   thin tree at the acceptance boundary; the hypotheses of the necessity theorem *)
Example C11_toy_tables :
  blocks_dominated toy_ps toy_es = true /\ thin toy_ps toy_es 0 = true /\ thin toy_ps toy_es 1 = true /\ thin toy_ps toy_es 2 = false.
Proof. exact toy_tables. Qed.
Print Assumptions C11_toy_tables.

Example C11_toy_window :
  pipeline true toy_ps toy_es 10 [ladder 0 7 2] = 0 /\
  pipeline true toy_ps toy_es 10 [ladder 0 8 2] = 3 /\ pipeline true toy_ps toy_es 10 [ladder 0 9 2] = 3 /\
  pipeline false toy_ps toy_es 10 [ladder 0 8 2] = 2 /\ pipeline false toy_ps toy_es 10 [ladder 0 9 2] = 2 /\
  pipeline true toy_ps toy_es 10 [ladder 0 10 2] = 1 /\ pipeline false toy_ps toy_es 10 [ladder 0 10 2] = 1.
Proof. exact toy_window. Qed.
Print Assumptions C11_toy_window.

Example C11_toy_thin_tree_yields_firmware :
  let p := [ladder 0 9 1; Block 1 [Leaf 0; Block 0 [Leaf 1]; Leaf 1]] in
  (forall l, In l (leaves_of_list p) -> thin toy_ps toy_es l = true) /\ fits toy_ps 10 p = true /\ pipeline true toy_ps toy_es 10 p = 0
  /\ fits toy_ps 9 p = false.
Proof. exact toy_thin_tree_yields_firmware. Qed.
Print Assumptions C11_toy_thin_tree_yields_firmware.

Example C11_toy_extra_frame : exists d room,
  pipeline false toy_ps (bump_frames toy_es 0 1) room [ladder 0 d 0] = 2 /\ pipeline true toy_ps (bump_frames toy_es 0 1) room [ladder 0 d 0] = 3.
Proof. exact toy_extra_frame. Qed.
Print Assumptions C11_toy_extra_frame.
