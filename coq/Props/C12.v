(* C12 - target(): validate first, transpile faithfully, upload only on request.
   Nothing but statements, closed by [exact], each followed by Print Assumptions.

   The theorems hold for EVERY statement list [ss] accepted by the decidable predicate
   [shape_ok] (Tool/Target.v), every environment [e] (validation verdicts, upload flag,
   PlatformIO present or absent, every fault vector).  The last theorem of the file,
   [C12_current_shape_ok], says that the statement list the translator read from the
   current src/Reduino/__init__.py is such a list; it is the only place where the
   current source enters, and it stops compiling when target() no longer has a
   well-formed shape (e.g. ensure_pio() not guarded by `if upload:`, or its except clauses
   not turning every failure of the probe into RuntimeError). *)
From Coq Require Import ZArith List Bool.
From RV Require Import Base.Wire Base.Text Gen.Registry Tool.Registry Tool.Ini Tool.Target Proofs.TargetP Gen.TargetShape.
From RV Require Import Tool.TargetIni Proofs.TargetIniP.
Import ListNotations.
Open Scope Z_scope.

(* an unsupported or mismatched pair: ValueError, and nothing at all has happened *)
Theorem C12_validate_first : forall (e : env) (ss : list step),
  shape_ok ss = true -> validf e VPlatform VBoard = false ->
  target_run e ss = ([], Raised ValueError).
Proof. exact validate_first. Qed.
Print Assumptions C12_validate_first.

(* build/upload happen only if upload was requested; with upload and no fault both
   happen exactly once, the build immediately before the upload, in the project
   directory; a failed build - `pio run` exiting non-zero (CalledProcessError) or not
   starting at all because the executable vanished after the probe (OSError), that is
   [build_fault e = Some k] - is never followed by an upload and its error is the result *)
Theorem C12_upload_iff : forall (e : env) (ss : list step) (evs : list event) (res : result),
  shape_ok ss = true -> target_run e ss = (evs, res) ->
  (forall ev, In ev evs -> is_tool_run ev = true -> upload e = true) /\
  (upload e = true -> pio e = true -> validf e VPlatform VBoard = true -> no_fault e ->
     exists a c, evs = a ++ RunBuild VTmp :: RunUpload VTmp :: c /\
                 (forall ev, In ev (a ++ c) -> is_tool_run ev = false)) /\
  (forall k, build_fault e = Some k ->
     (forall d, ~ In (RunUpload d) evs) /\
     (forall d, In (RunBuild d) evs -> res = Raised k)).
Proof. exact upload_iff. Qed.
Print Assumptions C12_upload_iff.

(* the part of the previous clause that needs no well-formedness at all: whatever the
   body of target() looks like, compile_upload never uploads after a failed build *)
Theorem C12_failed_build_never_uploads : forall (e : env) (ss : list step) (d : val),
  build_fault e <> None -> ~ In (RunUpload d) (fst (exec_list e ss)).
Proof. exact build_fail_no_upload. Qed.
Print Assumptions C12_failed_build_never_uploads.

(* everything that creates something on disk (mkdtemp, mkdir, the two files) comes after
   the pair was accepted, after `pio --version` succeeded when upload was requested, and
   after parse succeeded *)
Theorem C12_no_write_before_checks :
  forall (e : env) (ss : list step) (evs : list event) (res : result) (pre : list event) (w : event) (post : list event),
  shape_ok ss = true -> target_run e ss = (evs, res) -> evs = pre ++ w :: post -> is_write w = true ->
  validf e VPlatform VBoard = true /\
  (upload e = true -> pio e = true /\ In RunPioVersion pre) /\
  fault e FParse = false /\ In Parse pre.
Proof. exact no_write_before_checks. Qed.
Print Assumptions C12_no_write_before_checks.

(* upload requested, PlatformIO missing - in whichever way the probe fails ([pio_how e]:
   not on PATH, not executable, no executable format, a PATH component that is a file,
   `pio --version` exiting non-zero): RuntimeError, and the probe is the only effect *)
Theorem C12_missing_pio_with_upload : forall (e : env) (ss : list step),
  shape_ok ss = true -> validf e VPlatform VBoard = true -> upload e = true -> pio e = false ->
  target_run e ss = ([RunPioVersion], Raised RuntimeError).
Proof. exact missing_pio_with_upload. Qed.
Print Assumptions C12_missing_pio_with_upload.

(* the same, with the cause quantified explicitly *)
Theorem C12_missing_pio_any_cause : forall (e : env) (ss : list step),
  shape_ok ss = true -> validf e VPlatform VBoard = true -> upload e = true -> pio e = false ->
  forall how : pfail,
    target_run {| validf := validf e; upload := upload e; pio := false; pio_how := how; fault := fault e |} ss
    = ([RunPioVersion], Raised RuntimeError).
Proof. exact missing_pio_any_cause. Qed.
Print Assumptions C12_missing_pio_any_cause.

(* [handlers_wrap], the condition shape_ok puts on the except clauses of ensure_pio(), is
   exactly "every failure of the probe leaves ensure_pio() as RuntimeError" *)
Theorem C12_wrapping_clauses_exact : forall h : list handler,
  handlers_wrap h = true <-> forall f : pfail, ensure_kind h f = RuntimeError.
Proof. exact handlers_wrap_iff. Qed.
Print Assumptions C12_wrapping_clauses_exact.

(* clauses narrowed to FileNotFoundError / CalledProcessError do not wrap: a `pio` on PATH
   without execute permission escapes as the raw OSError (absent pio and a non-zero exit are
   still RuntimeError), and shape_ok rejects that shape *)
Theorem C12_narrow_clauses_refuted :
  exists e, validf e VPlatform VBoard = true /\ upload e = true /\ pio e = false /\
    target_run e shape_narrow = ([RunPioVersion], Raised OSError) /\
    target_run (env_how true true PNotFound (fun _ => false)) shape_narrow = ([RunPioVersion], Raised RuntimeError) /\
    target_run (env_how true true PExit (fun _ => false)) shape_narrow = ([RunPioVersion], Raised RuntimeError).
Proof. exact narrow_refuted. Qed.
Print Assumptions C12_narrow_clauses_refuted.

Theorem C12_narrow_shape_rejected : shape_ok shape_narrow = false /\ handlers_wrap handlers_narrow = false.
Proof. exact narrow_not_ok. Qed.
Print Assumptions C12_narrow_shape_rejected.

(* transpile-only use: effects and result do not depend on PlatformIO being installed,
   and no process is ever started *)
Theorem C12_transpile_only_without_pio : forall (e e' : env) (ss : list step),
  shape_ok ss = true -> same_but_pio e e' -> upload e = false ->
  target_run e ss = target_run e' ss /\ (forall ev, In ev (fst (target_run e ss)) -> is_run ev = false).
Proof. exact transpile_only_without_pio. Qed.
Print Assumptions C12_transpile_only_without_pio.

(* a failing attempt is the last event and its exception is the result
   (for ANY statement list whose ensure_pio() calls wrap, well-formed or not) ... *)
Theorem C12_failure_propagates :
  forall (e : env) (ss : list step) (evs : list event) (res : result) (pre : list event) (ev : event) (post : list event) (k : kind),
  wraps_all ss = true -> target_run e ss = (evs, res) -> evs = pre ++ ev :: post -> ev_fault e ev = Some k ->
  post = [] /\ res = Raised k.
Proof. exact failure_propagates. Qed.
Print Assumptions C12_failure_propagates.

(* ... and on well-formed shapes nothing else raises, except the rejection of the pair *)
Theorem C12_every_exception_has_a_cause : forall (e : env) (ss : list step) (evs : list event) (k : kind),
  shape_ok ss = true -> target_run e ss = (evs, Raised k) ->
  (evs = [] /\ k = ValueError /\ validf e VPlatform VBoard = false) \/
  (exists pre last, evs = pre ++ [last] /\ ev_fault e last = Some k).
Proof. exact raise_cause. Qed.
Print Assumptions C12_every_exception_has_a_cause.

(* what is returned is the emitted text, main.cpp received that same text and the
   configuration was written from exactly port, platform, board, required_libs;
   without faults the call does return; it never returns None *)
Theorem C12_returns_emitted : forall (e : env) (ss : list step) (evs : list event) (res : result),
  shape_ok ss = true -> target_run e ss = (evs, res) ->
  (forall v, res = Returned v ->
     v = VCpp /\ In Emit evs /\ In (WriteMain VCpp) evs /\
     In (WriteIni VPort VPlatform VBoard VLibs) evs) /\
  (no_fault e -> validf e VPlatform VBoard = true -> (upload e = true -> pio e = true) ->
     res = Returned VCpp) /\
  res <> FellOff.
Proof. exact returns_emitted. Qed.
Print Assumptions C12_returns_emitted.

(* no other text, directory or configuration is ever written or built *)
Theorem C12_writes_exact : forall (e : env) (ss : list step) (evs : list event) (res : result),
  shape_ok ss = true -> target_run e ss = (evs, res) -> forall ev, In ev evs -> ev_exact ev.
Proof. exact writes_exact. Qed.
Print Assumptions C12_writes_exact.

(* ---- the concrete layer: for a call target(port, platform=, board=) of a script needing
        [c_libs a] (env_for a: validation decided by the generated registry on these very
        strings), every platformio.ini text written reads back - with the configparser model
        of C13 - as exactly one [env:...] section with platform, board, upload_port equal to
        the arguments and lib_deps the needed libraries.  Guard (C13's): the port has no line
        break and no blank padding, no library name starts with # or ; *)
Theorem C12_config_names_exactly_partial :
  forall (a : cargs) (up pi : bool) (how : pfail) (flt : fpoint -> bool) (ss : list step) (evs : list event) (res : result),
  shape_ok ss = true ->
  value_ok (c_port a) = true -> forallb lib_ok (c_libs a) = true ->
  target_run (env_for a up pi how flt) ss = (evs, res) ->
  forall ev t, In ev evs -> ini_text a ev = Some t ->
    ini_read t = Some (expected_ini (c_platform a) (c_board a) (c_port a) (c_libs a)).
Proof. exact config_exact. Qed.
Print Assumptions C12_config_names_exactly_partial.

Theorem C12_config_keys : forall (pl b port : text) (libs : list text),
  let cfg := expected_ini pl b port libs in
  ini_key k_platform cfg = Some pl /\ ini_key k_board cfg = Some b /\ ini_key k_upload_port cfg = Some port.
Proof. exact expected_keys. Qed.
Print Assumptions C12_config_keys.

(* a call that returns has written that file *)
Theorem C12_returned_call_wrote_config_partial :
  forall (a : cargs) (up pi : bool) (how : pfail) (flt : fpoint -> bool) (ss : list step) (evs : list event) (v : val),
  shape_ok ss = true ->
  value_ok (c_port a) = true -> forallb lib_ok (c_libs a) = true ->
  target_run (env_for a up pi how flt) ss = (evs, Returned v) ->
  exists t, In (WriteIni VPort VPlatform VBoard VLibs) evs /\
            t = render (c_platform a) (c_board a) (c_port a) (c_libs a) /\
            ini_read t = Some (expected_ini (c_platform a) (c_board a) (c_port a) (c_libs a)).
Proof. exact returned_config. Qed.
Print Assumptions C12_returned_call_wrote_config_partial.

(* the regression class of the `board =` line: were it formatted from the sanitised
   environment name, the file of a registered hyphenated board would name another board;
   with the template as it is, it names the board *)
Theorem C12_board_line_sanitized_refuted :
  validate w_atmelavr w_astar = None /\
  match ini_read (render_board_sanitized w_atmelavr w_astar w_port0 []) with
  | Some cfg => ini_key k_board cfg <> Some w_astar
  | None => True
  end /\
  (match ini_read (render w_atmelavr w_astar w_port0 []) with
   | Some cfg => ini_key k_board cfg = Some w_astar
   | None => False
   end).
Proof. exact board_sanitized_refuted. Qed.
Print Assumptions C12_board_line_sanitized_refuted.

(* such boards exist in the current registry (the generators draw every one of them) *)
Example C12_nonvacuous_board_not_word : In w_astar boards_not_word.
Proof. exact boards_not_word_inhabited. Qed.
Print Assumptions C12_nonvacuous_board_not_word.

(* ---- the shape of the pinned commit (ensure_pio() unconditional) violates the
        transpile-only clause: same call, PlatformIO absent vs present *)
Theorem C12_transpile_only_without_pio_refuted_on_pinned_shape :
  exists e e', same_but_pio e e' /\ upload e = false /\
    target_run e shape_pinned = ([RunPioVersion], Raised RuntimeError) /\
    target_run e' shape_pinned =
      ([RunPioVersion; ReadMain; Parse; Emit; Mkdtemp; Mkdir VTmp; WriteMain VCpp;
        WriteIni VPort VPlatform VBoard VLibs], Returned VCpp).
Proof. exact pinned_refuted. Qed.
Print Assumptions C12_transpile_only_without_pio_refuted_on_pinned_shape.

Theorem C12_pinned_shape_rejected : shape_ok shape_pinned = false.
Proof. exact pinned_not_ok. Qed.
Print Assumptions C12_pinned_shape_rejected.

(* ---- non-vacuity: a well-formed shape exists, and the hypotheses of each implication
        are met by concrete runs of it *)
Example C12_nonvacuous_shape : shape_ok shape_repaired = true.
Proof. exact repaired_ok. Qed.
Print Assumptions C12_nonvacuous_shape.

(* happy path with upload: ten events, build then upload last *)
Example C12_nonvacuous_upload :
  target_run (env_of true true true (fun _ => false)) shape_repaired =
  ([RunPioVersion; ReadMain; Parse; Emit; Mkdtemp; Mkdir VTmp; WriteMain VCpp;
    WriteIni VPort VPlatform VBoard VLibs; RunBuild VTmp; RunUpload VTmp], Returned VCpp).
Proof. vm_compute. reflexivity. Qed.
Print Assumptions C12_nonvacuous_upload.

(* transpile-only without PlatformIO works on the repaired shape *)
Example C12_nonvacuous_transpile_only :
  target_run (env_of true false false (fun _ => false)) shape_repaired =
  ([ReadMain; Parse; Emit; Mkdtemp; Mkdir VTmp; WriteMain VCpp;
    WriteIni VPort VPlatform VBoard VLibs], Returned VCpp).
Proof. vm_compute. reflexivity. Qed.
Print Assumptions C12_nonvacuous_transpile_only.

(* a failing build, a failing main.cpp write, a parse error, a rejected pair *)
Example C12_nonvacuous_faults :
  target_run (env_of true true true (fun f => match f with FBuild => true | _ => false end)) shape_repaired =
    ([RunPioVersion; ReadMain; Parse; Emit; Mkdtemp; Mkdir VTmp; WriteMain VCpp;
      WriteIni VPort VPlatform VBoard VLibs; RunBuild VTmp], Raised CalledProcessError) /\
  target_run (env_of true true true (fun f => match f with FBuildExec => true | _ => false end)) shape_repaired =
    ([RunPioVersion; ReadMain; Parse; Emit; Mkdtemp; Mkdir VTmp; WriteMain VCpp;
      WriteIni VPort VPlatform VBoard VLibs; RunBuild VTmp], Raised OSError) /\
  target_run (env_of true true true (fun f => match f with FUploadExec => true | _ => false end)) shape_repaired =
    ([RunPioVersion; ReadMain; Parse; Emit; Mkdtemp; Mkdir VTmp; WriteMain VCpp;
      WriteIni VPort VPlatform VBoard VLibs; RunBuild VTmp; RunUpload VTmp], Raised OSError) /\
  target_run (env_how true true PFormat (fun _ => false)) shape_repaired = ([RunPioVersion], Raised RuntimeError) /\
  target_run (env_of true true true (fun f => match f with FWriteMain => true | _ => false end)) shape_repaired =
    ([RunPioVersion; ReadMain; Parse; Emit; Mkdtemp; Mkdir VTmp; WriteMain VCpp], Raised OSError) /\
  target_run (env_of true false true (fun f => match f with FParse => true | _ => false end)) shape_repaired =
    ([ReadMain; Parse], Raised ValueError) /\
  target_run (env_of false true true (fun _ => false)) shape_repaired = ([], Raised ValueError).
Proof. vm_compute. repeat split; reflexivity. Qed.
Print Assumptions C12_nonvacuous_faults.

(* ---- THE TIE: the statement list read from the current source is well-formed.
        Fails to compile on a tree where target() calls ensure_pio() unconditionally. *)
Theorem C12_current_shape_ok : shape_ok TargetShape.steps = true.
Proof. vm_compute. reflexivity. Qed.
Print Assumptions C12_current_shape_ok.
