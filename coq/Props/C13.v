(* C13 - Board registry validation is exact and project files round-trip.
   Nothing but statements, closed by [exact], each followed by Print Assumptions. *)
From Coq Require Import String ZArith List Bool.
From RV Require Import Base.Wire Base.Text Gen.Registry Tool.Registry Proofs.RegistryP.
From RV Require Import Tool.Ini Proofs.IniP.
From RV Require Import Gen.PioInventory Tool.NearMiss Proofs.NearMissP.
Import ListNotations.
Open Scope Z_scope.

(* accepted  <->  the board is registered for exactly that platform *)
Theorem C13_validate_exact : forall pl b : text,
  validate pl b = None <-> registered pl b.
Proof. exact (validate_exact _ _ generated_tables_ok). Qed.
Print Assumptions C13_validate_exact.

(* every registered board belongs to exactly one platform *)
Theorem C13_one_platform : forall p1 p2 b : text,
  registered p1 b -> registered p2 b -> p1 = p2.
Proof. exact (one_platform _ _ generated_tables_ok). Qed.
Print Assumptions C13_one_platform.

(* the inverse index the code computes at import time is faithful *)
Theorem C13_inverse_faithful : forall pl b : text,
  tlookup b board_to_platform = Some pl <-> registered pl b.
Proof. exact (inverse_faithful _ _ generated_tables_ok). Qed.
Print Assumptions C13_inverse_faithful.

(* each rejection names the right reason *)
Theorem C13_rejection_kinds : forall pl b : text,
  match validate pl b with
  | None => registered pl b
  | Some UnsupportedPlatform => ~ In pl (map fst platforms)
  | Some UnsupportedBoard => In pl (map fst platforms) /\ forall p, ~ registered p b
  | Some Mismatch => In pl (map fst platforms) /\ exists p, p <> pl /\ registered p b
  end.
Proof. exact (validate_kinds _ _ generated_tables_ok). Qed.
Print Assumptions C13_rejection_kinds.

(* non-vacuity: the registry is inhabited and both verdicts occur *)
Example C13_nonvacuous :
  validate [97;116;109;101;108;97;118;114] [117;110;111] = None /\
  validate [97;116;109;101;108;109;101;103;97;97;118;114] [117;110;111] = Some Mismatch.
Proof. vm_compute. split; reflexivity. Qed.
Print Assumptions C13_nonvacuous.

(* ======================================================================== INI half
   render     = the platformio.ini text write_project produces (template regenerated from pio.py)
   ini_read   = CPython 3.12 configparser.ConfigParser(interpolation=None) reading that file
   value_ok t = t has no line break (10, 13) and t == t.strip()
   lib_ok n   = n is empty, or value_ok n and n does not start with "#" or ";"
   expected_ini = one section "env:" + sanitised board with platform, board, framework = arduino,
                  upload_port, and lib_deps = "\n" + the given libraries de-duplicated in
                  first-seen order joined by "\n" (the key is absent when there is none)        *)

(* the file reads back as exactly the given configuration - for ALL strings inside the guard *)
Theorem C13_roundtrip_partial : forall (pl b port : text) (libs : list text),
  value_ok pl = true -> value_ok b = true -> value_ok port = true -> forallb lib_ok libs = true ->
  ini_read (render pl b port libs) = Some (expected_ini pl b port libs).
Proof. exact roundtrip. Qed.
Print Assumptions C13_roundtrip_partial.

(* write_project itself: every accepted pair is a registry pair, whose names are inside the guard *)
Theorem C13_roundtrip_registered_partial : forall (pl b port : text) (libs : list text),
  validate pl b = None -> value_ok port = true -> forallb lib_ok libs = true ->
  exists t, write_ini pl b port libs = inr t /\ ini_read t = Some (expected_ini pl b port libs).
Proof. exact roundtrip_registered. Qed.
Print Assumptions C13_roundtrip_registered_partial.

Theorem C13_invalid_pair_writes_nothing : forall (pl b port : text) (libs : list text) (e : verr),
  validate pl b = Some e -> write_ini pl b port libs = inl e.
Proof. exact invalid_writes_nothing. Qed.
Print Assumptions C13_invalid_pair_writes_nothing.

(* the guard is what it says: no_padding is "t == t.strip()", and the narrower guard of the
   work order (additionally no blank other than " " anywhere) implies it *)
Theorem C13_guard_no_padding_is_strip : forall t : text, no_padding t = true <-> strip t = t.
Proof. exact no_padding_iff. Qed.
Print Assumptions C13_guard_no_padding_is_strip.

Theorem C13_guard_plain_value : forall t : text, plain_value t = true -> value_ok t = true.
Proof. exact plain_value_ok. Qed.
Print Assumptions C13_guard_plain_value.

(* every name of the generated registry is a plain word (finite, decided on the generated tables) *)
Theorem C13_registry_names_plain : forall pl b : text,
  registered pl b -> reg_name_ok pl = true /\ reg_name_ok b = true.
Proof. exact registered_names_plain. Qed.
Print Assumptions C13_registry_names_plain.

(* the names _format_lib_section writes are the non-empty entries, de-duplicated in first-seen
   order: [given_libs] is defined without the loop's accumulator; it has no duplicates, the same
   members, and what a longer list adds comes after what a prefix already gave *)
Theorem C13_dedup_first_seen : forall libs : list text,
  format_lib_section libs =
    match given_libs libs with
    | [] => []
    | ns => t_lib_deps_eq ++ concat (map (fun n => c_nl :: c_sp :: c_sp :: n) ns)
    end
  /\ NoDup (given_libs libs)
  /\ (forall x, In x (given_libs libs) <-> In x libs /\ x <> [])
  /\ (forall l1 l2, libs = l1 ++ l2 ->
        given_libs libs = given_libs l1 ++ filter (fun x => negb (tmem x l1)) (given_libs l2)).
Proof. exact dedup_first_seen. Qed.
Print Assumptions C13_dedup_first_seen.

(* the environment name uses only [A-Za-z0-9_] ... *)
Theorem C13_env_name_safe : forall b : text, forallb is_word (sanitize_env_name b) = true.
Proof. exact sanitize_word. Qed.
Print Assumptions C13_env_name_safe.

(* ... and distinct registered boards get distinct environment names (finite: the generated registry) *)
Theorem C13_env_name_injective_on_registry : forall p1 p2 a b : text,
  registered p1 a -> registered p2 b -> sanitize_env_name a = sanitize_env_name b -> a = b.
Proof. exact registry_sanitize_injective_reg. Qed.
Print Assumptions C13_env_name_injective_on_registry.

(* outside the guard the round trip fails: the three listed findings *)
Theorem C13_port_padding_refuted :
  exists port, no_break port = true /\ validate w_avr w_uno = None /\
    ini_read (render w_avr w_uno port []) = Some (expected_ini w_avr w_uno w_com3 []) /\
    expected_ini w_avr w_uno w_com3 [] <> expected_ini w_avr w_uno port [].
Proof. exact port_padding_refuted. Qed.
Print Assumptions C13_port_padding_refuted.

Theorem C13_lib_comment_refuted :
  exists libs, forallb no_break libs = true /\ forallb no_padding libs = true /\
    ini_read (render w_avr w_uno w_com3 libs) = Some (expected_ini w_avr w_uno w_com3 [w_servo]) /\
    expected_ini w_avr w_uno w_com3 [w_servo] <> expected_ini w_avr w_uno w_com3 libs.
Proof. exact lib_comment_refuted. Qed.
Print Assumptions C13_lib_comment_refuted.

Theorem C13_lib_padding_refuted :
  exists libs, forallb no_break libs = true /\
    forallb (fun n => match n with c :: _ => negb (is_comment_prefix c) | [] => true end) libs = true /\
    ini_read (render w_avr w_uno w_com3 libs) = Some (expected_ini w_avr w_uno w_com3 [w_servo]) /\
    expected_ini w_avr w_uno w_com3 [w_servo] <> expected_ini w_avr w_uno w_com3 libs.
Proof. exact lib_padding_refuted. Qed.
Print Assumptions C13_lib_padding_refuted.

(* non-vacuity: a configuration inside the guard with blanks, delimiters, comment characters and
   brackets in the port, duplicate / empty / odd library names - and what it reads back as *)
Example C13_roundtrip_nonvacuous :
  let port := txt "/dev/tty USB=0:#;[x]" in
  let libs := [txt "Servo"; []; txt "a b"; txt "Servo"; txt "x=y"; txt "[z]"; txt "a b"] in
  value_ok (txt "atmelavr") = true /\ value_ok (txt "a-star32U4") = true /\
  value_ok port = true /\ forallb lib_ok libs = true /\
  validate (txt "atmelavr") (txt "a-star32U4") = None /\
  ini_read (render (txt "atmelavr") (txt "a-star32U4") port libs) =
  Some [(txt "env:a_star32U4",
         [(txt "platform", txt "atmelavr"); (txt "board", txt "a-star32U4");
          (txt "framework", txt "arduino"); (txt "upload_port", port);
          (txt "lib_deps", c_nl :: txt "Servo" ++ c_nl :: txt "a b" ++ c_nl :: txt "x=y" ++ c_nl :: txt "[z]")])].
Proof. vm_compute. repeat split; reflexivity. Qed.
Print Assumptions C13_roundtrip_nonvacuous.

(* a line break inside a value breaks the file (outside the property's "printable" quantifier;
   shows that the no-line-break conjunct of the guard cannot be dropped) *)
Theorem C13_line_break_refuted :
  (exists port, no_padding port = true /\ ini_read (render w_avr w_uno port []) = None) /\
  (exists lib, no_padding lib = true /\ ini_read (render w_avr w_uno w_com3 [lib]) = None).
Proof. exact line_break_refuted. Qed.
Print Assumptions C13_line_break_refuted.

(* ======================================================================== near-miss names
   A near-miss of a registered id b' under a normaliser k is a string b <> b' with k b = k b'.
   normaliser 0 = _sanitize_env_name, 1 = ASCII case folding, 2 = str.strip(),
   3 = separators dropped and case folded; each of them separates the registered ids (finite,
   decided on the generated table).
   validate_keyed k = validation through an index keyed by k(board) instead of the board id -
   the shape of regression this round's seeded change has; it is NOT the code. *)

(* the code refuses every near-miss, with the unknown-board error when the platform is known *)
Theorem C13_near_miss_rejected : forall (c : Z) (pl b b' p' : text),
  known_code c = true -> registered p' b' -> normaliser c b = normaliser c b' -> b <> b' ->
  validate pl b = if tmem pl (map fst platforms) then Some UnsupportedBoard else Some UnsupportedPlatform.
Proof. exact twin_rejected_generated. Qed.
Print Assumptions C13_near_miss_rejected.

Theorem C13_near_miss_never_registered : forall (c : Z) (b b' p' : text),
  known_code c = true -> registered p' b' -> normaliser c b = normaliser c b' -> b <> b' ->
  forall p, ~ registered p b.
Proof. exact twin_never_registered. Qed.
Print Assumptions C13_near_miss_never_registered.

(* near-misses in platform position: a name that is not a listed platform is refused first *)
Theorem C13_unknown_platform_rejected_first : forall pl b : text,
  ~ In pl (map fst platforms) -> validate pl b = Some UnsupportedPlatform.
Proof. exact unknown_platform_first. Qed.
Print Assumptions C13_unknown_platform_rejected_first.

(* for ANY tables that pass the translator's obligations and ANY normaliser separating the listed
   ids: lookup by key accepts exactly the strings sharing a key with an id of that platform ... *)
Theorem C13_keyed_validation_accepts : forall plats b2p (k : text -> text),
  tables_ok plats b2p = true -> separates_registry k b2p = true ->
  forall pl b, validate_keyed_in k plats b2p pl b = None <->
               exists b', registered_in plats pl b' /\ k b' = k b.
Proof. exact keyed_accepts. Qed.
Print Assumptions C13_keyed_validation_accepts.

(* ... hence it is exact if and only if no registered id has a twin *)
Theorem C13_keyed_validation_exact_iff_no_twin : forall plats b2p (k : text -> text),
  tables_ok plats b2p = true -> separates_registry k b2p = true ->
  ((forall pl b, validate_keyed_in k plats b2p pl b = None <-> registered_in plats pl b) <->
   (forall b b', In b' (board_ids b2p) -> k b = k b' -> b = b')).
Proof. exact keyed_exact_iff_no_twin. Qed.
Print Assumptions C13_keyed_validation_exact_iff_no_twin.

(* every generated near-miss separates the code from the keyed variant: the harness measures with
   the extracted [near_miss] how many of its cases do *)
Theorem C13_near_miss_separates : forall (c : Z) (b : text),
  known_code c = true -> near_miss (normaliser c) b = true ->
  exists pl, validate_keyed (normaliser c) pl b = None /\ validate pl b = Some UnsupportedBoard.
Proof. exact near_miss_separates_generated. Qed.
Print Assumptions C13_near_miss_separates.

(* the four keyed variants are inexact on the generated registry (witnesses: digispark_tiny, UNO,
   " uno", NanoEvery) - why the near-miss classes have to be generated *)
Theorem C13_keyed_validation_refuted :
  (validate_keyed norm_env w_avr w_digi_us = None /\ ~ registered w_avr w_digi_us) /\
  (validate_keyed norm_lower w_avr w_uno_up = None /\ ~ registered w_avr w_uno_up) /\
  (validate_keyed norm_strip w_avr w_uno_pad = None /\ ~ registered w_avr w_uno_pad) /\
  (validate_keyed norm_squash w_megaavr w_nanoevery = None /\ ~ registered w_megaavr w_nanoevery).
Proof. exact keyed_refuted. Qed.
Print Assumptions C13_keyed_validation_refuted.

(* non-vacuity of the near-miss hypotheses *)
Example C13_near_miss_nonvacuous :
  near_miss norm_env w_digi_us = true /\ near_miss norm_lower w_uno_up = true /\
  near_miss norm_strip w_uno_pad = true /\ near_miss norm_squash w_nanoevery = true /\
  near_miss norm_env w_uno = false.
Proof. exact twins_exist. Qed.
Print Assumptions C13_near_miss_nonvacuous.

(* write_project: a near-miss writes nothing; what is written names the board exactly as given *)
Theorem C13_near_miss_writes_nothing : forall (c : Z) (pl b b' p' port : text) (libs : list text),
  known_code c = true -> registered p' b' -> normaliser c b = normaliser c b' -> b <> b' ->
  exists e, write_ini pl b port libs = inl e.
Proof. exact twin_writes_nothing. Qed.
Print Assumptions C13_near_miss_writes_nothing.

Theorem C13_written_board_verbatim_partial : forall (pl b port : text) (libs : list text) (t : text),
  write_ini pl b port libs = inr t -> value_ok port = true -> forallb lib_ok libs = true ->
  registered pl b /\
  exists sec opts, ini_read t = Some [(sec, opts)] /\
                   tlookup k_board opts = Some b /\ tlookup k_platform opts = Some pl.
Proof. exact written_board_verbatim. Qed.
Print Assumptions C13_written_board_verbatim_partial.

(* source inventory, regenerated from pio.py on every run: validate_platform_board reads
   SUPPORTED_PLATFORMS and BOARD_TO_PLATFORM only; write_project reads validate_platform_board,
   _format_lib_section, _sanitize_env_name, PIO_INI only (and does call the validator); the helpers
   read nothing but [re]; the module holds no data besides the board sets listed in SUPPORTED_PLATFORMS, that table, its inverse
   and the template *)
Theorem C13_source_inventory :
  validate_reads_ok = true /\ write_project_reads_ok = true /\ helpers_read_ok = true /\ module_data_ok = true.
Proof. exact inventory_ok. Qed.
Print Assumptions C13_source_inventory.
