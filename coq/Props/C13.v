(* C13 - Board registry validation is exact and project files round-trip.
   Nothing but statements, closed by [exact], each followed by Print Assumptions. *)
From Coq Require Import ZArith List Bool.
From RV Require Import Base.Wire Base.Text Gen.Registry Tool.Registry Proofs.RegistryP.
Import ListNotations.
Open Scope Z_scope.

(* accepted  <->  the board is registered for exactly that platform *)
Theorem C13_validate_exact : forall pl b : text,
  validate pl b = None <-> registered pl b.
Proof. exact (validate_exact _ _ generated_tables_ok). Qed.
Print Assumptions C13_validate_exact.

(* every registered board belongs to exactly one platform *)
Theorem C13_one_platform : forall p1 p2 b : text,
  registered p1 b -> registered p2 b -> p1 = p2.
Proof. exact (one_platform _ _ generated_tables_ok). Qed.
Print Assumptions C13_one_platform.

(* the inverse index the code computes at import time is faithful *)
Theorem C13_inverse_faithful : forall pl b : text,
  tlookup b board_to_platform = Some pl <-> registered pl b.
Proof. exact (inverse_faithful _ _ generated_tables_ok). Qed.
Print Assumptions C13_inverse_faithful.

(* each rejection names the right reason *)
Theorem C13_rejection_kinds : forall pl b : text,
  match validate pl b with
  | None => registered pl b
  | Some UnsupportedPlatform => ~ In pl (map fst platforms)
  | Some UnsupportedBoard => In pl (map fst platforms) /\ forall p, ~ registered p b
  | Some Mismatch => In pl (map fst platforms) /\ exists p, p <> pl /\ registered p b
  end.
Proof. exact (validate_kinds _ _ generated_tables_ok). Qed.
Print Assumptions C13_rejection_kinds.

(* non-vacuity: the registry is inhabited and both verdicts occur *)
Example C13_nonvacuous :
  validate [97;116;109;101;108;97;118;114] [117;110;111] = None /\
  validate [97;116;109;101;108;109;101;103;97;97;118;114] [117;110;111] = Some Mismatch.
Proof. vm_compute. split; reflexivity. Qed.
Print Assumptions C13_nonvacuous.
