(* C14 - Library deps, #includes and instantiated library classes always agree.
   Nothing but statements, closed by [exact], each followed by Print Assumptions.
   Model: Tool/Libs.v   proofs: Proofs/LibsP.v *)
From Coq Require Import ZArith List Bool Sorting.Sorted.
From RV Require Import Tool.Libs Proofs.LibsP.
Import ListNotations.
Open Scope Z_scope.

(* every list - requested libraries, included library headers, instantiated library classes,
   and the #include lines themselves - is duplicate-free and in the fixed order
   Servo < LiquidCrystal < (Wire <) LiquidCrystal_I2C, for every program *)
Theorem C14_no_duplicates : forall p : prog,
  (NoDup (required p) /\ StronglySorted lib_lt (required p)) /\
  (NoDup (includes p) /\ StronglySorted lib_lt (includes p)) /\
  (NoDup (instantiated p) /\ StronglySorted lib_lt (instantiated p)) /\
  (NoDup (headers p) /\ StronglySorted header_lt (headers p)).
Proof. exact no_duplicates. Qed.
Print Assumptions C14_no_duplicates.

(* the guarded agreement.  Guard = the property's quantifier, as an executable boolean:
   every ServoDecl is a top-level node of setup_body or loop_body, every LCDDecl a top-level
   node of setup_body.  (The former third clause "no LCD variable is bound to both interfaces"
   is gone: finding F-C14-lcd-rebind is repaired.) *)
Theorem C14_agree_partial : forall p : prog,
  decls_at_documented_positions p = true ->
  required p = includes p /\ includes p = instantiated p.
Proof. exact agree_partial. Qed.
Print Assumptions C14_agree_partial.

(* "servos at the top of the loop body" (leaf statements first, no servo afterwards) is a
   special case of the guard's clause for the loop body *)
Theorem C14_quantifier_within_guard : forall l : list node,
  servos_at_top l -> nested_free is_servo l = true.
Proof. exact servos_at_top_nested_free. Qed.
Print Assumptions C14_quantifier_within_guard.

(* header included  <->  object of the class defined: unconditionally *)
Theorem C14_includes_eq_instantiated : forall p : prog, includes p = instantiated p.
Proof. exact includes_eq_instantiated. Qed.
Print Assumptions C14_includes_eq_instantiated.

(* the libraries of the #include lines are [includes]; Wire.h comes with the I2C header only *)
Theorem C14_headers : forall p : prog,
  includes p = filter_map lib_of_header (headers p) /\
  (In HWire (headers p) <-> In HLiquidCrystalI2C (headers p)).
Proof. exact (fun p => conj (includes_of_headers p) (wire_iff_i2c p)). Qed.
Print Assumptions C14_headers.

(* requested  <->  a declaration needing the library occurs anywhere in the program *)
Theorem C14_required_iff_declared : forall (p : prog) (l : lib),
  In l (required p) <-> declared l p.
Proof. exact required_iff_declared. Qed.
Print Assumptions C14_required_iff_declared.

(* included => requested, unconditionally (the emitter's scans see a subset of the walk) *)
Theorem C14_included_is_required : forall p : prog, incl (includes p) (required p).
Proof. exact includes_incl_required. Qed.
Print Assumptions C14_included_is_required.

(* nothing is requested, included or instantiated needlessly *)
Theorem C14_needless_none : forall (p : prog) (l : lib),
  ~ declared l p ->
  ~ In l (required p) /\ ~ In l (includes p) /\ ~ In l (instantiated p).
Proof. exact needless_none. Qed.
Print Assumptions C14_needless_none.

Theorem C14_needless_none_all : forall p : prog,
  (forall n, occurs n p -> needs n = None) ->
  required p = [] /\ includes p = [] /\ instantiated p = [] /\ headers p = [].
Proof. exact needless_none_all. Qed.
Print Assumptions C14_needless_none_all.

(* the boolean relation the model reports is the stated one *)
Theorem C14_agree_spec : forall p : prog,
  agree p = true <-> required p = includes p /\ includes p = instantiated p.
Proof. exact agree_spec. Qed.
Print Assumptions C14_agree_spec.

(* outside the quantifier (remarks, not findings): a Servo declared inside an `if`,
   inside a function, an LCD declared in the main loop: requested but not included *)
Theorem C14_nested_decl_refuted :
  exists p, In LServo (required p) /\ ~ In LServo (includes p) /\ ~ In LServo (instantiated p) /\
            servos_documented p = false.
Proof. exact nested_decl_refuted. Qed.
Print Assumptions C14_nested_decl_refuted.

Theorem C14_fn_decl_refuted :
  exists p, In LServo (required p) /\ includes p = [] /\ instantiated p = [] /\
            servos_documented p = false.
Proof. exact fn_decl_refuted. Qed.
Print Assumptions C14_fn_decl_refuted.

Theorem C14_lcd_in_loop_refuted :
  exists p, required p = [LLiquidCrystal] /\ includes p = [] /\ instantiated p = [] /\
            lcds_documented p = false.
Proof. exact lcd_in_loop_refuted. Qed.
Print Assumptions C14_lcd_in_loop_refuted.

(* the region the repaired finding F-C14-lcd-rebind used to exclude - one LCD variable bound to
   a parallel and to an I2C display before the loop - lies inside the agreement (this theorem
   replaces C14_lcd_rebind_refuted, which held on the tree before the repair) *)
Theorem C14_lcd_rebind_agree : forall p : prog,
  servos_documented p = true -> lcds_documented p = true ->
  lcd_names_consistent (setup p) = false ->
  required p = includes p /\ includes p = instantiated p.
Proof. exact lcd_rebind_agree. Qed.
Print Assumptions C14_lcd_rebind_agree.

(* its hypotheses are satisfiable: the witness of the finding (lcd = LCD(rs=..); lcd = LCD(i2c_addr=..)),
   for which both libraries are now requested, included and instantiated - two objects *)
Example C14_lcd_rebind_nonvacuous :
  let p := mkProg [NLcdPar 0; NLcdI2c 0; NPlain] [] [] [] in
  servos_documented p = true /\ lcds_documented p = true /\
  lcd_names_consistent (setup p) = false /\
  required p = [LLiquidCrystal; LLiquidCrystalI2C] /\
  headers p = [HLiquidCrystal; HWire; HLiquidCrystalI2C] /\
  instantiated p = [LLiquidCrystal; LLiquidCrystalI2C] /\
  lcd_objs p = [mkObj false 0 0; mkObj true 0 1].
Proof. exact lcd_rebind_nonvacuous. Qed.
Print Assumptions C14_lcd_rebind_nonvacuous.

(* every LCD declaration before the main loop defines an object of the class of its interface
   (also when its name was declared before), and no two objects share an identifier *)
Theorem C14_lcd_object_per_declaration : forall p : prog,
  map obj_decl (lcd_objs p) = lcd_decls (setup p) /\
  NoDup (map obj_ident (lcd_objs p)).
Proof. exact lcd_object_per_declaration. Qed.
Print Assumptions C14_lcd_object_per_declaration.

(* the binding index of that object is the number of earlier declarations of the same name *)
Theorem C14_lcd_binding_index : forall (p : prog) (pre post : list node) (x : Z),
  setup p = pre ++ NLcdPar x :: post \/ setup p = pre ++ NLcdI2c x :: post ->
  exists i2c, In (mkObj i2c x (count x (lcd_names pre))) (lcd_objs p) /\
              (i2c = true <-> setup p = pre ++ NLcdI2c x :: post).
Proof. exact lcd_binding_index. Qed.
Print Assumptions C14_lcd_binding_index.

(* header included  <->  a declaration needing it is a top-level statement of the scanned
   bodies: unconditionally (every declaration counts, not only the first of a name) *)
Theorem C14_includes_iff_top : forall (p : prog) (l : lib),
  In l (includes p) <->
  match l with
  | LServo => existsb is_servo (setup p) = true \/ existsb is_servo (loop p) = true
  | LLiquidCrystal => existsb is_par (setup p) = true
  | LLiquidCrystalI2C => existsb is_i2c (setup p) = true
  end.
Proof. exact includes_iff_top. Qed.
Print Assumptions C14_includes_iff_top.

(* non-vacuity: the guard is satisfied by a program with three servos (two before the loop,
   one in the loop body after other statements), two parallel and one I2C LCD, a re-declared
   LCD name with the same interface (a second object, binding index 1), other devices, nested
   control flow and a function; all three libraries are then requested, included and instantiated *)
Example C14_guard_nonvacuous :
  let p := mkProg
    [NOtherDecl; NServo 0; NLcdPar 1; NServo 2; NLcdI2c 3; NLcdPar 4; NLcdPar 1;
     NIf [[NPlain; NWhile [NPlain]]; [NFor [NPlain]]; []]; NTry [[NPlain]; [NPlain]]]
    [NPlain; NOtherDecl; NServo 5; NServo 0; NIf [[NPlain]; []]]
    [[NPlain; NIf [[NPlain]]]; []]
    [NPlain] in
  decls_at_documented_positions p = true /\
  required p = [LServo; LLiquidCrystal; LLiquidCrystalI2C] /\
  headers p = [HServo; HLiquidCrystal; HWire; HLiquidCrystalI2C] /\
  servo_objs p = [0; 2; 5] /\
  lcd_objs p = [mkObj false 1 0; mkObj true 3 0; mkObj false 4 0; mkObj false 1 1].
Proof. exact guard_nonvacuous. Qed.
Print Assumptions C14_guard_nonvacuous.

(* non-vacuity of the other hypotheses: a device-free program exists and occurs/declared are
   inhabited at depth *)
Example C14_needless_nonvacuous :
  let p := mkProg [NOtherDecl; NIf [[NPlain]; []]] [NPlain] [[NPlain]] [] in
  (forall n, occurs n p -> needs n = None) /\
  declared LServo (mkProg [NIf [[NWhile [NServo 7]]]] [] [] []) /\
  servos_at_top [NOtherDecl; NServo 1; NServo 2; NPlain; NIf [[NPlain]]].
Proof. exact needless_nonvacuous. Qed.
Print Assumptions C14_needless_nonvacuous.

(* ==================================================================================================
   Growth round: the TEXT of the object definitions (constructor arguments, initialisation calls) and
   the display object every LCD command addresses.  Model: Tool/LibObjs.v   proofs: Proofs/LibObjsP.v *)
From Coq Require Import QArith.
From RV Require Import Base.Wire Tool.LibObjs Proofs.LibObjsP.
Open Scope Z_scope.

(* distinct (binding index, variable name) pairs are distinct C++ identifiers, for arbitrary names *)
Theorem C14_lcd_identifier_injective : forall (k : Z) (n : text) (k' : Z) (n' : text),
  0 <= k -> 0 <= k' -> lcd_ident k n = lcd_ident k' n' -> k = k' /\ n = n'.
Proof. exact lcd_ident_inj. Qed.
Print Assumptions C14_lcd_identifier_injective.

(* (a) every display declaration before the main loop defines an object whose binding index is the
   number of earlier declarations of its name, every object comes from such a declaration, and no two
   objects share an identifier: each instantiated display is defined exactly once *)
Theorem C14_object_of_its_declaration : forall (p : dprog) (pre : list item) (d : lcdd) (post : list item),
  d_setup p = pre ++ ILcd d :: post ->
  In (d, count_t (l_name d) (top_lcd_names pre)) (lcd_defs p).
Proof. exact lcd_defs_at. Qed.
Print Assumptions C14_object_of_its_declaration.

Theorem C14_every_object_has_a_declaration : forall (p : dprog) (dk : lcdd * Z),
  In dk (lcd_defs p) ->
  exists pre post, d_setup p = pre ++ ILcd (fst dk) :: post /\
                   snd dk = count_t (l_name (fst dk)) (top_lcd_names pre).
Proof. exact every_object_has_a_declaration. Qed.
Print Assumptions C14_every_object_has_a_declaration.

Theorem C14_objects_defined_once : forall p : dprog,
  NoDup (map def_ident (lcd_defs p)) /\ NoDup (lib_globals p).
Proof. exact (fun p => conj (lcd_defs_idents_nodup [] (d_setup p)) (lib_globals_NoDup p)). Qed.
Print Assumptions C14_objects_defined_once.

(* the library-object lines of the global section are exactly: "Servo __servo_<n>;" for the scanned
   servo declarations and, for every display object, the lines built from the constructor arguments
   of ITS declaration (no line mixes the fields of two declarations) *)
Theorem C14_global_lines_exact : forall (p : dprog) (ln : text),
  In ln (lib_globals p) <->
  (exists d, In d (servo_decls p) /\ ln = servo_obj_line (s_name d)) \/
  (exists dk, In dk (lcd_defs p) /\ In ln (lcd_global_lines (fst dk) (snd dk))).
Proof. exact lib_globals_In. Qed.
Print Assumptions C14_global_lines_exact.

(* the definition line: class of the interface, identifier of the binding, the constructor arguments
   of the declaration in the order of the library's constructor *)
Theorem C14_object_line_shape : forall (d : lcdd) (k : Z),
  lcd_obj_line d k =
  class_text (class_of d) ++ [32] ++ lcd_ident k (l_name d) ++ [40] ++ commas (lcd_ctor_args d) ++ [41; 59].
Proof. exact lcd_obj_line_shape. Qed.
Print Assumptions C14_object_line_shape.

(* setup() initialises every display with a block of lines naming ITS object, ITS cols/rows
   variables and ITS backlight pin (begin / init+backlight, pinMode+analogWrite, clear) *)
Theorem C14_lcd_initialised_as_declared : forall (p : dprog) (pre : list item) (d : lcdd) (post : list item),
  d_setup p = pre ++ ILcd d :: post ->
  exists a b, lib_init p = a ++ lcd_init_lines d (count_t (l_name d) (top_lcd_names pre)) ++ b.
Proof. exact lcd_init_block. Qed.
Print Assumptions C14_lcd_initialised_as_declared.

(* the first declaration of a servo name is attached with ITS pin and pulse bounds (before the main
   loop, or at the top of its body) *)
Theorem C14_servo_attached_as_declared : forall (p : dprog) (pre post : list item) (d : servod),
  (d_setup p = pre ++ IServo d :: post /\ ~ In (s_name d) (map s_name (top_servos pre))) \/
  (d_loop p = pre ++ IServo d :: post /\ ~ In (s_name d) (map s_name (top_servos (d_setup p))) /\
   ~ In (s_name d) (map s_name (top_servos pre))) ->
  exists a b, lib_init p = a ++ servo_init_lines d ++ b.
Proof. exact servo_attached_as_declared. Qed.
Print Assumptions C14_servo_attached_as_declared.

(* remark, not a finding (the statement of C14 is about libraries): a servo variable bound twice shares
   one object and is attached once, with the pin of its FIRST declaration - the hypothesis "first
   declaration of the name" above cannot be dropped (reproduced by the correspondence on the scripts
   of kind in:servo-rebind) *)
Theorem C14_servo_rebind_first_wins_remark :
  exists p d1 d2,
    d_setup p = [IServo d1; IServo d2] /\ s_name d1 = s_name d2 /\ s_pin d1 <> s_pin d2 /\
    lib_init p = servo_init_lines d1 /\ lib_globals p = [servo_obj_line (s_name d1)].
Proof. exact servo_rebind_first_wins. Qed.
Print Assumptions C14_servo_rebind_first_wins_remark.

(* composition with the include lines and the library lists above: the header(s) providing the class
   of every defined object are included, its library is included and requested, and no library header
   is included without an object of its class *)
Theorem C14_class_header_included : forall (p : dprog) (dk : lcdd * Z),
  In dk (lcd_defs p) ->
  incl (headers_of (class_of (fst dk))) (headers (erase_prog p)) /\
  In (class_of (fst dk)) (includes (erase_prog p)) /\ In (class_of (fst dk)) (required (erase_prog p)).
Proof. exact (fun p dk H => conj (class_header_included p dk H) (defined_class_requested p dk H)). Qed.
Print Assumptions C14_class_header_included.

Theorem C14_servo_header_included : forall (p : dprog) (d : servod),
  In d (servo_decls p) ->
  In HServo (headers (erase_prog p)) /\
  In LServo (includes (erase_prog p)) /\ In LServo (required (erase_prog p)).
Proof. exact (fun p d H => conj (servo_header_included p d H) (servo_class_requested p d H)). Qed.
Print Assumptions C14_servo_header_included.

Theorem C14_header_has_object : forall (p : dprog) (h : header),
  In h (headers (erase_prog p)) ->
  match h with
  | HServo => exists d, In d (servo_decls p)
  | HLiquidCrystal => exists dk, In dk (lcd_defs p) /\ l_i2c (fst dk) = false
  | HWire | HLiquidCrystalI2C => exists dk, In dk (lcd_defs p) /\ l_i2c (fst dk) = true
  end.
Proof. exact header_has_object. Qed.
Print Assumptions C14_header_has_object.

(* the sections in textual order: the #include line(s) of the class, then the definition of the object
   with the arguments of its declaration, then "void setup() {", then its initialisation block *)
Theorem C14_object_defined_before_setup : forall (p : dprog) (pre : list item) (d : lcdd) (post : list item),
  d_setup p = pre ++ ILcd d :: post ->
  let k := count_t (l_name d) (top_lcd_names pre) in
  exists a b c e,
    lib_sketch p = a ++ [lcd_obj_line d k] ++ b ++ [setup_start] ++ c ++ lcd_init_lines d k ++ e /\
    (forall h, In h (headers_of (class_of d)) -> In (include_line h) a).
Proof. exact object_defined_before_setup. Qed.
Print Assumptions C14_object_defined_before_setup.

Theorem C14_servo_defined_before_setup : forall (p : dprog) (d : servod),
  In d (servo_decls p) ->
  exists a b c,
    lib_sketch p = a ++ [servo_obj_line (s_name d)] ++ b ++ [setup_start] ++ c /\
    In (include_line HServo) a.
Proof. exact servo_defined_before_setup. Qed.
Print Assumptions C14_servo_defined_before_setup.

(* (b) inside the quantifier - displays declared at the top level before the main loop; no command
   before the first declaration of its variable (the parser drops such a line) - every emitted LCD
   command, at any nesting depth of setup(), in loop() and in every function body, addresses the
   display object of the latest declaration of its variable that precedes it *)
Theorem C14_resolution_is_latest_binding : forall p : dprog,
  lcds_at_top p = true -> cmds_follow_decl [] (d_setup p) = true ->
  let names := rev (top_lcd_names (d_setup p)) in
  resolve p = (spec_items [] (d_setup p),
               flat_map (spec_item names) (d_loop p),
               map (fun f => flat_map (spec_item names) f) (d_functions p)).
Proof. exact resolve_spec. Qed.
Print Assumptions C14_resolution_is_latest_binding.

(* the reference semantics in the words of the task: a command after the c-th binding of n (c > 0)
   addresses the object of that binding (index c - 1), for every sequence around it *)
Theorem C14_command_after_kth_binding : forall (seen : list text) (pre : list item) (n : text) (post : list item),
  let c := count_t n (top_lcd_names pre) + count_t n seen in
  0 < c ->
  spec_items seen (pre ++ ICmd n :: post) =
  spec_items seen pre ++ recv (c - 1) n :: spec_items (rev (top_lcd_names pre) ++ seen) post.
Proof. exact spec_command_after_kth_binding. Qed.
Print Assumptions C14_command_after_kth_binding.

(* and that object is the one the declaration defined, with its constructor arguments *)
Theorem C14_command_addresses_its_declaration : forall (p : dprog) (pre : list item) (d : lcdd) (mid post : list item),
  d_setup p = pre ++ ILcd d :: mid ++ ICmd (l_name d) :: post ->
  count_t (l_name d) (top_lcd_names mid) = 0 ->
  let k := count_t (l_name d) (top_lcd_names pre) in
  In (d, k) (lcd_defs p) /\
  In (lcd_obj_line d k) (lib_globals p) /\
  spec_items [] (d_setup p) =
    spec_items [] (pre ++ ILcd d :: mid) ++
    (lcd_ident k (l_name d), lcd_cols_var k (l_name d)) ::
    spec_items (rev (top_lcd_names (pre ++ ILcd d :: mid))) post.
Proof. exact command_addresses_its_declaration. Qed.
Print Assumptions C14_command_addresses_its_declaration.

(* non-vacuity: a program inside both guards with a re-bound display (parallel with backlight, then
   I2C), commands at the top level, in an if body, in the loop and in a function, and a servo with a
   float pulse bound; two objects, three receivers in setup() *)
Example C14_objects_nonvacuous :
  lcds_at_top ex_prog = true /\ cmds_follow_decl [] (d_setup ex_prog) = true /\
  map snd (lcd_defs ex_prog) = [0; 1] /\
  resolve ex_prog =
    ([recv 0 [108]; recv 0 [108]; recv 1 [108]], [recv 1 [108]], [[recv 1 [108]]]) /\
  headers (erase_prog ex_prog) = [HServo; HLiquidCrystal; HWire; HLiquidCrystalI2C] /\
  length (lib_globals ex_prog) = 9%nat /\ length (lib_init ex_prog) = 9%nat /\
  nearest (1201 # 2)%Q = 601.
Proof. exact ex_prog_facts. Qed.
Print Assumptions C14_objects_nonvacuous.

(* (c) the class -> header and declaration -> library tables are not stated by hand: Gen/LibTable.v is
   regenerated on every run from the stitch chain and the declaration helpers of emit() and from
   _collect_required_libraries, and must equal the model's tables *)
From RV Require Import Gen.LibTable Proofs.LibTableP.

Theorem C14_tables_are_the_models :
  gen_class_headers = model_class_headers /\
  gen_interface_class = model_interface_class /\
  gen_required = model_required /\
  gen_collected_attr = interface_attr_text.
Proof. exact tables_are_the_models. Qed.
Print Assumptions C14_tables_are_the_models.

Theorem C14_library_name_is_class_name : forall l : lib,
  In (class_text l) (map snd gen_required) /\
  In (class_text l, map header_text (headers_of l)) gen_class_headers /\
  last (map header_text (headers_of l)) [] = class_text l ++ dot_h.
Proof. exact library_name_is_class_name. Qed.
Print Assumptions C14_library_name_is_class_name.

Theorem C14_emitted_class_in_table : forall d : lcdd,
  In ((if l_i2c d then iface_i2c_text else []), lcd_class d) gen_interface_class /\
  In (lcd_class d, map header_text (headers_of (class_of d))) gen_class_headers /\
  In (lcd_class d) (map snd gen_required).
Proof. exact emitted_class_in_table. Qed.
Print Assumptions C14_emitted_class_in_table.

Theorem C14_table_classes_nodup : NoDup (map fst gen_class_headers) /\ NoDup (map snd gen_required).
Proof. exact table_classes_nodup. Qed.
Print Assumptions C14_table_classes_nodup.
