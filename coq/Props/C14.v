(* C14 - Library deps, #includes and instantiated library classes always agree.
   Nothing but statements, closed by [exact], each followed by Print Assumptions.
   Model: Tool/Libs.v   proofs: Proofs/LibsP.v *)
From Coq Require Import ZArith List Bool Sorting.Sorted.
From RV Require Import Tool.Libs Proofs.LibsP.
Import ListNotations.
Open Scope Z_scope.

(* every list - requested libraries, included library headers, instantiated library classes,
   and the #include lines themselves - is duplicate-free and in the fixed order
   Servo < LiquidCrystal < (Wire <) LiquidCrystal_I2C, for every program *)
Theorem C14_no_duplicates : forall p : prog,
  (NoDup (required p) /\ StronglySorted lib_lt (required p)) /\
  (NoDup (includes p) /\ StronglySorted lib_lt (includes p)) /\
  (NoDup (instantiated p) /\ StronglySorted lib_lt (instantiated p)) /\
  (NoDup (headers p) /\ StronglySorted header_lt (headers p)).
Proof. exact no_duplicates. Qed.
Print Assumptions C14_no_duplicates.

(* the guarded agreement.  Guard = the property's quantifier, as an executable boolean:
   every ServoDecl is a top-level node of setup_body or loop_body, every LCDDecl a top-level
   node of setup_body.  (The former third clause "no LCD variable is bound to both interfaces"
   is gone: finding F-C14-lcd-rebind is repaired.) *)
Theorem C14_agree_partial : forall p : prog,
  decls_at_documented_positions p = true ->
  required p = includes p /\ includes p = instantiated p.
Proof. exact agree_partial. Qed.
Print Assumptions C14_agree_partial.

(* "servos at the top of the loop body" (leaf statements first, no servo afterwards) is a
   special case of the guard's clause for the loop body *)
Theorem C14_quantifier_within_guard : forall l : list node,
  servos_at_top l -> nested_free is_servo l = true.
Proof. exact servos_at_top_nested_free. Qed.
Print Assumptions C14_quantifier_within_guard.

(* header included  <->  object of the class defined: unconditionally *)
Theorem C14_includes_eq_instantiated : forall p : prog, includes p = instantiated p.
Proof. exact includes_eq_instantiated. Qed.
Print Assumptions C14_includes_eq_instantiated.

(* the libraries of the #include lines are [includes]; Wire.h comes with the I2C header only *)
Theorem C14_headers : forall p : prog,
  includes p = filter_map lib_of_header (headers p) /\
  (In HWire (headers p) <-> In HLiquidCrystalI2C (headers p)).
Proof. exact (fun p => conj (includes_of_headers p) (wire_iff_i2c p)). Qed.
Print Assumptions C14_headers.

(* requested  <->  a declaration needing the library occurs anywhere in the program *)
Theorem C14_required_iff_declared : forall (p : prog) (l : lib),
  In l (required p) <-> declared l p.
Proof. exact required_iff_declared. Qed.
Print Assumptions C14_required_iff_declared.

(* included => requested, unconditionally (the emitter's scans see a subset of the walk) *)
Theorem C14_included_is_required : forall p : prog, incl (includes p) (required p).
Proof. exact includes_incl_required. Qed.
Print Assumptions C14_included_is_required.

(* nothing is requested, included or instantiated needlessly *)
Theorem C14_needless_none : forall (p : prog) (l : lib),
  ~ declared l p ->
  ~ In l (required p) /\ ~ In l (includes p) /\ ~ In l (instantiated p).
Proof. exact needless_none. Qed.
Print Assumptions C14_needless_none.

Theorem C14_needless_none_all : forall p : prog,
  (forall n, occurs n p -> needs n = None) ->
  required p = [] /\ includes p = [] /\ instantiated p = [] /\ headers p = [].
Proof. exact needless_none_all. Qed.
Print Assumptions C14_needless_none_all.

(* the boolean relation the model reports is the stated one *)
Theorem C14_agree_spec : forall p : prog,
  agree p = true <-> required p = includes p /\ includes p = instantiated p.
Proof. exact agree_spec. Qed.
Print Assumptions C14_agree_spec.

(* outside the quantifier (remarks, not findings): a Servo declared inside an `if`,
   inside a function, an LCD declared in the main loop: requested but not included *)
Theorem C14_nested_decl_refuted :
  exists p, In LServo (required p) /\ ~ In LServo (includes p) /\ ~ In LServo (instantiated p) /\
            servos_documented p = false.
Proof. exact nested_decl_refuted. Qed.
Print Assumptions C14_nested_decl_refuted.

Theorem C14_fn_decl_refuted :
  exists p, In LServo (required p) /\ includes p = [] /\ instantiated p = [] /\
            servos_documented p = false.
Proof. exact fn_decl_refuted. Qed.
Print Assumptions C14_fn_decl_refuted.

Theorem C14_lcd_in_loop_refuted :
  exists p, required p = [LLiquidCrystal] /\ includes p = [] /\ instantiated p = [] /\
            lcds_documented p = false.
Proof. exact lcd_in_loop_refuted. Qed.
Print Assumptions C14_lcd_in_loop_refuted.

(* the region the repaired finding F-C14-lcd-rebind used to exclude - one LCD variable bound to
   a parallel and to an I2C display before the loop - lies inside the agreement (this theorem
   replaces C14_lcd_rebind_refuted, which held on the tree before the repair) *)
Theorem C14_lcd_rebind_agree : forall p : prog,
  servos_documented p = true -> lcds_documented p = true ->
  lcd_names_consistent (setup p) = false ->
  required p = includes p /\ includes p = instantiated p.
Proof. exact lcd_rebind_agree. Qed.
Print Assumptions C14_lcd_rebind_agree.

(* its hypotheses are satisfiable: the witness of the finding (lcd = LCD(rs=..); lcd = LCD(i2c_addr=..)),
   for which both libraries are now requested, included and instantiated - two objects *)
Example C14_lcd_rebind_nonvacuous :
  let p := mkProg [NLcdPar 0; NLcdI2c 0; NPlain] [] [] [] in
  servos_documented p = true /\ lcds_documented p = true /\
  lcd_names_consistent (setup p) = false /\
  required p = [LLiquidCrystal; LLiquidCrystalI2C] /\
  headers p = [HLiquidCrystal; HWire; HLiquidCrystalI2C] /\
  instantiated p = [LLiquidCrystal; LLiquidCrystalI2C] /\
  lcd_objs p = [mkObj false 0 0; mkObj true 0 1].
Proof. exact lcd_rebind_nonvacuous. Qed.
Print Assumptions C14_lcd_rebind_nonvacuous.

(* every LCD declaration before the main loop defines an object of the class of its interface
   (also when its name was declared before), and no two objects share an identifier *)
Theorem C14_lcd_object_per_declaration : forall p : prog,
  map obj_decl (lcd_objs p) = lcd_decls (setup p) /\
  NoDup (map obj_ident (lcd_objs p)).
Proof. exact lcd_object_per_declaration. Qed.
Print Assumptions C14_lcd_object_per_declaration.

(* the binding index of that object is the number of earlier declarations of the same name *)
Theorem C14_lcd_binding_index : forall (p : prog) (pre post : list node) (x : Z),
  setup p = pre ++ NLcdPar x :: post \/ setup p = pre ++ NLcdI2c x :: post ->
  exists i2c, In (mkObj i2c x (count x (lcd_names pre))) (lcd_objs p) /\
              (i2c = true <-> setup p = pre ++ NLcdI2c x :: post).
Proof. exact lcd_binding_index. Qed.
Print Assumptions C14_lcd_binding_index.

(* header included  <->  a declaration needing it is a top-level statement of the scanned
   bodies: unconditionally (every declaration counts, not only the first of a name) *)
Theorem C14_includes_iff_top : forall (p : prog) (l : lib),
  In l (includes p) <->
  match l with
  | LServo => existsb is_servo (setup p) = true \/ existsb is_servo (loop p) = true
  | LLiquidCrystal => existsb is_par (setup p) = true
  | LLiquidCrystalI2C => existsb is_i2c (setup p) = true
  end.
Proof. exact includes_iff_top. Qed.
Print Assumptions C14_includes_iff_top.

(* non-vacuity: the guard is satisfied by a program with three servos (two before the loop,
   one in the loop body after other statements), two parallel and one I2C LCD, a re-declared
   LCD name with the same interface (a second object, binding index 1), other devices, nested
   control flow and a function; all three libraries are then requested, included and instantiated *)
Example C14_guard_nonvacuous :
  let p := mkProg
    [NOtherDecl; NServo 0; NLcdPar 1; NServo 2; NLcdI2c 3; NLcdPar 4; NLcdPar 1;
     NIf [[NPlain; NWhile [NPlain]]; [NFor [NPlain]]; []]; NTry [[NPlain]; [NPlain]]]
    [NPlain; NOtherDecl; NServo 5; NServo 0; NIf [[NPlain]; []]]
    [[NPlain; NIf [[NPlain]]]; []]
    [NPlain] in
  decls_at_documented_positions p = true /\
  required p = [LServo; LLiquidCrystal; LLiquidCrystalI2C] /\
  headers p = [HServo; HLiquidCrystal; HWire; HLiquidCrystalI2C] /\
  servo_objs p = [0; 2; 5] /\
  lcd_objs p = [mkObj false 1 0; mkObj true 3 0; mkObj false 4 0; mkObj false 1 1].
Proof. exact guard_nonvacuous. Qed.
Print Assumptions C14_guard_nonvacuous.

(* non-vacuity of the other hypotheses: a device-free program exists and occurs/declared are
   inhabited at depth *)
Example C14_needless_nonvacuous :
  let p := mkProg [NOtherDecl; NIf [[NPlain]; []]] [NPlain] [[NPlain]] [] in
  (forall n, occurs n p -> needs n = None) /\
  declared LServo (mkProg [NIf [[NWhile [NServo 7]]]] [] [] []) /\
  servos_at_top [NOtherDecl; NServo 1; NServo 2; NPlain; NIf [[NPlain]]].
Proof. exact needless_nonvacuous. Qed.
Print Assumptions C14_needless_nonvacuous.
