(* C15 - Inputs: button edges, potentiometer reads and ultrasonic ranging behave as documented.
   Nothing but statements, closed by [exact], each followed by Print Assumptions.

   Models: Device/DButton.v (globals, setup sample, per-pass poll, cached is_pressed, host Button),
           Device/DPot.v, Device/DUltra.v (the emitted helper, line by line; clock, delay drift and
           echoes are explicit oracles).
   The models follow the firmware as repaired by the fix: commit recorded in known_findings.d/C15.json
   (the three former findings of C15 are now theorems: C15_sample_stable_handler, C15_no_startup_click
   for every declaration place, C15_backoff without exemption).
   The millisecond clock of the ultrasonic model is an unsigned long of W bits that rolls over
   (millis() = true milliseconds mod 2^W, unsigned arithmetic mod 2^W); W is universally quantified
   (32 on an AVR, 64 on the hosted mock core) and so is the start clock - the theorems hold across the
   roll-over.  Contact bounce is outside the model (the "sampled signal" is what digitalRead returned). *)
From Coq Require Import ZArith QArith List Bool Arith.
From RV Require Import Base.Wire Base.NumC Device.DButton Device.DPot Device.DUltra Host.ButtonHist Device.DRebind Proofs.InputsP Proofs.ButtonHistP Wire.C15W Proofs.SketchP Proofs.RebindP.
Import ListNotations.

(* ---------------------------------------------------------------- Button *)

(* exactly one digitalRead per loop() pass, and it is that pass's sample - for every declaration
   place, handler, start-up level and call pattern *)
Theorem C15_one_sample_per_pass :
  forall (pl : place) (h : option nat) (s0 : bool) (ps : list (bool * nat)),
  map reads (dev_run pl h s0 ps) = map (fun p => [fst p]) ps.
Proof. exact one_sample_per_pass. Qed.
Print Assumptions C15_one_sample_per_pass.

(* setup() takes one sample of every button - declared before the main loop or at the top of the
   main-loop body - and it becomes both the previous and the cached value *)
Theorem C15_setup_sample :
  forall (pl : place) (s0 : bool),
  b_setup pl s0 = ({| b_prev := s0; b_value := s0 |}, [BRead s0]).
Proof. exact (fun pl s0 => match pl with BeforeLoop => eq_refl | LoopTop => eq_refl end). Qed.
Print Assumptions C15_setup_sample.

(* in every pass the handler runs once if that pass is a rising edge of the sampled sequence (setup
   sample = initial previous value), else not at all - for either declaration place *)
Theorem C15_clicks_eq_rising_edges :
  forall (pl : place) (n : nat) (s0 : bool) (ps : list (bool * nat)),
  map clicks (dev_run pl (Some n) s0 ps) = map b2n (edges s0 (map fst ps)).
Proof. exact clicks_dev. Qed.
Print Assumptions C15_clicks_eq_rising_edges.

(* every is_pressed() of the loop body in pass k returns sample k, however often it is called *)
Theorem C15_sample_stable :
  forall (pl : place) (h : option nat) (s0 : bool) (ps : list (bool * nat)),
  map body_values (dev_run pl h s0 ps) = map (fun p => repeat (fst p) (snd p)) ps.
Proof. exact sample_stable. Qed.
Print Assumptions C15_sample_stable.

(* ... and so does every is_pressed() evaluated inside the on_click handler: the poll stores the new
   sample before it calls the handler (was finding F-C15-handler-stale-sample, repaired) *)
Theorem C15_sample_stable_handler :
  forall (pl : place) (h : option nat) (s0 : bool) (ps : list (bool * nat)) (k : nat) (evs : list bev) (v sample : bool),
    nth_error (dev_run pl h s0 ps) k = Some evs ->
    nth_error (map fst ps) k = Some sample ->
    In v (handler_values evs) -> v = sample.
Proof. exact sample_stable_handler. Qed.
Print Assumptions C15_sample_stable_handler.

(* exactly: the handler's evaluations happen in the rising-edge passes only, as many as the handler
   makes, and each returns 1 (the sample of a rising-edge pass) *)
Theorem C15_handler_sees_current_sample :
  forall (pl : place) (h : option nat) (s0 : bool) (ps : list (bool * nat)),
  map handler_values (dev_run pl h s0 ps) =
  map (fun e : bool => if e then repeat true (hcalls h) else []) (edges s0 (map fst ps)).
Proof. exact handler_values_exact. Qed.
Print Assumptions C15_handler_sees_current_sample.

(* host Button polled once per pass gives the same clicks whenever the signal starts released *)
Theorem C15_host_agrees :
  forall (pl : place) (n : nat) (s0 : bool) (ps : list (bool * nat)),
  s0 = false ->
  map clicks (dev_run pl (Some n) s0 ps) =
  map (fun r => b2n (fst r)) (host_run true (map fst ps)).
Proof. exact host_agrees. Qed.
Print Assumptions C15_host_agrees.

(* the host returns the provided level on every call *)
Theorem C15_host_values :
  forall (cb : bool) (s : list bool), map snd (host_run cb s) = s.
Proof. exact (fun cb s => host_values cb false s). Qed.
Print Assumptions C15_host_values.

(* ---- the host Button over whole call histories (Host/ButtonHist.v): any interleaving of set_pressed(v) and
   is_pressed(), with or without a state_provider.  The host takes one sample per is_pressed() call, exactly as the
   firmware takes one per loop() pass; [sampled] is the level in force at each of those calls (the level last set -
   any number of set_pressed calls, also none, may lie in between - or what the provider returns then). *)

(* the host enters on_click exactly at the rising edges of the SAMPLED signal (released before the first sample),
   every is_pressed() returns its sample, no call raises - whatever levels came and went between the samples *)
Theorem C15_host_clicks_eq_rising_edges_of_samples :
  forall (d : nat) (provider : bool) (prov : nat -> bool) (ops : list hop),
  let h := h_hist (S d) {| hc_click := Some 0%nat; hc_provider := provider |} prov hs_init ops in
  snd h = true /\
  map hclicks (poll_events ops (fst h)) = map b2n (edges false (sampled provider prov false 0 ops)) /\
  map ret_of (poll_events ops (fst h)) = map Some (sampled provider prov false 0 ops).
Proof. exact host_hist_clicks. Qed.
Print Assumptions C15_host_clicks_eq_rising_edges_of_samples.

(* without on_click the same levels are reported and nothing is entered *)
Theorem C15_host_no_callback :
  forall (d : nat) (provider : bool) (prov : nat -> bool) (ops : list hop),
  let h := h_hist (S d) {| hc_click := None; hc_provider := provider |} prov hs_init ops in
  snd h = true /\
  map hclicks (poll_events ops (fst h)) = map (fun _ => 0%nat) (sampled provider prov false 0 ops) /\
  map ret_of (poll_events ops (fst h)) = map Some (sampled provider prov false 0 ops).
Proof. exact host_hist_no_callback. Qed.
Print Assumptions C15_host_no_callback.

(* "the same click count the host-side Button produces for the same signal": for every way of driving the host whose
   sampled signal is the firmware's (which starts released at the setup sample), sample by sample the same clicks.
   Guard (hence _partial): the host handler does not itself call is_pressed() - see the refutation below; the
   firmware's handler may (any n). *)
Theorem C15_host_agrees_any_drive_partial :
  forall (pl : place) (n d : nat) (provider : bool) (prov : nat -> bool) (ops : list hop) (ps : list (bool * nat)),
  sampled provider prov false 0 ops = map fst ps ->
  map clicks (dev_run pl (Some n) false ps) =
  map hclicks (poll_events ops (fst (h_hist (S d) {| hc_click := Some 0%nat; hc_provider := provider |} prov hs_init ops))).
Proof. exact host_agrees_any_drive. Qed.
Print Assumptions C15_host_agrees_any_drive_partial.

(* levels that were never sampled do not matter: two histories (different set_pressed calls, different providers) with
   the same sampled signal are indistinguishable at their is_pressed() calls *)
Theorem C15_host_unsampled_levels_invisible :
  forall (d : nat) (cfg : hcfg) (prov1 prov2 : nat -> bool) (ops1 ops2 : list hop),
  plain cfg ->
  sampled (hc_provider cfg) prov1 false 0 ops1 = sampled (hc_provider cfg) prov2 false 0 ops2 ->
  poll_events ops1 (fst (h_hist (S d) cfg prov1 hs_init ops1)) =
  poll_events ops2 (fst (h_hist (S d) cfg prov2 hs_init ops2)).
Proof. exact unsampled_levels_invisible. Qed.
Print Assumptions C15_host_unsampled_levels_invisible.

(* set_pressed stores the truth value of its argument and nothing else: the edge detector's memory of the previous
   SAMPLE is not touched *)
Theorem C15_host_set_pressed_keeps_edge_state :
  forall (s : hstate) (v : pynum),
  hs_was (h_set s v) = hs_was s /\ hs_np (h_set s v) = hs_np s /\ hs_pressed (h_set s v) = truthy v.
Proof. exact set_keeps_edge_state. Qed.
Print Assumptions C15_host_set_pressed_keeps_edge_state.

(* never while held, on the host: after a sample that was "pressed", whatever is set before the next sample - released
   and pressed again any number of times - the next is_pressed() does not enter the handler *)
Theorem C15_host_no_click_after_pressed_sample :
  forall (d : nat) (cfg : hcfg) (prov : nat -> bool) (s : hstate) (vs : list pynum),
  plain cfg -> hs_was s = true ->
  Forall (fun evs => hclicks evs = 0%nat) (fst (h_hist (S d) cfg prov s (map HSet vs ++ [HPoll]))) /\
  snd (h_hist (S d) cfg prov s (map HSet vs ++ [HPoll])) = true.
Proof. exact no_click_after_pressed_sample. Qed.
Print Assumptions C15_host_no_click_after_pressed_sample.

(* REFUTED for a handler that itself calls is_pressed() (finding F-C15-host-handler-reentrancy): Button.is_pressed()
   calls on_click BEFORE it stores _was_pressed, so the handler's own is_pressed() sees "pressed and not was" again and
   enters the handler again: for EVERY recursion depth the interpreter allows the call runs out of it (RecursionError)
   after entering the handler that many times - where the firmware, for the same signal (released, then pressed),
   runs the handler once. *)
Theorem C15_host_handler_reentrancy_refuted :
  exists (n : nat) (ops : list hop) (ps : list (bool * nat)),
    (forall prov, sampled false prov false 0 ops = map fst ps) /\
    map clicks (dev_run BeforeLoop (Some n) false ps) = [1%nat] /\
    forall depth prov,
      h_hist depth {| hc_click := Some n; hc_provider := false |} prov hs_init ops = ([[]; repeat HClick depth], false).
Proof. exact reentrancy_refuted. Qed.
Print Assumptions C15_host_handler_reentrancy_refuted.

(* ... in general: from every state with the contact pressed and the previous sample released, for every handler that
   calls is_pressed() at least once, every depth *)
Theorem C15_host_reentrant_handler_never_returns :
  forall (n : nat) (prov : nat -> bool) (depth : nat) (s : hstate),
  hs_pressed s = true -> hs_was s = false ->
  h_poll depth {| hc_click := Some (S n); hc_provider := false |} prov s = (s, repeat HClick depth, false).
Proof. exact reentrant_never_returns. Qed.
Print Assumptions C15_host_reentrant_handler_never_returns.

(* non-vacuity: the trace "short release between two pressed samples" - drives [0] [1] [0 1] [1] [1 0 1] [0] [1]:
   sampled signal 0 1 1 1 1 0 1, two clicks (samples 1 and 6), the same as the firmware for that signal; a provider-
   driven button with set_pressed calls thrown in (they are ignored); truthiness of the argument of set_pressed *)
Example C15_host_drive_nonvacuous :
  let t := PB true in let f := PB false in
  let ops := drive_ops [[f]; [t]; [f; t]; [t]; [t; f; t]; [f]; [t]] in
  let cfg := {| hc_click := Some 0%nat; hc_provider := false |} in
  let ps := [(false, 0%nat); (true, 1%nat); (true, 0%nat); (true, 2%nat); (true, 0%nat); (false, 1%nat); (true, 1%nat)] in
  sampled false (fun _ => false) false 0 ops = map fst ps /\
  map hclicks (poll_events ops (fst (h_hist 5 cfg (fun _ => false) hs_init ops))) = [0; 1; 0; 0; 0; 0; 1]%nat /\
  map clicks (dev_run LoopTop (Some 2%nat) false ps) = [0; 1; 0; 0; 0; 0; 1]%nat /\
  h_hist 1 {| hc_click := Some 0%nat; hc_provider := true |} (fun k => Nat.odd k) hs_init
         [HSet t; HPoll; HPoll; HSet f; HPoll; HPoll] =
    ([[]; [HRet false]; [HClick; HRet true]; []; [HRet false]; [HClick; HRet true]], true) /\
  map (fun v => hs_pressed (h_set hs_init v)) [PI 0; PI 2; PI (-1); PF (1 # 2); PF 0; PO; PB true] =
    [false; true; true; true; false; false; true] /\
  plain cfg /\ hs_was (fst (fst (h_poll 1 cfg (fun _ => false) (h_set hs_init t)))) = true.
Proof. vm_compute. repeat split; reflexivity. Qed.
Print Assumptions C15_host_drive_nonvacuous.

(* no click at start-up, for a button declared before the main loop and for one declared at the top of
   the main-loop body alike (the latter was finding F-C15-looptop-startup-click, repaired): setup never
   calls the handler, and a signal that is pressed at the setup sample cannot click in pass 0 ... *)
Theorem C15_no_startup_click :
  forall (pl : place) (h : option nat) (s0 : bool) (ps : list (bool * nat)),
  clicks (snd (b_setup pl s0)) = 0%nat /\
  (s0 = true -> forall evs, hd_error (dev_run pl h s0 ps) = Some evs -> clicks evs = 0%nat).
Proof. exact no_startup_click. Qed.
Print Assumptions C15_no_startup_click.

(* ... nor ever while it stays pressed *)
Theorem C15_no_click_while_held :
  forall (pl : place) (h : option nat) (s0 : bool) (ps : list (bool * nat)),
  s0 = true -> forallb (fun x => x) (map fst ps) = true ->
  map clicks (dev_run pl h s0 ps) = map (fun _ => 0%nat) ps.
Proof. exact no_click_while_held. Qed.
Print Assumptions C15_no_click_while_held.

(* non-vacuity: a signal that starts released, with two presses, a hold and a release; the device
   and the host click in passes 1 and 4 only; every body evaluation shows its pass's sample *)
Example C15_button_nonvacuous :
  let ps := [(false, 1%nat); (true, 2%nat); (true, 0%nat); (false, 3%nat); (true, 1%nat)] in
  map clicks (dev_run BeforeLoop (Some 0%nat) false ps) = [0; 1; 0; 0; 1]%nat /\
  map (fun r => b2n (fst r)) (host_run true (map fst ps)) = [0; 1; 0; 0; 1]%nat /\
  map body_values (dev_run BeforeLoop (Some 0%nat) false ps) =
    [[false]; [true; true]; []; [false; false; false]; [true]] /\
  (* a handler that evaluates is_pressed() twice: two values in each rising-edge pass, both 1 *)
  map handler_values (dev_run BeforeLoop (Some 2%nat) false ps) = [[]; [true; true]; []; []; [true; true]] /\
  dev_run LoopTop (Some 1%nat) false [(true, 1%nat)] = [[BRead true; BClick; BPrintH true; BPrint true]] /\
  (* the hypothesis of C15_host_agrees is needed: a signal that starts pressed *)
  map clicks (dev_run BeforeLoop (Some 0%nat) true [(true, 0%nat)]) = [0%nat] /\
  map (fun r => b2n (fst r)) (host_run true [true]) = [1%nat].
Proof. vm_compute. repeat split; reflexivity. Qed.
Print Assumptions C15_button_nonvacuous.

(* non-vacuity for the loop-top declaration: first pass released, then a press: one click, in pass 1;
   a signal that is pressed from power-up (the witness of the repaired finding) does not click at all,
   exactly as for a button declared before the loop; it clicks after a release *)
Example C15_looptop_nonvacuous :
  map clicks (dev_run LoopTop (Some 0%nat) true [(false, 1%nat); (true, 1%nat); (true, 2%nat)]) = [0; 1; 0]%nat /\
  map clicks (dev_run LoopTop (Some 0%nat) true [(true, 1%nat); (true, 1%nat)]) = [0; 0]%nat /\
  map clicks (dev_run BeforeLoop (Some 0%nat) true [(true, 1%nat); (true, 1%nat)]) = [0; 0]%nat /\
  map clicks (dev_run LoopTop (Some 0%nat) true [(true, 1%nat); (false, 0%nat); (true, 1%nat)]) = [0; 0; 1]%nat /\
  snd (b_setup LoopTop true) = [BRead true].
Proof. vm_compute. repeat split; reflexivity. Qed.
Print Assumptions C15_looptop_nonvacuous.

(* ---- the sample in every syntactic position.  Wire/C15W.v interprets whole sketches: the polls of all buttons at the
   head of loop(), then a loop body given as a statement tree in which is_pressed(), read() and measure_distance() occur
   as print arguments, in assignments, arithmetic, call arguments, conditional expressions, if / elif / nested-while /
   for-range conditions, under not / and / or, as sleep() arguments, directly or inside helper functions. *)

(* no statement, whatever its shape and depth, touches the cached samples or reads a button pin *)
Theorem C15_body_never_samples :
  forall (fuel : nat) (sk : sketch) (g cnt : Z) (st : sstate) (stmt : wv),
  s_btn (fst (exec fuel sk g cnt st stmt)) = s_btn st /\ no_dr (snd (exec fuel sk g cnt st stmt)).
Proof. exact exec_ok. Qed.
Print Assumptions C15_body_never_samples.

(* nor does any expression or condition: every is_pressed() inside it is [do_pressed] on that same cached state *)
Theorem C15_expressions_never_sample :
  forall (fuel : nat) (sk : sketch) (g cnt : Z) (st : sstate) (e : wv),
  (s_btn (fst (fst (eval_i fuel sk g cnt st e))) = s_btn st /\ no_dr (snd (fst (eval_i fuel sk g cnt st e)))) /\
  (s_btn (fst (fst (eval_c fuel sk g cnt st e))) = s_btn st /\ no_dr (snd (fst (eval_c fuel sk g cnt st e)))) /\
  (s_btn (fst (fst (eval_f fuel sk g cnt st e))) = s_btn st /\ no_dr (snd (fst (eval_f fuel sk g cnt st e)))).
Proof.
  exact (fun fuel sk g cnt st e =>
           conj (proj1 (eval_ic_ok fuel) sk g cnt st e)
                (conj (proj2 (eval_ic_ok fuel) sk g cnt st e) (eval_f_ok fuel sk g cnt st e))).
Qed.
Print Assumptions C15_expressions_never_sample.

(* a whole pass: the digitalRead events of the pass are exactly one per button (declaration order), each returning
   that pass's sample, and at the end of the pass (hence, by the two theorems above, at every point of the body) the
   value is_pressed() returns is that sample *)
Theorem C15_one_sample_per_pass_every_position :
  forall (sk : sketch) (k : nat) (st : sstate),
  length (s_btn st) = length (k_buttons sk) ->
  filter is_dr (snd (run_pass sk k st)) =
    map (fun bd => ev [1; bd_pin bd; boolz (sample_of bd k)]%Z) (k_buttons sk) /\
  map b_value (s_btn (fst (run_pass sk k st))) = map (fun bd => sample_of bd k) (k_buttons sk).
Proof. exact run_pass_ok. Qed.
Print Assumptions C15_one_sample_per_pass_every_position.

(* and so for every pass of a run of any length *)
Theorem C15_one_sample_per_pass_whole_run :
  forall (sk : sketch) (n k : nat) (st : sstate),
  length (s_btn st) = length (k_buttons sk) ->
  map pass_reads (run_passes sk n k st) =
  map (fun j => map (fun bd => ev [1; bd_pin bd; boolz (sample_of bd j)]%Z) (k_buttons sk)) (seq k n).
Proof. exact run_passes_ok. Qed.
Print Assumptions C15_one_sample_per_pass_whole_run.

(* non-vacuity: one button (pin 7, samples: setup 0, then 1 1 0), body
     n = 0; while b.is_pressed() and n < 2: n = n + 1;  mon.write(n)
     if not b.is_pressed(): mon.write(3)  else: mon.write(b.is_pressed() + 4)
     for i in range(b.is_pressed() + 1): mon.write(i)
   pass 0 (sample 1, rising edge): read, click, 2, 5, 0, 1;  pass 1 (held): read, 2, 5, 0, 1;  pass 2 (released): read, 0, 3, 0 *)
Example C15_positions_nonvacuous :
  let pressed := WL [WI 1; WI 0]%Z in
  let sk := {| k_w := 32; k_drifts := []; k_passgaps := [];
               k_buttons := [{| bd_pin := 7; bd_place := BeforeLoop; bd_h := Some 0%nat; bd_samples := [0; 1; 1; 0]%Z; bd_spin := 7; bd_ssamples := [0; 1; 1; 0]%Z |}];
               k_pots := []; k_ultras := []; k_gate := None;
               k_body := [ WL [WI 33; WL [WI 10; pressed]; WI 2; WI 0; WL []];
                           WL [WI 32; WL [WL [WL [WI 11; WL [WI 10; pressed]]; WL [WL [WI 30; WL [WI 0; WI 3]]]]];
                                      WL [WL [WI 30; WL [WI 5; WI 0; pressed; WL [WI 0; WI 4]]]]];
                           WL [WI 34; WL [WI 5; WI 0; pressed; WL [WI 0; WI 1]]; WL [WL [WI 30; WL [WI 4]]]] ]%Z |} in
  run_sketch sk 3 0 =
  WL [WI 0; WL [ev [1; 7; 0]];
      WL [WL [ev [1; 7; 1]; ev [2; 0]; ev [3; 2]; ev [3; 5]; ev [3; 0]; ev [3; 1]];
          WL [ev [1; 7; 1]; ev [3; 2]; ev [3; 5]; ev [3; 0]; ev [3; 1]];
          WL [ev [1; 7; 0]; ev [3; 0]; ev [3; 3]; ev [3; 0]]]]%Z.
Proof. vm_compute. reflexivity. Qed.
Print Assumptions C15_positions_nonvacuous.

(* a pass that ends early - "if g > 1: continue" at the top level of the loop body, which the transpiler turns into return; -
   still takes its one sample (the theorems above are about every body, also one with such statements); here: gate values
   0, 2, 0 -> the second pass stops after the poll and the gate read, the click of that pass has happened all the same *)
Example C15_early_pass_end_nonvacuous :
  let pressed := WL [WI 1; WI 0]%Z in
  let sk := {| k_w := 32; k_drifts := []; k_passgaps := [];
               k_buttons := [{| bd_pin := 7; bd_place := BeforeLoop; bd_h := Some 0%nat; bd_samples := [0; 0; 1; 1]%Z; bd_spin := 7; bd_ssamples := [0; 0; 1; 1]%Z |}];
               k_pots := []; k_ultras := []; k_gate := Some {| pd_pin := 19; pd_values := [0; 2; 0]%Z |};
               k_body := [ WL [WI 30; pressed]; WL [WI 38; WI 1]; WL [WI 30; WL [WI 5; WI 0; pressed; WL [WI 0; WI 4]]] ]%Z |} in
  run_sketch sk 3 0 =
  WL [WI 0; WL [ev [1; 7; 0]];
      WL [WL [ev [1; 7; 0]; ev [4; 19; 0]; ev [3; 0]; ev [3; 4]];
          WL [ev [1; 7; 1]; ev [2; 0]; ev [4; 19; 2]; ev [3; 1]];
          WL [ev [1; 7; 1]; ev [4; 19; 0]; ev [3; 1]; ev [3; 5]]]]%Z.
Proof. vm_compute. reflexivity. Qed.
Print Assumptions C15_early_pass_end_nonvacuous.

(* ---------------------------------------------------------------- Potentiometer *)

(* n read() calls are n analogRead events, all of the declared pin, each returning the next
   (fresh) input value *)
Theorem C15_pot_fresh :
  forall (pin : Z) (input : nat -> Z) (k n : nat),
  pot_reads pin input k n =
  (map input (seq k n), (k + n)%nat, map (fun i => PAR pin (input i)) (seq k n)).
Proof. exact pot_fresh. Qed.
Print Assumptions C15_pot_fresh.

Example C15_pot_nonvacuous :
  pot_reads 14 (fun k => Z.of_nat k * 100)%Z 2 3 =
  ([200; 300; 400]%Z, 5%nat, [PAR 14 200; PAR 14 300; PAR 14 400]).
Proof. vm_compute. reflexivity. Qed.
Print Assumptions C15_pot_nonvacuous.

(* ---------------------------------------------------------------- a sensor name bound more than once
   Device/DRebind.v: the places where one sensor name occurs, in text order - declarations, calls, defs of functions that make
   the call, calls of those - before the loop and in the loop body.  [run_dyn]: the declaration each executed call uses under
   Python's name binding (looked up when the call runs); [run_lex]: parser.py's Potentiometer.read() -> analogRead(pin of the
   declaration written last above the call; a function body keeps the one in force at its def); [run_last]: one object per name
   built from the last declaration of the whole text (ButtonPoll / __redu_ultrasonic_measure_<name>). *)

(* Python's side: whatever the text, the loop part resolves in pass 1 as in every later pass (so two passes decide) *)
Theorem C15_binding_two_passes_decide :
  forall (D : Type) (n : nat) (c : option D) (fs : fenv D) (l : list (item D)),
  dyn_passes (S n) c fs l = w_out (walk dynM c fs l) :: repeat (w_out (walk dynM (after l c) fs l)) n.
Proof. exact dyn_passes_S. Qed.
Print Assumptions C15_binding_two_passes_decide.

(* "a fresh analog read of the DECLARED pin": read() uses, in every pass of every run, the declaration Python's binding gives
   EXACTLY when the executable guard [lex_ok] holds (part before the loop, pass 0, pass 1 resolve alike) *)
Theorem C15_pot_read_uses_python_binding_partial :
  forall (D : Type) (deqb : D -> D -> bool), (forall a b, deqb a b = true <-> a = b) ->
  forall t : btext D, (forall n, run_lex n t = run_dyn n t) <-> lex_ok deqb t = true.
Proof. exact lex_exact. Qed.
Print Assumptions C15_pot_read_uses_python_binding_partial.

(* inside that guard: the name re-declared before the loop, at the top of the loop body, or both, every declaration standing
   above every call (with helper functions when the loop top does not re-declare, without when it does) - any number of
   declarations, any pins, any call pattern *)
Theorem C15_pot_redeclared_above_the_calls :
  forall (D : Type) (t : btext D),
  decls_first (t_setup t) -> decls_first (t_loop t) ->
  (forallb (fun it => negb (is_decl it)) (t_loop t) = true \/ (no_def (t_setup t) = true /\ no_def (t_loop t) = true)) ->
  forall n, run_lex n t = run_dyn n t.
Proof. exact lex_decls_first. Qed.
Print Assumptions C15_pot_redeclared_above_the_calls.

(* REFUTED outside it (finding F-C15-pot-rebound-lexical-pin), two shapes, pins 14 = A0, 15 = A1:
   (a) p = Potentiometer("A0"); def f(): return p.read(); p = Potentiometer("A1"); while True: f()
       - Python reads A1 in every pass, the firmware A0 (the body of f was translated while p meant A0);
   (b) p = Potentiometer("A0"); while True: p.read(); p = Potentiometer("A1"); p.read()
       - from pass 1 on Python's first read is on A1 (p was re-bound by the previous pass), the firmware's on A0 for ever *)
Theorem C15_pot_rebound_lexical_refuted :
  (let t := {| t_setup := [IDecl 14; IDef 0%nat; IDecl 15]; t_loop := [ICall 0%nat] |} in
   run_dyn 2 t = ([], [[Some 15]; [Some 15]]) /\ run_lex 2 t = ([], [[Some 14]; [Some 14]]) /\ lex_ok Z.eqb t = false)%Z /\
  (let t := {| t_setup := [IDecl 14]; t_loop := [IUse; IDecl 15; IUse] |} in
   run_dyn 3 t = ([], [[Some 14; Some 15]; [Some 15; Some 15]; [Some 15; Some 15]]) /\
   run_lex 3 t = ([], [[Some 14; Some 15]; [Some 14; Some 15]; [Some 14; Some 15]]) /\ lex_ok Z.eqb t = false)%Z.
Proof. vm_compute. repeat split; reflexivity. Qed.
Print Assumptions C15_pot_rebound_lexical_refuted.

(* non-vacuity of the guard: re-declared before the loop with a read in between (the shape of a baseline reading), at the loop
   top, both, with a helper function defined after the last declaration - all inside; lexical = Python's, and the pins differ from
   what "first declaration" or "last declaration of the text" would give *)
Example C15_pot_binding_nonvacuous :
  (let t := {| t_setup := [IDecl 14; IUse; IDecl 15; IUse; IDef 0%nat]; t_loop := [IUse; ICall 0%nat] |} in
   lex_ok Z.eqb t = true /\ run_lex 2 t = ([Some 14; Some 15], [[Some 15; Some 15]; [Some 15; Some 15]]) /\ last_ok Z.eqb t = false)%Z /\
  (let t := {| t_setup := [IDecl 14; IUse]; t_loop := [IDecl 15; IUse] |} in
   lex_ok Z.eqb t = true /\ run_lex 2 t = ([Some 14], [[Some 15]; [Some 15]]) /\ first_decl t = Some 14 /\ last_decl t = Some 15)%Z /\
  (let t := {| t_setup := [IDecl 14; IDecl 15]; t_loop := [IDecl 16; IDecl 17; IUse; IUse] |} in
   lex_ok Z.eqb t = true /\ run_dyn 2 t = ([], [[Some 17; Some 17]; [Some 17; Some 17]]))%Z /\
  decls_first (t_setup {| t_setup := [IDecl 14; IDecl 15; IDef 0%nat; IUse]; t_loop := [ICall 0%nat; IUse] |})%Z.
Proof.
  split; [vm_compute; repeat split; reflexivity|]. split; [vm_compute; repeat split; reflexivity|].
  split; [vm_compute; repeat split; reflexivity|].
  exists [14; 15]%Z, [IDef 0%nat; IUse]. split; reflexivity.
Qed.
Print Assumptions C15_pot_binding_nonvacuous.

(* is_pressed() / measure_distance(): one object per name, built from the LAST declaration of the text.  That is Python's binding
   for every call of every run exactly when [last_ok] holds; for the calls inside loop() (the statement's subject for a Button)
   exactly when [last_ok_loop] holds *)
Theorem C15_last_declaration_is_python_binding_partial :
  forall (D : Type) (deqb : D -> D -> bool), (forall a b, deqb a b = true <-> a = b) ->
  forall t : btext D,
  ((forall n, run_last n t = run_dyn n t) <-> last_ok deqb t = true) /\
  ((forall n, snd (run_last n t) = snd (run_dyn n t)) <-> last_ok_loop deqb t = true).
Proof. exact (fun D deqb H t => conj (last_exact D deqb H t) (last_loop_exact D deqb H t)). Qed.
Print Assumptions C15_last_declaration_is_python_binding_partial.

(* REFUTED outside it (finding F-C15-ultrasonic-rebound-early-measure): u = Ultrasonic(2, 3); u.measure_distance();
   u = Ultrasonic(4, 5); while True: u.measure_distance()  - keys 23 / 45 - the measurement before the loop is made with the pins
   of the second declaration (the echo time of another sensor than the one u is bound to); the same inside the loop body:
   while True: u = Ultrasonic(2, 3); u.measure_distance(); u = Ultrasonic(4, 5); u.measure_distance().
   Inside: re-declared before the loop / at the loop top with the calls in loop() *)
Theorem C15_last_declaration_refuted :
  (let t := {| t_setup := [IDecl 23; IUse; IDecl 45]; t_loop := [IUse] |} in
   run_dyn 1 t = ([Some 23], [[Some 45]]) /\ run_last 1 t = ([Some 45], [[Some 45]]) /\
   last_ok Z.eqb t = false /\ last_ok_loop Z.eqb t = true)%Z /\
  (let t := {| t_setup := []; t_loop := [IDecl 23; IUse; IDecl 45; IUse] |} in
   run_dyn 1 t = ([], [[Some 23; Some 45]]) /\ run_last 1 t = ([], [[Some 45; Some 45]]) /\ last_ok_loop Z.eqb t = false)%Z /\
  (let t := {| t_setup := [IDecl 23; IDecl 45; IDef 0%nat]; t_loop := [IDecl 67; IUse; ICall 0%nat] |} in
   last_ok Z.eqb t = true /\ run_last 2 t = ([], [[Some 67; Some 67]; [Some 67; Some 67]]) /\ lex_ok Z.eqb t = false)%Z.
Proof. vm_compute. repeat split; reflexivity. Qed.
Print Assumptions C15_last_declaration_refuted.

(* ---- a Button name with several declarations d0 :: ds (text order; [input pin k] = the k-th digitalRead of that pin).
   Exactly one sample per pass, taken on the pin of the LAST declaration - the button the name is bound to while loop() runs -
   and every is_pressed() of the pass returns it *)
Theorem C15_rebound_button_sampled_on_last_declaration :
  forall (d0 : bdecl) (ds : list bdecl) (input : Z -> nat -> bool) (calls : list nat),
  map reads (rb_run d0 ds input calls) = map (fun x => [x]) (rb_signal d0 ds input (length calls)) /\
  map body_values (rb_run d0 ds input calls) =
    map (fun k => repeat (input (bl_pin (last ds d0)) (rb_index d0 (last ds d0) k)) (nth k calls O)) (seq 0 (length calls)).
Proof. exact (fun d0 ds input calls => conj (rb_reads d0 ds input calls) (rb_body_values d0 ds input calls)). Qed.
Print Assumptions C15_rebound_button_sampled_on_last_declaration.

(* the handler of the last declaration runs at the rising edges of that signal - counted from the level the FIRST declaration's
   pin had in setup() (the start-up sample is emitted once per name) *)
Theorem C15_rebound_button_clicks :
  forall (d0 : bdecl) (ds : list bdecl) (input : Z -> nat -> bool) (calls : list nat) (n : nat),
  bl_h (last ds d0) = Some n ->
  map clicks (rb_run d0 ds input calls) =
  map b2n (edges (input (bl_pin d0) O) (rb_signal d0 ds input (length calls))).
Proof. exact rb_clicks. Qed.
Print Assumptions C15_rebound_button_clicks.

(* guard 1: all declarations name one pin (re-declared to attach a handler, or simply repeated): the rising edges of that pin's own
   sampled signal, start-up sample included - the clause as for a name declared once *)
Theorem C15_rebound_button_clicks_partial :
  forall (d0 : bdecl) (ds : list bdecl) (input : Z -> nat -> bool) (calls : list nat) (n : nat),
  bl_h (last ds d0) = Some n -> bl_pin d0 = bl_pin (last ds d0) ->
  map clicks (rb_run d0 ds input calls) =
  map b2n (edges (input (bl_pin d0) O) (map (fun k => input (bl_pin d0) (S k)) (seq 0 (length calls)))).
Proof. exact rb_clicks_same_pin. Qed.
Print Assumptions C15_rebound_button_clicks_partial.

(* guard 2: another pin, but the first declaration's pin reads pressed in setup() or the polled pin reads released in pass 0: no
   click in pass 0, afterwards the rising edges of the polled pin's own signal *)
Theorem C15_rebound_button_other_pin_partial :
  forall (d0 : bdecl) (ds : list bdecl) (input : Z -> nat -> bool) (calls : list nat) (n : nat),
  bl_h (last ds d0) = Some n ->
  (input (bl_pin d0) O = true \/ hd false (rb_signal d0 ds input (length calls)) = false) ->
  map clicks (rb_run d0 ds input calls) =
  match rb_signal d0 ds input (length calls) with
  | [] => []
  | x :: r => O :: map b2n (edges x r)
  end.
Proof. exact rb_clicks_guarded. Qed.
Print Assumptions C15_rebound_button_other_pin_partial.

(* REFUTED outside both (finding F-C15-rebound-button-startup-click): b = Button(7, on_click=h); b = Button(8, on_click=h) with
   pin 7 released and pin 8 pressed from power-up and never released: the handler runs in pass 0 - a click at start-up, no
   released-to-pressed transition anywhere in the sampled signal; the same with the second declaration at the loop top *)
Theorem C15_rebound_button_startup_click_refuted :
  exists (d0 : bdecl) (ds : list bdecl) (input : Z -> nat -> bool) (calls : list nat),
    bl_pin (last ds d0) <> bl_pin d0 /\
    forallb (fun x => x) (rb_signal d0 ds input (length calls)) = true /\
    map clicks (rb_run d0 ds input calls) = [1; 0; 0]%nat /\
    map clicks (rb_run d0 (map (fun d => {| bl_place := LoopTop; bl_pin := bl_pin d; bl_h := bl_h d |}) ds) input calls) = [1; 0; 0]%nat.
Proof.
  exists {| bl_place := BeforeLoop; bl_pin := 7; bl_h := Some 0%nat |},
         [{| bl_place := BeforeLoop; bl_pin := 8; bl_h := Some 0%nat |}],
         (fun pin _ => (pin =? 8)%Z), [1; 1; 1]%nat.
  split; [discriminate|]. vm_compute. repeat split; reflexivity.
Qed.
Print Assumptions C15_rebound_button_startup_click_refuted.

(* the sketch interpreter builds its button descriptor from a name's declarations the same way: poll = last, start-up = first *)
Example C15_rebound_button_resolved :
  let d1 := {| bw_pin := 7; bw_place := BeforeLoop; bw_h := None; bw_samples := [1; 0]%Z |} in
  let d2 := {| bw_pin := 8; bw_place := LoopTop; bw_h := Some 1%nat; bw_samples := [0; 1; 1]%Z |} in
  resolve_button [d1; d2] =
    Some {| bd_pin := 8; bd_place := BeforeLoop; bd_h := Some 1%nat; bd_samples := [0; 1; 1]%Z; bd_spin := 7; bd_ssamples := [1; 0]%Z |} /\
  resolve_button [d2] =
    Some {| bd_pin := 8; bd_place := LoopTop; bd_h := Some 1%nat; bd_samples := [0; 1; 1]%Z; bd_spin := 8; bd_ssamples := [0; 1; 1]%Z |} /\
  resolve_button [] = None.
Proof. vm_compute. repeat split; reflexivity. Qed.
Print Assumptions C15_rebound_button_resolved.

(* ---------------------------------------------------------------- Ultrasonic helper *)
Open Scope Z_scope.

(* the first attempt (of at most three) whose echo does not time out decides the result:
   echo-time * 0.0343 / 2 = echo * 343 / 20000 cm *)
Theorem C15_distance_formula :
  forall (W : Z) (drift echo : nat -> Z) (st : ustate) (c : clock) (np j : nat) (e : Z),
  (j < 3)%nat ->
  (forall i, (i < j)%nat -> timed_out echo (np + i)) ->
  echo (np + j)%nat = e -> 0 < e <= 30000 ->
  (r_val (u_measure W drift echo st c np) == inject_Z e * (343 # 1) / (20000 # 1))%Q.
Proof. exact distance_formula. Qed.
Print Assumptions C15_distance_formula.

(* one call triggers the sensor at least once and at most three times, and consumes exactly
   that many echoes *)
Theorem C15_attempts_le_3 :
  forall (W : Z) (drift echo : nat -> Z) (st : ustate) (c : clock) (np : nat),
  (1 <= length (trigs (r_evs (u_measure W drift echo st c np))) <= 3)%nat /\
  r_np (u_measure W drift echo st c np) =
    (np + length (trigs (r_evs (u_measure W drift echo st c np))))%nat.
Proof. exact (fun w d e s c n => conj (attempts_le_3 w d e s c n) (pulses_consumed w d e s c n)). Qed.
Print Assumptions C15_attempts_le_3.

(* back-off, over whole histories and for every width W of the unsigned long millisecond counter:
   calls separated by arbitrary non-negative stretches of time (no upper bound: the counter may roll
   over any number of times in between) and any number of foreign delay() calls, any echoes, any
   non-negative delay drifts, ANY start clock (0, within 60 ms of the roll-over, exactly on it, past it):
   two consecutive triggers are >= 60 ms of TRUE time apart (whole milliseconds of the un-wrapped clock),
   whatever unsigned long was stored after the first - the helper knows that it has triggered from a
   flag of its own, not from "stored time <> 0" (was finding F-C15-backoff-skipped-at-rollover-zero,
   repaired; the former exemption at power-up is gone with it) *)
Theorem C15_backoff :
  forall (W : Z) (drift echo : nat -> Z) (c0 : clock) (gs : list gap),
  0 <= W ->
  (forall k, 0 <= drift k) -> 0 <= now_us c0 -> Forall (fun g => 0 <= g_us g) gs ->
  all_spaced (trigs (history_events (u_calls W drift echo u_init c0 0 gs))).
Proof. exact backoff_history. Qed.
Print Assumptions C15_backoff.

(* under the same hypotheses every delay() the helper issues is between 1 and 60 ms (a test against
   an absolute deadline last+60 would ask for about 2^W ms when only the deadline has rolled over) *)
Theorem C15_backoff_delays_bounded :
  forall (W : Z) (drift echo : nat -> Z) (c0 : clock) (gs : list gap),
  0 <= W ->
  (forall k, 0 <= drift k) -> 0 <= now_us c0 -> Forall (fun g => 0 <= g_us g) gs ->
  Forall (fun d => 1 <= d <= 60) (delays (history_events (u_calls W drift echo u_init c0 0 gs))).
Proof. exact backoff_delays_bounded. Qed.
Print Assumptions C15_backoff_delays_bounded.

(* the stored unsigned long is the true millisecond count, taken no earlier than the trigger, modulo
   2^W - it is 0 in the first millisecond after power-up and again at every exact multiple of 2^W, so
   its value cannot tell whether the sensor has been triggered *)
Theorem C15_stored_time_is_wrapped_true_time :
  forall (W : Z) (drift echo : nat -> Z) (st : ustate) (c : clock) (np : nat),
  let a := u_attempt W drift echo st c np in
  a_stamp a = wrap W (true_ms (a_clk a)) /\ a_t a / 1000 <= true_ms (a_clk a).
Proof. exact stamp_after_trigger. Qed.
Print Assumptions C15_stored_time_is_wrapped_true_time.

(* three time-outs in one call: the result is the distance of the last echo, anywhere earlier in
   the history, that did not time out - 400 if there was none *)
Theorem C15_fallback :
  forall (W : Z) (drift echo : nat -> Z) (c0 : clock) (gs : list gap),
  Forall (fun x =>
            timed_out echo (fst x) -> timed_out echo (S (fst x)) -> timed_out echo (S (S (fst x))) ->
            (r_val (snd x) ==
             match last_good echo (fst x) with
             | Some e => inject_Z e * (343 # 1) / (20000 # 1)
             | None => 400 # 1
             end)%Q)
         (u_calls W drift echo u_init c0 0 gs).
Proof. exact fallback_history. Qed.
Print Assumptions C15_fallback.

(* the same for one call from any state: it also made exactly three attempts *)
Theorem C15_fallback_call :
  forall (W : Z) (drift echo : nat -> Z) (st : ustate) (c : clock) (np : nat),
  timed_out echo np -> timed_out echo (S np) -> timed_out echo (S (S np)) ->
  r_val (u_measure W drift echo st c np) = (if has_dist st then last_dist st else 400 # 1) /\
  length (trigs (r_evs (u_measure W drift echo st c np))) = 3%nat.
Proof. exact fallback_call. Qed.
Print Assumptions C15_fallback_call.

(* non-vacuity: clock starts at 1000 ms, drift 7 ms on every delay, echoes 58, 0, 0, 0, 1000, 30001(=time-out) ...;
   three calls 25 ms apart: 0.9947 cm; three time-outs -> falls back to 0.9947; then 17.15.
   Triggers (us, echo, stored ms): all consecutive pairs are >= 60 ms apart,
   and the hypotheses of C15_backoff hold. *)
Example C15_ultra_nonvacuous :
  let drift := fun _ : nat => 7 in
  let echo := fun k : nat => nth k [58; 0; 0; 0; 1000] 30001 in
  let c0 := {| now_us := 1000000; ndelay := 0 |} in
  let gs := [{| g_us := 0; g_delays := 0 |}; {| g_us := 25000; g_delays := 1 |}; {| g_us := 25000; g_delays := 1 |}] in
  let h := u_calls 32 drift echo u_init c0 0 gs in
  map (fun x => Qred (r_val (snd x))) h = [(9947 # 10000)%Q; (9947 # 10000)%Q; (343 # 20)%Q] /\
  trigs (history_events h) =
    [(1000002, 58, 1000); (1067072, 0, 1097); (1164084, 0, 1194); (1261096, 0, 1291); (1358108, 1000, 1359)] /\
  delays (history_events h) = [35; 60; 60; 35] /\
  (forall k, 0 <= drift k) /\ 0 <= now_us c0 /\ Forall (fun g => 0 <= g_us g) gs /\
  timed_out echo 1 /\ timed_out echo 2 /\ timed_out echo 3 /\ last_good echo 1 = Some 58.
Proof.
  cbv zeta. split; [vm_compute; reflexivity|]. split; [vm_compute; reflexivity|]. split; [vm_compute; reflexivity|].
  split; [intros _; discriminate|]. split; [discriminate|].
  split; [repeat constructor; discriminate|].
  repeat split; reflexivity.
Qed.
Print Assumptions C15_ultra_nonvacuous.

(* non-vacuity across the roll-over: the same history started 30 ms before a 32-bit counter rolls over
   and 100 ms before a 64-bit one does.  The stored times wrap (4294967266 -> 67; ...613 -> 94), the
   back-off delays are the same 35 / 60 / 60 / 35 ms as far away from the roll-over, and the true
   trigger times stay >= 60 ms apart. *)
Example C15_ultra_rollover_nonvacuous :
  let drift := fun _ : nat => 7 in
  let echo := fun k : nat => nth k [58; 0; 0; 0; 1000] 30001 in
  let gs := [{| g_us := 0; g_delays := 0 |}; {| g_us := 25000; g_delays := 1 |}; {| g_us := 25000; g_delays := 1 |}] in
  let h32 := u_calls 32 drift echo u_init {| now_us := (2 ^ 32 - 30) * 1000; ndelay := 0 |} 0 gs in
  let h64 := u_calls 64 drift echo u_init {| now_us := (2 ^ 64 - 100) * 1000; ndelay := 0 |} 0 gs in
  trigs (history_events h32) =
    [(4294967266002, 58, 4294967266); (4294967333072, 0, 67); (4294967430084, 0, 164);
     (4294967527096, 0, 261); (4294967624108, 1000, 329)] /\
  delays (history_events h32) = [35; 60; 60; 35] /\
  trigs (history_events h64) =
    [(18446744073709551516002, 58, 18446744073709551516); (18446744073709551583072, 0, 18446744073709551613);
     (18446744073709551680084, 0, 94); (18446744073709551777096, 0, 191); (18446744073709551874108, 1000, 259)] /\
  delays (history_events h64) = [35; 60; 60; 35] /\
  map (fun x => Qred (r_val (snd x))) h64 = [(9947 # 10000)%Q; (9947 # 10000)%Q; (343 # 20)%Q].
Proof. cbv zeta. repeat split; vm_compute; reflexivity. Qed.
Print Assumptions C15_ultra_rollover_nonvacuous.

(* the back-off no longer depends on the stored value: with the clock still at 0 ms after the first
   echo the stored trigger time is 0, and the next call nevertheless waits its 60 ms *)
Example C15_backoff_at_power_up :
  let echo := fun _ : nat => 58 in
  let c0 := {| now_us := 0; ndelay := 0 |} in
  let h := u_calls 32 (fun _ => 0) echo u_init c0 0
                   [{| g_us := 0; g_delays := 0 |}; {| g_us := 0; g_delays := 0 |}] in
  trigs (history_events h) = [(2, 58, 0); (60072, 58, 60)] /\ delays (history_events h) = [60].
Proof. vm_compute. split; reflexivity. Qed.
Print Assumptions C15_backoff_at_power_up.

(* ... nor at the roll-over: the witness of the repaired finding - W = 32, start 1 ms before 2^32 ms,
   echo 1000 us: the first trigger is stamped 2^32 mod 2^32 = 0 after 49.7 days of running, and the
   second call now backs off 60 ms (it used to trigger 1 ms later); the same on a 64-bit counter *)
Example C15_backoff_rollover_zero :
  let gs := [{| g_us := 0; g_delays := 0 |}; {| g_us := 0; g_delays := 0 |}] in
  let h32 := u_calls 32 (fun _ => 0) (fun _ => 1000) u_init {| now_us := (2 ^ 32 - 1) * 1000; ndelay := 0 |} 0 gs in
  let h64 := u_calls 64 (fun _ => 0) (fun _ => 1000) u_init {| now_us := (2 ^ 64 - 1) * 1000; ndelay := 0 |} 0 gs in
  trigs (history_events h32) = [(4294967295002, 1000, 0); (4294967356014, 1000, 61)] /\
  delays (history_events h32) = [60] /\
  trigs (history_events h64) = [(18446744073709551615002, 1000, 0); (18446744073709551676014, 1000, 61)] /\
  delays (history_events h64) = [60].
Proof. cbv zeta. repeat split; vm_compute; reflexivity. Qed.
Print Assumptions C15_backoff_rollover_zero.
