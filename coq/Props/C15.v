(* C15 - Inputs: button edges, potentiometer reads and ultrasonic ranging behave as documented.
   Nothing but statements, closed by [exact], each followed by Print Assumptions.

   Models: Device/DButton.v (globals, setup sample, per-pass poll, cached is_pressed, host Button),
           Device/DPot.v, Device/DUltra.v (the emitted helper, line by line; clock, delay drift and
           echoes are explicit oracles).
   Guard of the ultrasonic model: the millisecond clock does not wrap (clock < 2^32 ms); contact
   bounce is outside the model (the "sampled signal" is what digitalRead returned). *)
From Coq Require Import ZArith QArith List Bool Arith.
From RV Require Import Device.DButton Device.DPot Device.DUltra Proofs.InputsP.
Import ListNotations.

(* ---------------------------------------------------------------- Button *)

(* exactly one digitalRead per loop() pass, and it is that pass's sample - for every declaration
   place, handler, start-up level and call pattern *)
Theorem C15_one_sample_per_pass :
  forall (pl : place) (h : option nat) (s0 : bool) (ps : list (bool * nat)),
  map reads (dev_run pl h s0 ps) = map (fun p => [fst p]) ps.
Proof. exact one_sample_per_pass. Qed.
Print Assumptions C15_one_sample_per_pass.

(* button declared before the main loop: in every pass the handler runs once if that pass is a
   rising edge of the sampled sequence (setup sample = initial previous value), else not at all *)
Theorem C15_clicks_eq_rising_edges :
  forall (n : nat) (s0 : bool) (ps : list (bool * nat)),
  map clicks (dev_run BeforeLoop (Some n) s0 ps) = map b2n (edges s0 (map fst ps)).
Proof. exact clicks_dev_before. Qed.
Print Assumptions C15_clicks_eq_rising_edges.

(* every is_pressed() of the loop body in pass k returns sample k, however often it is called *)
Theorem C15_sample_stable :
  forall (pl : place) (h : option nat) (s0 : bool) (ps : list (bool * nat)),
  map body_values (dev_run pl h s0 ps) = map (fun p => repeat (fst p) (snd p)) ps.
Proof. exact sample_stable. Qed.
Print Assumptions C15_sample_stable.

(* ... but an is_pressed() evaluated inside the on_click handler does not: the handler runs before
   the cached value is updated (finding F-C15-handler-stale-sample) *)
Theorem C15_sample_stable_handler_refuted :
  exists (h : option nat) (s0 : bool) (ps : list (bool * nat)) (k : nat) (evs : list bev) (v sample : bool),
    nth_error (dev_run BeforeLoop h s0 ps) k = Some evs /\
    nth_error (map fst ps) k = Some sample /\
    In v (handler_values evs) /\ v <> sample.
Proof. exact sample_stable_handler_refuted. Qed.
Print Assumptions C15_sample_stable_handler_refuted.

(* it always returns 0 there, while the sample of the pass is 1 *)
Theorem C15_handler_sees_previous_sample :
  forall (pl : place) (h : option nat) (s0 : bool) (ps : list (bool * nat)),
  Forall2 (fun p evs => forall v, In v (handler_values evs) -> v = false /\ fst p = true)
          ps (dev_run pl h s0 ps).
Proof. exact handler_sees_previous. Qed.
Print Assumptions C15_handler_sees_previous_sample.

(* guard: the handler does not call is_pressed(); then the body evaluations are all there is *)
Theorem C15_sample_stable_partial :
  forall (pl : place) (h : option nat) (s0 : bool) (ps : list (bool * nat)),
  hcalls h = 0%nat ->
  map handler_values (dev_run pl h s0 ps) = map (fun _ => []) ps.
Proof. exact sample_stable_partial. Qed.
Print Assumptions C15_sample_stable_partial.

(* host Button polled once per pass gives the same clicks whenever the signal starts released *)
Theorem C15_host_agrees :
  forall (n : nat) (s0 : bool) (ps : list (bool * nat)),
  s0 = false ->
  map clicks (dev_run BeforeLoop (Some n) s0 ps) =
  map (fun r => b2n (fst r)) (host_run true (map fst ps)).
Proof. exact host_agrees. Qed.
Print Assumptions C15_host_agrees.

(* the host returns the provided level on every call *)
Theorem C15_host_values :
  forall (cb : bool) (s : list bool), map snd (host_run cb s) = s.
Proof. exact (fun cb s => host_values cb false s). Qed.
Print Assumptions C15_host_values.

(* no click at start-up for a button declared before the main loop: setup never calls the
   handler, and a signal that is pressed at the setup sample cannot click in pass 0 ... *)
Theorem C15_no_startup_click :
  forall (h : option nat) (s0 : bool) (ps : list (bool * nat)),
  clicks (snd (b_setup BeforeLoop s0)) = 0%nat /\
  (s0 = true -> forall evs, hd_error (dev_run BeforeLoop h s0 ps) = Some evs -> clicks evs = 0%nat).
Proof. exact no_startup_click. Qed.
Print Assumptions C15_no_startup_click.

(* ... nor ever while it stays pressed *)
Theorem C15_no_click_while_held :
  forall (h : option nat) (s0 : bool) (ps : list (bool * nat)),
  s0 = true -> forallb (fun x => x) (map fst ps) = true ->
  map clicks (dev_run BeforeLoop h s0 ps) = map (fun _ => 0%nat) ps.
Proof. exact no_click_while_held. Qed.
Print Assumptions C15_no_click_while_held.

(* a button declared at the top of the main-loop body gets no setup sample: prev starts false, and
   a signal that is pressed from the start (never released) clicks in pass 0
   (finding F-C15-looptop-startup-click) *)
Theorem C15_no_startup_click_looptop_refuted :
  exists (h : option nat) (s0 : bool) (ps : list (bool * nat)) (evs : list bev),
    s0 = true /\ forallb (fun x => x) (map fst ps) = true /\
    hd_error (dev_run LoopTop h s0 ps) = Some evs /\ clicks evs = 1%nat.
Proof. exact no_startup_click_looptop_refuted. Qed.
Print Assumptions C15_no_startup_click_looptop_refuted.

(* what the loop-top configuration does in general: rising edges relative to "released" *)
Theorem C15_clicks_looptop :
  forall (n : nat) (s0 : bool) (ps : list (bool * nat)),
  map clicks (dev_run LoopTop (Some n) s0 ps) = map b2n (edges false (map fst ps)).
Proof. exact clicks_dev_looptop. Qed.
Print Assumptions C15_clicks_looptop.

(* guard: the first pass samples "released"; then the clicks are the rising edges of the sampled
   sequence itself, and the host agrees without any condition *)
Theorem C15_no_startup_click_looptop_partial :
  forall (n : nat) (s0 : bool) (p : bool * nat) (ps : list (bool * nat)),
  fst p = false ->
  map clicks (dev_run LoopTop (Some n) s0 (p :: ps)) = map b2n (false :: edges (fst p) (map fst ps)).
Proof. exact looptop_partial. Qed.
Print Assumptions C15_no_startup_click_looptop_partial.

Theorem C15_host_agrees_looptop :
  forall (n : nat) (s0 : bool) (ps : list (bool * nat)),
  map clicks (dev_run LoopTop (Some n) s0 ps) =
  map (fun r => b2n (fst r)) (host_run true (map fst ps)).
Proof. exact host_agrees_looptop. Qed.
Print Assumptions C15_host_agrees_looptop.

(* non-vacuity: a signal that starts released, with two presses, a hold and a release; the device
   and the host click in passes 1 and 4 only; every body evaluation shows its pass's sample *)
Example C15_button_nonvacuous :
  let ps := [(false, 1%nat); (true, 2%nat); (true, 0%nat); (false, 3%nat); (true, 1%nat)] in
  map clicks (dev_run BeforeLoop (Some 0%nat) false ps) = [0; 1; 0; 0; 1]%nat /\
  map (fun r => b2n (fst r)) (host_run true (map fst ps)) = [0; 1; 0; 0; 1]%nat /\
  map body_values (dev_run BeforeLoop (Some 0%nat) false ps) =
    [[false]; [true; true]; []; [false; false; false]; [true]] /\
  (* the hypothesis of C15_host_agrees is needed: a signal that starts pressed *)
  map clicks (dev_run BeforeLoop (Some 0%nat) true [(true, 0%nat)]) = [0%nat] /\
  map (fun r => b2n (fst r)) (host_run true [true]) = [1%nat].
Proof. vm_compute. repeat split; reflexivity. Qed.
Print Assumptions C15_button_nonvacuous.

(* non-vacuity of the loop-top guard: first pass released, then a press: one click, in pass 1;
   and the same signal preceded by a pressed pass 0 is the finding's witness *)
Example C15_looptop_nonvacuous :
  map clicks (dev_run LoopTop (Some 0%nat) true [(false, 1%nat); (true, 1%nat); (true, 2%nat)]) = [0; 1; 0]%nat /\
  map clicks (dev_run LoopTop (Some 0%nat) true [(true, 1%nat); (true, 1%nat)]) = [1; 0]%nat /\
  map clicks (dev_run BeforeLoop (Some 0%nat) true [(true, 1%nat); (true, 1%nat)]) = [0; 0]%nat.
Proof. vm_compute. repeat split; reflexivity. Qed.
Print Assumptions C15_looptop_nonvacuous.

(* ---------------------------------------------------------------- Potentiometer *)

(* n read() calls are n analogRead events, all of the declared pin, each returning the next
   (fresh) input value *)
Theorem C15_pot_fresh :
  forall (pin : Z) (input : nat -> Z) (k n : nat),
  pot_reads pin input k n =
  (map input (seq k n), (k + n)%nat, map (fun i => PAR pin (input i)) (seq k n)).
Proof. exact pot_fresh. Qed.
Print Assumptions C15_pot_fresh.

Example C15_pot_nonvacuous :
  pot_reads 14 (fun k => Z.of_nat k * 100)%Z 2 3 =
  ([200; 300; 400]%Z, 5%nat, [PAR 14 200; PAR 14 300; PAR 14 400]).
Proof. vm_compute. reflexivity. Qed.
Print Assumptions C15_pot_nonvacuous.

(* ---------------------------------------------------------------- Ultrasonic helper *)
Open Scope Z_scope.

(* the first attempt (of at most three) whose echo does not time out decides the result:
   echo-time * 0.0343 / 2 = echo * 343 / 20000 cm *)
Theorem C15_distance_formula :
  forall (drift echo : nat -> Z) (st : ustate) (c : clock) (np j : nat) (e : Z),
  (j < 3)%nat ->
  (forall i, (i < j)%nat -> timed_out echo (np + i)) ->
  echo (np + j)%nat = e -> 0 < e <= 30000 ->
  (r_val (u_measure drift echo st c np) == inject_Z e * (343 # 1) / (20000 # 1))%Q.
Proof. exact distance_formula. Qed.
Print Assumptions C15_distance_formula.

(* one call triggers the sensor at least once and at most three times, and consumes exactly
   that many echoes *)
Theorem C15_attempts_le_3 :
  forall (drift echo : nat -> Z) (st : ustate) (c : clock) (np : nat),
  (1 <= length (trigs (r_evs (u_measure drift echo st c np))) <= 3)%nat /\
  r_np (u_measure drift echo st c np) =
    (np + length (trigs (r_evs (u_measure drift echo st c np))))%nat.
Proof. exact (fun d e s c n => conj (attempts_le_3 d e s c n) (pulses_consumed d e s c n)). Qed.
Print Assumptions C15_attempts_le_3.

(* back-off, over whole histories: calls separated by arbitrary non-negative stretches of time
   and any number of foreign delay() calls, any echoes, any non-negative delay drifts, any start
   clock: two consecutive triggers are >= 60 ms of millis() apart unless the trigger time stored
   after the first was 0 *)
Theorem C15_backoff :
  forall (drift echo : nat -> Z) (c0 : clock) (gs : list gap),
  (forall k, 0 <= drift k) -> 0 <= now_us c0 -> Forall (fun g => 0 <= g_us g) gs ->
  all_spaced (trigs (history_events (u_calls drift echo u_init c0 0 gs))).
Proof. exact backoff_history. Qed.
Print Assumptions C15_backoff.

(* three time-outs in one call: the result is the distance of the last echo, anywhere earlier in
   the history, that did not time out - 400 if there was none *)
Theorem C15_fallback :
  forall (drift echo : nat -> Z) (c0 : clock) (gs : list gap),
  Forall (fun x =>
            timed_out echo (fst x) -> timed_out echo (S (fst x)) -> timed_out echo (S (S (fst x))) ->
            (r_val (snd x) ==
             match last_good echo (fst x) with
             | Some e => inject_Z e * (343 # 1) / (20000 # 1)
             | None => 400 # 1
             end)%Q)
         (u_calls drift echo u_init c0 0 gs).
Proof. exact fallback_history. Qed.
Print Assumptions C15_fallback.

(* the same for one call from any state: it also made exactly three attempts *)
Theorem C15_fallback_call :
  forall (drift echo : nat -> Z) (st : ustate) (c : clock) (np : nat),
  timed_out echo np -> timed_out echo (S np) -> timed_out echo (S (S np)) ->
  r_val (u_measure drift echo st c np) = (if has_dist st then last_dist st else 400 # 1) /\
  length (trigs (r_evs (u_measure drift echo st c np))) = 3%nat.
Proof. exact fallback_call. Qed.
Print Assumptions C15_fallback_call.

(* non-vacuity: clock starts at 1000 ms, drift 7 ms on every delay, echoes 58, 0, 0, 0, 1000, 30001(=time-out) ...;
   three calls 25 ms apart: 0.9947 cm; three time-outs -> falls back to 0.9947; then 17.15.
   Triggers (us, echo, stored ms): the pairs with a non-zero stored time are all >= 60 ms apart,
   and the hypotheses of C15_backoff hold. *)
Example C15_ultra_nonvacuous :
  let drift := fun _ : nat => 7 in
  let echo := fun k : nat => nth k [58; 0; 0; 0; 1000] 30001 in
  let c0 := {| now_us := 1000000; ndelay := 0 |} in
  let gs := [{| g_us := 0; g_delays := 0 |}; {| g_us := 25000; g_delays := 1 |}; {| g_us := 25000; g_delays := 1 |}] in
  let h := u_calls drift echo u_init c0 0 gs in
  map (fun x => Qred (r_val (snd x))) h = [(9947 # 10000)%Q; (9947 # 10000)%Q; (343 # 20)%Q] /\
  trigs (history_events h) =
    [(1000002, 58, 1000); (1067072, 0, 1097); (1164084, 0, 1194); (1261096, 0, 1291); (1358108, 1000, 1359)] /\
  (forall k, 0 <= drift k) /\ 0 <= now_us c0 /\ Forall (fun g => 0 <= g_us g) gs /\
  timed_out echo 1 /\ timed_out echo 2 /\ timed_out echo 3 /\ last_good echo 1 = Some 58.
Proof.
  cbv zeta. split; [vm_compute; reflexivity|]. split; [vm_compute; reflexivity|].
  split; [intros _; discriminate|]. split; [discriminate|].
  split; [repeat constructor; discriminate|].
  repeat split; reflexivity.
Qed.
Print Assumptions C15_ultra_nonvacuous.

(* the exemption is real: with the clock still at 0 ms after the first echo the stored trigger
   time is 0 and the next call triggers again at once (the statement's "once the millisecond
   clock is running") *)
Example C15_backoff_exemption :
  let echo := fun _ : nat => 58 in
  let c0 := {| now_us := 0; ndelay := 0 |} in
  trigs (history_events (u_calls (fun _ => 0) echo u_init c0 0
                                 [{| g_us := 0; g_delays := 0 |}; {| g_us := 0; g_delays := 0 |}])) =
  [(2, 58, 0); (72, 58, 0)].
Proof. vm_compute. reflexivity. Qed.
Print Assumptions C15_backoff_exemption.
