(* C16 - Buzzer: every sound is bounded, silent when it should be, follows the score.
   Nothing but statements, closed by [exact], each followed by Print Assumptions.

   Model: Device/DBuzzer.v (the five emitter branches, line by line, as repaired by the commit
   "fix: buzzer ..." - see known_findings.d/C16.json, entries of kind "fixed").  Every universally
   quantified theorem holds for all pins and all score tables unless it names the generated one
   (Gen/Melodies.v, re-read from the source on every run). *)
From Coq Require Import ZArith QArith Qround List Bool Sorted.
From RV Require Import Base.Wire Base.Text Device.DBuzzer Device.BuzzerSpec Device.MelodySpec
  Gen.Melodies Proofs.BuzzerP Proofs.BuzzerP2.
Import ListNotations.
Open Scope Z_scope.

(* ---- a frequency <= 0 never starts a tone: per call, in any state (hence after any history) *)
Theorem C16_nonpositive_never_tones : forall pin tbl st o,
  nonpositive_call o = true -> tones (snd (dstep pin tbl st o)) = [].
Proof. exact nonpositive_never_tones. Qed.
Print Assumptions C16_nonpositive_never_tones.

(* beep() without a frequency repeats the last one (initially default_frequency): silent if that is <= 0 *)
Theorem C16_beep_default_nonpositive : forall pin tbl st on off times,
  qle (get_last_frequency st) q0 = true ->
  tones (snd (dstep pin tbl st (Beep None on off times))) = [].
Proof. exact beep_default_nonpositive. Qed.
Print Assumptions C16_beep_default_nonpositive.

(* whole histories: a sequence of calls none of which has a positive frequency (a beep without argument
   repeating a last/default frequency <= 0) never starts a tone - and so never changes that last frequency *)
Theorem C16_nonpositive_sequences : forall pin tbl ops st,
  forallb (nonpositive_in (get_last_frequency st)) ops = true -> tones (snd (run pin tbl st ops)) = [].
Proof. exact nonpositive_sequences. Qed.
Print Assumptions C16_nonpositive_sequences.

(* in every call sequence whatsoever, each tone() the firmware issues has the rounded value of a
   strictly positive frequency, and every event is on the buzzer's own pin *)
Theorem C16_every_tone_positive : forall pin tbl st ops,
  Forall (fun e => match e with
                   | Tone _ t => exists f, (0 < f)%Q /\ t = tone_of f
                   | _ => True end) (snd (run pin tbl st ops)).
Proof. exact every_tone_positive. Qed.
Print Assumptions C16_every_tone_positive.

Theorem C16_only_own_pin : forall pin tbl st ops,
  Forall (on_pin pin) (snd (run pin tbl st ops)).
Proof. exact only_own_pin. Qed.
Print Assumptions C16_only_own_pin.

(* ---- every call that has a duration leaves the pin silent and get_state() false.  The only hypothesis
   left, [silent_guard], is a property of the score table: the named melody has a non-empty score (true of
   every name the parser accepts, C16_accepted_melody_in_guard); it holds by computation for play_tone,
   beep and sweep. *)
Theorem C16_timed_calls_end_silent : forall pin tbl default ops o,
  timed o = true -> silent_guard tbl o = true ->
  get_state (fst (run pin tbl (init default) (ops ++ [o]))) = false /\
  get_frequency (fst (run pin tbl (init default) (ops ++ [o]))) = q0 /\
  sounding (snd (run pin tbl (init default) (ops ++ [o]))) = false.
Proof. exact timed_calls_end_silent. Qed.
Print Assumptions C16_timed_calls_end_silent.

(* formerly C16_beep_zero_not_silent_refuted (play_tone(440); beep(times=0) kept the tone): a beep with ANY
   count, zero and negative included, silences the pin - after any history ... *)
Theorem C16_beep_ends_silent : forall pin tbl default ops f on off times,
  get_state (fst (run pin tbl (init default) (ops ++ [Beep f on off times]))) = false /\
  get_frequency (fst (run pin tbl (init default) (ops ++ [Beep f on off times]))) = q0 /\
  sounding (snd (run pin tbl (init default) (ops ++ [Beep f on off times]))) = false.
Proof. exact (fun pin tbl default ops f on off times =>
                timed_calls_end_silent pin tbl default ops (Beep f on off times) eq_refl eq_refl). Qed.
Print Assumptions C16_beep_ends_silent.

(* ... and as a single step from any state, whatever the pin was doing before *)
Theorem C16_beep_always_silent : forall pin tbl st f on off times b,
  get_state (fst (dstep pin tbl st (Beep f on off times))) = false /\
  get_frequency (fst (dstep pin tbl st (Beep f on off times))) = q0 /\
  sounding_from b (snd (dstep pin tbl st (Beep f on off times))) = false.
Proof. exact beep_always_silent. Qed.
Print Assumptions C16_beep_always_silent.

(* every melody name the parser accepts is inside the guard on the generated emitter table *)
Theorem C16_accepted_melody_in_guard : forall name l,
  parser_melody parser_melody_names name = Some l ->
  exists t0 seq, tlookup l spec_melodies = Some (t0, seq) /\ tlookup l emitter_melodies = Some (t0, seq) /\
                 (0 < t0)%Q /\ seq <> [] /\ silent_guard emitter_melodies (Melody l None) = true.
Proof. exact accepted_melody_has_score. Qed.
Print Assumptions C16_accepted_melody_in_guard.

(* ---- beep: exactly n = max(0, trunc times) beeps; each is tone, delay(on) if on > 0, noTone;
   delay(off) if off > 0 between consecutive beeps only; one closing noTone after the loop.  The target is
   the given (else the last) frequency, counted as 0 when below 1/2; a sounded target gives tone() >= 1.  With
   a silent target the same skeleton is emitted with noTone in place of tone. *)
Theorem C16_beep_counts : forall pin tbl st f on off times,
  let target := clamph (match f with Some q => q | None => get_last_frequency st end) in
  let n := Z.to_nat (c_int times) in
  let tr := snd (dstep pin tbl st (Beep f on off times)) in
  (qlt q0 target = true ->
     tr = intercalate (dl (c_ulong off))
            (repeat (beep_block pin (tone_of target) (c_ulong on)) n) ++ [NoTone pin] /\
     tones tr = repeat (tone_of target) n /\ notones tr = S n /\ 1 <= tone_of target) /\
  (qlt q0 target = false ->
     tr = intercalate (dl (c_ulong off)) (repeat (mute_block pin (c_ulong on)) n) ++ [NoTone pin] /\
     tones tr = []).
Proof. exact beep_counts. Qed.
Print Assumptions C16_beep_counts.

Theorem C16_beep_target_given : forall f, qle qhalf f = true -> clamph f = f.
Proof. exact beep_target_given. Qed.
Print Assumptions C16_beep_target_given.

(* ---- sweep.  n = max(0, trunc steps): a sweep of `steps` steps, none when steps <= 0 (it was max(1, ..) before
   the repair of F-C16-sweep-steps-clamped; C16_sweep_nonpositive_steps below).  "Ending on the end frequency"
   needs a tone to end on, hence 1 <= n there.  The duration clause is unconditional: it was partial (d >= 0,
   floor d < 2^24) before the repair of F-C16-negative-runtime-duration and F-C16-sweep-float-duration-overshoot. *)
Theorem C16_sweep : forall pin tbl st s e d steps,
  let n := Z.max 0 (c_int steps) in
  let tr := snd (dstep pin tbl st (Sweep s e d steps)) in
  tones tr = map tone_of (positives (sweep_freqs (clamp0 s) (clamp0 e) n)) /\
  (length (tones tr) <= Z.to_nat n)%nat /\
  Forall (fun t => 1 <= t) (tones tr) /\
  (qle qhalf s = true -> qle qhalf e = true ->
     tones tr = map tone_of (sweep_freqs s e n) /\ length (tones tr) = Z.to_nat n) /\
  ((clamp0 s <= clamp0 e)%Q -> StronglySorted Z.le (tones tr)) /\
  ((clamp0 e <= clamp0 s)%Q -> StronglySorted Z.ge (tones tr)) /\
  (1 < n -> qle qhalf s = true -> hd 0 (tones tr) = tone_of s) /\
  (1 <= n -> qle qhalf e = true -> last (tones tr) 0 = tone_of e) /\
  (delay_sum tr <= Z.max 0 (Qfloor d) /\ (qle q0 d = true -> (inject_Z (delay_sum tr) <= d)%Q)) /\
  sounding_from true tr = false.
Proof. exact sweep_protocol. Qed.
Print Assumptions C16_sweep.

(* the delays one by one: every step waits max(0, floor(duration)) / steps ms (integer division), and no delay()
   is issued when that quotient is 0 (nor when there is no step: x / 0 = 0 in Z, and repeat _ 0 = []) *)
Theorem C16_sweep_delays : forall pin tbl st s e d steps,
  let n := Z.max 0 (c_int steps) in
  let q := Z.max 0 (Qfloor d) / n in
  delays (snd (dstep pin tbl st (Sweep s e d steps))) =
  if 0 <? q then repeat q (Z.to_nat n) else [].
Proof. exact sweep_delays. Qed.
Print Assumptions C16_sweep_delays.

(* formerly C16_sweep_float_duration_refuted (sweep(440, 880, 16777219, steps=1) waited 16777220 ms): for EVERY
   duration the delays of a sweep never exceed it *)
Theorem C16_sweep_duration_never_exceeded : forall pin tbl st s e d steps,
  delay_sum (snd (dstep pin tbl st (Sweep s e d steps))) <= Z.max 0 (Qfloor d).
Proof. exact (fun pin tbl st s e d steps =>
                proj1 (proj1 (proj2 (proj2 (proj2 (proj2 (proj2 (proj2 (proj2 (proj2
                  (sweep_protocol pin tbl st s e d steps))))))))))). Qed.
Print Assumptions C16_sweep_duration_never_exceeded.

(* formerly C16_sweep_negative_duration_refuted (a negative run-time duration wrapped around in the unsigned
   cast): a negative duration counts as zero - at every duration site (c_ulong is the only way a duration
   enters the model) *)
Theorem C16_sweep_negative_duration : forall pin tbl st s e d steps,
  (d < 0)%Q -> delay_sum (snd (dstep pin tbl st (Sweep s e d steps))) = 0.
Proof. exact sweep_negative_duration. Qed.
Print Assumptions C16_sweep_negative_duration.

Theorem C16_duration_ms : forall d,
  c_ulong d = Z.max 0 (Qfloor d) /\ 0 <= c_ulong d /\ (qle d q0 = true -> c_ulong d = 0).
Proof. exact (fun d => conj (c_ulong_max d) (conj (c_ulong_ge0 d) (c_ulong_nonpos d))). Qed.
Print Assumptions C16_duration_ms.

(* formerly C16_sweep_nonpositive_steps_refuted (sweep(440, 880, 50, steps=0) sounded tone(880) for 50 ms: the
   count was clamped to 1): a sweep of no steps starts no tone and does not wait - it silences the pin, nothing
   else; get_last_frequency is left alone *)
Theorem C16_sweep_nonpositive_steps : forall pin tbl st s e d steps,
  c_int steps <= 0 ->
  dstep pin tbl st (Sweep s e d steps) = (quiet st, [NoTone pin]).
Proof. exact sweep_nonpositive_steps. Qed.
Print Assumptions C16_sweep_nonpositive_steps.

(* "sweep plays `steps` tones", for EVERY count (audible ends): exactly max(0, trunc steps) of them *)
Theorem C16_sweep_tone_count : forall pin tbl st s e d steps,
  qle qhalf s = true -> qle qhalf e = true ->
  length (tones (snd (dstep pin tbl st (Sweep s e d steps)))) = Z.to_nat (c_int steps).
Proof. exact sweep_tone_count. Qed.
Print Assumptions C16_sweep_tone_count.

(* ---- melody: the generated emitter table plays the pinned score, note by note, at
   60000 / tempo ms per beat; tempo missing or <= 0 => the tune's default tempo *)
Theorem C16_melody : forall pin st name tempo t0 seq,
  tlookup name spec_melodies = Some (t0, seq) ->
  snd (dstep pin emitter_melodies st (Melody name tempo)) =
  play_score pin (Qmake 60000 1 / eff_tempo t0 tempo)%Q seq.
Proof. exact melody_plays_pinned_score. Qed.
Print Assumptions C16_melody.

Theorem C16_melody_tempo : forall t0 tempo,
  match tempo with
  | None => eff_tempo t0 tempo = t0
  | Some q => (qle q q0 = true -> eff_tempo t0 tempo = t0) /\ (qlt q0 q = true -> eff_tempo t0 tempo = q)
  end.
Proof. exact eff_tempo_cases. Qed.
Print Assumptions C16_melody_tempo.

(* ---- tables (finite, by computation on the regenerated Gen/Melodies.v) *)
Theorem C16_tables_agree :
  (forall name, In name parser_melody_names <-> In name (map fst emitter_melodies)) /\
  (forall name, tlookup name emitter_melodies = tlookup name spec_melodies) /\
  (forall name, In name parser_melody_names <-> In name spec_names) /\
  (forall name t0 seq, tlookup name emitter_melodies = Some (t0, seq) -> (0 < t0)%Q /\ seq <> []).
Proof. exact tables_agree. Qed.
Print Assumptions C16_tables_agree.

(* ---- getters: after every call sequence, get_state = "the pin is sounding", get_frequency = the
   frequency of the tone now sounding (0 when silent), get_last_frequency = the frequency of the
   last tone started (default_frequency while none has been) *)
Theorem C16_getters : forall pin tbl default ops,
  getters_ok default (fst (run pin tbl (init default) ops)) (snd (run pin tbl (init default) ops)).
Proof. exact getters_all_sequences. Qed.
Print Assumptions C16_getters.

(* ---- play_tone: an audible frequency (>= 1/2) sounds tone(round f), for exactly delay(max(0, floor d)) when a
   duration is given, then noTone; a frequency below 1/2 (zero and negative included) only issues noTone (and
   the delay).  State included. *)
Theorem C16_play_tone : forall pin tbl st f d,
  (qle qhalf f = true ->
     dstep pin tbl st (PlayTone f None) = (mkbz true f f, [Tone pin (tone_of f)]) /\
     dstep pin tbl st (PlayTone f (Some d)) =
       (mkbz false q0 f, [Tone pin (tone_of f)] ++ dl (c_ulong d) ++ [NoTone pin])) /\
  (qlt f qhalf = true ->
     dstep pin tbl st (PlayTone f None) = (quiet st, [NoTone pin]) /\
     dstep pin tbl st (PlayTone f (Some d)) = (quiet st, [NoTone pin] ++ dl (c_ulong d))).
Proof. exact play_tone_protocol. Qed.
Print Assumptions C16_play_tone.

(* ---- beep: n >= 1 beeps of a sounded target last n*on + (n-1)*off ms (negative on/off count as zero) *)
Theorem C16_beep_duration : forall pin tbl st f on off times,
  let target := clamph (match f with Some q => q | None => get_last_frequency st end) in
  let n := c_int times in
  let tr := snd (dstep pin tbl st (Beep f on off times)) in
  qlt q0 target = true -> 1 <= n ->
  delay_sum tr = n * c_ulong on + (n - 1) * c_ulong off.
Proof. exact beep_duration. Qed.
Print Assumptions C16_beep_duration.

(* ---- melody, read off the trace: the tones are the tune's sounded notes in order, the delays are
   floor(beats * 60000/tempo) note by note, one noTone per note, total length <= beats * 60000/tempo *)
Theorem C16_melody_notes : forall pin st name tempo t0 seq,
  tlookup name spec_melodies = Some (t0, seq) ->
  let beat := (Qmake 60000 1 / eff_tempo t0 tempo)%Q in
  let tr := snd (dstep pin emitter_melodies st (Melody name tempo)) in
  tones tr = map tone_of (positives (map fst seq)) /\
  delays tr = note_delays beat seq /\
  notones tr = length seq /\
  (inject_Z (delay_sum tr) <= beats_total seq * beat)%Q.
Proof. exact melody_notes. Qed.
Print Assumptions C16_melody_notes.

(* ---- get_last_frequency, exactly (not only up to rounding): after any call in any state it is the
   unrounded frequency of the last tone that call sounded, unchanged when the call sounded none *)
Theorem C16_last_frequency_exact : forall pin tbl st o,
  get_last_frequency (fst (dstep pin tbl st o)) = last_after tbl st o.
Proof. exact last_frequency_exact. Qed.
Print Assumptions C16_last_frequency_exact.

Theorem C16_last_frequency_sweep : forall pin tbl st s e d steps,
  1 <= c_int steps -> qle qhalf e = true ->
  (get_last_frequency (fst (dstep pin tbl st (Sweep s e d steps))) == e)%Q.
Proof. exact last_frequency_sweep. Qed.
Print Assumptions C16_last_frequency_sweep.

(* ---- width of the tone() argument.  The model has no machine integers; this states the guard inside
   which that is harmless for the frequency: if default_frequency, every frequency argument and every
   note of the table are <= M then every tone() argument lies in [0, round M] - in any call sequence *)
Theorem C16_tone_value_bounded : forall pin tbl M default ops,
  (0 <= M)%Q -> table_le M tbl = true -> qle default M = true -> forallb (freq_le M) ops = true ->
  Forall (tone_le (tone_of M)) (snd (run pin tbl (init default) ops)).
Proof. exact tone_value_bounded. Qed.
Print Assumptions C16_tone_value_bounded.

(* on the generated table: frequencies <= 65535 never overflow the 16-bit unsigned int of an AVR *)
Theorem C16_tone_fits_16_bits : forall pin default ops,
  qle default (Qmake 65535 1) = true -> forallb (freq_le (Qmake 65535 1)) ops = true ->
  Forall (fun e => match e with Tone _ t => 0 <= t < 2 ^ 16 | _ => True end)
         (snd (run pin emitter_melodies (init default) ops)).
Proof. exact tone_fits_16_bits. Qed.
Print Assumptions C16_tone_fits_16_bits.

Theorem C16_tone_fits_16_bits_guard_needed :
  exists pin default ops,
    Exists (fun e => match e with Tone _ t => 2 ^ 16 <= t | _ => False end)
           (snd (run pin emitter_melodies (init default) ops)).
Proof. exact tone_fits_16_bits_guard_needed. Qed.
Print Assumptions C16_tone_fits_16_bits_guard_needed.

(* ---- tone(pin, 0).  "A frequency <= 0 never starts a tone", read on the pin.  Formerly
   C16_tone_zero_refuted (play_tone(0.25) issued tone(pin, 0)): a frequency below 1/2 is silence ... *)
Theorem C16_subhalf_is_silent : forall pin tbl st f,
  qlt f qhalf = true ->
  snd (dstep pin tbl st (PlayTone f None)) = [NoTone pin] /\
  get_state (fst (dstep pin tbl st (PlayTone f None))) = false /\
  get_last_frequency (fst (dstep pin tbl st (PlayTone f None))) = get_last_frequency st.
Proof. exact subhalf_is_silent. Qed.
Print Assumptions C16_subhalf_is_silent.

Theorem C16_tone_zero_iff : forall f, (0 < f)%Q -> (tone_of f = 0 <-> (f < 1 # 2)%Q).
Proof. exact tone_zero_iff. Qed.
Print Assumptions C16_tone_zero_iff.

(* ... and no call ever issues tone(pin, 0): every tone() argument is >= 1.  The one hypothesis concerns the
   score table (the notes of a melody are not clamped by the firmware): no note in (0, 1/2) *)
Theorem C16_no_zero_tone : forall pin tbl st o,
  half_guard tbl o = true ->
  Forall (fun t => 1 <= t) (tones (snd (dstep pin tbl st o))).
Proof. exact no_zero_tone. Qed.
Print Assumptions C16_no_zero_tone.

Theorem C16_no_zero_tone_sequences : forall pin tbl st ops,
  forallb (half_guard tbl) ops = true ->
  Forall (fun t => 1 <= t) (tones (snd (run pin tbl st ops))).
Proof. exact no_zero_tone_sequences. Qed.
Print Assumptions C16_no_zero_tone_sequences.

Theorem C16_generated_melodies_in_half_guard : table_audible emitter_melodies = true.
Proof. exact generated_melodies_audible. Qed.
Print Assumptions C16_generated_melodies_in_half_guard.

(* on the generated table, unconditionally: from any state, any call sequence, any arguments *)
Theorem C16_no_zero_tone_generated : forall pin st ops,
  Forall (fun t => 1 <= t) (tones (snd (run pin emitter_melodies st ops))).
Proof. exact no_zero_tone_generated. Qed.
Print Assumptions C16_no_zero_tone_generated.

(* ---- every sound is bounded: for ALL arguments the time a call spends in delay() is at most what its
   arguments say, a negative duration counting as zero (play_tone: duration_ms; beep: n*on + (n-1)*off, exactly;
   sweep: duration_ms; melody: beats * 60000/tempo); an untimed play_tone and stop() never delay *)
Theorem C16_every_call_bounded : forall pin st o,
  (inject_Z (delay_sum (snd (dstep pin emitter_melodies st o))) <= duration_bound emitter_melodies o)%Q.
Proof. exact every_call_bounded. Qed.
Print Assumptions C16_every_call_bounded.

Theorem C16_beep_duration_general : forall pin tbl st f on off times,
  let n := Z.max 0 (c_int times) in
  delay_sum (snd (dstep pin tbl st (Beep f on off times))) = n * c_ulong on + Z.max 0 (n - 1) * c_ulong off.
Proof. exact beep_duration_general. Qed.
Print Assumptions C16_beep_duration_general.

(* ---- when is the pin left sounding?  After ANY call sequence on a fresh buzzer: only if the last call
   that emitted code at all was an untimed play_tone(f) with f > 0 (everything after it is a melody without
   score in the table - no call the parser accepts); and then
   get_frequency() = get_last_frequency() = f exactly.  Every other sound has been stopped. *)
Theorem C16_sounding_characterised : forall pin tbl default ops,
  sounding (snd (run pin tbl (init default) ops)) = true ->
  exists pre f post,
    ops = pre ++ [PlayTone f None] ++ post /\ (0 < f)%Q /\ forallb (noop_call tbl) post = true /\
    get_frequency (fst (run pin tbl (init default) ops)) = f /\
    get_last_frequency (fst (run pin tbl (init default) ops)) = f.
Proof. exact sounding_characterised. Qed.
Print Assumptions C16_sounding_characterised.

(* ---- non-vacuity *)
Definition q (n : Z) : Q := Qmake n 1.

(* a sounding state is reachable and the getters say so; a non-positive call is possible *)
Example C16_nonvacuous_getters :
  let r := run 8 emitter_melodies (init (q 440)) [PlayTone (Qmake 2202 5) None] in
  sounding (snd r) = true /\ get_state (fst r) = true /\ last_tone (snd r) = Some 440 /\
  nonpositive_call (PlayTone (q (-5)) (Some (q 50))) = true /\
  snd (dstep 8 emitter_melodies (fst r) (PlayTone (q (-5)) (Some (q 50)))) = [NoTone 8; Delay 50].
Proof. vm_compute. repeat split. Qed.
Print Assumptions C16_nonvacuous_getters.

(* the guard of the timed-call theorem is satisfiable after a tone was left running; the former witness of
   F-C16-beep-zero-keeps-tone (play_tone(440); beep(times=0)) now ends with noTone and get_state() false *)
Example C16_nonvacuous_timed :
  timed (Beep None (q 10) (q 5) (q 3)) = true /\
  silent_guard emitter_melodies (Beep None (q 10) (q 5) (q 3)) = true /\
  snd (run 8 emitter_melodies (init (q 440)) ([PlayTone (q 660) None] ++ [Beep None (q 10) (q 5) (q 3)]))
  = [Tone 8 660; Tone 8 660; Delay 10; NoTone 8; Delay 5; Tone 8 660; Delay 10; NoTone 8; Delay 5;
     Tone 8 660; Delay 10; NoTone 8; NoTone 8] /\
  run 8 emitter_melodies (init (q 440)) ([PlayTone (q 440) None] ++ [Beep None (q 100) (q 100) (q 0)])
  = (mkbz false q0 (q 440), [Tone 8 440; NoTone 8]) /\
  silent_guard emitter_melodies (Melody n_siren None) = true /\
  silent_guard emitter_melodies (Melody [120] None) = false.
Proof. vm_compute. repeat split. Qed.
Print Assumptions C16_nonvacuous_timed.

Example C16_nonvacuous_sweep :
  let tr := snd (dstep 8 emitter_melodies (init (q 440)) (Sweep (q 440) (q 880) (q 50) (q 5))) in
  tones tr = [440; 550; 660; 770; 880] /\ delay_sum tr = 50 /\
  tones (snd (dstep 8 emitter_melodies (init (q 440)) (Sweep (q 440) (q (-5)) (q 50) (q 5))))
  = [440; 330; 220; 110] /\
  (* the former witness of F-C16-sweep-steps-clamped, and one step *)
  dstep 8 emitter_melodies (mkbz true (q 660) (q 660)) (Sweep (q 440) (q 880) (q 50) (q 0))
  = (mkbz false q0 (q 660), [NoTone 8]) /\
  snd (dstep 8 emitter_melodies (init (q 440)) (Sweep (q 440) (q 880) (q 50) (q (-3)))) = [NoTone 8] /\
  snd (dstep 8 emitter_melodies (init (q 440)) (Sweep (q 440) (q 880) (q 50) (q 1)))
  = [Tone 8 880; Delay 50; NoTone 8].
Proof. vm_compute. repeat split. Qed.
Print Assumptions C16_nonvacuous_sweep.

Example C16_nonvacuous_melody :
  tlookup n_notify spec_melodies = Some (bpm 240, [(G5, quarter); (rest, quarter); (G5, half)]) /\
  snd (dstep 8 emitter_melodies (init (q 440)) (Melody n_notify (Some (q (-10)))))
  = [Tone 8 784; Delay 62; NoTone 8; NoTone 8; Delay 62; Tone 8 784; Delay 125; NoTone 8] /\
  parser_melody parser_melody_names [83;105;114;101;110] (* "Siren" *) = Some n_siren /\
  parser_melody parser_melody_names [98;101;101;112] (* "beep" *) = None.
Proof. vm_compute. repeat split. Qed.
Print Assumptions C16_nonvacuous_melody.

Example C16_nonvacuous_batch2 :
  snd (dstep 8 emitter_melodies (init (q 440)) (PlayTone (Qmake 881 2) (Some (Qmake 5 2))))
    = [Tone 8 441; Delay 2; NoTone 8] /\
  delay_sum (snd (dstep 8 emitter_melodies (init (q 440)) (Beep None (q 10) (q 5) (q 3)))) = 40 /\
  delays (snd (dstep 8 emitter_melodies (init (q 440)) (Melody n_siren (Some (q 90)))))
    = [500; 500; 500; 500; 500; 500] /\
  last_after emitter_melodies (init (q 440)) (Melody n_error None) = C4 /\
  (last_after emitter_melodies (init (q 440)) (Sweep (q 440) (q (-5)) (q 50) (q 5)) == q 110)%Q /\
  last_after emitter_melodies (init (q 440)) (Beep (Some (q 600)) (q 1) (q 1) (q 0)) = q 440.
Proof. vm_compute. repeat split. Qed.
Print Assumptions C16_nonvacuous_batch2.

Example C16_nonvacuous_bounded :
  freq_le (q 65535) (Sweep (q 440) (q 65535) (q 50) (q 5)) = true /\
  freq_le (q 65535) (PlayTone (q 65536) None) = false /\
  table_le (q 65535) emitter_melodies = true /\ table_le (q 500) emitter_melodies = false /\
  tones (snd (dstep 8 emitter_melodies (init (q 440)) (Sweep (q 440) (q 65535) (q 50) (q 3))))
    = [440; 32988; 65535].
Proof. vm_compute. repeat split. Qed.
Print Assumptions C16_nonvacuous_bounded.

(* the former witnesses of F-C16-subhalf-frequency-tone-zero: play_tone(0.25) is silent, and the sweep 1 -> 0
   stops sounding once the interpolated frequency falls below 1/2 (it used to end with tone(8, 0)) *)
Example C16_nonvacuous_half_guard :
  half_guard emitter_melodies (Melody n_notify None) = true /\
  half_guard [([120], (q 100, [(Qmake 1 4, q 1)]))] (Melody [120] None) = false /\
  dstep 8 emitter_melodies (init (q 440)) (PlayTone (Qmake 1 4) None) = (mkbz false q0 (q 440), [NoTone 8]) /\
  tones (snd (dstep 8 emitter_melodies (init (q 440)) (Sweep (q 1) (q 0) (q 50) (q 5)))) = [1; 1; 1] /\
  tones (snd (dstep 8 emitter_melodies (init (Qmake 1 4)) (Beep None (q 1) (q 1) (q 2)))) = [] /\
  tones (snd (dstep 8 emitter_melodies (init (q 440)) (Beep (Some (Qmake 1 2)) (q 1) (q 1) (q 2)))) = [1; 1].
Proof. vm_compute. repeat split. Qed.
Print Assumptions C16_nonvacuous_half_guard.

(* the former witnesses of F-C16-negative-runtime-duration and F-C16-sweep-float-duration-overshoot *)
Example C16_nonvacuous_bounded_calls :
  (duration_bound emitter_melodies (Melody n_siren (Some (q 90))) == q 3000)%Q /\
  delay_sum (snd (dstep 8 emitter_melodies (init (q 440)) (Melody n_siren (Some (q 90))))) = 3000 /\
  delay_sum (snd (dstep 8 emitter_melodies (init (q 440)) (Sweep (q 440) (q 880) (q 50) (q 3)))) = 48 /\
  snd (dstep 8 emitter_melodies (init (q 440)) (Sweep (q 440) (q 880) (q (-1)) (q 2)))
    = [Tone 8 440; Tone 8 880; NoTone 8] /\
  snd (dstep 8 emitter_melodies (init (q 440)) (Sweep (q 440) (q 880) (q 16777219) (q 1)))
    = [Tone 8 880; Delay 16777219; NoTone 8] /\
  delays (snd (dstep 8 emitter_melodies (init (q 440)) (Sweep (q 440) (q 880) (q 33554435) (q 2))))
    = [16777217; 16777217] /\
  snd (dstep 8 emitter_melodies (init (q 440)) (PlayTone (q 440) (Some (q (-1))))) = [Tone 8 440; NoTone 8] /\
  (duration_bound emitter_melodies (PlayTone (q 440) (Some (q (-1)))) == 0)%Q /\
  delay_sum (snd (dstep 8 emitter_melodies (init (q 440)) (Beep None (q (-1)) (Qmake 5 2) (q 3)))) = 4.
Proof. vm_compute. repeat split. Qed.
Print Assumptions C16_nonvacuous_bounded_calls.

Example C16_nonvacuous_sounding :
  let ops := [Sweep (q 440) (q 880) (q 50) (q 3); PlayTone (Qmake 881 2) None; Melody [120] None] in
  sounding (snd (run 8 emitter_melodies (init (q 440)) ops)) = true /\
  noop_call emitter_melodies (Melody [120] None) = true /\
  noop_call emitter_melodies (Beep None (q 1) (q 1) (q 0)) = false /\
  noop_call emitter_melodies (Melody n_siren None) = false /\
  get_frequency (fst (run 8 emitter_melodies (init (q 440)) ops)) = Qmake 881 2.
Proof. vm_compute. repeat split. Qed.
Print Assumptions C16_nonvacuous_sounding.
