(* C17 - placeholder while the models are being tied to the code *)
From Coq Require Import ZArith List Bool.
From RV Require Import Base.LcdBase Host.LCD Device.DLCD Device.LCDRefine.
Import ListNotations.
Open Scope Z_scope.

Example C17_nonvacuous : fitsb {| g_cols := 16; g_rows := 2; g_i2c := false; g_blpin := None |} = true.
Proof. vm_compute. reflexivity. Qed.
Print Assumptions C17_nonvacuous.
