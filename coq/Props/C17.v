(* C17 - LCD text: same characters in the same cells on device and host, never off-row.
   Nothing but statements, closed by [exact], each followed by Print Assumptions.

   Models (definitions only):
     Host/LCD.v       hlcd, hinit, hstep (write/line/message/clear/progress/display/backlight/
                      brightness/glyph of Displays/LCD.py), hrun (a history; failed calls keep
                      what they left), hfilled (round-half-even on the exact ratio), hwidth
     Device/DLCD.v    dlcd over the 128-byte DDRAM of the mock LiquidCrystal / LiquidCrystal_I2C
                      (row offsets, setCursor row clamp of either library, address wrap), the
                      three helper templates of LCD_HELPER_SNIPPET and the per-node emitter code:
                      dinit, dstep (None = the transpiler rejects the call; texts enter as the
                      UTF-8 bytes of the string literal), dstep', drun,
                      cells (the visible matrix), d_log (event log, newest first), dfilled, dwidth
     Device/LCDRefine.v  shows h d: same declaration, host buffer well-shaped and
                      cells d = host buffer (U+2588 identified with 0xFF);  agrees = shows +
                      backlight shadow state / pin level + glyph table;  op_guard (executable
                      guard of the _partial theorems, also the generator filter of the harness);
                      geo_guard (row/column in range only); touched (rows a call may write)
   fitsb g: 1 <= cols <= 40, 1 <= rows <= 4 and (rows <= 2 or cols <= 20) - the geometries
   whose rows do not alias in the DDRAM of one HD44780 (C17_geometry_refuted for the others).

   Repaired in Reduino (fix: commit, known_findings kind=fixed), models and theorems follow the
   repaired code: message(bottom=..) on a one-row display (the emitter now guards the bottom
   write with `rows > 1`, as the host does) and progress with width <= 0 / max_value <= 0
   (__redu_lcd_progress now clamps width into 1..cols and draws an empty bar for
   max_value <= 0, as the host does).  The former C17_message_one_row_refuted,
   C17_progress_width_refuted, C17_progress_max_refuted are replaced by the universally
   quantified statements they contradicted (C17_message_one_row, C17_progress_same_bar,
   C17_progress_bar_within_one); the guards of the message / progress theorems are gone.

   Host/LCDFloat.v   the binary64 arithmetic CPython really executes in LCD.progress():
                      fl53 (nearest binary64 number, ties to even, unbounded exponent), hratio_fl,
                      hfilled_fl = round(fl53(clamp01(fl53(value/max_value)) * width)), ptie (the
                      exact .5 ties), hstep_fl (hstep with that arithmetic).  The section
                      "progress bar arithmetic in binary64" below proves the four laws of the
                      statement for it, for every bar width an LCD can have (1..40). *)
From Coq Require Import ZArith QArith List Bool.
From RV Require Import Base.LcdBase Host.LCD Device.DLCD Device.LCDRefine
  Proofs.LCDHostP Proofs.LCDDevP Proofs.LCDP Proofs.LCDTop Gen.LcdTables Proofs.LCDTablesP
  Host.LCDFloat Proofs.LCDFloatP Proofs.LCDFloatLawsP Proofs.LCDFloatTop.
Import ListNotations.
Open Scope Z_scope.

(* ===================================================== device = host, call by call *)

(* write(col, row, text, clear_row=, align=): every text (empty, shorter, equal, longer than
   the space), the three alignments, both clear flags, every in-range row and column *)
Theorem C17_write_refines : forall h d col row text clear align,
  fitsb (d_g d) = true -> shows h d ->
  0 <= row < d_rows d -> 0 <= col < d_cols d -> ascii text -> align_ok align = true ->
  exists h' d', hstep h (OWrite col row text clear align) = (h', HOk) /\
                dstep d (OWrite col row text clear align) = Some d' /\ shows h' d'.
Proof. exact top_write_refines. Qed.
Print Assumptions C17_write_refines.

Theorem C17_line_refines : forall h d row text align clear,
  fitsb (d_g d) = true -> shows h d ->
  0 <= row < d_rows d -> ascii text -> align_ok align = true ->
  exists h' d', hstep h (OLine row text align clear) = (h', HOk) /\
                dstep d (OLine row text align clear) = Some d' /\ shows h' d'.
Proof. exact top_line_refines. Qed.
Print Assumptions C17_line_refines.

(* message: every top / bottom text on every display, also bottom on a one-row display
   (both sides skip it) *)
Theorem C17_message_refines : forall h d top bottom ta ba clear,
  fitsb (d_g d) = true -> shows h d -> opt_asciib top = true -> opt_asciib bottom = true ->
  align_ok ta = true -> align_ok ba = true ->
  exists h' d', hstep h (OMessage top bottom ta ba clear) = (h', HOk) /\
                dstep d (OMessage top bottom ta ba clear) = Some d' /\ shows h' d'.
Proof. exact top_message_refines. Qed.
Print Assumptions C17_message_refines.

(* one-row display (formerly F-C17-message-one-row): in every state, with every argument,
   both sides treat message(top, bottom) as message(top, None) *)
Theorem C17_message_one_row_skips : forall h d top bottom ta ba clear,
  (h_rows h <= 1 -> hstep h (OMessage top bottom ta ba clear) = hstep h (OMessage top None ta ba clear)) /\
  (d_rows d <= 1 -> dstep d (OMessage top bottom ta ba clear) = dstep d (OMessage top None ta ba clear)).
Proof. exact top_message_one_row_skips. Qed.
Print Assumptions C17_message_one_row_skips.

(* the statement the former C17_message_one_row_refuted contradicted: every one-row geometry,
   every pair of ASCII texts, alignments, clear flag - the display shows the host buffer,
   which holds top only *)
Theorem C17_message_one_row : forall g h0 t b ta ba c,
  fitsb g = true -> g_rows g = 1 -> hinit g = Some h0 ->
  asciib t = true -> asciib b = true -> align_ok ta = true -> align_ok ba = true ->
  let op := OMessage (Some t) (Some b) ta ba c in
  snd (hstep h0 op) = HOk /\ dstep (dinit g) op <> None /\
  cells (dstep' (dinit g) op) = map (map canon) (h_buf (fst (hstep h0 op))) /\
  hstep h0 op = hstep h0 (OLine 0 t ta c).
Proof. exact top_message_one_row. Qed.
Print Assumptions C17_message_one_row.

(* clear: whatever was shown before *)
Theorem C17_clear_refines : forall h d,
  fitsb (d_g d) = true -> h_g h = d_g d ->
  exists h' d', hstep h OClear = (h', HOk) /\ dstep d OClear = Some d' /\ shows h' d' /\
    forall r c, 0 <= r < d_rows d -> 0 <= c < d_cols d -> dcell d' r c = SP.
Proof. exact top_clear_refines. Qed.
Print Assumptions C17_clear_refines.

(* progress, every value, max_value (also <= 0) and width (None, <= 0, 1..cols, > cols): the
   rendered rows coincide whenever the two filled lengths do (the statement lets them differ
   by one cell otherwise: C17_progress_within_one) *)
Theorem C17_progress_refines_partial : forall h d row value maxv width style label,
  fitsb (d_g d) = true -> shows h d -> 0 <= row < d_rows d -> style_ok style = true -> ascii label ->
  hfilled value maxv (hwidth (d_cols d) width) = dfilled value maxv (dwidth (d_cols d) width) ->
  exists h' d', hstep h (OProgress row value maxv width style label) = (h', HOk) /\
                dstep d (OProgress row value maxv width style label) = Some d' /\ shows h' d'.
Proof. exact top_progress_refines. Qed.
Print Assumptions C17_progress_refines_partial.

(* ... in particular whenever value*width is a multiple of max_value, whatever max_value and
   the width argument are *)
Theorem C17_progress_refines_exact : forall h d row value maxv width style label,
  fitsb (d_g d) = true -> shows h d -> 0 <= row < d_rows d -> style_ok style = true -> ascii label ->
  (maxv | value * hwidth (d_cols d) width) ->
  exists h' d', hstep h (OProgress row value maxv width style label) = (h', HOk) /\
                dstep d (OProgress row value maxv width style label) = Some d' /\ shows h' d'.
Proof. exact top_progress_refines_exact. Qed.
Print Assumptions C17_progress_refines_exact.

(* the declaration code leaves both sides blank, backlight on at 255, no glyphs *)
Theorem C17_init_agrees : forall g h0, fitsb g = true -> hinit g = Some h0 -> agrees h0 (dinit g).
Proof. exact top_init_agrees. Qed.
Print Assumptions C17_init_agrees.

(* one guarded call keeps cells, backlight and glyph agreement *)
Theorem C17_step_refines_partial : forall h d op,
  fits (d_g d) -> agrees h d -> op_guard (d_g d) op = true ->
  exists h' d', hstep h op = (h', HOk) /\ dstep d op = Some d' /\ agrees h' d' /\ d_g d' = d_g d.
Proof. exact step_refines. Qed.
Print Assumptions C17_step_refines_partial.

(* every history of guarded calls of any length, from the declaration on: no call raises on
   the host, and display, backlight level and glyphs agree at the end *)
Theorem C17_history_refines_partial : forall g h0 ops,
  fitsb g = true -> hinit g = Some h0 -> forallb (op_guard g) ops = true ->
  hsteps_ok h0 ops /\ agrees (hrun h0 ops) (drun (dinit g) ops).
Proof. exact top_history_refines. Qed.
Print Assumptions C17_history_refines_partial.

(* geometries of the quantifier that do not fit one controller: rows alias (F-C17-geometry) *)
Theorem C17_geometry_refuted :
  exists g col row text,
    1 <= g_cols g <= 40 /\ 1 <= g_rows g <= 4 /\ fitsb g = false /\
    row_in g row = true /\ col_in g col = true /\ asciib text = true /\
    match hinit g with
    | Some h0 =>
        let op := OWrite col row text false 0 in
        snd (hstep h0 op) = HOk /\ dstep (dinit g) op <> None /\
        cells (dstep' (dinit g) op) <> map (map canon) (h_buf (fst (hstep h0 op)))
    | None => False
    end.
Proof. exact top_geometry_refuted. Qed.
Print Assumptions C17_geometry_refuted.

(* non-ASCII text: the firmware counts, cuts and prints the UTF-8 bytes of the literal, the
   host code points - alignment and truncation differ (F-C17-non-ascii); hence [ascii] above *)
Theorem C17_non_ascii_refuted :
  exists g col row text align,
    fitsb g = true /\ row_in g row = true /\ col_in g col = true /\ align_ok align = true /\ asciib text = false /\
    match hinit g with
    | Some h0 =>
        let op := OWrite col row text true align in
        snd (hstep h0 op) = HOk /\ dstep (dinit g) op <> None /\
        cells (dstep' (dinit g) op) <> map (map canon) (h_buf (fst (hstep h0 op)))
    | None => False
    end.
Proof. exact top_non_ascii_refuted. Qed.
Print Assumptions C17_non_ascii_refuted.

(* same alignment and truncation: the host's column and the firmware's offset coincide,
   and the (truncated) text ends inside the display *)
Theorem C17_same_alignment : forall cols col len align,
  0 <= col < cols -> 0 <= len <= cols - col -> align_ok align = true ->
  place_col cols col (cols - col) len align = dev_offset cols col (cols - col) len align /\
  col <= dev_offset cols col (cols - col) len align /\
  dev_offset cols col (cols - col) len align + len <= cols.
Proof. exact offset_eq. Qed.
Print Assumptions C17_same_alignment.

(* what a write leaves in every cell, any text (no ASCII restriction): the text cut to the
   space right of [col] ([trunc] = its first cols-col characters) sits at the aligned offset,
   the rest of the row is blank (clear) or as before, other rows as before - host ... *)
Theorem C17_write_cells_host : forall h col row text clear align,
  buf_wf (h_cols h) (h_rows h) (h_buf h) ->
  0 <= row < h_rows h -> 0 <= col < h_cols h -> align_ok align = true ->
  let content := trunc text (h_cols h - col) in
  let off := place_col (h_cols h) col (h_cols h - col) (zlen content) align in
  exists h', hwrite h col row text clear align = (h', HOk) /\ same_flags h h' /\
    buf_wf (h_cols h) (h_rows h) (h_buf h') /\
    forall r c, 0 <= r < h_rows h -> 0 <= c < h_cols h ->
      hcell h' r c = if r =? row
                     then if (off <=? c) && (c <? off + zlen content) then znth (c - off) content 0
                          else if clear then SP else hcell h r c
                     else hcell h r c.
Proof. exact hwrite_spec. Qed.
Print Assumptions C17_write_cells_host.

(* ... and firmware helper (text = the bytes handed to __redu_lcd_write_aligned) *)
Theorem C17_write_cells_device : forall d col row text clear align,
  fits (d_g d) -> 0 <= row < d_rows d -> 0 <= col < d_cols d -> align_ok align = true ->
  let content := trunc text (d_cols d - col) in
  let off := dev_offset (d_cols d) col (d_cols d - col) (zlen content) align in
  let d' := write_aligned d (d_cols d) col row text clear align in
  d_g d' = d_g d /\ in_row_ext row d d' /\
  forall r c, 0 <= r < d_rows d -> 0 <= c < d_cols d ->
    dcell d' r c = if r =? row
                   then if (off <=? c) && (c <? off + zlen content) then znth (c - off) content 0
                        else if clear then SP else dcell d r c
                   else dcell d r c.
Proof. exact write_aligned_spec. Qed.
Print Assumptions C17_write_cells_device.

(* ===================================================== never off-row, never beyond the width *)

(* firmware: any call with in-range row/column (any text, also non-ASCII; any value,
   max_value, width): every cell write lands in a row the call names and in a column
   0 <= c < cols, and all other rows keep their cells *)
Theorem C17_in_row : forall d op d',
  fitsb (d_g d) = true -> geo_guard (d_g d) op = true -> dstep d op = Some d' ->
  d_g d' = d_g d /\
  (exists evs, d_log d' = evs ++ d_log d /\ Forall (ev_in_rows (touched (d_g d) op) (d_cols d)) evs) /\
  (forall r c, 0 <= r < d_rows d -> 0 <= c < d_cols d -> ~ In r (touched (d_g d) op) -> dcell d' r c = dcell d r c).
Proof. exact dev_in_row. Qed.
Print Assumptions C17_in_row.

(* host: every call, every argument (also failing calls): rows the call does not name are
   untouched *)
Theorem C17_in_row_host : forall h op r,
  0 <= r < h_rows h -> ~ In r (touched (h_g h) op) -> hrow (fst (hstep h op)) r = hrow h r.
Proof. exact host_other_rows. Qed.
Print Assumptions C17_in_row_host.

(* host: every history, every argument: the buffer always has rows rows of exactly cols cells *)
Theorem C17_host_shape : forall ops g h0, hinit g = Some h0 ->
  h_g (hrun h0 ops) = g /\ buf_wf (g_cols g) (g_rows g) (h_buf (hrun h0 ops)).
Proof. exact host_shape. Qed.
Print Assumptions C17_host_shape.

(* ===================================================== progress bar arithmetic *)
(* w = total bar width, always within 1..cols (C17_progress_width_agree); every max_value *)

Theorem C17_progress_monotone : forall v1 v2 m w, 1 <= w -> v1 <= v2 ->
  hfilled v1 m w <= hfilled v2 m w /\ dfilled v1 m w <= dfilled v2 m w.
Proof. exact progress_monotone. Qed.
Print Assumptions C17_progress_monotone.

(* saturates at 0 (value <= 0; every value when max_value <= 0) and at the bar width *)
Theorem C17_progress_saturates : forall v m w, 1 <= w ->
  0 <= hfilled v m w <= w /\ 0 <= dfilled v m w <= w /\
  (v <= 0 \/ m <= 0 -> hfilled v m w = 0 /\ dfilled v m w = 0) /\
  (0 < m <= v -> hfilled v m w = w /\ dfilled v m w = w).
Proof. exact progress_saturates. Qed.
Print Assumptions C17_progress_saturates.

Theorem C17_progress_exact : forall v m w, 1 <= w -> (m | v * w) -> hfilled v m w = dfilled v m w.
Proof. exact progress_exact. Qed.
Print Assumptions C17_progress_exact.

Theorem C17_progress_within_one : forall v m w, 1 <= w -> 0 <= hfilled v m w - dfilled v m w <= 1.
Proof. exact progress_within_one. Qed.
Print Assumptions C17_progress_within_one.

(* both sides use the same bar width for every width argument: None, <= 0 (one cell),
   1..cols, > cols (the whole row) *)
Theorem C17_progress_width_agree : forall cols width, 1 <= cols ->
  dwidth cols width = hwidth cols width /\ 1 <= hwidth cols width <= cols.
Proof. exact width_agree. Qed.
Print Assumptions C17_progress_width_agree.

(* the statements the former C17_progress_width_refuted / C17_progress_max_refuted
   contradicted (bar_gap = |host filled - firmware filled| with each side's own width
   normalisation): for every width argument and every max_value the two bars are identical
   whenever value*width is a multiple of max_value, and never more than one cell apart *)
Theorem C17_progress_same_bar : forall cols value maxv width, 1 <= cols ->
  (maxv | value * hwidth cols width) -> bar_gap cols value maxv width = 0.
Proof. exact top_progress_same_bar. Qed.
Print Assumptions C17_progress_same_bar.

Theorem C17_progress_bar_within_one : forall cols value maxv width, 1 <= cols ->
  bar_gap cols value maxv width <= 1.
Proof. exact top_progress_bar_within_one. Qed.
Print Assumptions C17_progress_bar_within_one.


(* ===================================================== progress bar arithmetic in binary64 *)
(* The theorems above round the exact rational value*width/max_value.  CPython computes
   ratio = float(value)/float(max_value) and ratio*width in binary64, each operation rounded to
   the nearest representable number (fl53), and round()s that.  The laws of the statement hold
   for this arithmetic as well - a wrong rounding mode, a truncation or a reordering of the
   float operations in LCD.progress() is a different function (the harness runs hfilled_fl
   against the real class on every bar width x max_value x value of a grid). *)

(* the nearest binary64 number is within 2^-53 relative of the rational it rounds *)
Theorem C17_fl53_error : forall q : Q, (0 <= q)%Q ->
  (q - q * (1 # 9007199254740992) <= fl53 q /\ fl53 q <= q + q * (1 # 9007199254740992))%Q.
Proof. exact fl53_nonneg_err. Qed.
Print Assumptions C17_fl53_error.

(* identical on both sides whenever value*width is a multiple of max_value: every value, every
   max_value (also <= 0), every bar width *)
Theorem C17_progress_float_exact : forall v m w, 1 <= w <= 40 -> (m | v * w) ->
  hfilled_fl v m w = dfilled v m w.
Proof. exact top_fl_exact. Qed.
Print Assumptions C17_progress_float_exact.

(* never more than one cell apart (and the host never below the firmware) *)
Theorem C17_progress_float_within_one : forall v m w, 1 <= w <= 40 ->
  0 <= hfilled_fl v m w - dfilled v m w <= 1.
Proof. exact top_fl_within_one. Qed.
Print Assumptions C17_progress_float_within_one.

Theorem C17_progress_float_saturates : forall v m w, 1 <= w <= 40 ->
  0 <= hfilled_fl v m w <= w /\ (v <= 0 \/ m <= 0 -> hfilled_fl v m w = 0) /\ (0 < m <= v -> hfilled_fl v m w = w).
Proof. exact top_fl_saturates. Qed.
Print Assumptions C17_progress_float_saturates.

(* monotone in value; guard: max_value below 2^45 (the proof uses only the error bound of
   fl53: two different exact quotients are at least 1/max_value apart) *)
Theorem C17_progress_float_monotone_partial : forall v1 v2 m w, 1 <= w <= 40 -> m < 2 ^ 45 -> v1 <= v2 ->
  hfilled_fl v1 m w <= hfilled_fl v2 m w.
Proof. exact top_fl_monotone. Qed.
Print Assumptions C17_progress_float_monotone_partial.

(* off the exact .5 ties binary64 and exact-rational rounding give the same bar ... *)
Theorem C17_progress_float_faithful_partial : forall v m w, 1 <= w <= 40 -> 0 < m < 2 ^ 45 ->
  ptie v m w = false -> hfilled_fl v m w = hfilled v m w.
Proof. exact top_fl_faithful. Qed.
Print Assumptions C17_progress_float_faithful_partial.

(* ... at a tie they need not: 15/22 of 11 cells is 7.5 exactly, the exact rounding gives 8,
   binary64 7 (and so does CPython; both are within one cell of the firmware's 7) *)
Theorem C17_progress_float_tie_differs :
  exists v m w, 1 <= w <= 40 /\ 0 < m < 2 ^ 45 /\ ptie v m w = true /\
    hfilled_fl v m w <> hfilled v m w /\ hfilled_fl v m w = dfilled v m w.
Proof. exists 15, 22, 11. vm_compute. repeat split; try discriminate; intro H; discriminate H. Qed.
Print Assumptions C17_progress_float_tie_differs.

(* a whole progress call with the binary64 arithmetic, value*width a multiple of max_value:
   the display shows the host buffer afterwards *)
Theorem C17_progress_refines_float : forall h d row value maxv width style label,
  fitsb (d_g d) = true -> shows h d -> 0 <= row < d_rows d -> style_ok style = true -> ascii label ->
  (maxv | value * hwidth (d_cols d) width) ->
  exists h' d', hstep_fl h (OProgress row value maxv width style label) = (h', HOk) /\
                dstep d (OProgress row value maxv width style label) = Some d' /\ shows h' d'.
Proof. exact top_progress_refines_float. Qed.
Print Assumptions C17_progress_refines_float.

(* every other call is the same function *)
Theorem C17_float_other_calls : forall h op,
  (forall row value maxv width style label, op <> OProgress row value maxv width style label) ->
  hstep_fl h op = hstep h op.
Proof. exact hstep_fl_other. Qed.
Print Assumptions C17_float_other_calls.

(* non-vacuity: the fractions a truncating host loses (15/22 of 22 cells is 14.999999999999998
   in binary64 before round()), a non-multiple, and 0.1 as a binary64 number *)
Example C17_ex_float :
  hfilled_fl 15 22 22 = 15 /\ hfilled_fl 13 23 23 = 13 /\ hfilled_fl 45 78 26 = 15 /\ hfilled_fl 31 39 39 = 31 /\
  hfilled_fl 1 2 3 = 2 /\ dfilled 1 2 3 = 1 /\ ptie 1 2 3 = true /\ ptie 15 22 22 = false /\
  (fl53 (1 # 10) = 3602879701896397 # 36028797018963968)%Q /\
  (fl53 (hratio_fl 15 22 * inject_Z 22) == 8444249301319679 # 562949953421312)%Q.
Proof. vm_compute. repeat split. Qed.
Print Assumptions C17_ex_float.

(* ===================================================== backlight *)

(* parallel wiring with a backlight pin, every history of the firmware, every argument:
   the last analogWrite on the pin is 0 when the backlight is off and the stored brightness
   when it is on, and the stored brightness is within 0..255 *)
Theorem C17_backlight : forall g ops p,
  g_i2c g = false -> g_blpin g = Some p ->
  last_aw p (d_log (drun (dinit g) ops)) =
    Some (if d_blstate (drun (dinit g) ops) then d_bright (drun (dinit g) ops) else 0) /\
  0 <= d_bright (drun (dinit g) ops) <= 255.
Proof. exact top_backlight. Qed.
Print Assumptions C17_backlight.

(* on/off follows the last display()/backlight() command, the brightness the last
   brightness(level), clamped *)
Theorem C17_backlight_commands : forall d p,
  g_i2c (d_g d) = false -> g_blpin (d_g d) = Some p ->
  (forall on, d_blstate (dstep' d (OBacklight on)) = on /\ d_bright (dstep' d (OBacklight on)) = d_bright d) /\
  (forall on, d_blstate (dstep' d (ODisplay on)) = on /\ d_bright (dstep' d (ODisplay on)) = d_bright d) /\
  (forall level, d_blstate (dstep' d (OBrightness level)) = d_blstate d /\
                 d_bright (dstep' d (OBrightness level)) = clamp255 level).
Proof. exact top_backlight_cmds. Qed.
Print Assumptions C17_backlight_commands.

(* I2C backpack: the last backlight command sent is the requested state *)
Theorem C17_backlight_i2c : forall d on,
  g_i2c (d_g d) = true ->
  last_bl (d_log (dstep' d (OBacklight on))) = Some on /\ last_bl (d_log (dstep' d (ODisplay on))) = Some on.
Proof. exact top_backlight_i2c. Qed.
Print Assumptions C17_backlight_i2c.

(* ===================================================== glyphs *)

(* the firmware uploads into the slot exactly the eight rows the host stores, each 5 bits *)
Theorem C17_glyph_rows : forall h d slot bitmap,
  0 <= slot <= 7 -> zlen bitmap = 8 ->
  exists h' d' rows,
    hstep h (OGlyph slot bitmap) = (h', HOk) /\ dstep d (OGlyph slot bitmap) = Some d' /\
    gget slot (h_glyphs h') = Some rows /\ last_cg slot (d_log d') = Some rows /\
    rows = map (fun v => Z.land v 31) bitmap /\ zlen rows = 8 /\ Forall (fun v => 0 <= v <= 31) rows.
Proof. exact top_glyph. Qed.
Print Assumptions C17_glyph_rows.

(* ===================================================== tables (regenerated from the source) *)

(* Gen/LcdTables.v is rewritten from Displays/LCD.py, parser.py and emitter.py on every run:
   the style names of host, parser and emitter coincide and map to the glyphs the models use
   (U+2588 / 0xFF for block), the alignment names coincide and map to the enum values
   0 left, 1 center, 2 right the firmware helper tests, and both resolvers lower-case *)
Theorem C17_tables_agree :
  (forall s, style_ok s = true ->
     assoc (style_name s) host_styles = Some (host_glyph s) /\
     assoc (style_name s) dev_styles = Some (dev_glyph s)) /\
  map fst host_styles = map fst dev_styles /\ map fst dev_styles = parser_styles /\
  length host_styles = 4%nat /\
  (forall a, align_ok a = true -> assoc (align_name a) dev_aligns = Some a) /\
  map fst dev_aligns = host_aligns /\ parser_aligns = host_aligns /\ length host_aligns = 3%nat /\
  parser_align_lowercases = true /\ parser_style_lowercases = true.
Proof. exact tables_agree. Qed.
Print Assumptions C17_tables_agree.

(* ===================================================== non-vacuity *)
Definition ex_g : geom := {| g_cols := 16; g_rows := 2; g_i2c := false; g_blpin := Some 9 |}.
Definition ex_ops : list lop :=
  [ OWrite 3 1 [72; 105] true 1;
    OLine 0 [97; 98; 99; 100; 101; 102; 103; 104; 105; 106; 107; 108; 109; 110; 111; 112; 113; 114] 2 false;
    OMessage (Some [84]) (Some [66; 66]) 1 2 true;
    OProgress 1 50 100 (Some 8) 0 [76];
    OBacklight false; OBrightness 128; ODisplay true;
    OGlyph 2 [0; 10; 31; 32; 255; -1; 21; 4];
    OClear;
    OWrite 15 0 [88; 89] false 2 ].

(* the hypotheses of the refinement theorems are satisfiable: a 16x2 parallel display with a
   backlight pin, a history with every kind of call, all inside the guard ... *)
Example C17_ex_guard : fitsb ex_g = true /\ forallb (op_guard ex_g) ex_ops = true /\
                       forallb (geo_guard ex_g) ex_ops = true.
Proof. vm_compute. repeat split. Qed.
Print Assumptions C17_ex_guard.

(* ... which really changes the display, the backlight level and the glyph table *)
Example C17_ex_effect :
  cells (drun (dinit ex_g) (firstn 4 ex_ops)) =
    [[32; 32; 32; 32; 32; 32; 32; 84; 32; 32; 32; 32; 32; 32; 32; 32];
     [76; 32; 255; 255; 255; 255; 32; 32; 32; 32; 32; 32; 32; 32; 32; 32]] /\
  last_aw 9 (d_log (drun (dinit ex_g) ex_ops)) = Some 128 /\
  last_cg 2 (d_log (drun (dinit ex_g) ex_ops)) = Some [0; 10; 31; 0; 31; 31; 21; 4].
Proof. vm_compute. repeat split. Qed.
Print Assumptions C17_ex_effect.

(* the bound of C17_progress_within_one is attained (1/2 of 3 cells: host 2, firmware 1),
   and C17_progress_exact is not vacuous *)
Example C17_ex_progress : hfilled 1 2 3 = 2 /\ dfilled 1 2 3 = 1 /\ hfilled 1 3 15 = 5 /\ dfilled 1 3 15 = 5.
Proof. vm_compute. repeat split. Qed.
Print Assumptions C17_ex_progress.

(* the witnesses of the three repaired findings, now inside the guard and in agreement:
   message("A", "B") on a 4x1 display shows "A   " on both sides; progress(0, 100, 100, width=0)
   on 16 columns is one filled cell on both sides; progress(0, 5, -1) is an empty bar on both *)
Definition ex_g41 : geom := {| g_cols := 4; g_rows := 1; g_i2c := false; g_blpin := None |}.
Example C17_ex_repaired :
  op_guard ex_g41 (OMessage (Some [65]) (Some [66]) 0 0 true) = true /\
  cells (dstep' (dinit ex_g41) (OMessage (Some [65]) (Some [66]) 0 0 true)) = [[65; 32; 32; 32]] /\
  op_guard ex_g (OProgress 0 100 100 (Some 0) 1 []) = true /\
  hfilled 100 100 (hwidth 16 (Some 0)) = 1 /\ dfilled 100 100 (dwidth 16 (Some 0)) = 1 /\
  op_guard ex_g (OProgress 0 5 (-1) None 1 []) = true /\
  hfilled 5 (-1) (hwidth 16 None) = 0 /\ dfilled 5 (-1) (dwidth 16 None) = 0.
Proof. vm_compute. repeat split. Qed.
Print Assumptions C17_ex_repaired.
