(* placeholder while the harness is brought up; replaced by the real statements *)
From Coq Require Import ZArith List Bool.
From RV Require Import Host.LCDAnim Device.DLCDAnim.
Example C18_placeholder : zlen (spaces 3) = 3%Z.
Proof. reflexivity. Qed.
Print Assumptions C18_placeholder.
