(* C18 - LCD animations never block, stay inside their row, finish unless looping, are rate limited.
   Nothing but statements, closed by [exact], each followed by Print Assumptions.

   Models: Device/DLCDAnim.v  - the four __redu_lcd_start_* / __redu_lcd_tick_* helper pairs the emitter
                                prints (emitter.py 348-664), the per-LCD tick list, and the tick-injection
                                rule (parser.py: lcd_tick_names / LCDTick; emitter.py: registration pass of emit());
           Device/DLCDAnimW.v - the clock arithmetic of the tick helpers at the width W of unsigned long (millis(),
                                last_step, elapsed, speed_ms are residues modulo 2^W; W is a parameter of every
                                theorem, 32 on AVR, 64 under the mock's compiler): [drun1W] over TRUE tick times;
           Host/LCDAnim.v     - LCD.animate / LCD.tick / _AnimationState (Displays/LCD.py 277-430);
           Host/LCDReg.v      - the animation REGISTRY of the host class (self.animations: an insertion-ordered dict
                                keyed '<style>:<row>:<len(self.animations)>') as a state machine over whole call
                                histories: animate / tick / line / clear / begin in any order (C18_host_registry theorems).
   millis() / now_ms is an explicit argument: the statements quantify over every list of tick times;
   [tick_times_ok] = positive and non-decreasing (the property's quantifier).  Widths: 1 <= cols.
   A "step" is a tick that passed the rate limiter ([dgate]/[hgate] true); [step_times] lists their
   times, [step_count] counts them.

   Tick injection: no guard.  emit() registers every lcd.animate call site (before the main loop, inside
   `while True:`, inside function bodies) before it emits the first statement, so the LCDTick at the head
   of loop() ticks every declared state variable (C18_tick_injected; the former refutations
   C18_tick_injected_refuted / C18_loop_site_never_ticked were repaired in Reduino: entries
   F-C18-animate-in-loop-never-ticked / F-C18-animate-in-function-undeclared, kind fixed).
   Device/DLCDInject.v brings the block structure of the script inside the model: call sites sit at any
   depth inside if/elif/else, while, for and try/except bodies and in function bodies; the parser's name
   collection and the emitter's registration walk are two independent recursive walks over it (the
   C18_nested theorems, C18_function_site_ticked). *)
From Coq Require Import ZArith List Bool.
From RV Require Import Host.LCDAnim Device.DLCDAnim Proofs.LCDAnimP Proofs.LCDAnimP2.
From RV Require Import Gen.LcdAnimTables Proofs.LCDAnimG Proofs.LCDAnimP3 Proofs.LCDAnimP4.
From RV Require Import Device.DLCDInject Proofs.LCDInjectP.
From RV Require Import Device.DLCDAnimW Proofs.LCDAnimW.
From RV Require Import Host.LCDReg Proofs.LCDRegP.
Import ListNotations.
Open Scope Z_scope.

(* ================================================================== device (emitted C++ helpers) *)

(* start helper and every later tick, whatever the clock does: no delay()/delayMicroseconds() *)
Theorem C18_start_nonblocking_device :
  forall (sty : style) (cols row : Z) (text : list Z) (speed : Z) (lp : bool) (nows : list Z),
  1 <= cols ->
  dno_delay (snd (dstart sty cols row text speed lp)) /\
  Forall (fun x => dno_delay (snd x)) (snd (drun1 sty cols (fst (dstart sty cols row text speed lp)) nows)).
Proof. exact start_nonblocking_device. Qed.
Print Assumptions C18_start_nonblocking_device.

(* every cell written by start or by any tick lies in the animation's row, columns [0, cols); and the
   writes of one frame turn that row of ANY well-formed cell matrix into [c blanks ++ s ++ blanks] of
   exactly [cols] cells, leaving every other row untouched *)
Theorem C18_frame_geometry_device :
  forall (sty : style) (cols rows row : Z) (text : list Z) (speed : Z) (lp : bool) (nows : list Z),
  1 <= cols -> 0 <= row < rows ->
  let ev0 := snd (dstart sty cols row text speed lp) in
  let tr := snd (drun1 sty cols (fst (dstart sty cols row text speed lp)) nows) in
  (din_row cols row ev0 /\ dframe_drawn cols rows row ev0) /\
  Forall (fun x => din_row cols row (snd x) /\ dframe_drawn cols rows row (snd x)) tr.
Proof. exact frame_geometry_device. Qed.
Print Assumptions C18_frame_geometry_device.

(* loop = false: over any tick history at most [dsteps_total] steps happen, the animation is active
   exactly while fewer have happened, and that total is bounded by len + 2*cols + 2 *)
Theorem C18_terminates_device :
  forall (sty : style) (cols row : Z) (text : list Z) (speed : Z) (nows : list Z),
  1 <= cols ->
  let r := drun1 sty cols (fst (dstart sty cols row text speed false)) nows in
  step_count (snd r) <= dsteps_total sty cols text /\
  (d_active (fst r) = true <-> step_count (snd r) < dsteps_total sty cols text) /\
  dsteps_total sty cols text <= zlen text + 2 * cols + 2.
Proof. exact terminates_device. Qed.
Print Assumptions C18_terminates_device.

(* loop = true: active after every tick history (no width or clock hypothesis at all) *)
Theorem C18_loops_forever_device :
  forall (sty : style) (cols row : Z) (text : list Z) (speed : Z) (nows : list Z),
  d_active (fst (drun1 sty cols (fst (dstart sty cols row text speed true)) nows)) = true.
Proof. exact loops_forever_device. Qed.
Print Assumptions C18_loops_forever_device.

(* any two steps, the earlier at t1 > 0, are at least speed_ms apart *)
Theorem C18_rate_limit_device :
  forall (sty : style) (cols row : Z) (text : list Z) (speed : Z) (lp : bool) (nows : list Z),
  0 <= speed -> tick_times_ok nows ->
  rate_limited speed (step_times (snd (drun1 sty cols (fst (dstart sty cols row text speed lp)) nows))).
Proof. exact rate_limit_device. Qed.
Print Assumptions C18_rate_limit_device.

(* the same through the emitted call, which casts speed_ms to unsigned long (W bits): every speed_ms
   below 2^W, negative ones included *)
Theorem C18_rate_limit_device_emit :
  forall (W : Z) (sty : style) (cols row : Z) (text : list Z) (speed : Z) (lp : bool) (nows : list Z),
  0 <= W -> speed < 2 ^ W -> tick_times_ok nows ->
  rate_limited speed (step_times (snd (drun1 sty cols (fst (dstart_emit W sty cols row text speed lp)) nows))).
Proof. exact rate_limit_device_emit. Qed.
Print Assumptions C18_rate_limit_device_emit.

(* the EXACT schedule (no clock hypothesis): which ticks of any history are steps is decided by the
   tick times, speed_ms, the loop flag and the total number of steps alone - [due_flags] mentions no
   frame code.  A tick is a step iff steps are left and it is not early with respect to the latest
   step ITSELF: after a late pass the following quick passes are measured from the late pass (no
   burst of catching-up steps), and a pass that is not early is never skipped (one step per due pass) *)
Theorem C18_step_schedule_device :
  forall (sty : style) (cols row : Z) (text : list Z) (speed : Z) (lp : bool) (nows : list Z),
  1 <= cols ->
  step_flags (snd (drun1 sty cols (fst (dstart sty cols row text speed lp)) nows)) =
  due_flags speed lp 0 (dsteps_total sty cols text) nows.
Proof. exact step_schedule_device. Qed.
Print Assumptions C18_step_schedule_device.

(* ... through the emitted call (speed_ms cast to a W-bit unsigned long) *)
Theorem C18_step_schedule_device_emit :
  forall (W : Z) (sty : style) (cols row : Z) (text : list Z) (speed : Z) (lp : bool) (nows : list Z),
  1 <= cols ->
  step_flags (snd (drun1 sty cols (fst (dstart_emit W sty cols row text speed lp)) nows)) =
  due_flags (ulong_cast W speed) lp 0 (dsteps_total sty cols text) nows.
Proof. exact step_schedule_device_emit. Qed.
Print Assumptions C18_step_schedule_device_emit.

(* state.last_step after any history is the time of the latest step (0: none yet) - never a time
   computed from speed_ms *)
Theorem C18_last_step_recorded_device :
  forall (sty : style) (cols row : Z) (text : list Z) (speed : Z) (lp : bool) (nows : list Z),
  let r := drun1 sty cols (fst (dstart sty cols row text speed lp)) nows in
  d_last (fst r) = last_step_time 0 (snd r).
Proof. exact last_step_recorded_device. Qed.
Print Assumptions C18_last_step_recorded_device.

(* a looping animation skips a pass only because the pass is early: speed_ms > 0, the latest step
   happened with the clock running, and the pass is closer than speed_ms to it *)
Theorem C18_no_step_lost_device :
  forall (sty : style) (cols row : Z) (text : list Z) (speed : Z) (nows : list Z),
  no_step_lost speed 0 (snd (drun1 sty cols (fst (dstart sty cols row text speed true)) nows)).
Proof. exact no_step_lost_device. Qed.
Print Assumptions C18_no_step_lost_device.

(* ------------------------------------------------------------------ the width of unsigned long *)

(* The emitted limiter is computed in W-bit unsigned arithmetic.  While the clock has not rolled over (every
   tick time below 2^W - the property's quantifier: positive non-decreasing timestamps) the W-bit code IS the
   Z model above: same final state, same step flags, same cell writes at every tick - for EVERY clock value
   below 2^W, in particular for steps taken within speed_ms of the largest unsigned long. *)
Theorem C18_width_model_agrees_device :
  forall (W : Z) (sty : style) (cols row : Z) (text : list Z) (speed : Z) (lp : bool) (ts : list Z),
  tick_times_ok ts -> below_width W ts ->
  drun1W W sty cols (fst (dstart_emit W sty cols row text speed lp)) ts =
  drun1 sty cols (fst (dstart_emit W sty cols row text speed lp)) ts.
Proof. exact width_model_agrees_device. Qed.
Print Assumptions C18_width_model_agrees_device.

(* ... and for a display with several animations (what loop() runs) *)
Theorem C18_width_model_agrees_display :
  forall (W cols : Z) (calls : list dcall) (ts : list Z),
  tick_times_ok ts -> below_width W ts ->
  drun_allW W cols (fst (dstart_all cols calls)) ts = drun_all cols (fst (dstart_all cols calls)) ts.
Proof. exact width_model_agrees_display. Qed.
Print Assumptions C18_width_model_agrees_display.

(* hence the rate limit of the W-bit code, every width, every speed_ms below 2^W, every clock value below 2^W *)
Theorem C18_rate_limit_device_width :
  forall (W : Z) (sty : style) (cols row : Z) (text : list Z) (speed : Z) (lp : bool) (ts : list Z),
  0 <= W -> speed < 2 ^ W -> tick_times_ok ts -> below_width W ts ->
  rate_limited speed (step_times (snd (drun1W W sty cols (fst (dstart_emit W sty cols row text speed lp)) ts))).
Proof. exact rate_limit_device_width. Qed.
Print Assumptions C18_rate_limit_device_width.

(* ... and its exact schedule *)
Theorem C18_step_schedule_device_width :
  forall (W : Z) (sty : style) (cols row : Z) (text : list Z) (speed : Z) (lp : bool) (ts : list Z),
  1 <= cols -> tick_times_ok ts -> below_width W ts ->
  step_flags (snd (drun1W W sty cols (fst (dstart_emit W sty cols row text speed lp)) ts)) =
  due_flags (ulong_cast W speed) lp 0 (dsteps_total sty cols text) ts.
Proof. exact step_schedule_device_width. Qed.
Print Assumptions C18_step_schedule_device_width.

(* non-vacuity: a 32-bit clock 150 ms below its largest value, never wrapping: two steps, then three early ticks *)
Example C18_ex_device_high_clock :
  (tick_times_ok high_ticks /\ below_width 32 high_ticks) /\
  step_flags (snd (drun1W 32 Blink 8 (fst (dstart_emit 32 Blink 8 0 [72; 105] 100 true)) (2 ^ 32 - 150 :: high_ticks)))
  = [true; true; false; false; false].
Proof. exact (conj ex_high_ticks_ok ex_device_high_clock). Qed.
Print Assumptions C18_ex_device_high_clock.

(* why the width is in the model: the limiter written as an absolute deadline (now < last_step + speed_ms, the
   sum in W bits - over Z the same test as the emitted one) steps on every tick of that history.  [dgate_deadline]
   is NOT the emitted code; it is the counter-model showing that the theorems above distinguish the two forms. *)
Theorem C18_deadline_form_refuted :
  exists (W : Z) (st : dstate) (ts : list Z),
    tick_times_ok ts /\ below_width W ts /\ 0 < d_speed st < 2 ^ W /\ d_last st = 0 /\ d_active st = true /\
    deadline_flags W st ts = [true; true; true; true] /\ ~ rate_limited (d_speed st) ts.
Proof. exact deadline_form_refuted. Qed.
Print Assumptions C18_deadline_form_refuted.

(* Across the roll-over of millis() (TRUE tick times of any size; the values millis() returns are then no longer
   non-decreasing, so this is more than the property asks): the W-bit code still produces the trace of the Z model
   run on the true times - hence every theorem above - provided consecutive ticks are less than 2^W - speed_ms
   apart and millis() never returns exactly 0 at a tick. *)
Theorem C18_rollover_trace_device_partial :
  forall (W : Z) (sty : style) (cols row : Z) (text : list Z) (speed : Z) (lp : bool) (ts : list Z),
  0 <= W -> tick_times_ok ts -> gaps_below (2 ^ W - ulong_cast W speed) 0 ts -> never_reads_zero W ts ->
  snd (drun1W W sty cols (fst (dstart_emit W sty cols row text speed lp)) ts) =
  snd (drun1 sty cols (fst (dstart_emit W sty cols row text speed lp)) ts).
Proof. exact rollover_trace_device. Qed.
Print Assumptions C18_rollover_trace_device_partial.

Theorem C18_rate_limit_device_rollover_partial :
  forall (W : Z) (sty : style) (cols row : Z) (text : list Z) (speed : Z) (lp : bool) (ts : list Z),
  0 <= W -> speed < 2 ^ W -> tick_times_ok ts ->
  gaps_below (2 ^ W - ulong_cast W speed) 0 ts -> never_reads_zero W ts ->
  rate_limited speed (step_times (snd (drun1W W sty cols (fst (dstart_emit W sty cols row text speed lp)) ts))).
Proof. exact rate_limit_device_rollover. Qed.
Print Assumptions C18_rate_limit_device_rollover_partial.

Example C18_ex_device_rollover :
  (tick_times_ok roll_ticks /\ gaps_below (2 ^ 8 - 100) 0 roll_ticks /\ never_reads_zero 8 roll_ticks) /\
  step_flags (snd (drun1W 8 Blink 8 (fst (dstart_emit 8 Blink 8 0 [72; 105] 100 true)) roll_ticks))
  = [true; true; false; true; false; true; true; false; true].
Proof. exact (conj ex_roll_ticks_ok ex_device_rollover). Qed.
Print Assumptions C18_ex_device_rollover.

(* the guard's last clause is necessary: a step taken in the millisecond in which millis() reads 0 stores
   last_step = 0, the code's marker for "clock not running", and the tick 1 ms later steps again.  The register
   values of this history (100, 156, 0, 1) are not non-decreasing: outside the property's quantifier - a remark
   about the code, not a finding. *)
Theorem C18_rollover_zero_reading_refuted :
  exists (W : Z) (ts : list Z), 0 <= W /\ tick_times_ok ts /\ gaps_below (2 ^ W - ulong_cast W 100) 0 ts /\
    step_flags (snd (drun1W W Blink 8 (fst (dstart_emit W Blink 8 0 [72; 105] 100 true)) ts)) = [true; false; true; true] /\
    ~ rate_limited 100 (step_times (snd (drun1W W Blink 8 (fst (dstart_emit W Blink 8 0 [72; 105] 100 true)) ts))).
Proof. exact rollover_zero_reading_refuted. Qed.
Print Assumptions C18_rollover_zero_reading_refuted.

(* one LCDTick = exactly one tick helper call per registered animation of that display, in order *)
Theorem C18_tick_each_once :
  forall (cols now : Z) (anims : list (style * dstate)),
  dtick_all cols now anims =
  (map (fun a => (fst a, fst (dtick (fst a) cols now (snd a)))) anims,
   flat_map (fun a => snd (dtick (fst a) cols now (snd a))) anims).
Proof. exact dtick_all_once. Qed.
Print Assumptions C18_tick_each_once.

(* "every declared animation state variable is ticked at the head of loop()", whatever the place of the
   call sites (before the main loop, inside it, in function bodies - [loop] holds the sites registered after
   the setup part): the tick calls are exactly the declared variables, none twice; the k-th call site of
   display n is ticked through its own variable with its own style; no tick call without a call site.
   (Was C18_tick_injected_refuted + C18_tick_injected_partial with the guard loop = [] until the repair
   recorded as F-C18-animate-in-loop-never-ticked.) *)
Theorem C18_tick_injected :
  forall (setup loop : list site),
  loop_ticks setup loop = all_vars setup loop /\ NoDup (loop_ticks setup loop) /\
  (forall pre n sty post, setup ++ loop = pre ++ (n, sty) :: post -> In (n, count_name n pre, sty) (loop_ticks setup loop)) /\
  (forall n k sty, In (n, k, sty) (loop_ticks setup loop) ->
     exists pre post, setup ++ loop = pre ++ (n, sty) :: post /\ k = count_name n pre).
Proof. exact tick_injected. Qed.
Print Assumptions C18_tick_injected.

(* ... for every call site inside the main loop, whatever else the program contains: declared and ticked
   (was C18_loop_site_never_ticked) *)
Theorem C18_loop_site_ticked :
  forall (setup loop pre : list site) (n : Z) (sty : style) (post : list site),
  loop = pre ++ (n, sty) :: post ->
  In (n, count_name n setup + count_name n pre, sty) (all_vars setup loop) /\
  In (n, count_name n setup + count_name n pre, sty) (loop_ticks setup loop) /\
  NoDup (loop_ticks setup loop).
Proof. exact loop_site_ticked. Qed.
Print Assumptions C18_loop_site_ticked.

(* non-vacuity: the former witness of the refutation - one display, a single lcd.animate("scroll", ...)
   inside `while True:` - now has its tick *)
Example C18_ex_loop_site_ticked :
  loop_ticks [] [(0, Scroll)] = [(0, 0, Scroll)] /\ all_vars [] [(0, Scroll)] = [(0, 0, Scroll)].
Proof. exact ex_loop_site_ticked. Qed.
Print Assumptions C18_ex_loop_site_ticked.

(* a call site before the main loop is ticked exactly once per pass, with the index it has among the sites
   of its display *)
Theorem C18_setup_site_ticked :
  forall (setup loop pre : list site) (n : Z) (sty : style) (post : list site),
  setup = pre ++ (n, sty) :: post ->
  In (n, count_name n pre, sty) (loop_ticks setup loop) /\ NoDup (loop_ticks setup loop).
Proof. exact setup_site_ticked. Qed.
Print Assumptions C18_setup_site_ticked.

(* -------------------------------------------- tick injection over the block structure of the script *)

(* the parser's collection of animated displays and the emitter's registration walk, both recursing
   through every body of every block kind (if/elif/else branches, while and for bodies, try body and
   every except handler), compute the flat rule on the call sites taken in source order *)
Theorem C18_nested_walks_refine_flat_rule :
  forall setup loop : list stmt,
  tree_loop_ticks setup loop = loop_ticks (flats setup) (flats loop) /\
  (forall v, In v (tree_all_vars setup loop) <-> In v (all_vars (flats setup) (flats loop))) /\
  parser_ticks setup loop = sorted_set (map fst (flats setup ++ flats loop)).
Proof. exact nested_walks_refine. Qed.
Print Assumptions C18_nested_walks_refine_flat_rule.

(* "the call sites in source order" misses nothing: it contains exactly the lcd.animate statements that
   occur in the block at any depth, inside any body of any block *)
Theorem C18_nested_sites_are_all_occurrences :
  forall (n : Z) (sty : style) (b : list stmt), In (n, sty) (flats b) <-> occurs (SAnim n sty) b.
Proof. exact flats_occurs_iff. Qed.
Print Assumptions C18_nested_sites_are_all_occurrences.

(* every call site, however deeply nested and in whatever kind of body (an except handler included), before
   the main loop or inside it, has its own state variable ticked at the head of loop(), and no tick call is
   emitted twice *)
Theorem C18_nested_site_ticked :
  forall (setup loop : list stmt) (pre : list site) (n : Z) (sty : style) (post : list site),
  flats setup ++ flats loop = pre ++ (n, sty) :: post ->
  In (n, count_name n pre, sty) (tree_loop_ticks setup loop) /\ NoDup (tree_loop_ticks setup loop).
Proof. exact tree_site_ticked. Qed.
Print Assumptions C18_nested_site_ticked.

(* ... stated on occurrences: a display/style pair is ticked iff an lcd.animate of that display with that
   style occurs somewhere in the script *)
Theorem C18_nested_occurrence_ticked :
  forall (setup loop : list stmt) (n : Z) (sty : style),
  occurs (SAnim n sty) setup \/ occurs (SAnim n sty) loop <-> exists k, In (n, k, sty) (tree_loop_ticks setup loop).
Proof. exact tree_occurrence_ticked_iff. Qed.
Print Assumptions C18_nested_occurrence_ticked.

(* no spurious tick: every tick call is the tick of one particular call site (the k-th of its display) *)
Theorem C18_nested_tick_has_site :
  forall (setup loop : list stmt) (n k : Z) (sty : style),
  In (n, k, sty) (tree_loop_ticks setup loop) ->
  exists pre post, flats setup ++ flats loop = pre ++ (n, sty) :: post /\ k = count_name n pre.
Proof. exact tree_tick_has_site. Qed.
Print Assumptions C18_nested_tick_has_site.

(* no guard any more (was C18_nested_tick_injected_partial, for scripts without lcd.animate inside the main
   loop): the declared globals - one per registry entry - are exactly the variables ticked at the head of
   loop(), and neither list repeats a variable *)
Theorem C18_nested_tick_injected :
  forall setup loop : list stmt,
  (forall v, In v (tree_all_vars setup loop) <-> In v (tree_loop_ticks setup loop)) /\
  NoDup (tree_loop_ticks setup loop) /\ NoDup (tree_all_vars setup loop).
Proof. exact tree_injected. Qed.
Print Assumptions C18_nested_tick_injected.

(* a call site anywhere inside the main loop (nested or not) is declared and ticked, with the index that
   continues the count of its display's sites before the loop (was C18_nested_loop_site_never_ticked) *)
Theorem C18_nested_loop_site_ticked :
  forall (setup loop : list stmt) (pre : list site) (n : Z) (sty : style) (post : list site),
  flats loop = pre ++ (n, sty) :: post ->
  In (n, count_name n (flats setup) + count_name n pre, sty) (tree_all_vars setup loop) /\
  In (n, count_name n (flats setup) + count_name n pre, sty) (tree_loop_ticks setup loop) /\
  NoDup (tree_loop_ticks setup loop).
Proof. exact tree_loop_site_ticked. Qed.
Print Assumptions C18_nested_loop_site_ticked.

(* a call site anywhere inside the body of a function (F-C18-animate-in-function-undeclared, repaired): its
   state variable is a declared global and is ticked at the head of loop() *)
Theorem C18_function_site_ticked :
  forall (setup loop : list stmt) (funs : list (list stmt)) (f : list stmt) (n : Z) (sty : style),
  In f funs -> occurs (SAnim n sty) f ->
  exists k, In (n, k, sty) (prog_ticks setup loop funs) /\ In (n, k, sty) (prog_vars setup loop funs) /\
            NoDup (prog_ticks setup loop funs).
Proof. exact prog_function_site_ticked. Qed.
Print Assumptions C18_function_site_ticked.

(* non-vacuity: the two former witnesses (a call site inside `while True:` under an if; one inside a function
   called before the loop), and a program with sites in all three places *)
Example C18_ex_loop_and_function_sites :
  tree_loop_ticks [SOther] [SBlock KIf [[SAnim 0 Scroll; SOther]]] = [(0, 0, Scroll)] /\
  prog_ticks [SOther] [SOther] [[SAnim 0 Scroll]] = [(0, 0, Scroll)] /\
  prog_vars [SAnim 1 Blink] [SBlock KIf [[SAnim 0 Scroll]]] [[SAnim 0 Bounce]; [SOther; SAnim 1 Scroll]] =
    [(1, 0, Blink); (0, 0, Scroll); (0, 1, Bounce); (1, 1, Scroll)] /\
  prog_ticks [SAnim 1 Blink] [SBlock KIf [[SAnim 0 Scroll]]] [[SAnim 0 Bounce]; [SOther; SAnim 1 Scroll]] =
    [(0, 0, Scroll); (0, 1, Bounce); (1, 0, Blink); (1, 1, Scroll)].
Proof. exact ex_loop_and_function_sites. Qed.
Print Assumptions C18_ex_loop_and_function_sites.

(* non-vacuity: display 0 animates in a try body, display 1 only inside a for loop inside the second
   except handler, the whole try inside an if - both are ticked *)
Example C18_ex_handler_only_display_ticked :
  occurs (SAnim 1 Blink) ex_handler_tree /\
  flats ex_handler_tree = [(0, Scroll); (1, Blink)] /\
  tree_loop_ticks ex_handler_tree [SOther] = [(0, 0, Scroll); (1, 0, Blink)].
Proof. exact ex_handler_ticked. Qed.
Print Assumptions C18_ex_handler_only_display_ticked.

(* the statements discriminate: a name collection that descends into try bodies but not into handlers
   yields no LCDTick for display 1 on that script *)
Example C18_ex_forgetful_walk_differs :
  sorted_set (fold_left (fun a s => pnames_no_handlers s a) ex_handler_tree []) = [0] /\
  parser_ticks ex_handler_tree [] = [0; 1].
Proof. exact ex_forgetful_walk_differs. Qed.
Print Assumptions C18_ex_forgetful_walk_differs.

(* ---------------------------------------------------- several animations on one display (device) *)

(* the i-th lcd.animate call of a display, ticked together with all the others over any history, ends
   in exactly the state of the single-animation run: the per-animation theorems above therefore hold
   for every animation of every display (displays share no state: one object and one set of state
   variables each) *)
Theorem C18_device_history_decomposes :
  forall (cols : Z) (calls : list dcall) (nows : list Z) (i : nat)
         (sty : style) (row : Z) (text : list Z) (speed : Z) (lp : bool),
  nth_error calls i = Some (sty, row, text, speed, lp) ->
  nth_error (fst (drun_all cols (fst (dstart_all cols calls)) nows)) i =
  Some (sty, fst (drun1 sty cols (fst (dstart sty cols row text speed lp)) nows)).
Proof. exact device_history_decomposes. Qed.
Print Assumptions C18_device_history_decomposes.

(* ... and the cell writes of pass k are, in registration order, what each animation writes in its
   own k-th tick *)
Theorem C18_display_pass_events :
  forall (cols : Z) (anims : list (style * dstate)) (nows : list Z) (k : nat),
  nth k (snd (drun_all cols anims nows)) [] =
  flat_map (fun a => nth k (map snd (snd (drun1 (fst a) cols (snd a) nows))) []) anims.
Proof. exact drun_all_events. Qed.
Print Assumptions C18_display_pass_events.

(* setup(): no delay, every cell in the row of one of the started animations, inside the width *)
Theorem C18_display_start_geometry :
  forall (cols : Z) (calls : list dcall), 1 <= cols ->
  dno_delay (snd (dstart_all cols calls)) /\
  forall r c ch, In (DW r c ch) (snd (dstart_all cols calls)) ->
    In r (rows_of (fst (dstart_all cols calls))) /\ 0 <= c < cols.
Proof. exact dstart_all_geometry. Qed.
Print Assumptions C18_display_start_geometry.

(* every loop() pass of a display with any number of animations: no delay, every cell in the row of
   one of its animations, inside the width *)
Theorem C18_display_run_geometry :
  forall (cols : Z) (anims : list (style * dstate)) (nows : list Z), 1 <= cols ->
  Forall (fun ev => dno_delay ev /\
                    forall r c ch, In (DW r c ch) ev -> In r (rows_of anims) /\ 0 <= c < cols)
         (snd (drun_all cols anims nows)).
Proof. exact display_run_geometry. Qed.
Print Assumptions C18_display_run_geometry.

(* ================================================================== host (Reduino.Displays.LCD) *)

(* LCD.tick never raises: on every object reachable by LCD(), successful animate calls and ticks,
   every tick history runs to completion *)
Theorem C18_host_tick_total :
  forall (l : hlcd), hreach l -> forall nows : list Z, hticks l nows <> None.
Proof. exact host_tick_total. Qed.
Print Assumptions C18_host_tick_total.

(* rows are validated at animate time: it raises exactly for a row outside the display *)
Theorem C18_host_animate_validates :
  forall (l : hlcd) (sty : style) (row : Z) (text : list Z) (speed : Z) (lp : bool),
  hwf l -> (hanimate l sty row text speed lp = None <-> ~ (0 <= row < l_rows l)).
Proof. exact hanimate_validates. Qed.
Print Assumptions C18_host_animate_validates.

(* animate and every later tick: no sleep *)
Theorem C18_start_nonblocking_host :
  forall (l : hlcd) (sty : style) (row : Z) (text : list Z) (speed : Z) (lp : bool)
         (l1 : hlcd) (ev0 : list hev) (nows : list Z) (l2 : hlcd) (evs : list (list hev)),
  hreach l -> hanimate l sty row text speed lp = Some (l1, ev0) -> hticks l1 nows = Some (l2, evs) ->
  hno_delay ev0 /\ Forall hno_delay evs.
Proof. exact start_nonblocking_host. Qed.
Print Assumptions C18_start_nonblocking_host.

(* animate: registers exactly the start state, every buffer assignment is the animation's row with
   exactly cols cells *)
Theorem C18_frame_geometry_host_animate :
  forall (l : hlcd) (sty : style) (row : Z) (text : list Z) (speed : Z) (lp : bool) (l' : hlcd) (ev : list hev),
  hwf l -> hanimate l sty row text speed lp = Some (l', ev) ->
  hwf l' /\ l_cols l' = l_cols l /\ l_rows l' = l_rows l /\ 0 <= row < l_rows l /\
  l_anims l' = l_anims l ++ [hstart sty row text speed lp] /\
  hno_delay ev /\ hin_row (l_cols l) row ev /\ hframe_drawn (l_cols l) row (l_buf l) ev (l_buf l').
Proof. exact hanimate_ok. Qed.
Print Assumptions C18_frame_geometry_host_animate.

(* one animation's tick against any well-formed buffer: only its row, exactly cols cells, the buffer
   stays well formed and differs from the old one in that row only *)
Theorem C18_frame_geometry_host_tick :
  forall (cols rows now : Z) (st : hstate) (buf : buffer) (st' : hstate) (buf' : buffer) (ev : list hev),
  1 <= cols -> buf_wf cols rows buf -> 0 <= h_row st < rows ->
  htick1 cols rows now st buf = Some (st', buf', ev) ->
  hin_row cols (h_row st) ev /\ hframe_drawn cols (h_row st) buf ev buf' /\ buf_wf cols rows buf' /\
  h_row st' = h_row st.
Proof. exact frame_geometry_host_tick. Qed.
Print Assumptions C18_frame_geometry_host_tick.

(* one tick of the whole object (several animations): every assignment is a full-width row of an
   animation that was due at this tick *)
Theorem C18_frame_geometry_host_object :
  forall (l : hlcd) (now : Z) (l' : hlcd) (ev : list hev),
  hwf l -> htick l now = Some (l', ev) ->
  hwf l' /\ forall r s, In (HRow r s) ev -> zlen s = l_cols l /\
        exists st, In st (l_anims l) /\ h_row st = r /\ hgate st now = true.
Proof. exact frame_geometry_host_object. Qed.
Print Assumptions C18_frame_geometry_host_object.

(* a tick history of the object decomposes into one [hsteps] run per animation (the buffer each tick
   meets is whatever the other animations left) - this is what lets the per-animation theorems below
   speak about "several animations on one display" *)
Theorem C18_host_history_decomposes :
  forall (l : hlcd) (nows : list Z) (l' : hlcd) (evs : list (list hev)),
  hwf l -> hticks l nows = Some (l', evs) ->
  forall i st, nth_error (l_anims l) i = Some st ->
  exists stn tr, hsteps (l_cols l) (l_rows l) st nows stn tr /\ nth_error (l_anims l') i = Some stn.
Proof. exact hticks_animation. Qed.
Print Assumptions C18_host_history_decomposes.

(* end to end on the object's API: LCD(...), any earlier animate calls and ticks, then this animate,
   then any tick history.  The new animation (the last registered one) is an [hsteps] run from its
   start state; it never ends when looping, ends after exactly hsteps_total <= len + 2*cols + 2 steps
   otherwise, and under the clock hypothesis its steps are at least max(0, speed_ms) apart *)
Theorem C18_host_object_animation_run :
  forall (l : hlcd) (sty : style) (row : Z) (text : list Z) (speed : Z) (lp : bool)
         (l1 : hlcd) (ev0 : list hev) (nows : list Z) (l2 : hlcd) (evs : list (list hev)),
  hreach l -> hanimate l sty row text speed lp = Some (l1, ev0) -> hticks l1 nows = Some (l2, evs) ->
  exists stn tr,
    nth_error (l_anims l2) (length (l_anims l)) = Some stn /\
    hsteps (l_cols l) (l_rows l) (hstart sty row text speed lp) nows stn tr /\
    (lp = true -> h_active stn = true) /\
    (lp = false -> step_count tr <= hsteps_total sty (l_cols l) text /\
                   (h_active stn = true <-> step_count tr < hsteps_total sty (l_cols l) text) /\
                   hsteps_total sty (l_cols l) text <= zlen text + 2 * l_cols l + 2) /\
    (tick_times_ok nows -> rate_limited (Z.max 0 speed) (step_times tr)).
Proof. exact host_object_animation_run. Qed.
Print Assumptions C18_host_object_animation_run.

Theorem C18_terminates_host :
  forall (cols rows : Z) (sty : style) (row : Z) (text : list Z) (speed : Z) (nows : list Z)
         (stn : hstate) (tr : list (Z * bool * list hev)),
  1 <= cols ->
  hsteps cols rows (hstart sty row text speed false) nows stn tr ->
  step_count tr <= hsteps_total sty cols text /\
  (h_active stn = true <-> step_count tr < hsteps_total sty cols text) /\
  hsteps_total sty cols text <= zlen text + 2 * cols + 2.
Proof. exact terminates_host. Qed.
Print Assumptions C18_terminates_host.

Theorem C18_loops_forever_host :
  forall (cols rows : Z) (sty : style) (row : Z) (text : list Z) (speed : Z) (nows : list Z)
         (stn : hstate) (tr : list (Z * bool * list hev)),
  hsteps cols rows (hstart sty row text speed true) nows stn tr -> h_active stn = true.
Proof. exact loops_forever_host. Qed.
Print Assumptions C18_loops_forever_host.

(* the host clamps a negative speed_ms to 0 *)
Theorem C18_rate_limit_host :
  forall (cols rows : Z) (sty : style) (row : Z) (text : list Z) (speed : Z) (lp : bool) (nows : list Z)
         (stn : hstate) (tr : list (Z * bool * list hev)),
  tick_times_ok nows ->
  hsteps cols rows (hstart sty row text speed lp) nows stn tr ->
  rate_limited (Z.max 0 speed) (step_times tr).
Proof. exact rate_limit_host. Qed.
Print Assumptions C18_rate_limit_host.

(* the exact schedule on the host (times non-negative: the host tests last_tick for non-zero, the
   device last_step > 0): the same [due_flags], speed clamped at 0, with the host's own step total *)
Theorem C18_step_schedule_host :
  forall (cols rows : Z) (sty : style) (row : Z) (text : list Z) (speed : Z) (lp : bool) (nows : list Z)
         (stn : hstate) (tr : list (Z * bool * list hev)),
  1 <= cols -> Forall (fun t => 0 <= t) nows ->
  hsteps cols rows (hstart sty row text speed lp) nows stn tr ->
  step_flags tr = due_flags (Z.max 0 speed) lp 0 (hsteps_total sty cols text) nows.
Proof. exact step_schedule_host. Qed.
Print Assumptions C18_step_schedule_host.

Theorem C18_last_step_recorded_host :
  forall (cols rows : Z) (sty : style) (row : Z) (text : list Z) (speed : Z) (lp : bool) (nows : list Z)
         (stn : hstate) (tr : list (Z * bool * list hev)),
  hsteps cols rows (hstart sty row text speed lp) nows stn tr -> h_last stn = last_step_time 0 tr.
Proof. exact last_step_recorded_host. Qed.
Print Assumptions C18_last_step_recorded_host.

Theorem C18_no_step_lost_host :
  forall (cols rows : Z) (sty : style) (row : Z) (text : list Z) (speed : Z) (nows : list Z)
         (stn : hstate) (tr : list (Z * bool * list hev)),
  Forall (fun t => 0 <= t) nows ->
  hsteps cols rows (hstart sty row text speed true) nows stn tr ->
  no_step_lost (Z.max 0 speed) 0 tr.
Proof. exact no_step_lost_host. Qed.
Print Assumptions C18_no_step_lost_host.

(* every tick of such a run: no sleep, only the animation's row, exactly cols cells *)
Theorem C18_host_run_events :
  forall (cols rows : Z) (st : hstate) (nows : list Z) (stn : hstate) (tr : list (Z * bool * list hev)),
  1 <= cols -> 0 <= h_row st < rows ->
  hsteps cols rows st nows stn tr ->
  Forall (fun x => hno_delay (snd x) /\ hin_row cols (h_row st) (snd x)) tr.
Proof. exact hsteps_events. Qed.
Print Assumptions C18_host_run_events.

(* ================================================================== host registry over call histories *)

(* Objects: [rreach l] = LCD(cols, rows) followed by ANY list of calls animate / tick / line / clear / begin
   (failing calls included: they change nothing).  The registry is the dict of the real class: animate stores
   the new state under (style, row, number of entries) - replacing whatever is stored under an equal key. *)

(* LCD.tick raises in no history *)
Theorem C18_host_history_tick_total :
  forall (l : rlcd) (now : Z), rreach l -> rtick l now <> None.
Proof. exact host_history_tick_total. Qed.
Print Assumptions C18_host_history_tick_total.

(* animate raises exactly for a row outside the display, in every history *)
Theorem C18_host_history_animate_validates :
  forall (l : rlcd) (sty : style) (row : Z) (text : list Z) (speed : Z) (lp : bool),
  rreach l -> (ranimate l sty row text speed lp = None <-> ~ (0 <= row < r_rows l)).
Proof. exact host_history_animate_validates. Qed.
Print Assumptions C18_host_history_animate_validates.

(* the bookkeeping invariant, by induction over the history: the i-th entry sits under (its style, its row, i) *)
Theorem C18_host_registry_keys :
  forall l : rlcd, rreach l -> reg_keys_ok (r_reg l).
Proof. exact host_registry_keys. Qed.
Print Assumptions C18_host_registry_keys.

Theorem C18_host_registry_keys_distinct :
  forall l : rlcd, rreach l -> NoDup (map fst (r_reg l)).
Proof. exact host_registry_keys_distinct. Qed.
Print Assumptions C18_host_registry_keys_distinct.

(* registering one animation never replaces another one - live or finished, same style and row or not: the
   registry after a successful animate is the registry before it plus one entry at the end *)
Theorem C18_host_animate_never_replaces :
  forall (l : rlcd) (sty : style) (row : Z) (text : list Z) (speed : Z) (lp : bool) (l' : rlcd) (ev : list hev),
  rreach l -> ranimate l sty row text speed lp = Some (l', ev) ->
  r_reg l' = r_reg l ++ [((sty, row, zlen (r_reg l)), hstart sty row text speed lp)].
Proof. exact host_animate_never_replaces. Qed.
Print Assumptions C18_host_animate_never_replaces.

(* every registered animation is advanced by every tick, through its own rate limiter, and stays under its key *)
Theorem C18_host_tick_advances_every_entry :
  forall (l : rlcd) (now : Z), rreach l ->
  exists l' ev, rtick l now = Some (l', ev) /\
    forall i k st, nth_error (r_reg l) i = Some (k, st) ->
      exists b0 b1 e st', buf_wf (r_cols l) (r_rows l) b0 /\
        htick1 (r_cols l) (r_rows l) now st b0 = Some (st', b1, e) /\
        nth_error (r_reg l') i = Some (k, st').
Proof. exact host_tick_advances_every_entry. Qed.
Print Assumptions C18_host_tick_advances_every_entry.

(* only begin() unregisters: across any other call the keys registered so far stay, in order *)
Theorem C18_host_only_begin_unregisters :
  forall (l : rlcd) (o : rop), rreach l -> is_begin o = false ->
  exists more, map fst (r_reg (fst (rstep l o))) = map fst (r_reg l) ++ more.
Proof. exact host_only_begin_unregisters. Qed.
Print Assumptions C18_host_only_begin_unregisters.

(* a registered animation through ANY further history without begin(): it stays at its place under its key and is
   one [hsteps] run over the tick times of that history (so all single-animation theorems above apply to it);
   a live looping one is still active at the end *)
Theorem C18_host_registered_entry_run :
  forall (l : rlcd) (ops : list rop) (i : nat) (k : hkey) (st : hstate),
  rreach l -> no_begin ops -> nth_error (r_reg l) i = Some (k, st) ->
  exists stn tr, hsteps (r_cols l) (r_rows l) st (ticks_of ops) stn tr /\
                 nth_error (r_reg (rrun l ops)) i = Some (k, stn) /\
                 (h_loop st = true -> h_active st = true -> h_active stn = true).
Proof. exact host_registered_entry_run. Qed.
Print Assumptions C18_host_registered_entry_run.

(* end to end: LCD(), any history, this animate, any history without begin() (other animate calls of the same
   style and row, animations finishing, line / clear in between): the animation is still registered under the key
   it got, it is an [hsteps] run from its start state over the ticks of the history; looping: active and no tick
   skipped unless early; non-looping: inactive after exactly hsteps_total <= len + 2*cols + 2 steps; rate-limited *)
Theorem C18_host_registry_animation_run :
  forall (l : rlcd) (sty : style) (row : Z) (text : list Z) (speed : Z) (lp : bool)
         (l1 : rlcd) (ev0 : list hev) (ops : list rop),
  rreach l -> ranimate l sty row text speed lp = Some (l1, ev0) -> no_begin ops ->
  exists stn tr,
    nth_error (r_reg (rrun l1 ops)) (length (r_reg l)) = Some ((sty, row, zlen (r_reg l)), stn) /\
    hsteps (r_cols l) (r_rows l) (hstart sty row text speed lp) (ticks_of ops) stn tr /\
    (lp = true -> h_active stn = true /\
                  (Forall (fun t => 0 <= t) (ticks_of ops) -> no_step_lost (Z.max 0 speed) 0 tr)) /\
    (lp = false -> step_count tr <= hsteps_total sty (r_cols l) text /\
                   (h_active stn = true <-> step_count tr < hsteps_total sty (r_cols l) text) /\
                   hsteps_total sty (r_cols l) text <= zlen text + 2 * r_cols l + 2) /\
    (tick_times_ok (ticks_of ops) -> rate_limited (Z.max 0 speed) (step_times tr)).
Proof. exact host_registry_animation_run. Qed.
Print Assumptions C18_host_registry_animation_run.

(* the registry object seen through [r_lcd] is the list model of Host/LCDAnim.v *)
Theorem C18_host_registry_refines_animate :
  forall (l : rlcd) (sty : style) (row : Z) (text : list Z) (speed : Z) (lp : bool) (l' : rlcd) (ev : list hev),
  rreach l -> ranimate l sty row text speed lp = Some (l', ev) ->
  hanimate (r_lcd l) sty row text speed lp = Some (r_lcd l', ev).
Proof. exact ranimate_refines. Qed.
Print Assumptions C18_host_registry_refines_animate.

Theorem C18_host_registry_refines_tick :
  forall (l : rlcd) (now : Z) (l' : rlcd) (ev : list hev),
  rreach l -> rtick l now = Some (l', ev) -> htick (r_lcd l) now = Some (r_lcd l', ev).
Proof. exact rtick_refines. Qed.
Print Assumptions C18_host_registry_refines_tick.

(* why the entry count may serve as a key: only because nothing is ever removed.  The tidier bookkeeping "forget
   finished animations, then derive the key from the count" loses a live looping animation on a reachable object:
   one-shot blink, looping scroll on row 0, two ticks (the blink is over), one-shot scroll on row 0 - the registry
   then holds ONE entry and no looping one *)
Theorem C18_pruned_count_key_refuted :
  exists l0 l k st l' ev,
    rnew 8 2 = Some l0 /\ l = rrun l0 ex_ops /\
    nth_error (r_reg l) 1 = Some (k, st) /\ h_loop st = true /\ h_active st = true /\
    ranimate_pruning l Scroll 0 [33] 0 false = Some (l', ev) /\
    length (r_reg l') = 1%nat /\ forallb (fun e => negb (h_loop (snd e))) (r_reg l') = true.
Proof. exact pruning_key_replaces_live. Qed.
Print Assumptions C18_pruned_count_key_refuted.

(* the same history on the real bookkeeping: three entries, keys blink:1:0 / scroll:0:1 / scroll:0:2, the looping one
   alive; the hypotheses of the registry theorems are met (reachable object, a further history without begin()) *)
Example C18_ex_registry_history :
  exists l0 l l' ev,
    rnew 8 2 = Some l0 /\ l = rrun l0 ex_ops /\ rreach l /\
    ranimate l Scroll 0 [33] 0 false = Some (l', ev) /\
    map fst (r_reg l') = [(Blink, 1, 0); (Scroll, 0, 1); (Scroll, 0, 2)] /\
    map (fun e => h_active (snd e)) (r_reg l') = [false; true; true] /\
    map (fun e => h_loop (snd e)) (r_reg (rrun l' [OTick 3; OLine 0 [88]; OTick 4; OClear; OTick 5])) = [false; true; false] /\
    no_begin [OTick 3; OLine 0 [88]; OTick 4; OClear; OTick 5].
Proof. exact ex_registry_history. Qed.
Print Assumptions C18_ex_registry_history.

(* ================================================================== host vs device (beyond the statement) *)

(* The property lets host and device differ in their frames.  Their state machines nevertheless take
   their steps at the same ticks: for every style, every schedule of non-negative times, speed_ms >= 0,
   and - for scroll - a text at least as wide as the row, the step flags coincide tick by tick and the
   final active / offset / last-step fields agree. *)
Theorem C18_host_device_same_schedule :
  forall (sty : style) (cols rows row : Z) (text : list Z) (speed : Z) (lp : bool) (nows : list Z)
         (stn : hstate) (tr : list (Z * bool * list hev)),
  1 <= cols -> 0 <= speed -> Forall (fun t => 0 <= t) nows -> (sty = Scroll -> cols <= zlen text) ->
  hsteps cols rows (hstart sty row text speed lp) nows stn tr ->
  let r := drun1 sty cols (fst (dstart sty cols row text speed lp)) nows in
  map (fun x => snd (fst x)) tr = map (fun x => snd (fst x)) (snd r) /\
  h_active stn = d_active (fst r) /\ h_offset stn = d_offset (fst r) /\ h_last stn = d_last (fst r).
Proof. exact host_device_agree. Qed.
Print Assumptions C18_host_device_same_schedule.

(* the only difference in the number of steps: the device pads a short scroll text to the row width *)
Theorem C18_steps_total_host_vs_device :
  forall (sty : style) (cols : Z) (text : list Z),
  dsteps_total sty cols text =
  hsteps_total sty cols text + match sty with Scroll => Z.max 0 (cols - zlen text) | _ => 0 end.
Proof. exact steps_total_host_vs_device. Qed.
Print Assumptions C18_steps_total_host_vs_device.

Example C18_ex_scroll_differs : hsteps_total Scroll 3 [65] = 4 /\ dsteps_total Scroll 3 [65] = 6.
Proof. exact host_device_scroll_differs. Qed.
Print Assumptions C18_ex_scroll_differs.

(* ================================================================== tables re-read from /repo *)

(* over coq/Gen/LcdAnimTables.v, regenerated from the current source on every run: the host class, the
   parser and the emitter know exactly the model's four styles; every style has a start and a tick
   helper, defined once; start helpers never read millis(); every tick helper reads it once and begins
   with the inactive test + the rate-limiter text that [dgate] transcribes; no helper, nor any __redu_*
   function a helper calls, contains delay()/delayMicroseconds() or a while/do/goto *)
Theorem C18_tables_complete :
  (forall name, In name host_styles <-> exists s, name = style_name s) /\
  (forall name, In name parser_styles <-> exists s, name = style_name s) /\
  (forall name, In name (map fst start_funcs) <-> exists s, name = style_name s) /\
  (forall name, In name (map fst tick_funcs) <-> exists s, name = style_name s) /\
  (forall s, exists st tk, In (style_name s, st) start_funcs /\ In (style_name s, tk) tick_funcs /\
                           start_ok st = true /\ tick_ok tk = true) /\
  (forall f, In f helper_facts -> fact_nonblocking f = true).
Proof. exact tables_complete. Qed.
Print Assumptions C18_tables_complete.

(* ================================================================== non-vacuity *)

(* a tick schedule with early, equal, on-time and late ticks satisfies the clock hypothesis *)
Example C18_ex_tick_times : tick_times_ok [1; 1; 50; 101; 101; 350].
Proof. exact ex_tick_times. Qed.
Print Assumptions C18_ex_tick_times.

(* a schedule with early ticks, one very late pass (250 -> 900) and quick passes after it *)
Example C18_ex_burst_ticks : tick_times_ok burst_ticks /\
  burst_ticks = [50; 60; 149; 150; 151; 250; 900; 905; 910; 915; 920; 999; 1000; 1001; 1099; 1100; 1500; 1501; 1550; 1600].
Proof. exact (conj ex_burst_ticks_ok eq_refl). Qed.
Print Assumptions C18_ex_burst_ticks.

(* device, looping scroll "Hey" on 8 columns, speed 100, on that schedule: the passes 905..999 after the
   late one are all skipped, the next step is at 1000; last_step ends as the time of the latest step *)
Example C18_ex_device_burst :
  let r := drun1 Scroll 8 (fst (dstart Scroll 8 0 [72; 101; 121] 100 true)) burst_ticks in
  step_times (snd r) = [50; 150; 250; 900; 1000; 1100; 1500; 1600] /\ d_last (fst r) = 1600 /\
  due_flags 100 true 0 1 burst_ticks = step_flags (snd r).
Proof. exact ex_device_burst. Qed.
Print Assumptions C18_ex_device_burst.

(* that schedule discriminates: a limiter that advances last_step by speed_ms after a step ("steady
   cadence") instead of recording the time of the step would step at 900 and again at 905, although
   it takes exactly the model's steps on a schedule without a late pass *)
Example C18_ex_cadence_would_burst :
  ~ rate_limited 100 (cadence_times 100 0 burst_ticks) /\
  cadence_times 100 0 [50; 60; 149; 150; 151; 250; 300; 350; 351; 450] =
  step_times (snd (drun1 Scroll 8 (fst (dstart Scroll 8 0 [72; 101; 121] 100 true)) [50; 60; 149; 150; 151; 250; 300; 350; 351; 450])).
Proof. exact (conj ex_cadence_not_rate_limited ex_cadence_same_without_late_pass). Qed.
Print Assumptions C18_ex_cadence_would_burst.

(* host, looping bounce on the same schedule *)
Example C18_ex_host_burst :
  exists stn tr, hsteps 8 2 (hstart Bounce 1 [72; 101; 121] 100 true) burst_ticks stn tr /\
                 step_times tr = [50; 150; 250; 900; 1000; 1100; 1500; 1600] /\ h_last stn = 1600.
Proof. exact ex_host_burst. Qed.
Print Assumptions C18_ex_host_burst.

(* device, "AB" scrolling on 3 columns, speed 100, ticks every 60 ms: the run performs exactly
   dsteps_total = 6 steps (so the termination bound is attained, not just an upper bound), is still
   active after 5 of them, skips the early ticks, and ends inactive *)
Example C18_ex_device_scroll_run :
  let r := drun1 Scroll 3 (fst (dstart Scroll 3 0 [65; 66] 100 false)) (map (fun k => 60 * Z.of_nat k) (seq 1 14)) in
  step_count (snd r) = 6 /\ dsteps_total Scroll 3 [65; 66] = 6 /\ d_active (fst r) = false /\
  step_times (snd r) = [60; 180; 300; 420; 540; 660] /\
  d_active (fst (drun1 Scroll 3 (fst (dstart Scroll 3 0 [65; 66] 100 false)) (map (fun k => 60 * Z.of_nat k) (seq 1 9)))) = true.
Proof. exact ex_device_scroll_run. Qed.
Print Assumptions C18_ex_device_scroll_run.

(* device, a frame really is drawn: bounce "A" on 3 columns, first tick moves it to column 1 *)
Example C18_ex_device_bounce_frame :
  let st0 := fst (dstart Bounce 3 1 [65] 0 true) in
  get_row 1 (apply_devs (snd (dtick Bounce 3 5 st0)) (blank_matrix 3 2)) = [32; 65; 32] /\
  get_row 0 (apply_devs (snd (dtick Bounce 3 5 st0)) (blank_matrix 3 2)) = [32; 32; 32].
Proof. exact ex_device_bounce_frame. Qed.
Print Assumptions C18_ex_device_bounce_frame.

(* device: a looping scroll and a non-looping blink share an 8x2 display; all four passes draw, the
   blink ends, the scroll does not *)
Example C18_ex_device_two_animations :
  let calls := [(Scroll, 0, [65; 66], 0, true); (Blink, 1, [72; 105], 100, false)] in
  let r := drun_all 8 (fst (dstart_all 8 calls)) [5; 50; 105; 300] in
  map (fun a => d_active (snd a)) (fst r) = [true; false] /\
  map (fun ev => negb (Nat.eqb (length ev) 0)) (snd r) = [true; true; true; true] /\
  rows_of (fst r) = [0; 1].
Proof. exact ex_device_two_animations. Qed.
Print Assumptions C18_ex_device_two_animations.

(* host: a reachable 8x2 object with two animations (one looping) runs a tick history; the hypotheses
   of the host theorems are met by it, the non-looping typewriter ends, the looping scroll does not *)
Example C18_ex_host_object :
  exists l0 l1 l2 e1 e2 l3 evs,
    hnew 8 2 = Some l0 /\
    hanimate l0 Typewriter 0 [72; 105; 33] 10 false = Some (l1, e1) /\
    hanimate l1 Scroll 1 [65; 66] 0 true = Some (l2, e2) /\
    hreach l2 /\ hwf l2 /\
    hticks l2 [1; 5; 11; 21; 31; 41] = Some (l3, evs) /\
    map h_active (l_anims l3) = [false; true] /\
    get_row 0 (l_buf l3) = [72; 105; 33; 32; 32; 32; 32; 32].
Proof. exact ex_host_object. Qed.
Print Assumptions C18_ex_host_object.

(* host: [hsteps] runs from a start state exist (the premise of the termination / loop / rate theorems) *)
Example C18_ex_host_hsteps :
  exists stn tr, hsteps 8 2 (hstart Typewriter 0 [72; 105; 33] 10 false) [1; 5; 11; 21; 31; 41] stn tr /\
                 h_active stn = false /\ step_count tr = 2.
Proof. exact ex_host_hsteps. Qed.
Print Assumptions C18_ex_host_hsteps.
