(* C19 (unit C19_led) - host actuator invariants under every history: Led and RGBLed.
   Models: Host/Led.v, Host/RGBLed.v (written line by line from the Python classes).
   Nothing but statements, closed by [exact], each followed by Print Assumptions.

   Vocabulary (Host/Led.v, Host/RGBLed.v):
     Inv_led s   := 0 <= brightness <= 255 /\ state = (brightness > 0)
     Inv_rgb s   := every channel in 0..255 /\ (state <-> some channel <> 0)
     sleeps e    := arguments of the package-level sleep, in order; qsum = their sum
     levels e    := values stored by each completed set_brightness / set_color, in order
     chan i lv   := channel i of each level;  mono_le / mono_ge: non-decreasing / non-increasing
     toward c g l := l moves monotonically from c towards g and never past g
     scalar_args o := o can only fail because of a scalar argument (every op except a
                     flash_pattern whose pattern contains an entry that is itself rejected)
     qval x / zval x := numeric value / int(x) of a Python scalar *)
From Coq Require Import ZArith QArith Qround List Bool Lia.
From RV Require Import Base.Wire Base.Num Host.Led Host.RGBLed Host.RelArgs Proofs.NumP Proofs.LedP Proofs.RGBLedP Proofs.RelArgsP.
Import ListNotations.
Import Num.
Local Open Scope Q_scope.

(* ====================================================================== *)
(* Led                                                                    *)
(* ====================================================================== *)

(* every state reachable from any constructor call by any sequence of calls - successful or
   failing, with int/float/bool/object arguments - satisfies the invariant *)
Theorem C19_led_inv_reachable : forall (p : pynum) (ops : list Led.op),
  Inv_led (Led.run (Led.init p) ops).
Proof. exact LedP.inv_reachable. Qed.
Print Assumptions C19_led_inv_reachable.

Theorem C19_led_inv_step : forall s o, Inv_led s -> Inv_led (Led.st (Led.step s o)).
Proof. exact LedP.step_inv. Qed.
Print Assumptions C19_led_inv_step.

(* no method ever changes the pin *)
Theorem C19_led_pin_constant : forall s o, Led.pin (Led.st (Led.step s o)) = Led.pin s.
Proof. exact LedP.pin_constant. Qed.
Print Assumptions C19_led_pin_constant.

(* a call that raises for an invalid scalar argument leaves the object exactly as it was
   (and has neither slept nor written a level) - in EVERY state, hence after every history *)
Theorem C19_led_failed_call_atomic : forall s o s' e k,
  Led.scalar_args o = true -> Led.step s o = (s', e, Raised k) -> s' = s /\ e = [].
Proof. exact LedP.failed_call_atomic. Qed.
Print Assumptions C19_led_failed_call_atomic.

Theorem C19_led_failed_call_atomic_run : forall p ops o s' e k,
  Led.scalar_args o = true ->
  Led.step (Led.run (Led.init p) ops) o = (s', e, Raised k) ->
  s' = Led.run (Led.init p) ops /\ e = [].
Proof. exact LedP.failed_call_atomic_run. Qed.
Print Assumptions C19_led_failed_call_atomic_run.

(* the guard [scalar_args] is needed: a bad ENTRY of a pattern (a sequence argument, outside
   the property statement) raises after the entries before it have been applied *)
Example C19_led_flash_pattern_prefix_applied :
  Led.scalar_args (Led.FlashPattern [PI 1; PI 300] (PI 5)) = false /\
  Led.step (Led.init (PI 13)) (Led.FlashPattern [PI 1; PI 300] (PI 5)) =
    (mkLed (PI 13) true 255, [Lvl [255%Z]; Sleep (5 # 1)], Raised ValueError).
Proof. vm_compute. split; reflexivity. Qed.
Print Assumptions C19_led_flash_pattern_prefix_applied.

(* fade_in(step, delay_ms) has no duration parameter; what it does: brightness moves
   monotonically from the current value to 255 inside 0..255, and it sleeps delay_ms once per
   intermediate level, i.e. ceil((255 - brightness)/step) * delay_ms in total *)
Theorem C19_led_fade_in : forall s stp d s' e r,
  Inv_led s -> Led.step s (Led.FadeIn stp d) = (s', e, Ok r) ->
  let lv := chan 0 (levels e) in
  let n := (length lv - 1)%nat in
  s' = mkLed (Led.pin s) true 255 /\
  mono_le (Led.bright s :: lv) /\
  Forall (fun z => (0 <= z <= 255)%Z) lv /\
  last lv 0%Z = 255%Z /\
  sleeps e = repeat (qval d) n /\
  qsum (sleeps e) == inject_Z (Z.of_nat n) * qval d /\
  Z.of_nat n = Qceiling ((255 - inject_Z (Led.bright s)) / qval stp).
Proof. exact LedP.led_fade_in_final. Qed.
Print Assumptions C19_led_fade_in.

Theorem C19_led_fade_out : forall s stp d s' e r,
  Inv_led s -> Led.step s (Led.FadeOut stp d) = (s', e, Ok r) ->
  let lv := chan 0 (levels e) in
  let n := (length lv - 1)%nat in
  s' = mkLed (Led.pin s) false 0 /\
  mono_ge (Led.bright s :: lv) /\
  Forall (fun z => (0 <= z <= 255)%Z) lv /\
  last lv 255%Z = 0%Z /\
  sleeps e = repeat (qval d) n /\
  qsum (sleeps e) == inject_Z (Z.of_nat n) * qval d /\
  Z.of_nat n = Qceiling (inject_Z (Led.bright s) / qval stp).
Proof. exact LedP.led_fade_out_final. Qed.
Print Assumptions C19_led_fade_out.

(* a successful flash_pattern writes one level per entry and sleeps between entries only *)
Theorem C19_led_flash_pattern : forall s p d s' e r,
  Led.step s (Led.FlashPattern p d) = (s', e, Ok r) ->
  sleeps e = repeat (qval d) (length p - 1) /\ length (levels e) = length p.
Proof. exact LedP.led_flash_final. Qed.
Print Assumptions C19_led_flash_pattern.

Theorem C19_led_toggle : forall s, Inv_led s ->
  Led.lit (Led.st (Led.step s Led.Toggle)) = negb (Led.lit s) /\
  Led.bright (Led.st (Led.step s Led.Toggle)) = (if Led.lit s then 0 else 255)%Z.
Proof. exact LedP.led_toggle_final. Qed.
Print Assumptions C19_led_toggle.

Theorem C19_led_getters : forall s,
  Led.step s Led.GetState = (s, [], Ok (RBool (Led.lit s))) /\
  Led.step s Led.GetBrightness = (s, [], Ok (RInt (Led.bright s))).
Proof. exact LedP.led_getters_final. Qed.
Print Assumptions C19_led_getters.

(* ====================================================================== *)
(* RGBLed                                                                 *)
(* ====================================================================== *)

(* the constructor accepts exactly three int-like (int or bool) non-negative pins *)
Theorem C19_rgb_create : forall r g b,
  match RGBLed.create r g b with
  | inl s0 => s0 = mkRgb (r, g, b) (0, 0, 0)%Z false /\
              Forall (fun p => is_intlike p = true /\ 0 <= qval p) [r; g; b]
  | inr _ => exists p, In p [r; g; b] /\ (is_intlike p = false \/ qval p < 0)
  end.
Proof. exact RGBLedP.create_spec. Qed.
Print Assumptions C19_rgb_create.

(* every state reachable from every valid constructor call satisfies the invariant,
   and the pins never change *)
Theorem C19_rgb_inv_reachable : forall r g b s0 (ops : list RGBLed.op),
  RGBLed.create r g b = inl s0 ->
  Inv_rgb (RGBLed.run s0 ops) /\ RGBLed.pins (RGBLed.run s0 ops) = (r, g, b).
Proof. exact RGBLedP.rgb_inv_reachable_final. Qed.
Print Assumptions C19_rgb_inv_reachable.

Theorem C19_rgb_inv_step : forall s o, Inv_rgb s -> Inv_rgb (RGBLed.st (RGBLed.step s o)).
Proof. exact RGBLedP.step_inv. Qed.
Print Assumptions C19_rgb_inv_step.

(* every RGBLed argument is a scalar: any failing call is atomic *)
Theorem C19_rgb_failed_call_atomic : forall s o s' e k,
  Inv_rgb s -> RGBLed.step s o = (s', e, Raised k) -> s' = s /\ e = [].
Proof. exact RGBLedP.failed_call_atomic. Qed.
Print Assumptions C19_rgb_failed_call_atomic.

Theorem C19_rgb_failed_call_atomic_run : forall r g b s0 ops o s' e k,
  RGBLed.create r g b = inl s0 ->
  RGBLed.step (RGBLed.run s0 ops) o = (s', e, Raised k) ->
  s' = RGBLed.run s0 ops /\ e = [].
Proof. exact RGBLedP.rgb_failed_call_atomic_run. Qed.
Print Assumptions C19_rgb_failed_call_atomic_run.

(* blink: exactly 2*times sleeps of the given duration, 2*times*duration in total.
   Led.blink ends switched off (the code does not restore an earlier brightness, and the
   property does not ask it to); RGBLed.blink ends on its original colour - the whole
   object is exactly as before *)
Theorem C19_blink_sleep :
  (forall s d t s' e r,
     Led.step s (Led.Blink d t) = (s', e, Ok r) ->
     qsum (sleeps e) == 2 * qval t * qval d /\
     sleeps e = repeat (qval d) (2 * Z.to_nat (zval t)) /\
     chan 0 (levels e) = concat (repeat [255%Z; 0%Z] (Z.to_nat (zval t))) /\
     s' = mkLed (Led.pin s) false 0) /\
  (forall s r g b t d s' e x,
     Inv_rgb s -> RGBLed.step s (RGBLed.Blink r g b t d) = (s', e, Ok x) ->
     qsum (sleeps e) == 2 * qval t * qval d /\
     sleeps e = repeat (qval d) (2 * Z.to_nat (zval t)) /\
     levels e = concat (repeat [l3 (target_of r g b); [0; 0; 0]%Z] (Z.to_nat (zval t))) ++ [l3 (RGBLed.color s)] /\
     s' = s).
Proof. exact RGBLedP.blink_sleep_final. Qed.
Print Assumptions C19_blink_sleep.

(* fade: ends exactly on the target; every channel moves monotonically from its start to
   its target and never past it; [steps] levels are written (a single one when
   duration_ms == 0 or the colour already equals the target: the code's shortcut); the
   total sleep is (steps-1) * (duration/steps) <= duration; level i is the round-half-even
   interpolation start + delta*i/steps *)
Theorem C19_fade_ends_on_target : forall s r g b d n s' e x,
  Inv_rgb s -> RGBLed.step s (RGBLed.Fade r g b d n) = (s', e, Ok x) ->
  let target := target_of r g b in
  let lv := levels e in
  RGBLed.color s' = target /\ RGBLed.pins s' = RGBLed.pins s /\
  last lv [] = l3 target /\
  length lv = (if fade_shortcut s r g b d then 1%nat else Z.to_nat (zval n)) /\
  (forall c, (c < 3)%nat -> toward (ch c (RGBLed.color s)) (ch c target) (chan c lv)) /\
  qsum (sleeps e) <= qval d /\
  (fade_shortcut s r g b d = false ->
     lv = map (fun i => l3 (interp3 (qval n) (RGBLed.color s) target i)) (zseq 1 (Z.to_nat (zval n))) /\
     sleeps e = repeat (qval d / qval n) (Z.to_nat (zval n) - 1)).
Proof. exact RGBLedP.fade_final. Qed.
Print Assumptions C19_fade_ends_on_target.

(* round() is monotone and exact on integers: what makes the fade monotone and land on target *)
Theorem C19_round_half_even_monotone : forall x y, x <= y -> (py_round x <= py_round y)%Z.
Proof. exact NumP.py_round_mono. Qed.
Print Assumptions C19_round_half_even_monotone.

(* ====================================================================== *)
(* RGBLed: calls whose arguments are derived from the state they meet       *)
(* (Host/RelArgs.v).  Vocabulary:                                          *)
(*   cur s i            channel i of the colour shown, as get_color()[i]    *)
(*   times_ok t         t is an int/bool >= 1       nonneg_num d: a number >= 0 *)
(*   components_ok r g b  the three colour arguments pass _validate_component *)
(*   blink_accepts r g b t d := times_ok t && nonneg_num d && components_ok r g b *)
(*   blink_trace k c d orig := k x [c; sleep d; black; sleep d] ++ [orig]   *)
(*   fade_accepts s ...  as blink's, plus: steps may be a float exactly when *)
(*                      the fade takes its one-step shortcut                *)
(*   resolve_rgb s a    the Python value of a state-relative argument       *)
(* ====================================================================== *)

(* blink as a total function of (state, arguments): whether it is accepted is decided by the
   arguments alone - never by how they relate to the colour shown - and an accepted blink
   leaves the object EXACTLY as it was, having written the original colour last *)
Theorem C19_rgb_blink_total : forall s r g b t d, Inv_rgb s ->
  if blink_accepts r g b t d
  then RGBLed.step s (RGBLed.Blink r g b t d) =
       (s, blink_trace (Z.to_nat (zval t)) (target_of r g b) (qval d) (RGBLed.color s), Ok RNone)
  else exists k, RGBLed.step s (RGBLed.Blink r g b t d) = (s, [], Raised k).
Proof. exact RelArgsP.blink_total. Qed.
Print Assumptions C19_rgb_blink_total.

Theorem C19_rgb_blink_trace_shape : forall k c d orig,
  levels (blink_trace k c d orig) = concat (repeat [l3 c; [0; 0; 0]%Z] k) ++ [l3 orig] /\
  last (levels (blink_trace k c d orig)) [] = l3 orig /\
  sleeps (blink_trace k c d orig) = repeat d (2 * k).
Proof. exact RelArgsP.blink_trace_shape. Qed.
Print Assumptions C19_rgb_blink_trace_shape.

(* no hypothesis on the arguments or on the outcome: after blink(...) - successful or failing -
   the object is the one before the call; along any history a blink can be deleted *)
Theorem C19_rgb_blink_state_neutral : forall s r g b t d, Inv_rgb s ->
  RGBLed.st (RGBLed.step s (RGBLed.Blink r g b t d)) = s.
Proof. exact RelArgsP.blink_state_neutral. Qed.
Print Assumptions C19_rgb_blink_state_neutral.

Theorem C19_rgb_blink_history_neutral : forall r0 g0 b0 s0 ops r g b t d,
  RGBLed.create r0 g0 b0 = inl s0 ->
  RGBLed.run s0 (ops ++ [RGBLed.Blink r g b t d]) = RGBLed.run s0 ops.
Proof. exact RelArgsP.blink_history_neutral. Qed.
Print Assumptions C19_rgb_blink_history_neutral.

(* the case the clause "ends a blink on its original colour" is easiest to get wrong: blinking
   in the very colour that is shown.  Always accepted, ends lit in that colour. *)
Theorem C19_rgb_blink_own_colour : forall s t d, Inv_rgb s -> times_ok t = true -> nonneg_num d = true ->
  RGBLed.step s (RGBLed.Blink (cur s 0) (cur s 1) (cur s 2) t d) =
    (s, blink_trace (Z.to_nat (zval t)) (RGBLed.color s) (qval d) (RGBLed.color s), Ok RNone).
Proof. exact RelArgsP.blink_own_colour. Qed.
Print Assumptions C19_rgb_blink_own_colour.

Theorem C19_rgb_set_color_own_colour : forall s, Inv_rgb s ->
  RGBLed.step s (RGBLed.SetColor (cur s 0) (cur s 1) (cur s 2)) = (s, [Lvl (l3 (RGBLed.color s))], Ok RNone) /\
  RGBLed.step s (RGBLed.On (cur s 0) (cur s 1) (cur s 2)) = (s, [Lvl (l3 (RGBLed.color s))], Ok RNone).
Proof. exact RelArgsP.set_color_own_colour. Qed.
Print Assumptions C19_rgb_set_color_own_colour.

(* fade as a total function: here the relation between target and colour shown DOES matter *)
Theorem C19_rgb_fade_total : forall s r g b d n, Inv_rgb s ->
  if fade_accepts s r g b d n
  then exists e, RGBLed.step s (RGBLed.Fade r g b d n) =
                 (mkRgb (RGBLed.pins s) (target_of r g b) (any_on (target_of r g b)), e, Ok RNone)
  else exists k, RGBLed.step s (RGBLed.Fade r g b d n) = (s, [], Raised k).
Proof. exact RelArgsP.fade_total. Qed.
Print Assumptions C19_rgb_fade_total.

Theorem C19_rgb_fade_own_colour : forall s d n, Inv_rgb s -> nonneg_num d = true ->
  num_le n 0 = Some false ->
  RGBLed.step s (RGBLed.Fade (cur s 0) (cur s 1) (cur s 2) d n) = (s, [Lvl (l3 (RGBLed.color s))], Ok RNone).
Proof. exact RelArgsP.fade_own_colour. Qed.
Print Assumptions C19_rgb_fade_own_colour.

Theorem C19_rgb_fade_float_steps_elsewhere : forall s r g b d q, Inv_rgb s ->
  fade_shortcut s r g b d = false ->
  exists k, RGBLed.step s (RGBLed.Fade r g b d (PF q)) = (s, [], Raised k).
Proof. exact RelArgsP.fade_float_steps_elsewhere. Qed.
Print Assumptions C19_rgb_fade_float_steps_elsewhere.

(* relative arguments: the int spelling with offset 0 is the current channel; the bool spelling is
   the same number to every check; the float spelling is refused as a colour in every state; a
   neighbour is accepted exactly while it stays inside 0..255 *)
Theorem C19_rgb_relative_arguments : forall s i dz, Inv_rgb s ->
  resolve_rgb s (CCur i 0 SpInt) = cur s i /\
  (let v := resolve_rgb s (CCur i dz SpBool) in
   qval v = inject_Z (ch i (RGBLed.color s) + dz) /\ zval v = (ch i (RGBLed.color s) + dz)%Z /\ is_intlike v = true) /\
  validate_component (resolve_rgb s (CCur i dz SpFloat)) = Some TypeError /\
  validate_component (resolve_rgb s (CCur i dz SpInt)) =
    (if (0 <=? ch i (RGBLed.color s) + dz)%Z && (ch i (RGBLed.color s) + dz <=? 255)%Z then None else Some ValueError).
Proof. exact RelArgsP.relative_arguments_final. Qed.
Print Assumptions C19_rgb_relative_arguments.

(* Led: set_brightness with the brightness the Led already has - as an int, as True/False when it
   is 1/0, or as a float - is accepted and changes nothing *)
Theorem C19_led_own_brightness : forall s i sp, Inv_led s ->
  Led.step s (Led.SetBrightness (resolve_led s (CCur i 0 sp))) = (s, [Lvl [Led.bright s]], Ok RNone).
Proof. exact RelArgsP.led_own_brightness. Qed.
Print Assumptions C19_led_own_brightness.

(* non-vacuity, and the seeded scenario inside the model: lit in (10,200,30), blink in (10,200,30) *)
Example C19_rgb_blink_own_colour_nonvacuous :
  let s := mkRgb (PI 9, PI 10, PI 11) (10, 200, 30)%Z true in
  Inv_rgb s /\ times_ok (PI 2) = true /\ times_ok (PB true) = true /\ times_ok (PF (2 # 1)) = false /\
  nonneg_num (PF (5 # 2)) = true /\ nonneg_num (PI (-1)) = false /\ nonneg_num PO = false /\
  RGBLed.step s (RGBLed.Blink (PI 10) (PI 200) (PI 30) (PI 2) (PF (5 # 2))) =
    (s, [Lvl [10; 200; 30]%Z; Sleep (5 # 2); Lvl [0; 0; 0]%Z; Sleep (5 # 2);
         Lvl [10; 200; 30]%Z; Sleep (5 # 2); Lvl [0; 0; 0]%Z; Sleep (5 # 2); Lvl [10; 200; 30]%Z], Ok RNone) /\
  blink_accepts (PI 10) (PI 200) (PI 30) (PI 2) (PF (5 # 2)) = true /\
  blink_accepts (PI 10) (PI 200) (PI 256) (PI 2) (PI 5) = false /\
  fade_accepts s (PI 10) (PI 200) (PI 30) (PI 100) (PF (5 # 2)) = true /\
  fade_accepts s (PI 10) (PI 200) (PI 31) (PI 100) (PF (5 # 2)) = false /\
  resolve_rgb s (CCur 1 1 SpInt) = PI 201 /\ resolve_rgb s (CCur 2 (-29) SpBool) = PB true /\
  resolve_rgb s (CCur 0 0 SpFloat) = PF (10 # 1).
Proof.
  cbv zeta. split.
  - unfold Inv_rgb, chan_ok. cbn. repeat split; try lia; try discriminate.
  - vm_compute. repeat split.
Qed.
Print Assumptions C19_rgb_blink_own_colour_nonvacuous.

(* ====================================================================== *)
(* non-vacuity: the hypotheses above are satisfiable by non-trivial states *)
(* ====================================================================== *)

Example C19_led_blink_nonvacuous :
  Led.step (mkLed (PI 13) true 128) (Led.Blink (PI 5) (PI 2)) =
    (mkLed (PI 13) false 0,
     [Lvl [255%Z]; Sleep (5 # 1); Lvl [0%Z]; Sleep (5 # 1);
      Lvl [255%Z]; Sleep (5 # 1); Lvl [0%Z]; Sleep (5 # 1)], Ok RNone) /\
  Led.step (mkLed (PI 13) true 128) (Led.Blink (PI 5) (PF (2 # 1))) =
    (mkLed (PI 13) true 128, [], Raised TypeError) /\
  Led.step (mkLed (PI 13) true 128) (Led.Blink (PI (-1)) PO) =
    (mkLed (PI 13) true 128, [], Raised ValueError) /\
  Led.step (mkLed (PI 13) true 128) (Led.Blink (PF (5 # 2)) (PB true)) =
    (mkLed (PI 13) false 0, [Lvl [255%Z]; Sleep (5 # 2); Lvl [0%Z]; Sleep (5 # 2)], Ok RNone).
Proof. vm_compute. repeat split. Qed.
Print Assumptions C19_led_blink_nonvacuous.

Example C19_led_fade_nonvacuous :
  Inv_led (mkLed (PI 13) true 250) /\
  Led.step (mkLed (PI 13) true 250) (Led.FadeIn (PF (5 # 2)) (PI 3)) =
    (mkLed (PI 13) true 255,
     [Lvl [250%Z]; Sleep (3 # 1); Lvl [252%Z]; Sleep (3 # 1); Lvl [255%Z]], Ok RNone) /\
  Led.evs (Led.step (mkLed (PI 13) true 3) (Led.FadeOut (PB true) (PF (1 # 2)))) =
    [Lvl [3%Z]; Sleep (1 # 2); Lvl [2%Z]; Sleep (1 # 2); Lvl [1%Z]; Sleep (1 # 2); Lvl [0%Z]] /\
  Led.res (Led.step (mkLed (PI 13) true 3) (Led.FadeOut (PI 0) (PI 1))) = Raised ValueError /\
  Led.res (Led.step (mkLed (PI 13) true 3) (Led.FadeOut PO (PI (-1)))) = Raised TypeError.
Proof. vm_compute. repeat split; try discriminate. Qed.
Print Assumptions C19_led_fade_nonvacuous.

Example C19_led_set_brightness_nonvacuous :
  Led.step (Led.init (PI 13)) (Led.SetBrightness (PF (1 # 2))) = (mkLed (PI 13) false 0, [Lvl [0%Z]], Ok RNone) /\
  Led.step (Led.init (PI 13)) (Led.SetBrightness (PB true)) = (mkLed (PI 13) true 1, [Lvl [1%Z]], Ok RNone) /\
  Led.step (Led.init (PI 13)) (Led.SetBrightness (PF (509 # 2))) = (mkLed (PI 13) true 254, [Lvl [254%Z]], Ok RNone) /\
  Led.res (Led.step (Led.init (PI 13)) (Led.SetBrightness (PI 256))) = Raised ValueError /\
  Led.res (Led.step (Led.init (PI 13)) (Led.SetBrightness PO)) = Raised TypeError /\
  Led.step (Led.init PO) (Led.FlashPattern [PF (1 # 1); PB true; PF (1 # 2); PI 128] (PI 0)) =
    (mkLed PO true 128, [Lvl [255%Z]; Sleep 0; Lvl [255%Z]; Sleep 0; Lvl [0%Z]; Sleep 0; Lvl [128%Z]], Ok RNone).
Proof. vm_compute. repeat split. Qed.
Print Assumptions C19_led_set_brightness_nonvacuous.

Example C19_rgb_create_nonvacuous :
  RGBLed.create (PB true) (PI 5) (PI 6) = inl (mkRgb (PB true, PI 5, PI 6) (0, 0, 0)%Z false) /\
  RGBLed.create (PI (-1)) PO (PI 3) = inr ValueError /\
  RGBLed.create PO (PI (-1)) (PI 3) = inr TypeError /\
  RGBLed.create (PI 1) (PF (1 # 1)) (PI 3) = inr TypeError.
Proof. vm_compute. repeat split. Qed.
Print Assumptions C19_rgb_create_nonvacuous.

(* round-half-even is visible: 0 + 1*1/2 rounds to 0 *)
Example C19_rgb_fade_nonvacuous :
  Inv_rgb (mkRgb (PI 9, PI 10, PI 11) (10, 200, 30)%Z true) /\
  RGBLed.step (mkRgb (PI 9, PI 10, PI 11) (0, 0, 0)%Z false) (RGBLed.Fade (PI 1) (PI 0) (PI 0) (PI 100) (PI 2)) =
    (mkRgb (PI 9, PI 10, PI 11) (1, 0, 0)%Z true,
     [Lvl [0; 0; 0]%Z; Sleep (100 # 2); Lvl [1; 0; 0]%Z], Ok RNone) /\
  levels (RGBLed.evs (RGBLed.step (mkRgb (PI 9, PI 10, PI 11) (10, 200, 30)%Z true)
                        (RGBLed.Fade (PI 0) (PI 255) (PB true) (PF (5 # 2)) (PI 3)))) =
    [[7; 218; 20]; [3; 237; 11]; [0; 255; 1]]%Z /\
  RGBLed.step (mkRgb (PI 9, PI 10, PI 11) (10, 200, 30)%Z true) (RGBLed.Fade (PI 1) (PI 2) (PI 3) (PI 0) (PF (5 # 2))) =
    (mkRgb (PI 9, PI 10, PI 11) (1, 2, 3)%Z true, [Lvl [1; 2; 3]%Z], Ok RNone) /\
  RGBLed.step (mkRgb (PI 9, PI 10, PI 11) (10, 200, 30)%Z true) (RGBLed.Fade (PI 1) (PI 2) (PI 3) (PI 7) (PF (5 # 2))) =
    (mkRgb (PI 9, PI 10, PI 11) (10, 200, 30)%Z true, [], Raised TypeError) /\
  RGBLed.res (RGBLed.step (mkRgb (PI 9, PI 10, PI 11) (10, 200, 30)%Z true) (RGBLed.Fade PO (PI 2) (PI 3) (PI 7) (PI 0))) =
    Raised ValueError.
Proof.
  split.
  - unfold Inv_rgb, chan_ok. cbn. repeat split; try lia; try discriminate.
  - vm_compute. repeat split.
Qed.
Print Assumptions C19_rgb_fade_nonvacuous.

Example C19_rgb_blink_nonvacuous :
  RGBLed.step (mkRgb (PI 9, PI 10, PI 11) (10, 200, 30)%Z true) (RGBLed.Blink (PI 255) (PI 0) (PB true) (PI 2) (PF (5 # 2))) =
    (mkRgb (PI 9, PI 10, PI 11) (10, 200, 30)%Z true,
     [Lvl [255; 0; 1]%Z; Sleep (5 # 2); Lvl [0; 0; 0]%Z; Sleep (5 # 2);
      Lvl [255; 0; 1]%Z; Sleep (5 # 2); Lvl [0; 0; 0]%Z; Sleep (5 # 2); Lvl [10; 200; 30]%Z], Ok RNone) /\
  RGBLed.res (RGBLed.step (mkRgb (PI 9, PI 10, PI 11) (10, 200, 30)%Z true) (RGBLed.Blink (PI 255) (PI 0) (PI 0) (PF (2 # 1)) (PI 5))) =
    Raised TypeError /\
  RGBLed.res (RGBLed.step (mkRgb (PI 9, PI 10, PI 11) (10, 200, 30)%Z true) (RGBLed.SetColor (PI 256) PO (PI 0))) =
    Raised ValueError /\
  RGBLed.res (RGBLed.step (mkRgb (PI 9, PI 10, PI 11) (10, 200, 30)%Z true) (RGBLed.SetColor PO (PI 256) (PI 0))) =
    Raised TypeError.
Proof. vm_compute. repeat split. Qed.
Print Assumptions C19_rgb_blink_nonvacuous.
