From Coq Require Import ZArith QArith List Bool.
From RV Require Import Base.Wire Base.Num Host.Led Host.RGBLed.
Example placeholder_nonvacuous : Led.bright (Led.st (Led.step (Led.init Led.default_pin) Led.On)) = 255%Z.
Proof. reflexivity. Qed.
Print Assumptions placeholder_nonvacuous.
