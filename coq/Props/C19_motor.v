(* C19 (unit C19_motor) - host actuator invariants under every history: DCMotor.
   Model: Host/DCMotor.v (written line by line from /repo/src/Reduino/Actuators/DCMotor.py;
   _RAMP_STEPS and the default of backward() come from Gen/C19Motor.v, regenerated from the
   source on every run).  Nothing but statements, closed by [exact], each followed by
   Print Assumptions.

   Vocabulary (Host/DCMotor.v, Proofs/DCMotorP.v):
     motor_ctor i1 i2 en   the constructor: inl object | inr exception kind
     mstep m op            one public call: (object after, events, Ok result | Raised kind)
     mrun ops m            the object after the history ops (successful and failing calls alike)
     ghost m               NOT a field of the Python object: LastStop when the last successful
                           mutating call was stop()/run_for(), LastOther otherwise (C19_motor_ghost_*
                           prove that this is what the field is)
     mode_spec ap g        := Drive if ap <> 0, else Brake if g = LastStop, else Coast
     motor_inv m           := -1 <= speed <= 1 /\ applied == (inverted ? -speed : speed) /\
                              mode = mode_spec applied ghost                      (DESIGN.md A.4)
     clampq q              := q clamped into [-1, 1]  (_clamp_speed on a number)
     events: MLvl speed applied mode - one per completed _apply_speed/stop/coast; MSleep q - one
             per call of the package-level sleep;  sleeps / lvl_speeds / lvl_applied project them
     mtrace ops m          := all events of the history ops from m, in order
     ev_ok inv e / ev_sound e := the statement's clauses read on one event (Proofs/DCMotorP.v)
     chain R l             := adjacent elements of l are related by R;  qge x y := y <= x
   Floats are exact rationals; == is equality of rationals. *)
From Coq Require Import ZArith QArith List Bool.
From RV Require Import Base.Wire Base.NumM Base.XFloat Gen.C19Motor Host.DCMotor Host.ActuatorsX Proofs.NumMP Proofs.DCMotorP Proofs.ActuatorsXP.
From RV Require Import Host.DCMotorFloat Proofs.DCMotorFloatP.
Import ListNotations.
Local Open Scope Q_scope.

(* the constructor: three pairwise different int-like pins, else TypeError / ValueError *)
Theorem C19_motor_ctor : forall i1 i2 en,
  match motor_ctor i1 i2 en with
  | inl m => m = mkMotor (i1, i2, en) 0 false Coast 0 LastOther /\
             exists a b c, zof i1 = Some a /\ zof i2 = Some b /\ zof en = Some c /\ a <> b /\ a <> c /\ b <> c
  | inr TypeError => zof i1 = None \/ zof i2 = None \/ zof en = None
  | inr ValueError => exists a b c, zof i1 = Some a /\ zof i2 = Some b /\ zof en = Some c /\ (a = b \/ a = c \/ b = c)
  end.
Proof. exact DCMotorP.ctor_spec. Qed.
Print Assumptions C19_motor_ctor.

(* every state reachable from any accepted constructor call by any sequence of calls -
   successful or failing, with int/float/bool/non-number arguments - satisfies the invariant *)
Theorem C19_motor_inv_reachable : forall i1 i2 en m0 (ops : list mop),
  motor_ctor i1 i2 en = inl m0 ->
  motor_inv (mrun ops m0) /\ pins (mrun ops m0) = (i1, i2, en).
Proof. exact DCMotorP.motor_reachable_inv. Qed.
Print Assumptions C19_motor_inv_reachable.

Theorem C19_motor_inv_step : forall m op, motor_inv m -> motor_inv (mstate (mstep m op)).
Proof. exact DCMotorP.step_inv. Qed.
Print Assumptions C19_motor_inv_step.

(* the same, in the words of the property *)
Theorem C19_motor_reachable : forall i1 i2 en m0 ops,
  motor_ctor i1 i2 en = inl m0 ->
  let m := mrun ops m0 in
  (-(1) <= speed m /\ speed m <= 1) /\
  applied m == (if inverted m then - speed m else speed m) /\
  (mmode m = Drive <-> ~ applied m == 0) /\
  (applied m == 0 -> (mmode m = Brake <-> ghost m = LastStop) /\ (mmode m = Coast <-> ghost m = LastOther)) /\
  pins m = (i1, i2, en).
Proof. exact DCMotorP.motor_reachable_statement. Qed.
Print Assumptions C19_motor_reachable.

Theorem C19_motor_mode_clause : forall m,
  motor_inv m ->
  (mmode m = Drive <-> ~ applied m == 0) /\
  (applied m == 0 -> (mmode m = Brake <-> ghost m = LastStop) /\ (mmode m = Coast <-> ghost m = LastOther)).
Proof. exact DCMotorP.mode_clause. Qed.
Print Assumptions C19_motor_mode_clause.

(* the ghost is the class of the last successful command: getters and failing calls keep it *)
Theorem C19_motor_ghost_step : forall m op,
  ghost (mstate (mstep m op)) =
  match mresult (mstep m op), cmd_class op with
  | Ok _, Some g => g
  | _, _ => ghost m
  end.
Proof. exact DCMotorP.ghost_meaning. Qed.
Print Assumptions C19_motor_ghost_step.

Theorem C19_motor_ghost_run : forall ops m, ghost (mrun ops m) = last_cmd m ops (ghost m).
Proof. exact DCMotorP.ghost_run. Qed.
Print Assumptions C19_motor_ghost_run.

(* a call that raises leaves the object (and the ghost) exactly as it was, has neither slept
   nor applied a speed - in EVERY state (every DCMotor argument is a scalar) *)
Theorem C19_motor_failed_call_atomic : forall m op m' evs k,
  mstep m op = (m', evs, Raised k) -> m' = m /\ evs = [].
Proof. exact DCMotorP.motor_failed_atomic. Qed.
Print Assumptions C19_motor_failed_call_atomic.

(* exactly which calls raise, and what - independent of the state *)
Theorem C19_motor_raises : forall m op,
  match raises op with
  | Some k => mresult (mstep m op) = Raised k
  | None => exists r, mresult (mstep m op) = Ok r
  end.
Proof. exact DCMotorP.motor_raises. Qed.
Print Assumptions C19_motor_raises.

Theorem C19_motor_pins_constant : forall m op, pins (mstate (mstep m op)) = pins m.
Proof. exact DCMotorP.step_pins. Qed.
Print Assumptions C19_motor_pins_constant.

(* set_speed stores the clamped value *)
Theorem C19_motor_set_speed : forall m v q,
  qof v = Some q ->
  let r := mstep m (MSetSpeed v) in
  let m' := mstate r in
  mresult r = Ok MNone /\
  speed m' == clampq q /\
  applied m' == (if inverted m then - clampq q else clampq q) /\
  mmode m' = (if Qeqb (clampq q) 0 then Coast else Drive) /\
  mevents r = [MLvl (speed m') (applied m') (mmode m')] /\
  ghost m' = LastOther /\ inverted m' = inverted m /\ pins m' = pins m.
Proof. exact DCMotorP.set_speed_exact. Qed.
Print Assumptions C19_motor_set_speed.

(* backward never commands a positive speed *)
Theorem C19_motor_backward : forall m ov q,
  qof (dflt_back ov) = Some q ->
  let r := mstep m (MBackward ov) in
  let m' := mstate r in
  mresult r = Ok MNone /\
  speed m' == - qabs (clampq q) /\ speed m' <= 0 /\
  applied m' == (if inverted m then qabs (clampq q) else - qabs (clampq q)) /\
  ghost m' = LastOther /\ inverted m' = inverted m /\ pins m' = pins m.
Proof. exact DCMotorP.backward_exact. Qed.
Print Assumptions C19_motor_backward.

Theorem C19_motor_stop_coast : forall m,
  mstep m MStop = (mkMotor (pins m) 0 (inverted m) Brake 0 LastStop, [MLvl 0 0 Brake], Ok MNone) /\
  mstep m MCoast = (mkMotor (pins m) 0 (inverted m) Coast 0 LastOther, [MLvl 0 0 Coast], Ok MNone).
Proof. exact DCMotorP.stop_coast_exact. Qed.
Print Assumptions C19_motor_stop_coast.

Theorem C19_motor_getters_pure : forall m,
  mstep m MGetSpeed = (m, [], Ok (MFloat (speed m))) /\
  mstep m MGetApplied = (m, [], Ok (MFloat (applied m))) /\
  mstep m MIsInverted = (m, [], Ok (MBool (inverted m))) /\
  mstep m MGetMode = (m, [], Ok (MMode (mmode m))).
Proof. exact DCMotorP.getters_pure. Qed.
Print Assumptions C19_motor_getters_pure.

(* invert() is an involution: twice restores speed, direction flag, pins and applied speed;
   the mode is restored too, except that a brake (stop()/run_for() just before) becomes a
   coast - the code re-applies speed 0 - which is what the statement's mode clause asks,
   since the last command is then no longer stop()/run_for() *)
Theorem C19_invert_involution : forall m,
  let r1 := mstep m MInvert in
  let r2 := mstep (mstate r1) MInvert in
  mresult r1 = Ok MNone /\ mresult r2 = Ok MNone /\
  inverted (mstate r1) = negb (inverted m) /\
  speed (mstate r2) = speed m /\ inverted (mstate r2) = inverted m /\ pins (mstate r2) = pins m /\
  applied (mstate r2) = (if inverted m then - speed m else speed m) /\
  ghost (mstate r2) = LastOther /\
  (motor_inv m ->
     applied (mstate r2) == applied m /\
     mmode (mstate r2) = match mmode m with Brake => Coast | md => md end).
Proof. exact DCMotorP.invert_involution. Qed.
Print Assumptions C19_invert_involution.

Theorem C19_motor_stop_then_invert : forall m,
  let m' := mstate (mstep (mstate (mstep m MStop)) MInvert) in
  mmode m' = Coast /\ speed m' = 0 /\ applied m' == 0 /\ ghost m' = LastOther /\
  inverted m' = negb (inverted m).
Proof. exact DCMotorP.stop_then_invert. Qed.
Print Assumptions C19_motor_stop_then_invert.

(* the ramp constant of the current source *)
Theorem C19_ramp_steps : dc_ramp_steps = 20%Z.
Proof. exact DCMotorP.ramp_steps_20. Qed.
Print Assumptions C19_ramp_steps.

(* ramp(t, d) from every invariant state, for every numeric target and duration >= 0: succeeds,
   ends exactly on the clamped target (over the rationals), applies exactly 20 speeds, the
   sequence start, s1 .. s20 is monotone towards the target, each applied speed is the speed
   negated when inverted, it sleeps 20 times d/20 (not at all when d = 0): exactly d in total *)
Theorem C19_ramp : forall m t d qt qd,
  motor_inv m -> qof t = Some qt -> qof d = Some qd -> 0 <= qd ->
  let r := mstep m (MRamp t d) in
  let m' := mstate r in
  let evs := mevents r in
  mresult r = Ok MNone /\
  speed m' == clampq qt /\
  applied m' == (if inverted m then - clampq qt else clampq qt) /\
  length (lvl_speeds evs) = 20%nat /\
  last (lvl_speeds evs) 0 = speed m' /\
  (speed m <= clampq qt -> chain Qle (speed m :: lvl_speeds evs)) /\
  (clampq qt <= speed m -> chain qge (speed m :: lvl_speeds evs)) /\
  lvl_applied evs = map (fun x => if inverted m then - x else x) (lvl_speeds evs) /\
  sleeps evs = (if Qltb 0 qd then repeat (qd / 20) 20 else []) /\
  qsum (sleeps evs) == qd /\
  ghost m' = LastOther /\ inverted m' = inverted m /\ pins m' = pins m.
Proof. exact DCMotorP.ramp_exact. Qed.
Print Assumptions C19_ramp.

(* "Linearly ramp": step k of a ramp is start + (target - start) * k / 20, exactly (the clamp inside
   set_speed never bites, start and target being in [-1, 1]) *)
Theorem C19_ramp_linear : forall m t d qt qd,
  motor_inv m -> qof t = Some qt -> qof d = Some qd -> 0 <= qd ->
  Forall2 Qeq (lvl_speeds (mevents (mstep m (MRamp t d))))
              (map (fun k => speed m + (clampq qt - speed m) * inject_Z k / 20) (zsteps 20)).
Proof. exact DCMotorP.ramp_linear. Qed.
Print Assumptions C19_ramp_linear.

(* run_for(d, v) from EVERY state, for every numeric speed and duration >= 0: applies the
   clamped speed, sleeps exactly once, exactly d, then brakes *)
Theorem C19_run_for : forall m d v qd qv,
  qof d = Some qd -> qof v = Some qv -> 0 <= qd ->
  let r := mstep m (MRunFor d v) in
  let m' := mstate r in
  mresult r = Ok MNone /\
  sleeps (mevents r) = [qd] /\
  (exists sp ap md, mevents r = [MLvl sp ap md; MSleep qd; MLvl 0 0 Brake] /\
                    sp == clampq qv /\ ap = (if inverted m then - sp else sp) /\
                    md = (if Qeqb ap 0 then Coast else Drive)) /\
  speed m' = 0 /\ applied m' = 0 /\ mmode m' = Brake /\ ghost m' = LastStop /\
  inverted m' = inverted m /\ pins m' = pins m.
Proof. exact DCMotorP.run_for_exact. Qed.
Print Assumptions C19_run_for.

(* every history sleeps exactly the sum of the durations of its ramp()/run_for() calls that do not
   raise ([op_duration op] = duration_ms if [raises op] = None, else 0 - a function of the call alone) *)
Theorem C19_motor_history_sleep : forall ops m,
  qsum (sleeps (mtrace ops m)) == qsum (map op_duration ops).
Proof. exact DCMotorP.trace_sleep. Qed.
Print Assumptions C19_motor_history_sleep.

Theorem C19_motor_step_sleep : forall m op, qsum (sleeps (mevents (mstep m op))) == op_duration op.
Proof. exact DCMotorP.step_sleep. Qed.
Print Assumptions C19_motor_step_sleep.

(* every level event of every call from an invariant state obeys the statement (|speed| <= 1,
   applied = speed negated under the direction flag in force after the call, drive iff applied <> 0)
   - in particular each of the 20 intermediate steps of a ramp - and no sleep is negative *)
Theorem C19_motor_step_events : forall m op,
  motor_inv m -> Forall (ev_ok (inverted (mstate (mstep m op)))) (mevents (mstep m op)).
Proof. exact DCMotorP.step_ev. Qed.
Print Assumptions C19_motor_step_events.

(* ... hence everything any history emits after any history *)
Theorem C19_motor_history_events : forall i1 i2 en m0 pre ops,
  motor_ctor i1 i2 en = inl m0 -> Forall ev_sound (mtrace ops (mrun pre m0)).
Proof. exact DCMotorP.trace_ev_reachable. Qed.
Print Assumptions C19_motor_history_events.

(* ====================================================================== *)
(* IEEE specials as speeds and durations.  The three clauses below were REFUTED on the code before    *)
(* the repair (findings F-C19-motor-nan-speed, F-C19-motor-nonfinite-duration, now kind=fixed): NaN    *)
(* passed _clamp_speed, NaN / +inf passed the duration test and made the sleep raise after the speed  *)
(* had been applied.  Model of the repaired validations over floats with specials: Host/ActuatorsX.v  *)
(*   xclamp x          _clamp_speed on a float: Some clamped | None = raises ValueError               *)
(*   mstep_x m o       set_speed / backward / ramp / run_for with arguments that may be special       *)
(*   lower o           the ordinary call (Host/DCMotor.v) such a call amounts to, if any              *)
(*   mrun_any ops m    histories mixing ordinary calls and calls with special arguments               *)
(* ====================================================================== *)

(* was C19_motor_speed_bound_nan_refuted (exists x, ~ in_unit (xclamp x)): |speed| <= 1 for EVERY float
   _clamp_speed returns a value for, NaN and the infinities included ... *)
Theorem C19_motor_speed_bound : forall x y, xclamp x = Some y -> in_unit y.
Proof. exact ActuatorsXP.xclamp_result. Qed.
Print Assumptions C19_motor_speed_bound.

(* ... and it raises (ValueError, nothing stored) exactly for NaN *)
Theorem C19_motor_nan_speed_rejected : forall x, xclamp x = None <-> x = XNaN.
Proof. exact ActuatorsXP.xclamp_nan. Qed.
Print Assumptions C19_motor_nan_speed_rejected.

(* on finite floats the model with specials is the model used everywhere else *)
Theorem C19_motor_clamp_agrees : forall q, xclamp (XFin q) = Some (XFin (clampq q)).
Proof. exact ActuatorsXP.xclamp_finite. Qed.
Print Assumptions C19_motor_clamp_agrees.

(* every speed argument - int, float, bool, non-number, NaN, +-inf - yields a speed in [-1, 1] or an exception *)
Theorem C19_motor_clamp_any_argument : forall a q, clamp_speed_x a = inl q -> -(1) <= q /\ q <= 1.
Proof. exact ActuatorsXP.clamp_speed_x_bounds. Qed.
Print Assumptions C19_motor_clamp_any_argument.

(* was C19_run_for_failed_call_atomic_refuted / C19_ramp_failed_call_atomic_refuted, and the _partial
   versions with the guard "the duration is neither NaN nor +inf": a failing run_for / ramp leaves the
   object as it was, has neither applied a speed nor slept - for EVERY duration and speed, no guard *)
Theorem C19_run_for_failed_call_atomic : forall m d v m' e k,
  run_for_x m d v = (m', e, XRaised k) -> m' = m /\ e = [].
Proof. exact ActuatorsXP.run_for_x_failed_atomic. Qed.
Print Assumptions C19_run_for_failed_call_atomic.

Theorem C19_ramp_failed_call_atomic : forall m t d m' e k,
  ramp_x m t d = (m', e, XRaised k) -> m' = m /\ e = [].
Proof. exact ActuatorsXP.ramp_x_failed_atomic. Qed.
Print Assumptions C19_ramp_failed_call_atomic.

(* the same for all four calls that take a speed or a duration *)
Theorem C19_motor_failed_call_atomic_specials : forall m o m' e k,
  mstep_x m o = (m', e, XRaised k) -> m' = m /\ e = [].
Proof. exact ActuatorsXP.mstep_x_failed_atomic. Qed.
Print Assumptions C19_motor_failed_call_atomic_specials.

(* a NaN or infinite duration is rejected at once by both calls *)
Theorem C19_nonfinite_duration_rejected : forall m a d,
  xfinite d = false ->
  run_for_x m d a = raised_x m XValueError /\ ramp_x m a d = raised_x m XValueError.
Proof. exact ActuatorsXP.nonfinite_duration_rejected. Qed.
Print Assumptions C19_nonfinite_duration_rejected.

(* what _check_duration accepts, and that nothing it accepts makes Reduino.Utils.sleep / time.sleep raise
   (the raise points inside _sleep that the model of run_for / ramp still contains are dead) *)
Theorem C19_checked_duration : forall d, dur_rejected d = false <-> exists q, d = XFin q /\ 0 <= q.
Proof. exact ActuatorsXP.dur_accepted. Qed.
Print Assumptions C19_checked_duration.

Theorem C19_checked_duration_sleeps : forall d,
  dur_rejected d = false -> sleep_rejects d = None /\ sleep_rejects (xdiv20 d) = None.
Proof. exact ActuatorsXP.checked_duration_never_fails_in_sleep. Qed.
Print Assumptions C19_checked_duration_sleeps.

(* every call with special arguments IS one of the ordinary calls all theorems above are about (+-inf as a
   speed is 2 / -2), or raises ValueError with nothing written *)
Theorem C19_motor_specials_reduce : forall m o,
  mstep_x m o = match lower o with
                | Some op => lift (mstep m op)
                | None => raised_x m XValueError
                end.
Proof. exact ActuatorsXP.mstep_x_lower. Qed.
Print Assumptions C19_motor_specials_reduce.

Theorem C19_motor_inv_step_specials : forall m o, motor_inv m -> motor_inv (xstate (mstep_x m o)).
Proof. exact ActuatorsXP.mstep_x_inv. Qed.
Print Assumptions C19_motor_inv_step_specials.

(* the invariant after every history of ordinary calls and calls with NaN / infinite arguments *)
Theorem C19_motor_inv_reachable_specials : forall i1 i2 en m0 (ops : list anyop),
  motor_ctor i1 i2 en = inl m0 ->
  motor_inv (mrun_any ops m0) /\ pins (mrun_any ops m0) = (i1, i2, en).
Proof. exact ActuatorsXP.reachable_any_inv. Qed.
Print Assumptions C19_motor_inv_reachable_specials.

Theorem C19_motor_speed_bound_reachable : forall i1 i2 en m0 (ops : list anyop),
  motor_ctor i1 i2 en = inl m0 -> -(1) <= speed (mrun_any ops m0) /\ speed (mrun_any ops m0) <= 1.
Proof. exact ActuatorsXP.reachable_any_speed_bound. Qed.
Print Assumptions C19_motor_speed_bound_reachable.

(* run_for with ANY duration and speed: it raises having written and slept nothing, or it ends braked after
   exactly one sleep of exactly the (then finite, non-negative) duration *)
Theorem C19_run_for_any_argument : forall m d v,
  (xres (run_for_x m d v) <> XOk /\ xstate (run_for_x m d v) = m /\ xevents (run_for_x m d v) = []) \/
  (xres (run_for_x m d v) = XOk /\ exists q, d = XFin q /\ 0 <= q /\
   sleeps (xevents (run_for_x m d v)) = [q] /\
   mmode (xstate (run_for_x m d v)) = Brake /\ speed (xstate (run_for_x m d v)) = 0 /\
   applied (xstate (run_for_x m d v)) = 0 /\ ghost (xstate (run_for_x m d v)) = LastStop).
Proof. exact ActuatorsXP.run_for_x_outcome. Qed.
Print Assumptions C19_run_for_any_argument.

(* on finite arguments the calls with specials are the calls of the finite model *)
Theorem C19_run_for_x_agrees : forall m q v,
  run_for_x m (XFin q) (XNum v) =
  (mstate (mstep m (MRunFor (PF q) v)), mevents (mstep m (MRunFor (PF q) v)), xres_of (mresult (mstep m (MRunFor (PF q) v)))).
Proof. exact ActuatorsXP.run_for_x_finite. Qed.
Print Assumptions C19_run_for_x_agrees.

Theorem C19_ramp_x_agrees : forall m t q,
  ramp_x m (XNum t) (XFin q) =
  (mstate (mstep m (MRamp t (PF q))), mevents (mstep m (MRamp t (PF q))), xres_of (mresult (mstep m (MRamp t (PF q))))).
Proof. exact ActuatorsXP.ramp_x_finite. Qed.
Print Assumptions C19_ramp_x_agrees.

(* the witnesses of the repaired findings (set_speed(nan); run_for(nan|inf, 0.5); ramp(0.5, inf|nan)) are
   rejected with the motor untouched; infinite speeds clamp; finite calls go through *)
Example C19_motor_specials_nonvacuous :
  xclamp XNaN = None /\ xclamp XPInf = Some (XFin 1) /\ xclamp XNInf = Some (XFin (-(1))) /\
  set_speed_x m_half (XSpec XNaN) = (m_half, [], XRaised XValueError) /\
  backward_x m_half (XSpec XNaN) = (m_half, [], XRaised XValueError) /\
  run_for_x m_zero XNaN (XNum (PF (1 # 2))) = (m_zero, [], XRaised XValueError) /\
  run_for_x m_zero XPInf (XNum (PF (1 # 2))) = (m_zero, [], XRaised XValueError) /\
  run_for_x m_zero XNInf (XNum (PF (1 # 2))) = (m_zero, [], XRaised XValueError) /\
  run_for_x m_zero XNaN (XNum PO) = (m_zero, [], XRaised XValueError) /\
  run_for_x m_zero (XFin 5) (XNum PO) = (m_zero, [], XRaised XTypeError) /\
  run_for_x m_zero (XFin 5) (XSpec XNaN) = (m_zero, [], XRaised XValueError) /\
  ramp_x m_zero (XNum (PF (1 # 2))) XPInf = (m_zero, [], XRaised XValueError) /\
  ramp_x m_zero (XNum (PF (1 # 2))) XNaN = (m_zero, [], XRaised XValueError) /\
  ramp_x m_half (XSpec XNaN) (XFin 20) = (m_half, [], XRaised XValueError) /\
  set_speed_x m_zero (XSpec XPInf) =
    (mkMotor (PI 2, PI 3, PI 5) 1 false Drive 1 LastOther, [MLvl 1 1 Drive], XOk) /\
  run_for_x m_zero (XFin (5 # 2)) (XSpec XNInf) =
    (mkMotor (PI 2, PI 3, PI 5) 0 false Brake 0 LastStop,
     [MLvl (-1 # 1) (-1 # 1) Drive; MSleep (5 # 2); MLvl 0 0 Brake], XOk) /\
  lower (XRunFor (XFin (5 # 2)) (XSpec XNInf)) = Some (MRunFor (PF (5 # 2)) (PI (-2))) /\
  lower (XRamp (XSpec XNaN) (XFin 20)) = None /\
  mrun_any [inl (MSetSpeed (PF (1 # 2))); inr (XSetSpeed (XSpec XNaN)); inr (XRunFor XPInf (XNum (PI 1))); inl MInvert] m_zero =
    mkMotor (PI 2, PI 3, PI 5) (1 # 2) true Drive (-1 # 2) LastOther.
Proof. vm_compute. repeat split. Qed.
Print Assumptions C19_motor_specials_nonvacuous.

(* ====================================================================== *)
(* non-vacuity: the hypotheses above are satisfiable by non-trivial states *)
(* ====================================================================== *)

Definition m_init : motor := mkMotor (PI 2, PI 3, PI 5) 0 false Coast 0 LastOther.

Example C19_motor_ctor_nonvacuous :
  motor_ctor (PI 2) (PI 3) (PI 5) = inl m_init /\
  motor_ctor (PB true) (PI 1) (PI 5) = inr ValueError /\
  motor_ctor (PB true) (PB false) (PI 5) = inl (mkMotor (PB true, PB false, PI 5) 0 false Coast 0 LastOther) /\
  motor_ctor (PF (2 # 1)) (PI 3) (PI 3) = inr TypeError /\
  motor_ctor (PI 2) (PI 2) PO = inr TypeError.
Proof. vm_compute. repeat split. Qed.
Print Assumptions C19_motor_ctor_nonvacuous.

Example C19_motor_steps_nonvacuous :
  mstep m_init (MSetSpeed (PF (1 # 2))) =
    (mkMotor (PI 2, PI 3, PI 5) (1 # 2) false Drive (1 # 2) LastOther, [MLvl (1 # 2) (1 # 2) Drive], Ok MNone) /\
  mstep m_init (MSetSpeed (PI (-2))) =
    (mkMotor (PI 2, PI 3, PI 5) (-1 # 1) false Drive (-1 # 1) LastOther, [MLvl (-1 # 1) (-1 # 1) Drive], Ok MNone) /\
  mstep m_init (MSetSpeed PO) = (m_init, [], Raised TypeError) /\
  mstep m_init (MBackward None) =
    (mkMotor (PI 2, PI 3, PI 5) (-1 # 1) false Drive (-1 # 1) LastOther, [MLvl (-1 # 1) (-1 # 1) Drive], Ok MNone) /\
  mstep m_init (MBackward (Some (PB true))) =
    (mkMotor (PI 2, PI 3, PI 5) (-1 # 1) false Drive (-1 # 1) LastOther, [MLvl (-1 # 1) (-1 # 1) Drive], Ok MNone) /\
  mstep m_init (MRamp (PI 1) (PI (-1))) = (m_init, [], Raised ValueError) /\
  mstep m_init (MRamp PO (PI (-1))) = (m_init, [], Raised ValueError) /\
  mstep m_init (MRamp PO (PI 5)) = (m_init, [], Raised TypeError) /\
  mstep m_init (MRamp (PI 1) PO) = (m_init, [], Raised TypeError) /\
  mstep m_init (MRunFor (PI 20) PO) = (m_init, [], Raised TypeError) /\
  mstep m_init (MRunFor (PF (-1 # 2)) PO) = (m_init, [], Raised ValueError) /\
  mstep (mkMotor (PI 2, PI 3, PI 5) (1 # 2) true Drive (-1 # 2) LastOther) (MRunFor (PF (5 # 2)) (PI 2)) =
    (mkMotor (PI 2, PI 3, PI 5) 0 true Brake 0 LastStop,
     [MLvl 1 (-1 # 1) Drive; MSleep (5 # 2); MLvl 0 0 Brake], Ok MNone).
Proof. vm_compute. repeat split. Qed.
Print Assumptions C19_motor_steps_nonvacuous.

(* an inverted motor at half speed is an invariant state; ramping it down to -1 in 100 ms *)
Example C19_ramp_nonvacuous :
  let m := mkMotor (PI 2, PI 3, PI 5) (1 # 2) true Drive (-1 # 2) LastOther in
  motor_inv m /\
  lvl_speeds (mevents (mstep m (MRamp (PI (-2)) (PI 100)))) =
    [17 # 40; 7 # 20; 11 # 40; 1 # 5; 1 # 8; 1 # 20; -1 # 40; -1 # 10; -7 # 40; -1 # 4;
     -13 # 40; -2 # 5; -19 # 40; -11 # 20; -5 # 8; -7 # 10; -31 # 40; -17 # 20; -37 # 40; -1 # 1] /\
  sleeps (mevents (mstep m (MRamp (PI (-2)) (PI 100)))) = repeat (100 / 20) 20 /\
  mstate (mstep m (MRamp (PI (-2)) (PI 100))) = mkMotor (PI 2, PI 3, PI 5) (-1 # 1) true Drive 1 LastOther /\
  sleeps (mevents (mstep m (MRamp (PF (1 # 2)) (PI 0)))) = [] /\
  mmode (mstate (mstep m (MRamp (PI 0) (PB true)))) = Coast.
Proof.
  cbn zeta. split.
  - unfold motor_inv, mode_spec. cbn. split; [split; discriminate|]. split; reflexivity.
  - vm_compute. repeat split.
Qed.
Print Assumptions C19_ramp_nonvacuous.

(* a history with failing calls in the middle; the last successful command decides brake/coast *)
Example C19_motor_history_nonvacuous :
  mrun [MSetSpeed (PF (1 # 2)); MInvert; MRunFor (PI 20) (PI 1); MSetSpeed PO; MRamp (PI 1) (PI (-1)); MGetMode] m_init =
    mkMotor (PI 2, PI 3, PI 5) 0 true Brake 0 LastStop /\
  mrun [MSetSpeed (PF (1 # 2)); MStop; MInvert] m_init = mkMotor (PI 2, PI 3, PI 5) 0 true Coast 0 LastOther /\
  mrun [MStop; MSetSpeed (PI 0)] m_init = mkMotor (PI 2, PI 3, PI 5) 0 false Coast 0 LastOther /\
  mrun [MRunFor (PI 0) (PI 0); MRamp (PI 0) (PI 0)] m_init = mkMotor (PI 2, PI 3, PI 5) 0 false Coast 0 LastOther.
Proof. vm_compute. repeat split. Qed.
Print Assumptions C19_motor_history_nonvacuous.

Example C19_motor_history_sleep_nonvacuous :
  let ops := [MRamp (PI 1) (PI 100); MInvert; MRunFor (PF (5 # 2)) (PI 1); MRunFor (PI 20) PO; MRamp (PI 1) (PI (-1)); MStop] in
  map op_duration ops = [100 # 1; 0; 5 # 2; 0; 0; 0] /\
  sleeps (mtrace ops m_init) = repeat (100 / 20) 20 ++ [5 # 2].
Proof. vm_compute. split; reflexivity. Qed.
Print Assumptions C19_motor_history_sleep_nonvacuous.

(* ====================================================================================
   ramp() in BINARY64 (Host/DCMotorFloat.v).  The theorems above are about exact rationals, where
   start + ((target-start)/20)*k never leaves [-1,1]; CPython rounds each of the four operations
   ([fl] = nearest binary64, ties to even), and then it does: the invariant |speed| <= 1 is an EXACT
   inequality and holds for the real algorithm because every step goes through set_speed's clamp.
     ramp_raw_fl start sv k   := fl (start + fl (sv * k))          what ramp() hands to set_speed
     ramp_sv_fl start target  := fl (fl (target - start) / 20)
     ramp_point_fl .. k       := clampq of the raw point           what set_speed stores
     ramp_points_fl s t       := the 20 stored speeds;  ramp_unclamped_end s t := the raw 20th point
     mstep_fl / mrun_fl / mtrace_fl := the class with this ramp()
     in_unit_q x              := -1 <= x <= 1;   ramp_tol := 2^-49
   ==================================================================================== *)

(* every speed the real algorithm stores during and after a ramp is within [-1,1] EXACTLY: for every
   start, every step value, every step - nothing is assumed about the arithmetic, the clamp does it *)
Theorem C19_ramp_binary64_stored_in_unit : forall start sv k,
  -(1) <= ramp_point_fl start sv k /\ ramp_point_fl start sv k <= 1.
Proof. exact DCMotorFloatP.ramp_point_fl_in_unit. Qed.
Print Assumptions C19_ramp_binary64_stored_in_unit.

(* ... and the clamp is needed: from the binary64 number -0.95 (inside [-1,1]) a ramp to 1 computes the
   raw 20th point 1 + 2^-52 > 1; the stored (clamped) one is 1.  A ramp() that writes the raw point
   (steps bypassing set_speed) breaks |speed| <= 1 on exactly such histories *)
Theorem C19_ramp_binary64_raw_overshoots_refuted :
  exists start target,
    in_unit_q start /\ in_unit_q target /\ is_b64 start = true /\
    1 < ramp_unclamped_end start target /\
    ramp_point_fl start (ramp_sv_fl start target) 20 == 1.
Proof.
  exists overshoot_start, 1. destruct DCMotorFloatP.ramp_unclamped_overshoots as (A & B & D & _ & E).
  split; [exact A|]. split; [split; discriminate|]. split; [exact B|]. split; [exact D | exact E].
Qed.
Print Assumptions C19_ramp_binary64_raw_overshoots_refuted.

Theorem C19_ramp_binary64_raw_overshoot_value :
  ramp_unclamped_end overshoot_start 1 == 1 + (1 # 4503599627370496) /\
  ramp_unclamped_end (fl (95 # 100)) (-(1)) < -(1).
Proof.
  split; [exact (proj1 (proj2 (proj2 (proj2 DCMotorFloatP.ramp_unclamped_overshoots)))) |
          exact (proj1 DCMotorFloatP.ramp_unclamped_undershoots)].
Qed.
Print Assumptions C19_ramp_binary64_raw_overshoot_value.

(* one ramp(t, d), numeric t, d >= 0, from any state: succeeds; the speeds it stores are exactly
   ramp_points_fl (what the correspondence compares bit for bit with the real object), all within
   [-1,1]; the speed it leaves is the last of them *)
Theorem C19_ramp_binary64 : forall m t d qt qd,
  qof t = Some qt -> qof d = Some qd -> 0 <= qd ->
  mresult (mstep_fl m (MRamp t d)) = Ok MNone /\
  lvl_speeds (mevents (mstep_fl m (MRamp t d))) = ramp_points_fl (speed m) (clampq qt) /\
  speed (mstate (mstep_fl m (MRamp t d))) = last (ramp_points_fl (speed m) (clampq qt)) 0 /\
  Forall in_unit_q (lvl_speeds (mevents (mstep_fl m (MRamp t d)))).
Proof. exact DCMotorFloatP.ramp_fl_stored. Qed.
Print Assumptions C19_ramp_binary64.

(* "ends at the clamped target (to float rounding)": within 2^-49 of it - and inside [-1,1] exactly *)
Theorem C19_ramp_binary64_ends_near_target : forall m t d qt qd,
  motor_inv m -> qof t = Some qt -> qof d = Some qd -> 0 <= qd ->
  let m' := mstate (mstep_fl m (MRamp t d)) in
  clampq qt - ramp_tol <= speed m' /\ speed m' <= clampq qt + ramp_tol /\ in_unit_q (speed m').
Proof. exact DCMotorFloatP.ramp_fl_ends_near_target. Qed.
Print Assumptions C19_ramp_binary64_ends_near_target.

(* the raw interpolation is within 2^-49 of the target for every start and target in [-1,1]: the
   excursion the clamp removes is float rounding, never more *)
Theorem C19_ramp_binary64_raw_end_near : forall start target,
  in_unit_q start -> in_unit_q target ->
  target - ramp_tol <= ramp_unclamped_end start target /\ ramp_unclamped_end start target <= target + ramp_tol.
Proof. exact DCMotorFloatP.ramp_raw_end_near. Qed.
Print Assumptions C19_ramp_binary64_raw_end_near.

(* the C19 motor invariant after every history of the class as CPython runs it *)
Theorem C19_motor_inv_step_binary64 : forall m op, motor_inv m -> motor_inv (mstate (mstep_fl m op)).
Proof. exact DCMotorFloatP.step_inv_fl. Qed.
Print Assumptions C19_motor_inv_step_binary64.

Theorem C19_motor_inv_reachable_binary64 : forall i1 i2 en m0 (ops : list mop),
  motor_ctor i1 i2 en = inl m0 ->
  motor_inv (mrun_fl ops m0) /\ pins (mrun_fl ops m0) = (i1, i2, en).
Proof. exact DCMotorFloatP.motor_reachable_inv_fl. Qed.
Print Assumptions C19_motor_inv_reachable_binary64.

(* every level any history ever drives the motor at (every intermediate ramp step included) has
   |speed| <= 1, applied = +-speed, drive iff applied <> 0; no sleep is negative *)
Theorem C19_motor_history_events_binary64 : forall i1 i2 en m0 pre ops,
  motor_ctor i1 i2 en = inl m0 -> Forall ev_sound (mtrace_fl ops (mrun_fl pre m0)).
Proof. exact DCMotorFloatP.trace_ev_reachable_fl. Qed.
Print Assumptions C19_motor_history_events_binary64.

Theorem C19_motor_failed_call_atomic_binary64 : forall m op m' evs k,
  mstep_fl m op = (m', evs, Raised k) -> m' = m /\ evs = [].
Proof. exact DCMotorFloatP.motor_failed_atomic_fl. Qed.
Print Assumptions C19_motor_failed_call_atomic_binary64.

(* non-vacuity: the history of the seeded regression on the model - set_speed(-0.95); ramp(1, 100) -
   stores exactly 1 (not 1 + 2^-52) and sleeps 20 x 5 *)
Example C19_ramp_binary64_nonvacuous :
  let m := mrun_fl [MSetSpeed (PF overshoot_start)] m_init in
  motor_inv m /\
  speed (mstate (mstep_fl m (MRamp (PI 1) (PI 100)))) = 1 /\
  sleeps (mevents (mstep_fl m (MRamp (PI 1) (PI 100)))) = repeat (5 # 1) 20 /\
  nth 18 (lvl_speeds (mevents (mstep_fl m (MRamp (PI 1) (PI 100))))) 0 = (4064498663701873 # 4503599627370496).
Proof.
  cbn zeta. split.
  - change (motor_inv (mstate (mstep_fl m_init (MSetSpeed (PF overshoot_start))))).
    apply DCMotorFloatP.step_inv_fl. apply DCMotorP.init_inv.
  - vm_compute. repeat split.
Qed.
Print Assumptions C19_ramp_binary64_nonvacuous.
