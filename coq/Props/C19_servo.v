(* C19 (unit C19_servo) - host actuator invariants under every history: Servo.
   Model: Host/Servo.v (written line by line from /repo/src/Reduino/Actuators/Servo.py; the
   constructor defaults come from Gen/C19Motor.v, regenerated from the source on every run).
   Nothing but statements, closed by [exact], each followed by Print Assumptions.

   Vocabulary (Host/Servo.v, Proofs/ServoP.v):
     servo_ctor a    the constructor on (possibly omitted) arguments: inl object | inr exception kind
     sstep s op      one public call: (object after, level events, Ok result | Raised kind)
     srun ops s      the object after the history ops (successful and failing calls alike)
     a2p s / p2a s   _angle_to_pulse / _pulse_to_angle under the calibration of s
     servo_cfg_ok s  := min_angle < max_angle /\ min_pulse < max_pulse
     servo_inv s     := min_angle <= angle <= max_angle /\ min_pulse <= pulse <= max_pulse /\
                        pulse == a2p s angle /\ angle == p2a s pulse           (DESIGN.md A.4)
     same_config s s' := pin and the four calibration bounds are equal
     reads r q       := r = Ok (SFloat x) for some x == q
     strace ops s    := all level events of the history ops from s;  sev_ok s e := the invariant read on event e
   Floats are exact rationals; == is equality of rationals. *)
From Coq Require Import ZArith QArith List Bool.
From RV Require Import Base.Wire Base.NumM Base.XFloat Gen.C19Motor Host.Servo Host.ActuatorsX Proofs.NumMP Proofs.ServoP Proofs.ActuatorsXP.
From RV Require Import Host.ServoFloat Proofs.ServoFloatP.
Import ListNotations.
Local Open Scope Q_scope.

(* what the constructor accepts, and what the fresh object is *)
Theorem C19_servo_ctor : forall a s,
  servo_ctor a = inl s ->
  sv_pin s = dflt servo_default_pin (a_pin a) /\
  min_a s = qval (dflt servo_default_min_angle (a_min_a a)) /\
  max_a s = qval (dflt servo_default_max_angle (a_max_a a)) /\
  min_p s = qval (dflt servo_default_min_pulse (a_min_p a)) /\
  max_p s = qval (dflt servo_default_max_pulse (a_max_p a)) /\
  cur_a s = min_a s /\ cur_p s = min_p s /\
  servo_cfg_ok s.
Proof. exact ServoP.ctor_accepts. Qed.
Print Assumptions C19_servo_ctor.

(* exactly when the constructor raises, and what *)
Theorem C19_servo_ctor_raises : forall a,
  let mina := dflt servo_default_min_angle (a_min_a a) in
  let maxa := dflt servo_default_max_angle (a_max_a a) in
  let minp := dflt servo_default_min_pulse (a_min_p a) in
  let maxp := dflt servo_default_max_pulse (a_max_p a) in
  match servo_ctor a with
  | inl _ => qval mina < qval maxa /\ qval minp < qval maxp /\
             qof mina <> None /\ qof maxa <> None /\ qof minp <> None /\ qof maxp <> None
  | inr TypeError => qof mina = None \/ qof maxa = None \/
                     (qval mina < qval maxa /\ (qof minp = None \/ qof maxp = None))
  | inr ValueError => (qof mina <> None /\ qof maxa <> None /\ qval maxa <= qval mina) \/
                      (qval mina < qval maxa /\ qof minp <> None /\ qof maxp <> None /\ qval maxp <= qval minp)
  end.
Proof. exact ServoP.ctor_raises. Qed.
Print Assumptions C19_servo_ctor_raises.

(* every state reachable from any accepted constructor call by any sequence of calls -
   successful or failing, with int/float/bool/non-number arguments - satisfies the
   invariant; pin and calibration never change *)
Theorem C19_servo_inv_reachable : forall a s0 (ops : list sop),
  servo_ctor a = inl s0 ->
  servo_inv (srun ops s0) /\ same_config s0 (srun ops s0) /\ servo_cfg_ok s0.
Proof. exact ServoP.servo_reachable_inv. Qed.
Print Assumptions C19_servo_inv_reachable.

Theorem C19_servo_inv_step : forall s op,
  servo_cfg_ok s -> servo_inv s -> servo_inv (sstate (sstep s op)).
Proof. exact ServoP.step_inv. Qed.
Print Assumptions C19_servo_inv_step.

Theorem C19_servo_config_constant : forall s op, same_config s (sstate (sstep s op)).
Proof. exact ServoP.step_config. Qed.
Print Assumptions C19_servo_config_constant.

(* write/read and write_us/read_us round-trip after every history, and the other getter
   returns the image under the configured linear map *)
Theorem C19_servo_roundtrip : forall a s0 ops v q,
  servo_ctor a = inl s0 ->
  let s := srun ops s0 in
  qof v = Some q ->
  (min_a s0 <= q /\ q <= max_a s0 ->
     reads (sresult (sstep (sstate (sstep s (SWrite v))) SRead)) q /\
     reads (sresult (sstep (sstate (sstep s (SWrite v))) SReadUs)) (a2p s0 q)) /\
  (min_p s0 <= q /\ q <= max_p s0 ->
     reads (sresult (sstep (sstate (sstep s (SWriteUs v))) SReadUs)) q /\
     reads (sresult (sstep (sstate (sstep s (SWriteUs v))) SRead)) (p2a s0 q)).
Proof. exact ServoP.servo_roundtrip. Qed.
Print Assumptions C19_servo_roundtrip.

(* the two maps are mutually inverse for every proper calibration *)
Theorem C19_servo_maps_inverse : forall s q,
  servo_cfg_ok s -> p2a s (a2p s q) == q /\ a2p s (p2a s q) == q.
Proof. exact ServoP.servo_cross_roundtrip. Qed.
Print Assumptions C19_servo_maps_inverse.

(* the maps hit the end points: min angle <-> min pulse, max angle <-> max pulse *)
Theorem C19_servo_map_endpoints : forall s,
  servo_cfg_ok s ->
  a2p s (min_a s) == min_p s /\ a2p s (max_a s) == max_p s /\
  p2a s (min_p s) == min_a s /\ p2a s (max_p s) == max_a s.
Proof. exact ServoP.map_endpoints. Qed.
Print Assumptions C19_servo_map_endpoints.

(* the maps are strictly increasing: a larger angle is a longer pulse *)
Theorem C19_servo_map_monotone : forall s x y,
  servo_cfg_ok s -> x < y -> a2p s x < a2p s y /\ p2a s x < p2a s y.
Proof. exact ServoP.map_monotone. Qed.
Print Assumptions C19_servo_map_monotone.

(* a call that raises leaves the object exactly as it was and emits nothing - in EVERY
   state, hence after every history (every Servo argument is a scalar) *)
Theorem C19_servo_failed_call_atomic : forall s op s' evs k,
  sstep s op = (s', evs, Raised k) -> s' = s /\ evs = [].
Proof. exact ServoP.servo_failed_atomic. Qed.
Print Assumptions C19_servo_failed_call_atomic.

(* exactly which calls raise, and what *)
Theorem C19_servo_raises : forall s op,
  sresult (sstep s op) =
  match op with
  | SWrite v =>
      match qof v with
      | None => Raised TypeError
      | Some q => if Qleb (min_a s) q && Qleb q (max_a s) then Ok SNone else Raised ValueError
      end
  | SWriteUs v =>
      match qof v with
      | None => Raised TypeError
      | Some q => if Qleb (min_p s) q && Qleb q (max_p s) then Ok SNone else Raised ValueError
      end
  | SRead => Ok (SFloat (cur_a s))
  | SReadUs => Ok (SFloat (cur_p s))
  end.
Proof. exact ServoP.servo_raises. Qed.
Print Assumptions C19_servo_raises.

(* getters do not change the object *)
Theorem C19_servo_getters_pure : forall s,
  sstep s SRead = (s, [], Ok (SFloat (cur_a s))) /\ sstep s SReadUs = (s, [], Ok (SFloat (cur_p s))).
Proof. exact ServoP.getters_pure. Qed.
Print Assumptions C19_servo_getters_pure.

(* one level event per completed write, none otherwise; the event carries the stored pair *)
Theorem C19_servo_events : forall s op,
  let r := sstep s op in
  match op, sresult r with
  | (SWrite _ | SWriteUs _), Ok _ => sevents r = [SLvl (cur_a (sstate r)) (cur_p (sstate r))]
  | _, _ => sevents r = []
  end.
Proof. exact ServoP.servo_events. Qed.
Print Assumptions C19_servo_events.

(* every position any history ever commands - after any earlier history - lies inside both
   configured ranges and on the configured line (the invariant, read on the level events) *)
Theorem C19_servo_history_events : forall a s0 pre ops,
  servo_ctor a = inl s0 -> Forall (sev_ok s0) (strace ops (srun pre s0)).
Proof. exact ServoP.trace_sev_reachable. Qed.
Print Assumptions C19_servo_history_events.

(* exactly one level event per successful write/write_us, none for getters and failing calls *)
Theorem C19_servo_event_count : forall s op,
  length (sevents (sstep s op)) = if swrites_ok s op then 1%nat else 0%nat.
Proof. exact ServoP.step_sev_count. Qed.
Print Assumptions C19_servo_event_count.

(* ====================================================================== *)
(* IEEE specials as calibration bounds.  REFUTED on the code before the repair (finding                *)
(* F-C19-servo-nonfinite-bound, now kind=fixed): the constructor tested min >= max, which is False for  *)
(* NaN, and accepted infinite bounds.  Model of the repaired checks (not min < max on both axes, then    *)
(* math.isfinite of all four) over floats with specials: Host/ActuatorsX.v [servo_bounds_accepted].      *)
(* ====================================================================== *)

(* was C19_servo_bounds_nonfinite_refuted (exists a b c d accepted and not all finite): whatever the
   constructor accepts are four finite floats *)
Theorem C19_servo_bounds_finite : forall a b c d,
  servo_bounds_accepted a b c d = true ->
  xfinite a = true /\ xfinite b = true /\ xfinite c = true /\ xfinite d = true.
Proof. exact ActuatorsXP.servo_bounds_all_finite. Qed.
Print Assumptions C19_servo_bounds_finite.

(* was C19_servo_bounds_partial (guard: the four bounds are finite floats), now without a guard: for ALL
   floats, accepted exactly when the four are finite with min < max on both axes - the hypothesis
   servo_cfg_ok under which all theorems above are proved *)
Theorem C19_servo_bounds : forall a b c d,
  servo_bounds_accepted a b c d = true <->
  exists qa qb qc qd, a = XFin qa /\ b = XFin qb /\ c = XFin qc /\ d = XFin qd /\ qa < qb /\ qc < qd.
Proof. exact ActuatorsXP.servo_bounds_spec. Qed.
Print Assumptions C19_servo_bounds.

(* on finite floats the checks with specials are the checks of the constructor model Host/Servo.v *)
Theorem C19_servo_bounds_agree : forall qa qb qc qd,
  servo_bounds_accepted (XFin qa) (XFin qb) (XFin qc) (XFin qd) = true <-> qa < qb /\ qc < qd.
Proof. exact ActuatorsXP.servo_bounds_finite. Qed.
Print Assumptions C19_servo_bounds_agree.

Example C19_servo_bounds_nonvacuous :
  servo_bounds_accepted XNaN (XFin (180 # 1)) (XFin (544 # 1)) (XFin (2400 # 1)) = false /\
  servo_bounds_accepted XNInf (XFin (180 # 1)) (XFin (544 # 1)) (XFin (2400 # 1)) = false /\
  servo_bounds_accepted (XFin 0) (XFin (180 # 1)) (XFin (544 # 1)) XPInf = false /\
  servo_bounds_accepted (XFin 0) XNaN (XFin (544 # 1)) XNaN = false /\
  servo_bounds_accepted (XFin 0) (XFin (180 # 1)) XNaN (XFin (2400 # 1)) = false /\
  servo_bounds_accepted XPInf XPInf (XFin (544 # 1)) (XFin (2400 # 1)) = false /\
  servo_bounds_accepted (XFin 0) XNInf (XFin (544 # 1)) (XFin (2400 # 1)) = false /\
  servo_bounds_accepted (XFin 0) (XFin (180 # 1)) (XFin (2400 # 1)) (XFin (544 # 1)) = false /\
  servo_bounds_accepted (XFin (90 # 1)) (XFin (90 # 1)) (XFin (544 # 1)) (XFin (2400 # 1)) = false /\
  servo_bounds_accepted (XFin 0) (XFin (180 # 1)) (XFin (544 # 1)) (XFin (2400 # 1)) = true.
Proof. vm_compute. repeat split. Qed.
Print Assumptions C19_servo_bounds_nonvacuous.

(* ====================================================================== *)
(* non-vacuity: the hypotheses above are satisfiable by non-trivial states *)
(* ====================================================================== *)

Definition dflt_args : servo_args := mkServoArgs None None None None None.
Definition neg_args : servo_args :=
  mkServoArgs (Some (PI 3)) (Some (PI (-90))) (Some (PF (90 # 1))) (Some (PI 1000)) (Some (PI 2000)).

Example C19_servo_ctor_nonvacuous :
  servo_ctor dflt_args = inl (mkServo (PI 9) 0 (180 # 1) (544 # 1) (2400 # 1) 0 (544 # 1)) /\
  servo_ctor (mkServoArgs None (Some (PI 180)) (Some (PI 0)) None None) = inr ValueError /\
  servo_ctor (mkServoArgs None (Some (PI 90)) (Some (PF (90 # 1))) None None) = inr ValueError /\
  servo_ctor (mkServoArgs None (Some PO) None (Some (PI 2400)) (Some (PI 544))) = inr TypeError /\
  servo_ctor (mkServoArgs None (Some (PI 10)) (Some (PI 5)) (Some PO) None) = inr ValueError /\
  servo_ctor (mkServoArgs None None None None (Some PO)) = inr TypeError /\
  servo_ctor (mkServoArgs (Some PO) (Some (PB false)) (Some (PB true)) None None) =
    inl (mkServo PO 0 1 (544 # 1) (2400 # 1) 0 (544 # 1)).
Proof. vm_compute. repeat split. Qed.
Print Assumptions C19_servo_ctor_nonvacuous.

Example C19_servo_write_nonvacuous :
  let s0 := mkServo (PI 9) 0 (180 # 1) (544 # 1) (2400 # 1) 0 (544 # 1) in
  sstep s0 (SWrite (PI 90)) =
    (mkServo (PI 9) 0 (180 # 1) (544 # 1) (2400 # 1) (90 # 1) (544 + ((90 # 1) - 0) / ((180 # 1) - 0) * ((2400 # 1) - (544 # 1))),
     [SLvl (90 # 1) (544 + ((90 # 1) - 0) / ((180 # 1) - 0) * ((2400 # 1) - (544 # 1)))], Ok SNone) /\
  Qred (cur_p (sstate (sstep s0 (SWrite (PI 90))))) = 1472 # 1 /\
  Qred (cur_a (sstate (sstep s0 (SWriteUs (PF (1472 # 1)))))) = 90 # 1 /\
  Qred (cur_p (sstate (sstep s0 (SWrite (PB true))))) = 24944 # 45 /\
  sstep s0 (SWrite (PF (361 # 2))) = (s0, [], Raised ValueError) /\
  sstep s0 (SWrite (PI (-1))) = (s0, [], Raised ValueError) /\
  sstep s0 (SWrite PO) = (s0, [], Raised TypeError) /\
  sstep s0 (SWriteUs (PI 543)) = (s0, [], Raised ValueError) /\
  sstep s0 (SWriteUs PO) = (s0, [], Raised TypeError) /\
  sstep s0 (SWriteUs (PI 2400)) =
    (mkServo (PI 9) 0 (180 # 1) (544 # 1) (2400 # 1)
       (0 + ((2400 # 1) - (544 # 1)) / ((2400 # 1) - (544 # 1)) * ((180 # 1) - 0)) (2400 # 1),
     [SLvl (0 + ((2400 # 1) - (544 # 1)) / ((2400 # 1) - (544 # 1)) * ((180 # 1) - 0)) (2400 # 1)], Ok SNone).
Proof. vm_compute. repeat split. Qed.
Print Assumptions C19_servo_write_nonvacuous.

(* a reachable state with a negative-angle calibration, after a failing call in the middle *)
Example C19_servo_history_nonvacuous :
  exists s0, servo_ctor neg_args = inl s0 /\
  let s := srun [SWrite (PI 45); SWrite (PI 91); SWriteUs (PF (3001 # 2)); SWriteUs PO] s0 in
  Qred (cur_a s) = 9 # 100 /\ Qred (cur_p s) = 3001 # 2 /\
  min_a s = -90 # 1 /\ max_a s = 90 # 1 /\ min_p s = 1000 # 1 /\ max_p s = 2000 # 1 /\
  servo_inv s.
Proof.
  eexists. split; [reflexivity|]. cbn zeta.
  split; [vm_compute; reflexivity|]. split; [vm_compute; reflexivity|].
  split; [reflexivity|]. split; [reflexivity|]. split; [reflexivity|]. split; [reflexivity|].
  apply (ServoP.run_inv _ _).
  - split; reflexivity.
  - apply ServoP.init_inv; [split; reflexivity | reflexivity | reflexivity].
Qed.
Print Assumptions C19_servo_history_nonvacuous.

(* ====================================================================================
   The two linear maps in BINARY64 (Host/ServoFloat.v), as the class computes them after the repair of
   F-C19-servo-bound-ulp.  The theorems above are over exact rationals, where the maps send [min, max] onto
   [min, max]; CPython rounds each of the five operations ([fl]) and then CLAMPS the value to the configured
   bounds; the clause "angle and pulse stay within their bounds" is an EXACT inequality.
     lin_fl ..               the raw interpolation (five rounded operations)
     lin_clamped_fl ..       := qclamp lo_out hi_out (lin_fl ..)        min(max(v, lo), hi)
     a2p_fl s a / p2a_fl s p the maps as the class computes them;  a2p_raw_fl / p2a_raw_fl without the clamp
     sstep_fl / srun_fl      the class with them
     servo_bounds_fl s       := min_a <= cur_a <= max_a /\ min_p <= cur_p <= max_p
     servo_cfg_ok s          := min_a < max_a /\ min_p < max_p   (what the constructor accepts)
     top_ok lo hi            := fl (lo + fl (fl (hi - lo))) <= hi   (the OLD guard: where it holds the clamp never bites)
   ==================================================================================== *)

(* the repaired map lands within the bounds for EVERY argument and every calibration: no guard *)
Theorem C19_servo_binary64_map_within_bounds : forall lo_in hi_in lo_out hi_out x,
  lo_out <= hi_out ->
  lo_out <= lin_clamped_fl lo_in hi_in lo_out hi_out x /\ lin_clamped_fl lo_in hi_in lo_out hi_out x <= hi_out.
Proof. exact ServoFloatP.lin_clamped_fl_bounds. Qed.
Print Assumptions C19_servo_binary64_map_within_bounds.

(* one call, successful or failing, of any calibration with min < max ... *)
Theorem C19_servo_binary64_bounds_step : forall s op,
  servo_cfg_ok s -> servo_bounds_fl s ->
  servo_bounds_fl (sstate (sstep_fl s op)) /\ servo_cfg_ok (sstate (sstep_fl s op)).
Proof. exact ServoFloatP.step_bounds_fl. Qed.
Print Assumptions C19_servo_binary64_bounds_step.

(* ... every history ... *)
Theorem C19_servo_binary64_bounds_run : forall ops s,
  servo_cfg_ok s -> servo_bounds_fl s -> servo_bounds_fl (srun_fl ops s) /\ servo_cfg_ok (srun_fl ops s).
Proof. exact ServoFloatP.run_bounds_fl. Qed.
Print Assumptions C19_servo_binary64_bounds_run.

(* ... from every accepted constructor call: angle and pulse within their bounds EXACTLY, in binary64 *)
Theorem C19_servo_binary64_bounds_reachable : forall a s0 (ops : list sop),
  servo_ctor a = inl s0 -> servo_bounds_fl (srun_fl ops s0).
Proof. exact ServoFloatP.reachable_bounds_fl. Qed.
Print Assumptions C19_servo_binary64_bounds_reachable.

Theorem C19_servo_binary64_fresh_bounds : forall pin mina maxa minp maxp,
  mina < maxa -> minp < maxp -> servo_bounds_fl (mkServo pin mina maxa minp maxp mina minp).
Proof. exact ServoFloatP.fresh_bounds_fl. Qed.
Print Assumptions C19_servo_binary64_fresh_bounds.

(* REPAIRED (was C19_servo_binary64_pulse_bound_refuted): Servo(9, min_pulse_us=543.9, max_pulse_us=2000.2).write(180)
   leaves the pulse ON max_pulse_us; the raw interpolation is above it - the clamp is what keeps the bound *)
Theorem C19_servo_binary64_pulse_bound_repaired :
  is_b64 (min_p pulse_witness) = true /\ is_b64 (max_p pulse_witness) = true /\ servo_cfg_ok pulse_witness /\
  py_between (min_a pulse_witness) (max_a pulse_witness) (PI 180) = Some true /\
  max_p pulse_witness < a2p_raw_fl pulse_witness 180 /\
  cur_p (sstate (sstep_fl pulse_witness (SWrite (PI 180)))) = max_p pulse_witness.
Proof.
  destruct ServoFloatP.pulse_witness_facts as (A & B & D & E & F & _ & G).
  destruct ServoFloatP.repaired_witnesses as (C1 & _).
  split; [exact A|]. split; [exact B|]. split; [exact C1|]. split; [reflexivity|]. split; [exact E|].
  rewrite G. exact F.
Qed.
Print Assumptions C19_servo_binary64_pulse_bound_repaired.

(* REPAIRED (was C19_servo_binary64_angle_bound_refuted): Servo(9, min_angle=-90.7, max_angle=90.1).write_us(2400) *)
Theorem C19_servo_binary64_angle_bound_repaired :
  is_b64 (min_a angle_witness) = true /\ is_b64 (max_a angle_witness) = true /\ servo_cfg_ok angle_witness /\
  max_a angle_witness < p2a_raw_fl angle_witness (max_p angle_witness) /\
  p2a_fl angle_witness (max_p angle_witness) = max_a angle_witness /\
  servo_top_ok angle_witness = false.
Proof.
  destruct ServoFloatP.angle_witness_facts as (A & B & _ & E & F & _).
  destruct ServoFloatP.repaired_witnesses as (_ & C2 & _ & T & _).
  split; [exact A|]. split; [exact B|]. split; [exact C2|]. split; [exact E|]. split; [exact F | exact T].
Qed.
Print Assumptions C19_servo_binary64_angle_bound_repaired.

(* non-vacuity of the bound theorems: both old witnesses are accepted calibrations OUTSIDE the old guard, and the
   repaired calls end on the bound *)
Example C19_servo_binary64_repaired_nonvacuous :
  servo_cfg_ok pulse_witness /\ servo_cfg_ok angle_witness /\
  servo_top_ok pulse_witness = false /\ servo_top_ok angle_witness = false /\
  cur_p (sstate (sstep_fl pulse_witness (SWrite (PI 180)))) = max_p pulse_witness /\
  cur_a (sstate (sstep_fl angle_witness (SWriteUs (PI 2400)))) = max_a angle_witness /\
  servo_top_ok (mkServo (PI 9) 0 180 544 2400 0 544) = true.
Proof. exact ServoFloatP.repaired_witnesses. Qed.
Print Assumptions C19_servo_binary64_repaired_nonvacuous.

(* the default calibration maps its ends and its middle exactly *)
Theorem C19_servo_binary64_default_calibration :
  let s := mkServo (PI 9) 0 180 544 2400 0 544 in
  servo_top_exact s = true /\ a2p_fl s 180 = 2400 /\ a2p_fl s 0 = 544 /\ p2a_fl s 2400 = 180 /\ p2a_fl s 544 = 0 /\
  a2p_fl s 90 = 1472.
Proof. exact ServoFloatP.default_calibration_exact. Qed.
Print Assumptions C19_servo_binary64_default_calibration.

(* the repair changes nothing where the class was right: inside the old guard (the image of the top of the range is
   not above the bound, min a binary64 number) the clamp is the identity on every in-range argument, because there the
   raw interpolation already stays within the bounds (rounding is monotone) *)
Theorem C19_servo_binary64_clamp_idle_inside_old_guard : forall lo_in hi_in lo_out hi_out x,
  lo_in < hi_in -> lo_out <= hi_out -> lo_in <= x -> x <= hi_in ->
  is_b64 lo_out = true -> top_ok lo_out hi_out = true ->
  lin_clamped_fl lo_in hi_in lo_out hi_out x = lin_fl lo_in hi_in lo_out hi_out x.
Proof. exact ServoFloatP.lin_clamped_fl_id. Qed.
Print Assumptions C19_servo_binary64_clamp_idle_inside_old_guard.

Theorem C19_servo_binary64_raw_map_within_bounds_partial : forall lo_in hi_in lo_out hi_out x,
  lo_in < hi_in -> lo_out <= hi_out -> lo_in <= x -> x <= hi_in ->
  is_b64 lo_out = true -> top_ok lo_out hi_out = true ->
  lo_out <= lin_fl lo_in hi_in lo_out hi_out x /\ lin_fl lo_in hi_in lo_out hi_out x <= hi_out.
Proof. exact ServoFloatP.lin_fl_bounds. Qed.
Print Assumptions C19_servo_binary64_raw_map_within_bounds_partial.

(* rounding to the nearest binary64 number is monotone and idempotent *)
Theorem C19_binary64_rounding_monotone : forall p q, p <= q -> fl p <= fl q.
Proof. exact ServoFloatP.fl_mono. Qed.
Print Assumptions C19_binary64_rounding_monotone.

Theorem C19_binary64_rounding_idempotent : forall x, fl (fl x) == fl x.
Proof. exact ServoFloatP.fl_idem. Qed.
Print Assumptions C19_binary64_rounding_idempotent.

Theorem C19_servo_binary64_old_guard_is_executable : forall lo hi,
  (top_ok lo hi = true <-> fl (lo + fl (hi - lo)) <= hi) /\ (top_exact lo hi = true -> top_ok lo hi = true).
Proof. intros lo hi. split; [exact (ServoFloatP.top_ok_iff lo hi) | exact (ServoFloatP.top_exact_ok lo hi)]. Qed.
Print Assumptions C19_servo_binary64_old_guard_is_executable.

(* what holds exactly in binary64 for every servo and argument: the commanded coordinate is stored as given
   (write/read and write_us/read_us round-trip), a failing call changes nothing, the configuration is constant *)
Theorem C19_servo_binary64_write_roundtrip : forall s v,
  py_between (min_a s) (max_a s) v = Some true ->
  cur_a (sstate (sstep_fl s (SWrite v))) = qval v /\
  sresult (sstep_fl (sstate (sstep_fl s (SWrite v))) SRead) = Ok (SFloat (qval v)).
Proof. exact ServoFloatP.write_fl_stores_argument. Qed.
Print Assumptions C19_servo_binary64_write_roundtrip.

Theorem C19_servo_binary64_write_us_roundtrip : forall s v,
  py_between (min_p s) (max_p s) v = Some true ->
  cur_p (sstate (sstep_fl s (SWriteUs v))) = qval v /\
  sresult (sstep_fl (sstate (sstep_fl s (SWriteUs v))) SReadUs) = Ok (SFloat (qval v)).
Proof. exact ServoFloatP.write_us_fl_stores_argument. Qed.
Print Assumptions C19_servo_binary64_write_us_roundtrip.

Theorem C19_servo_binary64_failed_call_atomic : forall s op s' evs k,
  sstep_fl s op = (s', evs, Raised k) -> s' = s /\ evs = [].
Proof. exact ServoFloatP.servo_failed_atomic_fl. Qed.
Print Assumptions C19_servo_binary64_failed_call_atomic.

Theorem C19_servo_binary64_config_constant : forall s op,
  let s' := sstate (sstep_fl s op) in
  sv_pin s' = sv_pin s /\ min_a s' = min_a s /\ max_a s' = max_a s /\ min_p s' = min_p s /\ max_p s' = max_p s.
Proof. exact ServoFloatP.servo_config_constant_fl. Qed.
Print Assumptions C19_servo_binary64_config_constant.
