(* C20 - Host sensor, Core-pin, timing and serial helpers are faithful small models.
   Nothing but statements, closed by [exact], each followed by Print Assumptions.
   Models: Host/Core.v Host/Utils.v Host/Sensors.v Host/Serial.v (Base/NumC.v, Base/TextC.v).
   [exec ops] is the state of the three Core dicts after the history [ops] (any interleaving
   of pin_mode / digital_write / analog_write / digital_read / analog_read over int and str
   pins); [dread s p] / [aread s p] are what digital_read(p) / analog_read(p) return in [s];
   [history k ops] is the reference memory semantics computed from the calls alone. *)
From Coq Require Import ZArith QArith List Bool.
From RV Require Import Base.Wire Base.Text Base.NumC Base.TextC
  Host.Core Host.Utils Host.Sensors Host.Serial
  Proofs.NumCP Proofs.CoreP Proofs.UtilsP Proofs.SensorsP.
Import ListNotations.
Open Scope Z_scope.

(* ============================================================== Core pins *)

(* digital: after digital_write(p, v), whatever came before and whatever follows that is
   not a digital_write to the same pin, a read through any alias q of p returns the level *)
Theorem C20_read_your_writes : forall (pre post : list op) (p q : pin) (v : pynum),
  normalise q = normalise p ->
  Forall (not_dwrite_to (normalise p)) post ->
  dread (exec (pre ++ DWrite p v :: post)) q = (if truthy v then HIGH else LOW).
Proof. exact read_your_writes_digital. Qed.
Print Assumptions C20_read_your_writes.

(* analog: the same with the value as clamped/rounded by analog_write *)
Theorem C20_read_your_writes_analog : forall (pre post : list op) (p q : pin) (v : pynum) (z : Z),
  normalise q = normalise p ->
  analog_of v = Some z ->
  Forall (not_awrite_to (normalise p)) post ->
  aread (exec (pre ++ AWrite p v :: post)) q = z.
Proof. exact read_your_writes_analog. Qed.
Print Assumptions C20_read_your_writes_analog.

(* history form: reads agree with the reference memory for every history *)
Theorem C20_read_your_writes_history : forall (ops : list op) (p : pin),
  (forall b, h_dw (history (normalise p) ops) = Some b -> dread (exec ops) p = b2z b) /\
  aread (exec ops) p = ref_aread (history (normalise p) ops).
Proof. exact read_your_writes_hist. Qed.
Print Assumptions C20_read_your_writes_history.

(* the value a read call returns inside a run is dread/aread of the state before it *)
Theorem C20_read_result : forall (pre : list op) (q : pin),
  snd (run_from init (pre ++ [DRead q])) = snd (run_from init pre) ++ [RVal (dread (exec pre) q)] /\
  snd (run_from init (pre ++ [ARead q])) = snd (run_from init pre) ++ [RVal (aread (exec pre) q)].
Proof. exact (fun pre q => conj (run_read_digital pre q) (run_read_analog pre q)). Qed.
Print Assumptions C20_read_result.

(* aliases: two histories that differ only in how pins are spelled ("7" / "07" / 7)
   produce the same results call by call and the same final state *)
Theorem C20_pin_alias : forall (s : core) (ops ops' : list op),
  map norm_op ops = map norm_op ops' -> run_from s ops = run_from s ops'.
Proof. exact run_from_alias. Qed.
Print Assumptions C20_pin_alias.

(* for every non-negative int n the pin named str(n) is the pin n; negative ones are not *)
Theorem C20_pin_alias_str : forall z : Z,
  (0 <= z -> normalise (PinS (str_Z z)) = PinI z) /\
  (z < 0 -> normalise (PinS (str_Z z)) = PinS (str_Z z)).
Proof. exact (fun z => conj (alias_str_int z) (no_alias_negative z)). Qed.
Print Assumptions C20_pin_alias_str.

(* a call addressed to pin p never changes what reads of a different pin q return,
   from any state whatsoever *)
Theorem C20_noninterference : forall (s : core) (o : op) (q : pin),
  normalise (op_pin o) <> normalise q ->
  dread (fst (step s o)) q = dread s q /\ aread (fst (step s o)) q = aread s q.
Proof. exact noninterference. Qed.
Print Assumptions C20_noninterference.

Theorem C20_noninterference_block : forall (s : core) (ops : list op) (q : pin),
  Forall (fun o => normalise (op_pin o) <> normalise q) ops ->
  dread (exec_from s ops) q = dread s q /\ aread (exec_from s ops) q = aread s q.
Proof. exact noninterference_block. Qed.
Print Assumptions C20_noninterference_block.

(* every stored analog value, and every analog_read, lies in 0..255 after every history *)
Theorem C20_analog_clamp : forall (ops : list op) (p : pin),
  Forall (fun kv => 0 <= snd kv <= 255) (ana (exec ops)) /\ 0 <= aread (exec ops) p <= 255.
Proof. exact analog_clamp. Qed.
Print Assumptions C20_analog_clamp.

(* rounding used by analog_write: nearest integer, ties to even *)
Theorem C20_analog_rounding : forall (n : Z) (d : positive),
  let r := q_round (Qmake n d) in
  - Zpos d <= 2 * (n - r * Zpos d) <= Zpos d /\
  (Z.abs (2 * (n - r * Zpos d)) = Zpos d -> Z.even r = true).
Proof. exact q_round_spec_Z. Qed.
Print Assumptions C20_analog_rounding.

(* default of an unwritten pin, inside the guard: the code agrees with the property
   (INPUT_PULLUP reads HIGH, everything else LOW) ... *)
Theorem C20_unwritten_default_partial : forall (ops : list op) (p : pin),
  guard (history (normalise p) ops) = true ->
  dread (exec ops) p = ref_dread (history (normalise p) ops).
Proof. exact unwritten_default_partial. Qed.
Print Assumptions C20_unwritten_default_partial.

(* ... and the guard is exact: outside it the code's answer is wrong *)
Theorem C20_unwritten_default_guard_exact : forall (ops : list op) (p : pin),
  dread (exec ops) p = ref_dread (history (normalise p) ops) <->
  guard (history (normalise p) ops) = true.
Proof. exact guard_exact. Qed.
Print Assumptions C20_unwritten_default_guard_exact.

(* pin_mode(7, INPUT_PULLUP); pin_mode(7, OUTPUT); digital_read(7) returns HIGH although the
   pin is an unwritten OUTPUT pin, for which the property demands LOW *)
Theorem C20_pullup_then_output_refuted :
  exists ops p,
    let h := history (normalise p) ops in
    h_dw h = None /\ h_mode h = Some OUTPUT /\ ref_dread h = LOW /\
    dread (exec ops) p = HIGH /\
    snd (run_from init (ops ++ [DRead p])) = [RNone; RNone; RVal HIGH].
Proof. exact pullup_then_output_refuted. Qed.
Print Assumptions C20_pullup_then_output_refuted.

(* ================================================================== Utils *)
Local Open Scope Q_scope.

Theorem C20_map_affine : forall x fl fh tl th : Q,
  ~ fl == fh ->
  exists y,
    umap x fl fh tl th = UOk y /\
    y == tl + (x - fl) * (th - tl) / (fh - fl) /\
    (exists y0, umap fl fl fh tl th = UOk y0 /\ y0 == tl) /\
    (exists y1, umap fh fl fh tl th = UOk y1 /\ y1 == th).
Proof. exact map_affine. Qed.
Print Assumptions C20_map_affine.

(* it is THE affine map through the two points *)
Theorem C20_map_unique : forall (g : Q -> Q) (fl fh tl th : Q),
  ~ fl == fh ->
  (forall a x y, g (a * x + (1 - a) * y) == a * g x + (1 - a) * g y) ->
  (forall x y, x == y -> g x == g y) ->
  g fl == tl -> g fh == th ->
  forall x, g x == map_val x fl fh tl th.
Proof. exact map_unique. Qed.
Print Assumptions C20_map_unique.

Theorem C20_map_refuses_zero_span : forall x fl fh tl th : Q,
  umap x fl fh tl th = URaise ValueError <-> fl == fh.
Proof. exact map_refuses_zero_span. Qed.
Print Assumptions C20_map_refuses_zero_span.

Theorem C20_map_py : forall (x fl fh tl th : pynum) (a b c d e : Q),
  qval x = Some a -> qval fl = Some b -> qval fh = Some c -> qval tl = Some d -> qval th = Some e ->
  umap_py x fl fh tl th = Some (umap a b c d e).
Proof. exact map_py. Qed.
Print Assumptions C20_map_py.

(* sleep: negatives (and None) raise before the sleeper is called; otherwise exactly one
   call, with ms/1000 *)
Theorem C20_sleep : forall d : pynum,
  match qval d with
  | None => usleep d = ([], URaise TypeError)
  | Some ms =>
      (ms < 0 -> usleep d = ([], URaise ValueError)) /\
      (0 <= ms -> usleep d = ([ms / 1000], UOk tt))
  end%Q.
Proof. exact sleep_spec. Qed.
Print Assumptions C20_sleep.

Local Open Scope Z_scope.

(* ================================================================ Sensors *)

(* provider mode: for every sample sequence, on_click fires exactly at the rising edges
   (initial previous level = released) and is_pressed returns the samples *)
Theorem C20_button_edges : forall (pin : pynum) (samples : list pynum) (s : button),
  button_new pin true true = UOk s ->
  map snd (polls (brun s (map BPoll samples))) = rising false (map truthy samples) /\
  map fst (polls (brun s (map BPoll samples))) = map b2z (map truthy samples).
Proof. exact button_edges_provider. Qed.
Print Assumptions C20_button_edges.

(* set_pressed mode: the same on the level in force at each is_pressed call, for every
   interleaving of set_pressed and is_pressed *)
Theorem C20_button_edges_manual : forall (pin : pynum) (ops : list bop) (s : button),
  button_new pin true false = UOk s ->
  map snd (polls (brun s ops)) = rising false (seen false false ops) /\
  map fst (polls (brun s ops)) = map b2z (seen false false ops).
Proof. exact button_edges_manual. Qed.
Print Assumptions C20_button_edges_manual.

(* what "rising edge" means, position by position *)
Theorem C20_rising_positions : forall (l : list bool) (prev : bool) (i : nat),
  (i < length l)%nat ->
  length (rising prev l) = length l /\
  nth i (rising prev l) false = nth i l false && negb (level_before prev l i).
Proof. exact (fun l prev i H => conj (rising_length prev l) (rising_nth l prev i H)). Qed.
Print Assumptions C20_rising_positions.

Theorem C20_button_no_callback : forall (pin : pynum) (provider : bool) (ops : list bop) (s : button),
  button_new pin false provider = UOk s ->
  Forall (fun c => c = false) (map snd (polls (brun s ops))) /\
  map fst (polls (brun s ops)) = map b2z (seen provider false ops).
Proof. exact button_no_callback. Qed.
Print Assumptions C20_button_no_callback.

(* Potentiometer.read with an int-valued provider (the annotated domain): the provider's
   value, or ValueError exactly outside 0..1023 *)
Theorem C20_pot : forall (z : Z) (r : ures Z),
  pot_read (Some (PI z)) = r ->
  (r = UOk z <-> 0 <= z <= 1023) /\ (r = URaise ValueError <-> (z < 0 \/ 1023 < z)).
Proof. exact pot_read_iff. Qed.
Print Assumptions C20_pot.

Theorem C20_pot_new : forall t s : text,
  pot_new (Some t) = UOk s <-> s = strip t /\ exists r, s = 65 :: r /\ all_digits r = true.
Proof. exact pot_new_spec. Qed.
Print Assumptions C20_pot_new.

(* Ultrasonic.measure_distance: the provider's (or default) value, or ValueError exactly
   when it is negative *)
Theorem C20_ultra : forall (default : Q) (provider : option pynum) (q : Q),
  match provider with None => Some default | Some v => qval v end = Some q ->
  ((0 <= q)%Q -> ultra_measure default provider = UOk q) /\
  ((q < 0)%Q -> ultra_measure default provider = URaise ValueError).
Proof. exact ultra_measure_spec. Qed.
Print Assumptions C20_ultra.

Theorem C20_ultra_new : forall (sensor model : option text) (trig echo default : pynum) (d : Q),
  ultra_new sensor model trig echo default = UOk d ->
  canonical (match sensor with
             | Some s => s
             | None => match model with Some m => m | None => HCSR04 end
             end) = HCSR04 /\
  (exists t e, py_int trig = Some t /\ py_int echo = Some e /\ 0 <= t /\ 0 <= e /\
               is_int trig = true /\ is_int echo = true) /\
  qval default = Some d.
Proof. exact ultra_new_accepts. Qed.
Print Assumptions C20_ultra_new.

(* ================================================================= Serial *)

(* one write: returns str(value); sends exactly str(value)+newline when connected, nothing
   otherwise; the monitor is unchanged *)
Theorem C20_serial_write : forall (s : monitor) (v : sval),
  sstep s (SWrite v) =
  (s, (if m_open s then [str_of v ++ m_newline s] else []), SRet (str_of v)).
Proof. exact serial_write. Qed.
Print Assumptions C20_serial_write.

(* the same inside every history of write / close / connect calls *)
Theorem C20_serial_history : forall (ops : list sop) (s : monitor) (i : nat) (v : sval),
  nth_error ops i = Some (SWrite v) ->
  exists o, nth_error (open_before s ops) i = Some o /\
  nth_error (srun s ops) i =
    Some ((if o then [str_of v ++ m_newline s] else []), SRet (str_of v)).
Proof. exact serial_history. Qed.
Print Assumptions C20_serial_history.

(* str(n) of a non-negative int is the digit string denoting n *)
Theorem C20_str_int : forall z : Z,
  0 <= z -> all_digits (str_of (SInt z)) = true /\ dec (str_of (SInt z)) = z.
Proof. exact str_of_int_correct. Qed.
Print Assumptions C20_str_int.

(* ============================================================ non-vacuity *)

(* p7 = 7, s7 = "7", s07 = "07", sA0 = "A0", sm7 = "-7" (Proofs/CoreP.v) *)
(* aliases really are identified, non-aliases are not; a mixed history exercises
   read-your-writes, clamping, rounding and non-interference at once *)
Example C20_core_nonvacuous :
  normalise s7 = p7 /\ normalise s07 = p7 /\ normalise sm7 = sm7 /\ normalise sA0 = sA0 /\
  normalise (PinS []) = PinS [] /\
  snd (run_from init
         [DWrite s07 (PI 2); AWrite p7 (PF (255 # 2)); AWrite sA0 (PI 300); AWrite sm7 (PI (-1));
          PinMode (PinI 13) INPUT_PULLUP; AWrite p7 PO;
          DRead s7; ARead s7; ARead sA0; ARead sm7; DRead (PinI 13); DRead sA0;
          AWrite p7 (PF (257 # 2)); ARead s07; AWrite p7 (PF (509 # 2)); ARead p7])
  = [RNone; RNone; RNone; RNone; RNone; RRaise TypeError;
     RVal 1; RVal 128; RVal 255; RVal 0; RVal 1; RVal 0;
     RNone; RVal 128; RNone; RVal 254].
Proof. vm_compute. repeat split. Qed.
Print Assumptions C20_core_nonvacuous.

(* the guard of the partial theorem is satisfiable both ways, and fails on the witness *)
Example C20_guard_nonvacuous :
  guard (history p7 [PinMode s7 INPUT_PULLUP]) = true /\
  ref_dread (history p7 [PinMode s7 INPUT_PULLUP]) = HIGH /\
  guard (history p7 [PinMode p7 OUTPUT; PinMode p7 INPUT_PULLUP; PinMode p7 INPUT_PULLUP]) = true /\
  guard (history p7 [PinMode p7 INPUT_PULLUP; DWrite p7 (PB false); PinMode p7 OUTPUT]) = true /\
  guard (history p7 witness_ops) = false.
Proof. vm_compute. repeat split. Qed.
Print Assumptions C20_guard_nonvacuous.

Example C20_utils_nonvacuous :
  umap 5 0 10 0 100 = UOk (map_val 5 0 10 0 100) /\ (map_val 5 0 10 0 100 == 50)%Q /\
  (map_val 1 0 4 10 (-10) == 5)%Q /\
  umap 1 (1 # 2) (2 # 4) 0 1 = URaise ValueError /\
  umap_py (PB true) (PI 0) (PF (2 # 1)) (PI 0) (PI 1) = Some (UOk (map_val 1 0 2 0 1)) /\
  umap_py (PI 1) (PB true) (PI 1) (PI 0) (PI 1) = Some (URaise ValueError) /\
  usleep (PI 1500) = ([(1500 # 1) / 1000], UOk tt)%Q /\
  usleep (PF (-1 # 2)) = ([], URaise ValueError) /\
  usleep (PB true) = ([(1 # 1) / 1000], UOk tt)%Q /\
  usleep PO = ([], URaise TypeError).
Proof. vm_compute. repeat split. Qed.
Print Assumptions C20_utils_nonvacuous.

Example C20_sensors_nonvacuous :
  (* released pressed pressed released pressed : two clicks, at positions 1 and 4 *)
  rising false [false; true; true; false; true] = [false; true; false; false; true] /\
  polls (brun (mkButton true true false false)
              (map BPoll [PI 0; PI 2; PB true; PO; PF (1 # 2)]))
    = [(0, false); (1, true); (1, false); (0, false); (1, true)] /\
  polls (brun (mkButton true false false false)
              [BPoll PO; BSet (PI 1); BSet (PI 0); BSet (PI 1); BPoll PO; BPoll PO; BSet (PB false); BPoll PO])
    = [(0, false); (1, true); (1, false); (0, false)] /\
  button_new (PF 1) true true = URaise TypeError /\
  pot_read (Some (PI 1023)) = UOk 1023 /\ pot_read (Some (PI 1024)) = URaise ValueError /\
  pot_read (Some (PI (-1))) = URaise ValueError /\ pot_read (Some (PF (-1 # 2))) = UOk 0 /\
  pot_new (Some [32; 65; 48; 32]) = UOk [65; 48] /\ pot_new (Some [65]) = URaise ValueError /\
  pot_new (Some [97; 48]) = URaise ValueError /\ pot_new None = URaise TypeError /\
  canonical [32; 104; 99; 95; 115; 114; 48; 52; 32] = HCSR04 /\
  ultra_new None (Some [104; 99; 95; 115; 114; 48; 52]) (PI 1) (PB true) (PI 5) = UOk (5 # 1) /\
  ultra_new (Some [120]) (Some HCSR04) (PI (-1)) (PI 2) (PI 0) = URaise ValueError /\
  ultra_new None None (PF 1) (PI 2) (PI 0) = URaise TypeError /\
  ultra_new None None (PI 1) (PI (-2)) (PI 0) = URaise ValueError /\
  ultra_measure 0 (Some (PF (5 # 2))) = UOk (5 # 2) /\
  ultra_measure 0 (Some (PF (-1 # 2))) = URaise ValueError /\
  ultra_measure (7 # 1) None = UOk (7 # 1).
Proof. vm_compute. repeat split. Qed.
Print Assumptions C20_sensors_nonvacuous.

Example C20_serial_nonvacuous :
  str_of (SInt (-120)) = [45; 49; 50; 48] /\ str_of (SInt 0) = [48] /\
  str_of (SBool true) = [84; 114; 117; 101] /\
  srun (mkMon true [10] true) [SWrite (SInt 42); SClose; SWrite (SBool false); SConnect; SWrite (SStr [104; 105])]
  = [([[52; 50; 10]], SRet [52; 50]); ([], SNone); ([], SRet [70; 97; 108; 115; 101]);
     ([], SNone); ([[104; 105; 10]], SRet [104; 105])] /\
  mon_new true 0 false [10] = URaise ValueError /\
  mon_new false 9600 true [10] = URaise RuntimeError.
Proof. vm_compute. repeat split. Qed.
Print Assumptions C20_serial_nonvacuous.

(* the hypotheses of the implications above are satisfiable by non-trivial histories *)
Example C20_hypotheses_nonvacuous :
  (* read-your-writes sandwich: alias q = "07" of p = 7, a busy tail that never digital_writes pin 7 *)
  normalise s07 = normalise p7 /\
  Forall (not_dwrite_to (normalise p7))
         [PinMode p7 INPUT_PULLUP; DWrite sA0 (PI 1); AWrite s7 (PI 3); DRead p7; DWrite (PinS [49; 55]) (PI 1)] /\
  Forall (not_awrite_to (normalise p7)) [AWrite sA0 (PI 9); AWrite s7 PO; DWrite p7 (PI 1)] /\
  analog_of (PF (255 # 2)) = Some 128 /\
  (* non-interference: a write to "7" against reads of "A0" and of "-7" *)
  normalise (op_pin (DWrite s7 (PI 1))) <> normalise sA0 /\
  normalise (op_pin (AWrite p7 (PI 1))) <> normalise sm7 /\
  (* map: a non-degenerate and a degenerate source range *)
  (~ 0 == 10)%Q /\ ((1 # 2) == (2 # 4))%Q /\
  (* button / pot / ultra constructors succeed *)
  button_new (PB true) true true = UOk (mkButton true true false false) /\
  (exists s, pot_new (Some [65; 49; 53]) = UOk s) /\
  (exists d, ultra_new (Some HCSR04) None (PI 0) (PI 0) (PF (1 # 2)) = UOk d).
Proof.
  split; [reflexivity|].
  split; [repeat (apply Forall_cons || apply Forall_nil); cbn; try exact I; discriminate|].
  split; [apply Forall_cons; [left; cbn; discriminate|];
          apply Forall_cons; [right; reflexivity|];
          apply Forall_cons; [exact I|apply Forall_nil]|].
  split; [reflexivity|]. split; [cbn; discriminate|]. split; [cbn; discriminate|].
  split; [intro H; discriminate H|]. split; [reflexivity|]. split; [reflexivity|].
  split; [eexists; vm_compute; reflexivity|eexists; vm_compute; reflexivity].
Qed.
Print Assumptions C20_hypotheses_nonvacuous.
