(* C20 - Host sensor, Core-pin, timing and serial helpers are faithful small models.
   Nothing but statements, closed by [exact], each followed by Print Assumptions.
   Models: Host/Core.v Host/Utils.v Host/Sensors.v Host/Serial.v (Base/NumC.v, Base/TextC.v).
   [exec ops] is the state of the three Core dicts after the history [ops] (any interleaving
   of pin_mode / digital_write / analog_write / digital_read / analog_read over int and str
   pins); [dread s p] / [aread s p] are what digital_read(p) / analog_read(p) return in [s];
   [history k ops] is the reference memory semantics computed from the calls alone. *)
From Coq Require Import ZArith QArith List Bool Reals Qreals SpecFloat.
From Flocq Require Import Core.Core IEEE754.BinarySingleNaN.
From RV Require Import Base.Wire Base.Text Base.NumC Base.TextC
  Host.Core Host.Utils Host.Sensors Host.Serial Host.UtilsFloat Host.CoreKeys
  Proofs.NumCP Proofs.CoreP Proofs.UtilsP Proofs.SensorsP
  Proofs.UtilsFloatSP Proofs.UtilsFloatP Proofs.UtilsFloatErrP Proofs.UtilsFloatPrim Proofs.CoreKeysP.
Import ListNotations.
Open Scope Z_scope.

(* ============================================================== Core pins *)

(* digital: after digital_write(p, v), whatever came before and whatever follows that is
   not a digital_write to the same pin, a read through any alias q of p returns the level *)
Theorem C20_read_your_writes : forall (pre post : list op) (p q : pin) (v : pynum),
  normalise q = normalise p ->
  Forall (not_dwrite_to (normalise p)) post ->
  dread (exec (pre ++ DWrite p v :: post)) q = (if truthy v then HIGH else LOW).
Proof. exact read_your_writes_digital. Qed.
Print Assumptions C20_read_your_writes.

(* analog: the same with the value as clamped/rounded by analog_write *)
Theorem C20_read_your_writes_analog : forall (pre post : list op) (p q : pin) (v : pynum) (z : Z),
  normalise q = normalise p ->
  analog_of v = Some z ->
  Forall (not_awrite_to (normalise p)) post ->
  aread (exec (pre ++ AWrite p v :: post)) q = z.
Proof. exact read_your_writes_analog. Qed.
Print Assumptions C20_read_your_writes_analog.

(* history form: reads agree with the reference memory for every history *)
Theorem C20_read_your_writes_history : forall (ops : list op) (p : pin),
  (forall b, h_dw (history (normalise p) ops) = Some b -> dread (exec ops) p = b2z b) /\
  aread (exec ops) p = ref_aread (history (normalise p) ops).
Proof. exact read_your_writes_hist. Qed.
Print Assumptions C20_read_your_writes_history.

(* the value a read call returns inside a run is dread/aread of the state before it *)
Theorem C20_read_result : forall (pre : list op) (q : pin),
  snd (run_from init (pre ++ [DRead q])) = snd (run_from init pre) ++ [RVal (dread (exec pre) q)] /\
  snd (run_from init (pre ++ [ARead q])) = snd (run_from init pre) ++ [RVal (aread (exec pre) q)].
Proof. exact (fun pre q => conj (run_read_digital pre q) (run_read_analog pre q)). Qed.
Print Assumptions C20_read_result.

(* aliases: two histories that differ only in how pins are spelled ("7" / "07" / 7)
   produce the same results call by call and the same final state *)
Theorem C20_pin_alias : forall (s : core) (ops ops' : list op),
  map norm_op ops = map norm_op ops' -> run_from s ops = run_from s ops'.
Proof. exact run_from_alias. Qed.
Print Assumptions C20_pin_alias.

(* for every non-negative int n the pin named str(n) is the pin n; negative ones are not *)
Theorem C20_pin_alias_str : forall z : Z,
  (0 <= z -> normalise (PinS (str_Z z)) = PinI z) /\
  (z < 0 -> normalise (PinS (str_Z z)) = PinS (str_Z z)).
Proof. exact (fun z => conj (alias_str_int z) (no_alias_negative z)). Qed.
Print Assumptions C20_pin_alias_str.

(* a call addressed to pin p never changes what reads of a different pin q return,
   from any state whatsoever *)
Theorem C20_noninterference : forall (s : core) (o : op) (q : pin),
  normalise (op_pin o) <> normalise q ->
  dread (fst (step s o)) q = dread s q /\ aread (fst (step s o)) q = aread s q.
Proof. exact noninterference. Qed.
Print Assumptions C20_noninterference.

Theorem C20_noninterference_block : forall (s : core) (ops : list op) (q : pin),
  Forall (fun o => normalise (op_pin o) <> normalise q) ops ->
  dread (exec_from s ops) q = dread s q /\ aread (exec_from s ops) q = aread s q.
Proof. exact noninterference_block. Qed.
Print Assumptions C20_noninterference_block.

(* every stored analog value, and every analog_read, lies in 0..255 after every history *)
Theorem C20_analog_clamp : forall (ops : list op) (p : pin),
  Forall (fun kv => 0 <= snd kv <= 255) (ana (exec ops)) /\ 0 <= aread (exec ops) p <= 255.
Proof. exact analog_clamp. Qed.
Print Assumptions C20_analog_clamp.

(* rounding used by analog_write: nearest integer, ties to even *)
Theorem C20_analog_rounding : forall (n : Z) (d : positive),
  let r := q_round (Qmake n d) in
  - Zpos d <= 2 * (n - r * Zpos d) <= Zpos d /\
  (Z.abs (2 * (n - r * Zpos d)) = Zpos d -> Z.even r = true).
Proof. exact q_round_spec_Z. Qed.
Print Assumptions C20_analog_rounding.

(* digital_read IS the reference memory of the property, for every history and every pin:
   the last level written to the pin, else HIGH while its current mode is INPUT_PULLUP,
   else LOW.  (Before the repair "fix: Core.pin_mode no longer stores the pull-up level ..."
   this held only under a guard - C20_unwritten_default_partial - and was refuted outside
   it; former finding F-C20-pullup-stale.) *)
Theorem C20_unwritten_default : forall (ops : list op) (p : pin),
  dread (exec ops) p = ref_dread (history (normalise p) ops).
Proof. exact unwritten_default. Qed.
Print Assumptions C20_unwritten_default.

(* an unwritten pin reads HIGH exactly while its current mode is INPUT_PULLUP, LOW exactly
   while it is anything else (or was never configured) *)
Theorem C20_unwritten_high_iff_pullup : forall (ops : list op) (p : pin),
  let h := history (normalise p) ops in
  h_dw h = None ->
  (dread (exec ops) p = HIGH <-> mode_is_pullup (h_mode h) = true) /\
  (dread (exec ops) p = LOW <-> mode_is_pullup (h_mode h) = false).
Proof. exact unwritten_high_iff_pullup. Qed.
Print Assumptions C20_unwritten_high_iff_pullup.

(* the positive statement that C20_pullup_then_output_refuted used to contradict, for all
   histories instead of one: on a pin no digital_write ever addressed, whatever modes it
   went through before (INPUT_PULLUP included), after pin_mode(p, m) and any later calls
   that neither digital_write nor re-configure that pin, a read through any alias returns
   HIGH if m is INPUT_PULLUP and LOW otherwise *)
Theorem C20_mode_decides_unwritten : forall (pre post : list op) (p q : pin) (m : text),
  normalise q = normalise p ->
  Forall (not_dwrite_to (normalise p)) pre ->
  Forall (not_dwrite_or_mode_to (normalise p)) post ->
  dread (exec (pre ++ PinMode p m :: post)) q = (if is_pullup m then HIGH else LOW).
Proof. exact mode_decides_unwritten. Qed.
Print Assumptions C20_mode_decides_unwritten.

(* the three dicts key by key: _digital_values holds exactly the levels written with
   digital_write (pin_mode stores nothing there), _pin_modes the current mode,
   _analog_values the last accepted analog value *)
Theorem C20_dicts_are_the_history : forall (ops : list op) (k : pin),
  lookup k (dig (exec ops)) =
    match h_dw (history k ops) with Some b => Some (b2z b) | None => None end /\
  lookup k (modes (exec ops)) = h_mode (history k ops) /\
  lookup k (ana (exec ops)) = h_aw (history k ops).
Proof. exact dicts_char. Qed.
Print Assumptions C20_dicts_are_the_history.

(* ================================================================== Utils *)
Local Open Scope Q_scope.

Theorem C20_map_affine : forall x fl fh tl th : Q,
  ~ fl == fh ->
  exists y,
    umap x fl fh tl th = UOk y /\
    y == tl + (x - fl) * (th - tl) / (fh - fl) /\
    (exists y0, umap fl fl fh tl th = UOk y0 /\ y0 == tl) /\
    (exists y1, umap fh fl fh tl th = UOk y1 /\ y1 == th).
Proof. exact map_affine. Qed.
Print Assumptions C20_map_affine.

(* it is THE affine map through the two points *)
Theorem C20_map_unique : forall (g : Q -> Q) (fl fh tl th : Q),
  ~ fl == fh ->
  (forall a x y, g (a * x + (1 - a) * y) == a * g x + (1 - a) * g y) ->
  (forall x y, x == y -> g x == g y) ->
  g fl == tl -> g fh == th ->
  forall x, g x == map_val x fl fh tl th.
Proof. exact map_unique. Qed.
Print Assumptions C20_map_unique.

Theorem C20_map_refuses_zero_span : forall x fl fh tl th : Q,
  umap x fl fh tl th = URaise ValueError <-> fl == fh.
Proof. exact map_refuses_zero_span. Qed.
Print Assumptions C20_map_refuses_zero_span.

Theorem C20_map_py : forall (x fl fh tl th : pynum) (a b c d e : Q),
  qval x = Some a -> qval fl = Some b -> qval fh = Some c -> qval tl = Some d -> qval th = Some e ->
  umap_py x fl fh tl th = Some (umap a b c d e).
Proof. exact map_py. Qed.
Print Assumptions C20_map_py.

(* sleep: negatives (and None) raise before the sleeper is called; otherwise exactly one
   call, with ms/1000 *)
Theorem C20_sleep : forall d : pynum,
  match qval d with
  | None => usleep d = ([], URaise TypeError)
  | Some ms =>
      (ms < 0 -> usleep d = ([], URaise ValueError)) /\
      (0 <= ms -> usleep d = ([ms / 1000], UOk tt))
  end%Q.
Proof. exact sleep_spec. Qed.
Print Assumptions C20_sleep.

Local Open Scope Z_scope.

(* ================================================================ Sensors *)

(* provider mode: for every sample sequence, on_click fires exactly at the rising edges
   (initial previous level = released) and is_pressed returns the samples *)
Theorem C20_button_edges : forall (pin : pynum) (samples : list pynum) (s : button),
  button_new pin true true = UOk s ->
  map snd (polls (brun s (map BPoll samples))) = rising false (map truthy samples) /\
  map fst (polls (brun s (map BPoll samples))) = map b2z (map truthy samples).
Proof. exact button_edges_provider. Qed.
Print Assumptions C20_button_edges.

(* set_pressed mode: the same on the level in force at each is_pressed call, for every
   interleaving of set_pressed and is_pressed *)
Theorem C20_button_edges_manual : forall (pin : pynum) (ops : list bop) (s : button),
  button_new pin true false = UOk s ->
  map snd (polls (brun s ops)) = rising false (seen false false ops) /\
  map fst (polls (brun s ops)) = map b2z (seen false false ops).
Proof. exact button_edges_manual. Qed.
Print Assumptions C20_button_edges_manual.

(* what "rising edge" means, position by position *)
Theorem C20_rising_positions : forall (l : list bool) (prev : bool) (i : nat),
  (i < length l)%nat ->
  length (rising prev l) = length l /\
  nth i (rising prev l) false = nth i l false && negb (level_before prev l i).
Proof. exact (fun l prev i H => conj (rising_length prev l) (rising_nth l prev i H)). Qed.
Print Assumptions C20_rising_positions.

Theorem C20_button_no_callback : forall (pin : pynum) (provider : bool) (ops : list bop) (s : button),
  button_new pin false provider = UOk s ->
  Forall (fun c => c = false) (map snd (polls (brun s ops))) /\
  map fst (polls (brun s ops)) = map b2z (seen provider false ops).
Proof. exact button_no_callback. Qed.
Print Assumptions C20_button_no_callback.

(* Potentiometer.read with an int-valued provider (the annotated domain): the provider's
   value, or ValueError exactly outside 0..1023 *)
Theorem C20_pot : forall (z : Z) (r : ures Z),
  pot_read (Some (PI z)) = r ->
  (r = UOk z <-> 0 <= z <= 1023) /\ (r = URaise ValueError <-> (z < 0 \/ 1023 < z)).
Proof. exact pot_read_iff. Qed.
Print Assumptions C20_pot.

Theorem C20_pot_new : forall t s : text,
  pot_new (Some t) = UOk s <-> s = strip t /\ exists r, s = 65 :: r /\ all_digits r = true.
Proof. exact pot_new_spec. Qed.
Print Assumptions C20_pot_new.

(* Ultrasonic.measure_distance: the provider's (or default) value, or ValueError exactly
   when it is negative *)
Theorem C20_ultra : forall (default : Q) (provider : option pynum) (q : Q),
  match provider with None => Some default | Some v => qval v end = Some q ->
  ((0 <= q)%Q -> ultra_measure default provider = UOk q) /\
  ((q < 0)%Q -> ultra_measure default provider = URaise ValueError).
Proof. exact ultra_measure_spec. Qed.
Print Assumptions C20_ultra.

Theorem C20_ultra_new : forall (sensor model : option text) (trig echo default : pynum) (d : Q),
  ultra_new sensor model trig echo default = UOk d ->
  canonical (match sensor with
             | Some s => s
             | None => match model with Some m => m | None => HCSR04 end
             end) = HCSR04 /\
  (exists t e, py_int trig = Some t /\ py_int echo = Some e /\ 0 <= t /\ 0 <= e /\
               is_int trig = true /\ is_int echo = true) /\
  qval default = Some d.
Proof. exact ultra_new_accepts. Qed.
Print Assumptions C20_ultra_new.

(* ================================================================= Serial *)

(* one write: returns str(value); sends exactly str(value)+newline when connected, nothing
   otherwise; the monitor is unchanged *)
Theorem C20_serial_write : forall (s : monitor) (v : sval),
  sstep s (SWrite v) =
  (s, (if m_open s then [str_of v ++ m_newline s] else []), SRet (str_of v)).
Proof. exact serial_write. Qed.
Print Assumptions C20_serial_write.

(* the same inside every history of write / close / connect calls *)
Theorem C20_serial_history : forall (ops : list sop) (s : monitor) (i : nat) (v : sval),
  nth_error ops i = Some (SWrite v) ->
  exists o, nth_error (open_before s ops) i = Some o /\
  nth_error (srun s ops) i =
    Some ((if o then [str_of v ++ m_newline s] else []), SRet (str_of v)).
Proof. exact serial_history. Qed.
Print Assumptions C20_serial_history.

(* str(n) of a non-negative int is the digit string denoting n *)
Theorem C20_str_int : forall z : Z,
  0 <= z -> all_digits (str_of (SInt z)) = true /\ dec (str_of (SInt z)) = z.
Proof. exact str_of_int_correct. Qed.
Print Assumptions C20_str_int.

(* ============================================================ non-vacuity *)

(* p7 = 7, s7 = "7", s07 = "07", sA0 = "A0", sm7 = "-7" (Proofs/CoreP.v) *)
(* aliases really are identified, non-aliases are not; a mixed history exercises
   read-your-writes, clamping, rounding and non-interference at once *)
Example C20_core_nonvacuous :
  normalise s7 = p7 /\ normalise s07 = p7 /\ normalise sm7 = sm7 /\ normalise sA0 = sA0 /\
  normalise (PinS []) = PinS [] /\
  snd (run_from init
         [DWrite s07 (PI 2); AWrite p7 (PF (255 # 2)); AWrite sA0 (PI 300); AWrite sm7 (PI (-1));
          PinMode (PinI 13) INPUT_PULLUP; AWrite p7 PO;
          DRead s7; ARead s7; ARead sA0; ARead sm7; DRead (PinI 13); DRead sA0;
          AWrite p7 (PF (257 # 2)); ARead s07; AWrite p7 (PF (509 # 2)); ARead p7])
  = [RNone; RNone; RNone; RNone; RNone; RRaise TypeError;
     RVal 1; RVal 128; RVal 255; RVal 0; RVal 1; RVal 0;
     RNone; RVal 128; RNone; RVal 254].
Proof. vm_compute. repeat split. Qed.
Print Assumptions C20_core_nonvacuous.

(* the history of the former finding (pin_mode(7, INPUT_PULLUP); pin_mode(7, OUTPUT);
   digital_read(7)) now reads LOW, the pull-up default is still there while the mode lasts and
   comes back with it, and a written level survives every mode change *)
Example C20_pullup_nonvacuous :
  snd (run_from init (witness_ops ++ [DRead p7])) = [RNone; RNone; RVal LOW] /\
  h_dw (history p7 witness_ops) = None /\ h_mode (history p7 witness_ops) = Some OUTPUT /\
  dig (exec witness_ops) = [] /\
  snd (run_from init [PinMode s7 INPUT_PULLUP; DRead p7; PinMode s07 INPUT; DRead p7;
                      PinMode p7 INPUT_PULLUP; DRead s7; DWrite p7 (PB false); DRead p7;
                      PinMode p7 OUTPUT; DRead p7; DWrite s7 (PI 2); PinMode p7 INPUT; DRead s07])
  = [RNone; RVal 1; RNone; RVal 0; RNone; RVal 1; RNone; RVal 0; RNone; RVal 0; RNone; RNone; RVal 1] /\
  (* hypotheses of C20_mode_decides_unwritten, on a history that was pulled up before *)
  Forall (not_dwrite_to (normalise p7)) [PinMode s7 INPUT_PULLUP; AWrite p7 (PI 9); DWrite sA0 (PI 1); DRead p7] /\
  Forall (not_dwrite_or_mode_to (normalise p7)) [AWrite s07 (PI 1); PinMode sA0 INPUT_PULLUP; DRead p7; DWrite sm7 (PI 1)] /\
  is_pullup OUTPUT = false /\ is_pullup INPUT_PULLUP = true.
Proof.
  split; [reflexivity|]. split; [reflexivity|]. split; [reflexivity|]. split; [reflexivity|].
  split; [vm_compute; reflexivity|].
  split; [repeat (apply Forall_cons || apply Forall_nil); cbn; try exact I; discriminate|].
  split; [repeat (apply Forall_cons || apply Forall_nil); cbn; try exact I; discriminate|].
  split; reflexivity.
Qed.
Print Assumptions C20_pullup_nonvacuous.

Example C20_utils_nonvacuous :
  umap 5 0 10 0 100 = UOk (map_val 5 0 10 0 100) /\ (map_val 5 0 10 0 100 == 50)%Q /\
  (map_val 1 0 4 10 (-10) == 5)%Q /\
  umap 1 (1 # 2) (2 # 4) 0 1 = URaise ValueError /\
  umap_py (PB true) (PI 0) (PF (2 # 1)) (PI 0) (PI 1) = Some (UOk (map_val 1 0 2 0 1)) /\
  umap_py (PI 1) (PB true) (PI 1) (PI 0) (PI 1) = Some (URaise ValueError) /\
  usleep (PI 1500) = ([(1500 # 1) / 1000], UOk tt)%Q /\
  usleep (PF (-1 # 2)) = ([], URaise ValueError) /\
  usleep (PB true) = ([(1 # 1) / 1000], UOk tt)%Q /\
  usleep PO = ([], URaise TypeError).
Proof. vm_compute. repeat split. Qed.
Print Assumptions C20_utils_nonvacuous.

Example C20_sensors_nonvacuous :
  (* released pressed pressed released pressed : two clicks, at positions 1 and 4 *)
  rising false [false; true; true; false; true] = [false; true; false; false; true] /\
  polls (brun (mkButton true true false false)
              (map BPoll [PI 0; PI 2; PB true; PO; PF (1 # 2)]))
    = [(0, false); (1, true); (1, false); (0, false); (1, true)] /\
  polls (brun (mkButton true false false false)
              [BPoll PO; BSet (PI 1); BSet (PI 0); BSet (PI 1); BPoll PO; BPoll PO; BSet (PB false); BPoll PO])
    = [(0, false); (1, true); (1, false); (0, false)] /\
  button_new (PF 1) true true = URaise TypeError /\
  pot_read (Some (PI 1023)) = UOk 1023 /\ pot_read (Some (PI 1024)) = URaise ValueError /\
  pot_read (Some (PI (-1))) = URaise ValueError /\ pot_read (Some (PF (-1 # 2))) = UOk 0 /\
  pot_new (Some [32; 65; 48; 32]) = UOk [65; 48] /\ pot_new (Some [65]) = URaise ValueError /\
  pot_new (Some [97; 48]) = URaise ValueError /\ pot_new None = URaise TypeError /\
  canonical [32; 104; 99; 95; 115; 114; 48; 52; 32] = HCSR04 /\
  ultra_new None (Some [104; 99; 95; 115; 114; 48; 52]) (PI 1) (PB true) (PI 5) = UOk (5 # 1) /\
  ultra_new (Some [120]) (Some HCSR04) (PI (-1)) (PI 2) (PI 0) = URaise ValueError /\
  ultra_new None None (PF 1) (PI 2) (PI 0) = URaise TypeError /\
  ultra_new None None (PI 1) (PI (-2)) (PI 0) = URaise ValueError /\
  ultra_measure 0 (Some (PF (5 # 2))) = UOk (5 # 2) /\
  ultra_measure 0 (Some (PF (-1 # 2))) = URaise ValueError /\
  ultra_measure (7 # 1) None = UOk (7 # 1).
Proof. vm_compute. repeat split. Qed.
Print Assumptions C20_sensors_nonvacuous.

Example C20_serial_nonvacuous :
  str_of (SInt (-120)) = [45; 49; 50; 48] /\ str_of (SInt 0) = [48] /\
  str_of (SBool true) = [84; 114; 117; 101] /\
  srun (mkMon true [10] true) [SWrite (SInt 42); SClose; SWrite (SBool false); SConnect; SWrite (SStr [104; 105])]
  = [([[52; 50; 10]], SRet [52; 50]); ([], SNone); ([], SRet [70; 97; 108; 115; 101]);
     ([], SNone); ([[104; 105; 10]], SRet [104; 105])] /\
  mon_new true 0 false [10] = URaise ValueError /\
  mon_new false 9600 true [10] = URaise RuntimeError.
Proof. vm_compute. repeat split. Qed.
Print Assumptions C20_serial_nonvacuous.

(* the hypotheses of the implications above are satisfiable by non-trivial histories *)
Example C20_hypotheses_nonvacuous :
  (* read-your-writes sandwich: alias q = "07" of p = 7, a busy tail that never digital_writes pin 7 *)
  normalise s07 = normalise p7 /\
  Forall (not_dwrite_to (normalise p7))
         [PinMode p7 INPUT_PULLUP; DWrite sA0 (PI 1); AWrite s7 (PI 3); DRead p7; DWrite (PinS [49; 55]) (PI 1)] /\
  Forall (not_awrite_to (normalise p7)) [AWrite sA0 (PI 9); AWrite s7 PO; DWrite p7 (PI 1)] /\
  analog_of (PF (255 # 2)) = Some 128 /\
  (* non-interference: a write to "7" against reads of "A0" and of "-7" *)
  normalise (op_pin (DWrite s7 (PI 1))) <> normalise sA0 /\
  normalise (op_pin (AWrite p7 (PI 1))) <> normalise sm7 /\
  (* map: a non-degenerate and a degenerate source range *)
  (~ 0 == 10)%Q /\ ((1 # 2) == (2 # 4))%Q /\
  (* button / pot / ultra constructors succeed *)
  button_new (PB true) true true = UOk (mkButton true true false false) /\
  (exists s, pot_new (Some [65; 49; 53]) = UOk s) /\
  (exists d, ultra_new (Some HCSR04) None (PI 0) (PI 0) (PF (1 # 2)) = UOk d).
Proof.
  split; [reflexivity|].
  split; [repeat (apply Forall_cons || apply Forall_nil); cbn; try exact I; discriminate|].
  split; [apply Forall_cons; [left; cbn; discriminate|];
          apply Forall_cons; [right; reflexivity|];
          apply Forall_cons; [exact I|apply Forall_nil]|].
  split; [reflexivity|]. split; [cbn; discriminate|]. split; [cbn; discriminate|].
  split; [intro H; discriminate H|]. split; [reflexivity|]. split; [reflexivity|].
  split; [eexists; vm_compute; reflexivity|eexists; vm_compute; reflexivity].
Qed.
Print Assumptions C20_hypotheses_nonvacuous.

(* ====================================================================================
   Utils.map / Utils.sleep BIT FOR BIT (Host/UtilsFloat.v): binary64 floats (SpecFloat of the
   standard library), unbounded ints, bools, None, IEEE specials.  [fmap]/[fsleep] are what the
   correspondence compares with float.hex() of the real results.  Theorems stated with real
   numbers go through Flocq's IEEE-754 formalisation and depend on the axioms of Coq's
   classical real numbers (printed below each); the others are closed.
   B = binary_float 53 1024 (every well-formed datum, C20_float_valid_is_B); b2sf / b2r: its
   SpecFloat datum / its real value; rnd = rounding to nearest binary64, ties to even. *)

(* ValueError is raised by the zero-width test and by nothing else, for ALL arguments *)
Theorem C20_fmap_refuses_iff : forall x fl fh tl th : fnum,
  fmap x fl fh tl th = FRaise EValue <-> py_eq fl fh = true.
Proof. exact fmap_refuses_iff. Qed.
Print Assumptions C20_fmap_refuses_iff.

(* from_low == from_high compares exact values: int with float without conversion ... *)
Theorem C20_fmap_eq_int_float_exact : forall (z : Z) (f : sf) (q : Q),
  sf_Q f = Some q -> (py_eq (NI z) (NF f) = true <-> (inject_Z z == q)%Q).
Proof. exact py_eq_int_float_exact. Qed.
Print Assumptions C20_fmap_eq_int_float_exact.

(* ... and float with float by value (-0.0 == 0.0) *)
Theorem C20_fmap_eq_floats : forall a b : B,
  is_finite a = true -> is_finite b = true ->
  (py_eq (NF (b2sf a)) (NF (b2sf b)) = true <-> b2r a = b2r b).
Proof. exact py_eq_floats. Qed.
Print Assumptions C20_fmap_eq_floats.

Theorem C20_fmap_eq_specials :
  py_eq (NF S754_nan) (NF S754_nan) = false /\
  py_eq (NF (S754_zero true)) (NF (S754_zero false)) = true /\
  py_eq (NF (S754_zero true)) (NI 0) = true /\
  py_eq (NF (S754_infinity false)) (NF (S754_infinity false)) = true /\
  (forall z, py_eq (NI z) (NF (S754_infinity false)) = false) /\
  (forall z, py_eq (NI z) (NF S754_nan) = false).
Proof. exact py_eq_specials. Qed.
Print Assumptions C20_fmap_eq_specials.

Theorem C20_fmap_none : forall x fl fh tl th : fnum,
  py_eq fl fh = false -> (x = NN \/ fl = NN) -> fmap x fl fh tl th = FRaise EType.
Proof. exact fmap_none. Qed.
Print Assumptions C20_fmap_none.

Theorem C20_fmap_float_path : forall x fl fh tl th : sf,
  fmap (NF x) (NF fl) (NF fh) (NF tl) (NF th) = fmap_ff x fl fh tl th.
Proof. exact fmap_floats. Qed.
Print Assumptions C20_fmap_float_path.

Theorem C20_float_valid_is_B : forall f : sf, fvalid f = true -> exists b : B, f = b2sf b.
Proof. exact valid_is_B. Qed.
Print Assumptions C20_float_valid_is_B.

(* the float function IS this sequence of six correctly rounded operations *)
Theorem C20_fmap_rounding_sequence : forall x fl fh tl th : B,
  is_finite x = true -> is_finite fl = true -> is_finite fh = true ->
  is_finite tl = true -> is_finite th = true ->
  b2r fl <> b2r fh ->
  let n := rnd (b2r x - b2r fl) in
  let d := rnd (b2r fh - b2r fl) in
  let q := rnd (n / d) in
  let w := rnd (b2r th - b2r tl) in
  let p := rnd (q * w) in
  let y := rnd (b2r tl + p) in
  in_range n -> in_range d -> in_range q -> in_range w -> in_range p -> in_range y ->
  exists r : B,
    fmap_ff (b2sf x) (b2sf fl) (b2sf fh) (b2sf tl) (b2sf th) = FOk (b2sf r) /\
    is_finite r = true /\ b2r r = y.
Proof. exact fmap_ff_rounding. Qed.
Print Assumptions C20_fmap_rounding_sequence.

(* map(from_low) = to_low: guard = neither the span nor the output width overflows *)
Theorem C20_fmap_lower_endpoint_partial : forall fl fh tl th : B,
  is_finite fl = true -> is_finite fh = true -> is_finite tl = true -> is_finite th = true ->
  b2r fl <> b2r fh ->
  in_range (rnd (b2r fh - b2r fl)) -> in_range (rnd (b2r th - b2r tl)) ->
  exists r : B,
    fmap_ff (b2sf fl) (b2sf fl) (b2sf fh) (b2sf tl) (b2sf th) = FOk (b2sf r) /\
    is_finite r = true /\ b2r r = b2r tl.
Proof. exact fmap_ff_lower_endpoint. Qed.
Print Assumptions C20_fmap_lower_endpoint_partial.

(* the same with a guard on the four magnitudes alone (2^1022 is about 4.49e307) *)
Theorem C20_fmap_lower_endpoint_guard : forall fl fh tl th : B,
  is_finite fl = true -> is_finite fh = true -> is_finite tl = true -> is_finite th = true ->
  b2r fl <> b2r fh ->
  (Rabs (b2r fl) <= bpow radix2 1022)%R -> (Rabs (b2r fh) <= bpow radix2 1022)%R ->
  (Rabs (b2r tl) <= bpow radix2 1022)%R -> (Rabs (b2r th) <= bpow radix2 1022)%R ->
  exists r : B,
    fmap_ff (b2sf fl) (b2sf fl) (b2sf fh) (b2sf tl) (b2sf th) = FOk (b2sf r) /\
    is_finite r = true /\ b2r r = b2r tl.
Proof. exact fmap_ff_lower_endpoint_guard. Qed.
Print Assumptions C20_fmap_lower_endpoint_guard.

(* outside the guard the clause fails: map(0.0, 0.0, 1.0, -1e308, 1e308) is nan (the output
   width overflows to inf and 0.0 * inf is nan) - finding F-C20-map-float-range *)
Example C20_fmap_lower_endpoint_refuted :
  exists fl fh tl th : sf,
    forallb fvalid [fl; fh; tl; th] = true /\ forallb is_ffinite [fl; fh; tl; th] = true /\
    py_eq (NF fl) (NF fh) = false /\
    fmap (NF fl) (NF fl) (NF fh) (NF tl) (NF th) = FOk S754_nan.
Proof. exists F0, F1, Fm1e308, F1e308. vm_compute. repeat split. Qed.
Print Assumptions C20_fmap_lower_endpoint_refuted.

(* map(from_high) = rnd(to_low + rnd(to_high - to_low)); it is to_high when that
   subtraction is exact *)
Theorem C20_fmap_upper_endpoint_partial : forall fl fh tl th : B,
  is_finite fl = true -> is_finite fh = true -> is_finite tl = true -> is_finite th = true ->
  b2r fl <> b2r fh ->
  in_range (rnd (b2r fh - b2r fl)) -> in_range (rnd (b2r th - b2r tl)) ->
  in_range (rnd (b2r tl + rnd (b2r th - b2r tl))) ->
  exists r : B,
    fmap_ff (b2sf fh) (b2sf fl) (b2sf fh) (b2sf tl) (b2sf th) = FOk (b2sf r) /\
    is_finite r = true /\ b2r r = rnd (b2r tl + rnd (b2r th - b2r tl)) /\
    (rnd (b2r th - b2r tl) = (b2r th - b2r tl)%R -> b2r r = b2r th).
Proof. exact fmap_ff_upper_endpoint. Qed.
Print Assumptions C20_fmap_upper_endpoint_partial.

(* ... and need not be otherwise: map(1.0, 0.0, 1.0, 1e16, 1.0) is 0.0, not 1.0 (rounding of
   to_high - to_low; within 1 ulp of to_low: rounding noise, not a finding) *)
Example C20_fmap_upper_endpoint_inexact :
  fmap (NF F1) (NF F0) (NF F1) (NF F1e16) (NF F1) = FOk (S754_zero false) /\
  fmap (NF F03) (NF F01) (NF F03) (NF F01) (NF F03) = FOk F03.
Proof. vm_compute. split; reflexivity. Qed.
Print Assumptions C20_fmap_upper_endpoint_inexact.

(* a NON-zero source range that is refused all the same, with ZeroDivisionError: the int
   2^53+1 and the float 2.0^53 differ (exact comparison) but float(2^53+1) = 2.0^53; and ints
   beyond the float range raise OverflowError as soon as they meet a float - finding
   F-C20-map-float-range *)
Example C20_fmap_nonzero_span_refuted :
  py_eq (NI (2 ^ 53 + 1)) (NF F2p53) = false /\
  fmap (NI 1) (NI (2 ^ 53 + 1)) (NF F2p53) (NI 0) (NI 1) = FRaise EZeroDiv /\
  fmap (NI (10 ^ 400)) (NI 0) (NI (2 * 10 ^ 400)) (NI 0) (NI 1) = FOk Fhalf /\
  fmap (NI (10 ^ 400)) (NF F0) (NI (2 * 10 ^ 400)) (NI 0) (NI 1) = FRaise EOverflow.
Proof. vm_compute. repeat split. Qed.
Print Assumptions C20_fmap_nonzero_span_refuted.

(* ERROR BOUND against the exact affine map (u = 2^-53): with no intermediate overflow and the
   quotient and the product outside the subnormal range (or zero), the binary64 result is
   within 8 u (|to_low| + |ratio (to_high - to_low)|) of it *)
Theorem C20_fmap_error_bound : forall x fl fh tl th : B,
  is_finite x = true -> is_finite fl = true -> is_finite fh = true ->
  is_finite tl = true -> is_finite th = true ->
  b2r fl <> b2r fh ->
  let n := rnd (b2r x - b2r fl) in
  let d := rnd (b2r fh - b2r fl) in
  let q := rnd (n / d) in
  let w := rnd (b2r th - b2r tl) in
  let p := rnd (q * w) in
  let y := rnd (b2r tl + p) in
  in_range n -> in_range d -> in_range q -> in_range w -> in_range p -> in_range y ->
  normal_or_zero (n / d) -> normal_or_zero (q * w) ->
  exists r : B,
    fmap_ff (b2sf x) (b2sf fl) (b2sf fh) (b2sf tl) (b2sf th) = FOk (b2sf r) /\
    is_finite r = true /\
    (Rabs (b2r r - (b2r tl + (b2r x - b2r fl) / (b2r fh - b2r fl) * (b2r th - b2r tl)))
     <= 8 * u * (Rabs (b2r tl) + Rabs ((b2r x - b2r fl) / (b2r fh - b2r fl) * (b2r th - b2r tl))))%R.
Proof. exact fmap_ff_error. Qed.
Print Assumptions C20_fmap_error_bound.

(* the Fraction the harness sends for a float is the value of the float ... *)
Theorem C20_float_value_is_fraction : forall (x : B) (q : Q),
  sf_Q (b2sf x) = Some q -> Q2R q = b2r x.
Proof. exact sf_Q_b2r. Qed.
Print Assumptions C20_float_value_is_fraction.

(* ... so the same bound holds against the exact-rational model [umap] (C20_map_affine) run
   on the same five numbers: this is the distance between the two models of Utils.map *)
Theorem C20_fmap_error_vs_rational_model : forall (x fl fh tl th : B) (qx qfl qfh qtl qth : Q),
  sf_Q (b2sf x) = Some qx -> sf_Q (b2sf fl) = Some qfl -> sf_Q (b2sf fh) = Some qfh ->
  sf_Q (b2sf tl) = Some qtl -> sf_Q (b2sf th) = Some qth ->
  ~ (qfl == qfh)%Q ->
  let n := rnd (b2r x - b2r fl) in
  let d := rnd (b2r fh - b2r fl) in
  let q := rnd (n / d) in
  let w := rnd (b2r th - b2r tl) in
  let p := rnd (q * w) in
  let y := rnd (b2r tl + p) in
  in_range n -> in_range d -> in_range q -> in_range w -> in_range p -> in_range y ->
  normal_or_zero (n / d) -> normal_or_zero (q * w) ->
  exists (r : B) (v : Q),
    umap qx qfl qfh qtl qth = UOk v /\
    fmap_ff (b2sf x) (b2sf fl) (b2sf fh) (b2sf tl) (b2sf th) = FOk (b2sf r) /\
    is_finite r = true /\
    (Rabs (b2r r - Q2R v) <= 8 * u * (Rabs (Q2R qtl) + Rabs (Q2R v - Q2R qtl)))%R.
Proof. exact fmap_ff_error_Q. Qed.
Print Assumptions C20_fmap_error_vs_rational_model.

(* the hypotheses of the three theorems above hold on map(5.0, 0.0, 10.0, 0.0, 100.0) = 50.0 *)
Example C20_fmap_hypotheses_nonvacuous :
  is_finite B5 = true /\ is_finite Bz = true /\ is_finite B10 = true /\ is_finite B100 = true /\
  b2r Bz <> b2r B10 /\
  let n := rnd (b2r B5 - b2r Bz) in
  let d := rnd (b2r B10 - b2r Bz) in
  let q := rnd (n / d) in
  let w := rnd (b2r B100 - b2r Bz) in
  let p := rnd (q * w) in
  let y := rnd (b2r Bz + p) in
  in_range n /\ in_range d /\ in_range q /\ in_range w /\ in_range p /\ in_range y /\
  normal_or_zero (n / d) /\ normal_or_zero (q * w) /\
  fmap_ff (b2sf B5) (b2sf Bz) (b2sf B10) (b2sf Bz) (b2sf B100) = FOk F50.
Proof. exact error_hyps_nonvacuous. Qed.
Print Assumptions C20_fmap_hypotheses_nonvacuous.

(* int / int true division (CPython rounds the exact quotient once) coincides, bit for bit,
   with the IEEE division of the two floats for every pair of a finite grid of ints that
   float() represents exactly: -60..60 and nine 40..53-bit boundary values (16900 pairs,
   evaluated by the kernel; the bound is the statement).  Beyond 2^53 the two differ - that
   is what int_truediv is for - and only the correspondence with CPython covers it. *)
Theorem C20_int_truediv_grid : forall a b : Z,
  In a zgrid -> In b zgrid -> b <> 0 ->
  exists q fa fb, int_truediv a b = Some q /\ z2f a = Some fa /\ z2f b = Some fb /\
                  sf_eqb q (fdiv fa fb) = true.
Proof. exact int_truediv_grid_all. Qed.
Print Assumptions C20_int_truediv_grid.

(* the SpecFloat model against Coq's PRIMITIVE binary64 floats (kernel hardware arithmetic):
   Utils.map evaluated with the primitive operations agrees bit for bit with fmap_ff on all
   26620 tuples of a table of boundary values (specials, signed zeros, subnormals, DBL_MAX) *)
Example C20_fmap_agrees_with_primitive_floats :
  (Z.of_nat (length tuples) =? 26620)%Z = true /\ forallb agree tuples = true.
Proof. exact prim_agrees. Qed.
Print Assumptions C20_fmap_agrees_with_primitive_floats.

(* ---- sleep *)

(* for EVERY argument: an exception and no call, or exactly one call with float(d) / 1000.0 *)
Theorem C20_fsleep_once : forall d : fnum,
  (exists e, fsleep d = ([], FRaise e)) \/
  (exists v ms, of_num d = Some v /\ pv_ltz v = false /\ as_float v = FOk ms /\
                fsleep d = ([fdiv ms f1000], FOk tt)).
Proof. exact fsleep_once. Qed.
Print Assumptions C20_fsleep_once.

Theorem C20_fsleep_refusals : forall d : fnum,
  (d = NN -> fsleep d = ([], FRaise EType)) /\
  (forall z, d = NI z -> z < 0 -> fsleep d = ([], FRaise EValue)) /\
  (forall z, d = NI z -> 2 ^ 1024 <= z -> fsleep d = ([], FRaise EOverflow)).
Proof. exact fsleep_refusals. Qed.
Print Assumptions C20_fsleep_refusals.

(* finite floats: negatives refused, otherwise ONE call with the correctly rounded d/1000 *)
Theorem C20_fsleep_float : forall d : B,
  is_finite d = true ->
  ((b2r d < 0)%R -> fsleep (NF (b2sf d)) = ([], FRaise EValue)) /\
  ((0 <= b2r d)%R -> exists s : B,
      fsleep (NF (b2sf d)) = ([b2sf s], FOk tt) /\ is_finite s = true /\ b2r s = rnd (b2r d / 1000)%R).
Proof. exact fsleep_float. Qed.
Print Assumptions C20_fsleep_float.

(* float(z) of an int is the correctly rounded value; OverflowError exactly when that is
   not below 2^1024 *)
Theorem C20_float_of_int : forall z : Z,
  (in_range (rnd (IZR z)) ->
     exists b : B, z2f z = Some (b2sf b) /\ is_finite b = true /\ b2r b = rnd (IZR z)) /\
  (~ in_range (rnd (IZR z)) -> z2f z = None).
Proof. exact z2f_correct. Qed.
Print Assumptions C20_float_of_int.

(* ints: negatives refused, too large for float(): OverflowError and no call, otherwise ONE
   call with rnd (rnd z / 1000) *)
Theorem C20_fsleep_int : forall z : Z,
  (z < 0 -> fsleep (NI z) = ([], FRaise EValue)) /\
  (0 <= z -> ~ in_range (rnd (IZR z)) -> fsleep (NI z) = ([], FRaise EOverflow)) /\
  (0 <= z -> in_range (rnd (IZR z)) -> exists s : B,
      fsleep (NI z) = ([b2sf s], FOk tt) /\ is_finite s = true /\ b2r s = rnd (rnd (IZR z) / 1000)%R).
Proof. exact fsleep_int. Qed.
Print Assumptions C20_fsleep_int.

Theorem C20_fsleep_specials :
  fsleep (NF S754_nan) = ([S754_nan], FOk tt) /\
  fsleep (NF (S754_infinity false)) = ([S754_infinity false], FOk tt) /\
  fsleep (NF (S754_infinity true)) = ([], FRaise EValue) /\
  fsleep (NF (S754_zero true)) = ([S754_zero true], FOk tt) /\
  fsleep NN = ([], FRaise EType).
Proof. exact fsleep_specials. Qed.
Print Assumptions C20_fsleep_specials.

Example C20_fmap_nonvacuous :
  forallb fvalid [F0; F1; F5; F10; F50; F100; Fhalf; F1e16; F1e308; Fm1e308; F2p53; F01; F03] = true /\
  fmap (NI 5) (NI 0) (NI 10) (NI 0) (NI 100) = FOk F50 /\
  fmap (NF F5) (NI 0) (NB true) (NF F0) (NF F10) = FOk F50 /\
  fmap (NI 0) (NI 0) (NI (-5)) (NI 0) (NI 1) = FOk (S754_zero false) /\
  int_truediv 0 (-5) = Some (S754_zero true) /\
  fmap (NI 1) (NB true) (NF F1) (NI 0) (NI 1) = FRaise EValue /\
  fmap (NI 1) NN NN (NI 0) (NI 1) = FRaise EValue /\
  fmap (NI 1) (NI 0) (NI 1) NN (NI 1) = FRaise EType /\
  fmap (NF S754_nan) (NI 0) (NI 1) (NI 0) (NI 1) = FOk S754_nan /\
  fmap (NI 1) (NF S754_nan) (NF S754_nan) (NI 0) (NI 1) = FOk S754_nan /\
  fmap (NI 1) (NF (S754_infinity false)) (NF (S754_infinity false)) (NI 0) (NI 1) = FRaise EValue /\
  fsleep (NI 1500) = ([S754_finite false 6755399441055744 (-52)], FOk tt) /\
  fsleep (NB true) = ([S754_finite false 4611686018427388 (-62)], FOk tt) /\
  fsleep (NI (10 ^ 400)) = ([], FRaise EOverflow).
Proof. vm_compute. repeat split. Qed.
Print Assumptions C20_fmap_nonvacuous.

(* ====================================================================================
   Core pins that are neither int nor str (Host/CoreKeys.v) *)

(* True / False are the pins 1 / 0; a float with an integer value is that int pin *)
Theorem C20_xpin_bool_float_alias : forall (b : bool) (z : Z),
  xkey (XB b) = xkey (XI (b2z b)) /\ xkey (XF (inject_Z z)) = xkey (XI z).
Proof. exact (fun b z => conj (xkey_bool b) (xkey_float_int z)). Qed.
Print Assumptions C20_xpin_bool_float_alias.

(* keys are normal forms: the theorems above about [normalise p] speak about the key *)
Theorem C20_xpin_key_normal : forall (p : xpin) (k : pin), xkey p = Some k -> normalise k = k.
Proof. exact xkey_normal. Qed.
Print Assumptions C20_xpin_key_normal.

(* non-integral floats and None are pins of their own *)
Theorem C20_xpin_own_keys : forall (q : Q) (z : Z) (t : text),
  (q_integral q = false -> float_key q <> PinI z) /\
  (wf_text t = true -> none_key <> normalise (PinS t)).
Proof. exact (fun q z t => conj (float_key_not_int q z) (none_key_not_str t)). Qed.
Print Assumptions C20_xpin_own_keys.

(* THE KEY RELATION of the Core dicts over pins of any hashable type: same key exactly when
   Python identifies the normalised objects - equal numbers across int / bool / float /
   all-digit str, equal other strings, or both None *)
Theorem C20_xpin_same_key : forall a b : xpin,
  a <> XUnhashable -> b <> XUnhashable -> wf_xpin a = true -> wf_xpin b = true ->
  (xkey a = xkey b <-> same_key a b = true).
Proof. exact xkey_same. Qed.
Print Assumptions C20_xpin_same_key.

Theorem C20_xpin_float_keys : forall x y : Q, float_key x = float_key y <-> (x == y)%Q.
Proof. exact float_key_eq. Qed.
Print Assumptions C20_xpin_float_keys.

(* an unhashable pin makes the call raise TypeError and changes nothing *)
Theorem C20_xpin_unhashable : forall (s : core) (o : xop),
  xop_pin o = XUnhashable -> xstep s o = (s, RRaise TypeError).
Proof. exact (fun s o H => xstep_unhashable s o (proj2 (xkey_none_iff _) H)). Qed.
Print Assumptions C20_xpin_unhashable.

(* a history over hashable pins of any type is the history over their keys: read-your-writes,
   aliasing, non-interference, clamping and the unwritten defaults (all theorems above) hold
   for it verbatim *)
Theorem C20_xpin_lowering : forall (ops : list xop),
  Forall (fun o => xop_pin o <> XUnhashable) ops ->
  exists l, lower_all ops = Some l /\ forall s, xrun_from s ops = run_from s l.
Proof.
  exact (fun ops H => match lower_all_hashable ops H with
                      | ex_intro _ l Hl => ex_intro _ l (conj Hl (fun s => xrun_lowering ops s l Hl))
                      end).
Qed.
Print Assumptions C20_xpin_lowering.

Example C20_xpin_nonvacuous :
  snd (xrun_from init
         [XDWrite (XB true) (PI 1); XDRead (XI 1); XDRead (XS [48; 49]); XDRead (XF 1); XDRead (XF (3 # 2));
          XAWrite XNone (PI 300); XARead XNone; XARead (XS [78; 111; 110; 101]); XDRead XUnhashable;
          XPinMode (XF (15 # 2)) INPUT_PULLUP; XDRead (XF (30 # 4)); XDRead (XI 7); XAWrite XUnhashable PO])
  = [RNone; RVal 1; RVal 1; RVal 1; RVal 0; RNone; RVal 255; RVal 0; RRaise TypeError;
     RNone; RVal 1; RVal 0; RRaise TypeError].
Proof. vm_compute. reflexivity. Qed.
Print Assumptions C20_xpin_nonvacuous.
