(* Model of the INI half of toolchain/pio.py (_format_lib_section, _sanitize_env_name,
   the platformio.ini text written by write_project) and of the reader the property
   names as "a standard INI parser": CPython 3.12 configparser.ConfigParser(interpolation=None)
   reading that text from a file (RawConfigParser._read + _join_multiline_values).

   Strings are lists of code points.  Definitions only; proofs are in Proofs/IniP.v. *)
From Coq Require Import ZArith List Bool String Ascii.
From RV Require Import Base.Wire Base.Text Gen.Registry Tool.Registry.
Import ListNotations.
Open Scope Z_scope.

(* readable literals: txt "abc" = [97;98;99] (ASCII literals only) *)
Fixpoint txt (s : string) : text :=
  match s with
  | EmptyString => []
  | String a r => Z.of_N (N_of_ascii a) :: txt r
  end.

(* literals are evaluated here, so that neither [string] nor [txt] reaches the extracted code *)
Definition t_lib_deps_eq : text := Eval vm_compute in txt "lib_deps =".
Definition t_default : text := Eval vm_compute in txt "DEFAULT".
Definition t_env : text := Eval vm_compute in txt "env:".
Definition k_platform : text := Eval vm_compute in txt "platform".
Definition k_board : text := Eval vm_compute in txt "board".
Definition k_framework : text := Eval vm_compute in txt "framework".
Definition k_upload_port : text := Eval vm_compute in txt "upload_port".
Definition k_lib_deps : text := Eval vm_compute in txt "lib_deps".
Definition t_arduino : text := Eval vm_compute in txt "arduino".

Definition c_nl : Z := 10.      (* "\n" *)
Definition c_cr : Z := 13.      (* "\r" *)
Definition c_sp : Z := 32.      (* " "  *)
Definition c_hash : Z := 35.    (* "#"  *)
Definition c_colon : Z := 58.   (* ":"  *)
Definition c_semi : Z := 59.    (* ";"  *)
Definition c_eq : Z := 61.      (* "="  *)
Definition c_lbr : Z := 91.     (* "["  *)
Definition c_rbr : Z := 93.     (* "]"  *)
Definition c_us : Z := 95.      (* "_"  *)

(* ---------------------------------------------------------------- whitespace *)
(* str.isspace() / str.strip() / regex \s on str all use Py_UNICODE_ISSPACE: exactly
   these 29 code points (measured on CPython 3.12 over the whole code space). *)
Definition space_points : list Z :=
  [9;10;11;12;13;28;29;30;31;32;133;160;5760;
   8192;8193;8194;8195;8196;8197;8198;8199;8200;8201;8202;
   8232;8233;8239;8287;12288].

Definition is_space (c : Z) : bool := existsb (Z.eqb c) space_points.

Fixpoint lstrip (t : text) : text :=
  match t with
  | [] => []
  | c :: r => if is_space c then lstrip r else t
  end.

Fixpoint rstrip (t : text) : text :=
  match t with
  | [] => []
  | c :: r => match rstrip r with
              | [] => if is_space c then [] else [c]
              | r' => c :: r'
              end
  end.

Definition strip (t : text) : text := rstrip (lstrip t).

(* index of the first non-space character (NONSPACECRE.search(line).start());
   only consulted for lines whose stripped value is non-empty *)
Fixpoint indent_of (t : text) : nat :=
  match t with
  | [] => O
  | c :: r => if is_space c then S (indent_of r) else O
  end.

Fixpoint join (sep : text) (l : list text) : text :=
  match l with
  | [] => []
  | [a] => a
  | a :: r => a ++ sep ++ join sep r
  end.

Definition nonempty (t : text) : bool := match t with [] => false | _ => true end.

(* ---------------------------------------------------------------- _format_lib_section *)
(* the loop: [unique] grows at the end, an entry is skipped when empty or already present *)
Fixpoint collect_unique (unique : list text) (libs : list text) : list text :=
  match libs with
  | [] => unique
  | e :: r =>
      if negb (nonempty e) then collect_unique unique r
      else if tmem e unique then collect_unique unique r
      else collect_unique (unique ++ [e]) r
  end.

(* libraries = None and libraries = [] behave alike ("if not libraries") *)
Definition format_lib_section (libs : list text) : text :=
  match collect_unique [] libs with
  | [] => []
  | u => join [c_nl] (t_lib_deps_eq :: map (fun n => c_sp :: c_sp :: n) u)
  end.

(* ---------------------------------------------------------------- _sanitize_env_name *)
(* re.sub(r"[^A-Za-z0-9_]+", "_", board): the class is ASCII-only (no re.IGNORECASE, explicit
   ranges); a maximal run of other characters becomes ONE underscore *)
Definition is_word (c : Z) : bool :=
  ((65 <=? c) && (c <=? 90)) || ((97 <=? c) && (c <=? 122)) || ((48 <=? c) && (c <=? 57)) || (c =? c_us).

Fixpoint sanitize_from (in_run : bool) (t : text) : text :=
  match t with
  | [] => []
  | c :: r =>
      if is_word c then c :: sanitize_from false r
      else if in_run then sanitize_from true r
      else c_us :: sanitize_from true r
  end.

Definition sanitize_env_name (board : text) : text := sanitize_from false board.

(* ---------------------------------------------------------------- write_project: ini text *)
(* PIO_INI.format(env_name=.., platform=.., board=.., port=.., lib_section=..): the template is
   regenerated into Gen.Registry.ini_parts, split at its five placeholders (in that order;
   the translator refuses any other shape) *)
Definition fill (parts : list text) (env pl b port libsec : text) : text :=
  match parts with
  | [p0; p1; p2; p3; p4; p5] =>
      p0 ++ env ++ p1 ++ pl ++ p2 ++ b ++ p3 ++ port ++ p4 ++ libsec ++ p5
  | _ => []
  end.

(* ini_contents = PIO_INI.format(...).rstrip() + "\n" *)
Definition render (pl b port : text) (libs : list text) : text :=
  rstrip (fill ini_parts (sanitize_env_name b) pl b port (format_lib_section libs)) ++ [c_nl].

(* write_project validates first; an invalid pair writes nothing *)
Definition write_ini (pl b port : text) (libs : list text) : verr + text :=
  match validate pl b with
  | Some e => inl e
  | None => inr (render pl b port libs)
  end.

(* ================================================================ configparser *)
(* File iteration with universal newlines: "\n", "\r\n" and "\r" each end a line; a final
   unterminated piece is a line too; nothing else splits lines (not \v \f \x1c.. \x85  ). *)
Fixpoint split_lines (t : text) : list text :=
  match t with
  | [] => []
  | c :: r =>
      if c =? c_nl then [] :: split_lines r
      else if c =? c_cr then
        [] :: split_lines (match r with
                           | d :: r' => if d =? c_nl then r' else r
                           | [] => r
                           end)
      else match split_lines r with
           | [] => [[c]]
           | l :: ls => (c :: l) :: ls
           end
  end.

Definition is_comment_prefix (c : Z) : bool := (c =? c_hash) || (c =? c_semi).
Definition is_delim (c : Z) : bool := (c =? c_eq) || (c =? c_colon).

(* SECTCRE.match(value) with SECTCRE = \[(?P<header>.+)\]  (match: anchored at the start only;
   greedy .+ : the header runs to the LAST "]" and must be non-empty; what follows is ignored) *)
Fixpoint upto_last (d : Z) (t : text) : option text :=
  match t with
  | [] => None
  | c :: r => match upto_last d r with
              | Some p => Some (c :: p)
              | None => if c =? d then Some [] else None
              end
  end.

Definition section_header (value : text) : option text :=
  match value with
  | c :: rest =>
      if c =? c_lbr then
        match upto_last c_rbr rest with
        | Some (x :: h) => Some (x :: h)
        | _ => None
        end
      else None
  | [] => None
  end.

(* OPTCRE = <option: anything, non-greedy> <blanks> <vi: "=" or ":"> <blanks> <value: rest of line>:
   the split is at the FIRST delimiter; option loses trailing, value leading blanks *)
Fixpoint split_delim (t : text) : option (text * text) :=
  match t with
  | [] => None
  | c :: r =>
      if is_delim c then Some ([], r)
      else match split_delim r with
           | Some (a, b) => Some (c :: a, b)
           | None => None
           end
  end.

(* optionxform = str.lower; modelled for ASCII letters only (other cased letters are
   outside the model: generators keep them out of key position) *)
Definition lower_char (c : Z) : Z := if (65 <=? c) && (c <=? 90) then c + 32 else c.
Definition lower (t : text) : text := map lower_char t.

Definition opts := list (text * list text).        (* option -> list of value lines, insertion order *)

(* _sections and _defaults in one association list in first-seen order; the default section
   is the entry named "DEFAULT" (the only one a second header may re-open) *)
Record pstate := mk_pstate {
  p_secs : list (text * opts);
  p_cursec : option text;          (* cursect / sectname *)
  p_opt : option text;             (* optname (None also stands for the falsy "") *)
  p_indent : nat                   (* indent_level *)
}.

Definition init_state : pstate := mk_pstate [] None None O.
Definition default_name : text := t_default.

Fixpoint has_key {A} (k : text) (l : list (text * A)) : bool :=
  match l with
  | [] => false
  | (k', _) :: r => text_eqb k k' || has_key k r
  end.

Fixpoint upd {A} (k : text) (f : A -> A) (l : list (text * A)) : list (text * A) :=
  match l with
  | [] => []
  | (k', v) :: r => if text_eqb k k' then (k', f v) :: r else (k', v) :: upd k f r
  end.

(* cursect[optname].append(v) *)
Definition append_value (st : pstate) (s k v : text) : pstate :=
  mk_pstate (upd s (upd k (fun vs => vs ++ [v])) (p_secs st)) (p_cursec st) (p_opt st) (p_indent st).

(* a section header or an option line (the "else" branch of the continuation test) *)
Definition step_header (st : pstate) (ind : nat) (value : text) : option pstate :=
  match section_header value with
  | Some name =>
      if text_eqb name default_name then
        Some (mk_pstate (if has_key name (p_secs st) then p_secs st else p_secs st ++ [(name, [])])
                        (Some name) None ind)
      else if has_key name (p_secs st) then None                     (* DuplicateSectionError *)
      else Some (mk_pstate (p_secs st ++ [(name, [])]) (Some name) None ind)
  | None =>
      match p_cursec st with
      | None => None                                                 (* MissingSectionHeaderError *)
      | Some s =>
          match split_delim value with
          | None => None                                             (* ParsingError: no delimiter *)
          | Some (a, b) =>
              match lower (rstrip a) with
              | [] => None                                           (* ParsingError: empty option name *)
              | key =>
                  match tlookup s (p_secs st) with
                  | None => None                                     (* unreachable: cursec is always listed *)
                  | Some o =>
                      if has_key key o then None                     (* DuplicateOptionError *)
                      else Some (mk_pstate (upd s (fun o => o ++ [(key, [strip b])]) (p_secs st))
                                           (Some s) (Some key) ind)
                  end
              end
          end
      end
  end.

(* one iteration of the "for lineno, line in enumerate(fp)" loop; None = the read raises
   (a ParsingError is raised only at the end of the file, but nothing can un-raise it) *)
Definition step (st : pstate) (line : text) : option pstate :=
  let value := strip line in
  match value with
  | [] =>                                    (* empty_lines_in_values=True: a blank line is kept in the open value *)
      match p_cursec st, p_opt st with
      | Some s, Some k => Some (append_value st s k [])
      | _, _ => Some st
      end
  | c :: _ =>
      if is_comment_prefix c then Some st    (* full-line comment: skipped, touches nothing *)
      else
        let ind := indent_of line in
        match p_cursec st, p_opt st with
        | Some s, Some k =>
            if (p_indent st <? ind)%nat then Some (append_value st s k value)
            else step_header st ind value
        | _, _ => step_header st ind value
        end
  end.

Fixpoint parse_lines (st : pstate) (lines : list text) : option pstate :=
  match lines with
  | [] => Some st
  | l :: r => match step st l with
              | Some st' => parse_lines st' r
              | None => None
              end
  end.

(* _join_multiline_values: "\n".join(lines).rstrip(); interpolation=None leaves it as is *)
Definition finish (st : pstate) : list (text * list (text * text)) :=
  map (fun so => (fst so, map (fun kv => (fst kv, rstrip (join [c_nl] (snd kv)))) (snd so))) (p_secs st).

Definition ini_read (t : text) : option (list (text * list (text * text))) :=
  match parse_lines init_state (split_lines t) with
  | Some st => Some (finish st)
  | None => None
  end.

(* ================================================================ specification side *)
(* de-duplication keeping first occurrences, defined without an accumulator *)
Fixpoint nodup_first (l : list text) : list text :=
  match l with
  | [] => []
  | a :: r => a :: filter (fun x => negb (text_eqb x a)) (nodup_first r)
  end.

Definition given_libs (libs : list text) : list text := nodup_first (filter nonempty libs).

(* guards of the round-trip theorem *)
Definition no_break (t : text) : bool := forallb (fun c => negb (c =? c_nl) && negb (c =? c_cr)) t.

Fixpoint last_nonspace (t : text) : bool :=          (* t is non-empty and its last character is not a blank *)
  match t with
  | [] => false
  | [c] => negb (is_space c)
  | _ :: r => last_nonspace r
  end.

Definition no_padding (t : text) : bool :=           (* t == t.strip() *)
  match t with
  | [] => true
  | c :: _ => negb (is_space c) && last_nonspace t
  end.

Definition value_ok (t : text) : bool := no_break t && no_padding t.

Definition lib_ok (n : text) : bool :=
  match n with
  | [] => true                                        (* empty entries are skipped by the code *)
  | c :: _ => value_ok n && negb (is_comment_prefix c)
  end.

(* the narrower guard named in the work order: additionally no blank other than " " inside *)
Definition plain_char (c : Z) : bool := negb (is_space c) || (c =? c_sp).
Definition plain_value (t : text) : bool := forallb plain_char t && no_padding t.

Definition env_header : text := t_env.

Definition expected_ini (pl b port : text) (libs : list text) : list (text * list (text * text)) :=
  [(env_header ++ sanitize_env_name b,
    [(k_platform, pl); (k_board, b); (k_framework, t_arduino); (k_upload_port, port)]
    ++ match given_libs libs with
       | [] => []
       | ns => [(k_lib_deps, c_nl :: join [c_nl] ns)]
       end)].
