(* C14 (growth round) - the TEXT of the library-object definitions and their initialisation,
   and the emitter's name -> current display object resolution.

   Written from transpile/emitter.py (emit, pass 1: _ensure_servo_globals, _ensure_lcd_globals and
   the ServoDecl / LCDDecl branches of the two scans; pass 2: _register_lcd / _ensure_lcd inside
   _emit_block).  The declaration records carry the argument fields of the IR dataclasses
   (ServoDecl.pin/min_pulse_us/max_pulse_us, LCDDecl.cols/rows/rs/en/d4..d7/rw/backlight_pin/i2c_addr)
   as the IR holds them: an int, an already translated C expression (str), None, or (pulse bounds
   only) a float.

   * [lcd_global_lines d k]   lines appended to globals_ for the declaration d whose name was
                              declared k times before ("LiquidCrystal[_I2C] <ident>(<args>);",
                              "const int <prefix>_cols_<n> = ...;", "..._rows_...", and with a
                              backlight pin "int <prefix>_brightness_<n> = 255;", "bool ..._backlight_state_... = true;")
   * [lcd_init_lines d k]     lines appended to setup_lines (begin/init, backlight, clear)
   * [servo_obj_line], [servo_init_lines]  "Servo __servo_<n>;" / attach + writeMicroseconds
   * [lib_globals], [lib_init] the two scans of pass 1 (setup_body then loop_body) with the
                              "if line not in globals_" / servo_attach_emitted deduplication
   * [resolve]                pass 2: which display object every emitted LCD command addresses
   * [spec_prog]              the reference: a command addresses the latest top-level declaration
                              of its name that textually precedes it
   * [erase]                  forgets arguments: the skeleton of Tool/Libs.v

   Not modelled (left out of the lines): the servo calibration globals "float __servo_min_angle_<n> = ..."
   (their text needs Python's repr of floats).  lcd_init_emitted is not modelled as a set: the object
   identifiers of distinct bindings are distinct (Proofs/LibObjsP.v ident_inj), so its test never fails.
   No proofs here. *)
From Coq Require Import ZArith QArith List Bool.
From RV Require Import Base.Wire Base.Text Base.TextC Base.Num Tool.Libs.
Import ListNotations.
Open Scope Z_scope.

(* Text constants are written as code-point lists (the wire extracts without Coq's string type);
   the comment after each list is the text. *)

(* ---------------------------------------------------------------- argument fields *)
Inductive val : Type := VNone | VInt (z : Z) | VText (t : text).
Inductive pulse : Type := PInt (z : Z) | PText (t : text) | PFloat (q : Q).

Definition is_none (v : val) : bool := match v with VNone => true | _ => false end.

(* _emit_expr(v) = str(v) *)
Definition expr (v : val) : text :=
  match v with VNone => [78; 111; 110; 101] (* "None" *) | VInt z => str_Z z | VText t => t end.

(* _emit_expr(v if v is not None else 0) *)
Definition expr0 (v : val) : text :=
  match v with VNone => str_Z 0 | _ => expr v end.

(* _emit_nearest_int: a float literal becomes the nearest integer (int() truncates) *)
Definition nearest (q : Q) : Z :=
  if Num.Qltb q 0%Q then Num.py_int_trunc (q - (1 # 2))%Q else Num.py_int_trunc (q + (1 # 2))%Q.

Definition sci (t : text) : text := [115; 116; 97; 116; 105; 99; 95; 99; 97; 115; 116; 60; 105; 110; 116; 62; 40] (* "static_cast<int>(" *) ++ t ++ [41] (* ")" *).

Definition pulse_expr (p : pulse) : text :=
  sci (match p with PInt z => str_Z z | PText t => t | PFloat q => str_Z (nearest q) end).

Fixpoint commas (l : list text) : text :=
  match l with
  | [] => []
  | [a] => a
  | a :: r => a ++ [44; 32] (* ", " *) ++ commas r
  end.

(* ---------------------------------------------------------------- declaration records *)
Record lcdd : Type := mkLcd {
  l_name : text; l_i2c : bool;
  l_cols : val; l_rows : val;
  l_rs : val; l_en : val; l_d4 : val; l_d5 : val; l_d6 : val; l_d7 : val; l_rw : val;
  l_bl : val; l_addr : val
}.

Record servod : Type := mkServo {
  s_name : text; s_pin : val; s_minp : pulse; s_maxp : pulse
}.

(* ---------------------------------------------------------------- LCD identifiers *)
(* prefix = f"__redu_lcd{len(bindings) + 1}" if bindings else "__redu_lcd" *)
Definition lcd_prefix (k : Z) : text :=
  if k =? 0 then [95; 95; 114; 101; 100; 117; 95; 108; 99; 100] (* "__redu_lcd" *) else [95; 95; 114; 101; 100; 117; 95; 108; 99; 100] (* "__redu_lcd" *) ++ str_Z (k + 1).

Definition lcd_ident (k : Z) (n : text) : text := lcd_prefix k ++ [95] (* "_" *) ++ n.
Definition lcd_cols_var (k : Z) (n : text) : text := lcd_prefix k ++ [95; 99; 111; 108; 115; 95] (* "_cols_" *) ++ n.
Definition lcd_rows_var (k : Z) (n : text) : text := lcd_prefix k ++ [95; 114; 111; 119; 115; 95] (* "_rows_" *) ++ n.
Definition lcd_bright_var (k : Z) (n : text) : text := lcd_prefix k ++ [95; 98; 114; 105; 103; 104; 116; 110; 101; 115; 115; 95] (* "_brightness_" *) ++ n.
Definition lcd_blstate_var (k : Z) (n : text) : text := lcd_prefix k ++ [95; 98; 97; 99; 107; 108; 105; 103; 104; 116; 95; 115; 116; 97; 116; 101; 95] (* "_backlight_state_" *) ++ n.

Definition lcd_class (d : lcdd) : text :=
  if l_i2c d then [76; 105; 113; 117; 105; 100; 67; 114; 121; 115; 116; 97; 108; 95; 73; 50; 67] (* "LiquidCrystal_I2C" *) else [76; 105; 113; 117; 105; 100; 67; 114; 121; 115; 116; 97; 108] (* "LiquidCrystal" *).

(* the constructor arguments, in the order of the emitted call *)
Definition lcd_ctor_args (d : lcdd) : list text :=
  if l_i2c d then [expr0 (l_addr d); sci (expr (l_cols d)); sci (expr (l_rows d))]
  else if is_none (l_rw d)
       then [expr0 (l_rs d); expr0 (l_en d); expr0 (l_d4 d); expr0 (l_d5 d); expr0 (l_d6 d); expr0 (l_d7 d)]
       else [expr0 (l_rs d); expr (l_rw d); expr0 (l_en d); expr0 (l_d4 d); expr0 (l_d5 d); expr0 (l_d6 d); expr0 (l_d7 d)].

Definition lcd_obj_line (d : lcdd) (k : Z) : text :=
  lcd_class d ++ [32] (* " " *) ++ lcd_ident k (l_name d) ++ [40] (* "(" *) ++ commas (lcd_ctor_args d) ++ [41; 59] (* ");" *).

Definition lcd_global_lines (d : lcdd) (k : Z) : list text :=
  [ lcd_obj_line d k;
    [99; 111; 110; 115; 116; 32; 105; 110; 116; 32] (* "const int " *) ++ lcd_cols_var k (l_name d) ++ [32; 61; 32] (* " = " *) ++ sci (expr (l_cols d)) ++ [59] (* ";" *);
    [99; 111; 110; 115; 116; 32; 105; 110; 116; 32] (* "const int " *) ++ lcd_rows_var k (l_name d) ++ [32; 61; 32] (* " = " *) ++ sci (expr (l_rows d)) ++ [59] (* ";" *) ] ++
  (if is_none (l_bl d) then []
   else [ [105; 110; 116; 32] (* "int " *) ++ lcd_bright_var k (l_name d) ++ [32; 61; 32; 50; 53; 53; 59] (* " = 255;" *);
          [98; 111; 111; 108; 32] (* "bool " *) ++ lcd_blstate_var k (l_name d) ++ [32; 61; 32; 116; 114; 117; 101; 59] (* " = true;" *) ]).

(* `if info.get("backlight_pin")`: the rendered expression is a non-empty string *)
Definition has_backlight (d : lcdd) : bool :=
  negb (is_none (l_bl d)) && nonempty (expr (l_bl d)).

Definition lcd_init_lines (d : lcdd) (k : Z) : list text :=
  let o := lcd_ident k (l_name d) in
  (if l_i2c d
   then [ [32; 32] (* "  " *) ++ o ++ [46; 105; 110; 105; 116; 40; 41; 59] (* ".init();" *); [32; 32] (* "  " *) ++ o ++ [46; 98; 97; 99; 107; 108; 105; 103; 104; 116; 40; 41; 59] (* ".backlight();" *) ]
   else [ [32; 32] (* "  " *) ++ o ++ [46; 98; 101; 103; 105; 110; 40] (* ".begin(" *) ++ lcd_cols_var k (l_name d) ++ [44; 32] (* ", " *) ++ lcd_rows_var k (l_name d) ++ [41; 59] (* ");" *) ] ++
        (if has_backlight d
         then [ [32; 32; 112; 105; 110; 77; 111; 100; 101; 40] (* "  pinMode(" *) ++ expr (l_bl d) ++ [44; 32; 79; 85; 84; 80; 85; 84; 41; 59] (* ", OUTPUT);" *);
                [32; 32; 97; 110; 97; 108; 111; 103; 87; 114; 105; 116; 101; 40] (* "  analogWrite(" *) ++ expr (l_bl d) ++ [44; 32] (* ", " *) ++ lcd_bright_var k (l_name d) ++ [41; 59] (* ");" *) ]
         else [])) ++
  [ [32; 32] (* "  " *) ++ o ++ [46; 99; 108; 101; 97; 114; 40; 41; 59] (* ".clear();" *) ].

(* ---------------------------------------------------------------- Servo *)
Definition servo_ident (n : text) : text := [95; 95; 115; 101; 114; 118; 111; 95] (* "__servo_" *) ++ n.
Definition servo_obj_line (n : text) : text := [83; 101; 114; 118; 111; 32] (* "Servo " *) ++ servo_ident n ++ [59] (* ";" *).

Definition servo_init_lines (d : servod) : list text :=
  let o := servo_ident (s_name d) in
  [ [32; 32] (* "  " *) ++ o ++ [46; 97; 116; 116; 97; 99; 104; 40] (* ".attach(" *) ++ commas [expr (s_pin d); pulse_expr (s_minp d); pulse_expr (s_maxp d)] ++ [41; 59] (* ");" *);
    [32; 32] (* "  " *) ++ o ++ [46; 119; 114; 105; 116; 101; 77; 105; 99; 114; 111; 115; 101; 99; 111; 110; 100; 115; 40] (* ".writeMicroseconds(" *) ++ pulse_expr (s_minp d) ++ [41; 59] (* ");" *) ].

(* ---------------------------------------------------------------- IR with arguments *)
Inductive item : Type :=
| IServo (d : servod)
| ILcd (d : lcdd)
| IOther                                  (* any other device declaration *)
| IPlain                                  (* any other leaf statement *)
| ICmd (n : text)                         (* an LCD command on variable n that emits one line *)
| IBlock (bs : list (list item)).         (* if / while / for / try: the bodies in order *)

Record dprog : Type := mkDProg {
  d_setup : list item; d_loop : list item; d_functions : list (list item); d_globals : list item
}.

(* forget the arguments (the include flags and the deep walk never look at them; names -> 0) *)
Fixpoint erase (it : item) : node :=
  match it with
  | IServo _ => NServo 0
  | ILcd d => if l_i2c d then NLcdI2c 0 else NLcdPar 0
  | IOther => NOtherDecl
  | IPlain => NPlain
  | ICmd _ => NPlain
  | IBlock bs => NIf (map (map erase) bs)
  end.

Definition erase_prog (p : dprog) : prog :=
  mkProg (map erase (d_setup p)) (map erase (d_loop p))
         (map (map erase) (d_functions p)) (map erase (d_globals p)).

(* ---------------------------------------------------------------- pass 1 *)
Fixpoint count_t (x : text) (l : list text) : Z :=
  match l with [] => 0 | y :: r => (if text_eqb x y then 1 else 0) + count_t x r end.

(* the top-level LCD declarations of a body with their binding index
   ([seen] = names of the LCD declarations scanned so far, with multiplicity) *)
Fixpoint lcd_defs_from (seen : list text) (l : list item) : list (lcdd * Z) :=
  match l with
  | [] => []
  | ILcd d :: r => (d, count_t (l_name d) seen) :: lcd_defs_from (l_name d :: seen) r
  | _ :: r => lcd_defs_from seen r
  end.

Definition lcd_defs (p : dprog) : list (lcdd * Z) := lcd_defs_from [] (d_setup p).

Fixpoint top_servos (l : list item) : list servod :=
  match l with
  | [] => []
  | IServo d :: r => d :: top_servos r
  | _ :: r => top_servos r
  end.

(* the servo declarations the two scans pass, in scan order *)
Definition servo_decls (p : dprog) : list servod := top_servos (d_setup p) ++ top_servos (d_loop p).

(* "if line not in globals_: globals_.append(line)" *)
Fixpoint add_lines (g : list text) (ls : list text) : list text :=
  match ls with
  | [] => g
  | l :: r => add_lines (if tmem l g then g else g ++ [l]) r
  end.

(* the global lines one top-level node of a scanned body contributes ([lcd] = false in loop_body) *)
Fixpoint scan_globals (lcd : bool) (seen : list text) (g : list text) (l : list item) : list text :=
  match l with
  | [] => g
  | IServo d :: r => scan_globals lcd seen (add_lines g [servo_obj_line (s_name d)]) r
  | ILcd d :: r =>
      if lcd then scan_globals lcd (l_name d :: seen)
                               (add_lines g (lcd_global_lines d (count_t (l_name d) seen))) r
      else scan_globals lcd seen g r
  | _ :: r => scan_globals lcd seen g r
  end.

(* the library-object part of globals_ after pass 1 *)
Definition lib_globals (p : dprog) : list text :=
  scan_globals false [] (scan_globals true [] [] (d_setup p)) (d_loop p).

(* setup_lines of pass 1: [att] = servo_attach_emitted *)
Fixpoint scan_init (lcd : bool) (seen : list text) (att : list text) (l : list item) : list text * list text :=
  match l with
  | [] => ([], att)
  | IServo d :: r =>
      if tmem (s_name d) att then scan_init lcd seen att r
      else let '(o, a) := scan_init lcd seen (s_name d :: att) r in (servo_init_lines d ++ o, a)
  | ILcd d :: r =>
      if lcd then let '(o, a) := scan_init lcd (l_name d :: seen) att r in
                  (lcd_init_lines d (count_t (l_name d) seen) ++ o, a)
      else scan_init lcd seen att r
  | _ :: r => scan_init lcd seen att r
  end.

Definition lib_init (p : dprog) : list text :=
  let '(o1, a1) := scan_init true [] [] (d_setup p) in
  let '(o2, _) := scan_init false [] a1 (d_loop p) in
  o1 ++ o2.

(* ---------------------------------------------------------------- pass 2: name -> current object *)
(* a binding of pass 1: ordinal of the declaration among the top-level LCD declarations of
   setup_body (stands for the identity `bound["decl"] is node`), its name and its index *)
Record binding : Type := mkB { b_ord : Z; b_name : text; b_index : Z }.

Fixpoint bindings_from (ord : Z) (seen : list text) (l : list item) : list binding :=
  match l with
  | [] => []
  | ILcd d :: r => mkB ord (l_name d) (count_t (l_name d) seen) :: bindings_from (ord + 1) (l_name d :: seen) r
  | _ :: r => bindings_from ord seen r
  end.

(* lcd_state: name -> index of the binding commands currently use (latest entry first) *)
Definition cur : Type := list (text * Z).

(* lcd_state after pass 1: every name maps to its LAST binding *)
Definition cur_after_pass1 (bs : list binding) : cur :=
  rev (map (fun b => (b_name b, b_index b)) bs).

(* _register_lcd(node) for the top-level declaration with ordinal [ord]: look the node up among
   the bindings of its name *)
Definition register_top (bs : list binding) (ord : Z) (n : text) (c : cur) : cur :=
  match tlookup n c with
  | None => (n, 0) :: c                   (* unreachable: pass 1 registered the name *)
  | Some _ =>
      match find (fun b => text_eqb (b_name b) n && (b_ord b =? ord)) bs with
      | Some b => (n, b_index b) :: c
      | None => c
      end
  end.

(* _register_lcd(node) for a declaration pass 1 did not see (nested, loop body, function):
   a known name keeps its display; an unknown one is registered as "__redu_lcd_<n>" *)
Definition register_other (n : text) (c : cur) : cur :=
  match tlookup n c with
  | Some _ => c
  | None => (n, 0) :: c
  end.

(* receiver of an emitted command line: (object identifier, its cols variable) *)
Definition recv (k : Z) (n : text) : text * text := (lcd_ident k n, lcd_cols_var k n).

Record rstate : Type := mkR { r_cur : cur; r_ord : Z }.

(* run a state-threading step over a list, concatenating the outputs (the statement loop of
   _emit_block: lcd_state is one dict, mutated in place and shared with the nested blocks) *)
Definition thread {A S O : Type} (f : S -> A -> list O * S) : S -> list A -> list O * S :=
  fix go (st : S) (l : list A) {struct l} : list O * S :=
    match l with
    | [] => ([], st)
    | x :: r => let '(o, s) := f st x in
                let '(o', s') := go s r in (o ++ o', s')
    end.

Fixpoint res_item (bs : list binding) (top : bool) (st : rstate) (it : item) {struct it}
  : list (text * text) * rstate :=
  match it with
  | ILcd d =>
      if top then ([], mkR (register_top bs (r_ord st) (l_name d) (r_cur st)) (r_ord st + 1))
      else ([], mkR (register_other (l_name d) (r_cur st)) (r_ord st))
  | ICmd n =>
      (match tlookup n (r_cur st) with Some k => [recv k n] | None => [] end, st)
  | IBlock bl => thread (thread (fun s x => res_item bs false s x)) st bl
  | _ => ([], st)
  end.

Definition res_items (bs : list binding) (top : bool) : rstate -> list item -> list (text * text) * rstate :=
  thread (fun s x => res_item bs top s x).

(* receivers of the command lines of setup(), of loop(), and of every function body (each on a
   copy of lcd_state as the loop body left it) *)
Definition resolve (p : dprog) : list (text * text) * list (text * text) * list (list (text * text)) :=
  let bs := bindings_from 0 [] (d_setup p) in
  let '(o1, s1) := res_items bs true (mkR (cur_after_pass1 bs) 0) (d_setup p) in
  let '(o2, s2) := res_items bs false s1 (d_loop p) in
  (o1, o2, map (fun f => fst (res_items bs false s2 f)) (d_functions p)).

(* ---------------------------------------------------------------- reference semantics *)
(* a command on n addresses the object of the latest top-level declaration of n that precedes it:
   with c = number of such declarations, the object with index c - 1 *)
Fixpoint spec_item (seen : list text) (it : item) : list (text * text) :=
  match it with
  | ICmd n => if 0 <? count_t n seen then [recv (count_t n seen - 1) n] else []
  | IBlock bl => flat_map (flat_map (spec_item seen)) bl
  | _ => []
  end.

Fixpoint spec_items (seen : list text) (l : list item) : list (text * text) :=
  match l with
  | [] => []
  | ILcd d :: r => spec_items (l_name d :: seen) r
  | x :: r => spec_item seen x ++ spec_items seen r
  end.

Fixpoint top_lcd_names (l : list item) : list text :=
  match l with
  | [] => []
  | ILcd d :: r => l_name d :: top_lcd_names r
  | _ :: r => top_lcd_names r
  end.

(* ---------------------------------------------------------------- guard *)
(* no LCD declaration anywhere below (or at) the item *)
Fixpoint lcd_free (it : item) : bool :=
  match it with
  | ILcd _ => false
  | IBlock bl => forallb (forallb lcd_free) bl
  | _ => true
  end.

(* LCD declarations occur only as top-level statements of the body *)
Definition lcd_top_only (l : list item) : bool :=
  forallb (fun it => match it with ILcd _ => true | _ => lcd_free it end) l.

(* the property's quantifier for displays: declared before the main loop, at the top level *)
Definition lcds_at_top (p : dprog) : bool :=
  lcd_top_only (d_setup p) && forallb lcd_free (d_loop p) &&
  forallb (forallb lcd_free) (d_functions p).

(* a command textually before the first declaration of its name (the parser does not produce it) *)
Fixpoint cmds_declared (seen : list text) (it : item) : bool :=
  match it with
  | ICmd n => 0 <? count_t n seen
  | IBlock bl => forallb (forallb (cmds_declared seen)) bl
  | _ => true
  end.

Fixpoint cmds_follow_decl (seen : list text) (l : list item) : bool :=
  match l with
  | [] => true
  | ILcd d :: r => cmds_follow_decl (l_name d :: seen) r
  | x :: r => cmds_declared seen x && cmds_follow_decl seen r
  end.

(* ---------------------------------------------------------------- class -> header / library *)
Definition class_of (d : lcdd) : lib := if l_i2c d then LLiquidCrystalI2C else LLiquidCrystal.

Definition class_text (l : lib) : text :=
  match l with
  | LServo => [83; 101; 114; 118; 111] (* "Servo" *)
  | LLiquidCrystal => [76; 105; 113; 117; 105; 100; 67; 114; 121; 115; 116; 97; 108] (* "LiquidCrystal" *)
  | LLiquidCrystalI2C => [76; 105; 113; 117; 105; 100; 67; 114; 121; 115; 116; 97; 108; 95; 73; 50; 67] (* "LiquidCrystal_I2C" *)
  end.

Definition header_text (h : header) : text :=
  match h with
  | HServo => [83; 101; 114; 118; 111; 46; 104] (* "Servo.h" *)
  | HLiquidCrystal => [76; 105; 113; 117; 105; 100; 67; 114; 121; 115; 116; 97; 108; 46; 104] (* "LiquidCrystal.h" *)
  | HWire => [87; 105; 114; 101; 46; 104] (* "Wire.h" *)
  | HLiquidCrystalI2C => [76; 105; 113; 117; 105; 100; 67; 114; 121; 115; 116; 97; 108; 95; 73; 50; 67; 46; 104] (* "LiquidCrystal_I2C.h" *)
  end.

(* the headers the emitter includes for a class, in order *)
Definition headers_of (l : lib) : list header :=
  match l with
  | LServo => [HServo]
  | LLiquidCrystal => [HLiquidCrystal]
  | LLiquidCrystalI2C => [HWire; HLiquidCrystalI2C]
  end.

(* ---------------------------------------------------------------- names the translator reads *)
(* harness/gen/c14_libs.py regenerates Gen/LibTable.v from emitter.py and __init__.py; Props/C14.v
   compares it with these (what the collector tests, which interface literal selects which class) *)
Definition servo_decl_text : text := [83; 101; 114; 118; 111; 68; 101; 99; 108] (* "ServoDecl" *).
Definition iface_parallel_text : text := [112; 97; 114; 97; 108; 108; 101; 108] (* "parallel" *).
Definition iface_i2c_text : text := [105; 50; 99] (* "i2c" *).
Definition interface_attr_text : text := [105; 110; 116; 101; 114; 102; 97; 99; 101] (* "interface" *).
Definition dot_h : text := [46; 104] (* ".h" *).

Definition all_libs : list lib := [LServo; LLiquidCrystal; LLiquidCrystalI2C].

(* the model's class -> headers table, as text *)
Definition model_class_headers : list (text * list text) :=
  map (fun l => (class_text l, map header_text (headers_of l))) all_libs.

(* what _collect_required_libraries tests for each library *)
Definition model_required : list (text * text) :=
  [ (servo_decl_text, class_text LServo);
    (iface_parallel_text, class_text LLiquidCrystal);
    (iface_i2c_text, class_text LLiquidCrystalI2C) ].

(* which interface literal selects which class in _ensure_lcd_globals ([] = the else branch) *)
Definition model_interface_class : list (text * text) :=
  [ (iface_i2c_text, class_text LLiquidCrystalI2C); ([], class_text LLiquidCrystal) ].

(* ---------------------------------------------------------------- the stitched sketch (library part) *)
(* "Stitch sections": HEADER, the #include lines, helper snippets, globals_, functions, then
   "void setup() {" with setup_lines.  The lines that concern library objects, in textual order
   up to the end of the pass-1 part of setup() *)
Definition include_line (h : header) : text := [35; 105; 110; 99; 108; 117; 100; 101; 32; 60] (* "#include <" *) ++ header_text h ++ [62] (* ">" *).
Definition setup_start : text := [118; 111; 105; 100; 32; 115; 101; 116; 117; 112; 40; 41; 32; 123] (* "void setup() {" *).

Definition lib_sketch (p : dprog) : list text :=
  map include_line (headers (erase_prog p)) ++ lib_globals p ++ [setup_start] ++ lib_init p.
