(* C14 - library dependencies, #include lines and instantiated library classes.

   Model of three computations of Reduino, written from the source:

   * [required]      = Reduino/__init__.py  _program_contains / _collect_required_libraries
                       (a DEEP walk over every attribute of the Program object: any ServoDecl
                       anywhere => "Servo"; the set of LCDDecl.interface values anywhere =>
                       "LiquidCrystal" if it has "parallel", "LiquidCrystal_I2C" if it has "i2c";
                       appended in that fixed order, each at most once);
   * [headers]/[includes] = transpile/emitter.py emit(): flags servo_used, lcd_parallel_used,
                       lcd_i2c_used.  They are set ONLY by the two "pass 1" loops over the
                       TOP-LEVEL nodes of setup_body (ServoDecl, LCDDecl) and of loop_body
                       (ServoDecl only - there is no LCDDecl branch in the loop_body scan);
                       bodies of if/while/for/try and of functions are never scanned.
                       _ensure_lcd_globals runs for EVERY top-level LCDDecl of setup_body and
                       sets the flag of its interface, also when the name was declared before
                       (a re-bound name defines a further display);
   * [servo_objs]/[lcd_objs]/[instantiated] = the global object definitions
                       "Servo __servo_<n>;", "LiquidCrystal __redu_lcd_<n>(..);",
                       "LiquidCrystal_I2C __redu_lcd_<n>(..);" appended to globals_ by the same
                       two helpers.  Servo: deduplicated by line text.  LCD: one object per
                       declaration; the k-th further declaration of a name n (k >= 1) is
                       "__redu_lcd<k+1>_<n>" (model: binding index k, 0 = "__redu_lcd_<n>").

   The IR is reduced to the skeleton that these computations can see.  No proofs here. *)
From Coq Require Import ZArith List Bool.
Import ListNotations.
Open Scope Z_scope.

(* ---------------------------------------------------------------- vocabulary *)
Inductive lib : Type := LServo | LLiquidCrystal | LLiquidCrystalI2C.
Inductive header : Type := HServo | HLiquidCrystal | HWire | HLiquidCrystalI2C.

Definition lib_eqb (a b : lib) : bool :=
  match a, b with
  | LServo, LServo | LLiquidCrystal, LLiquidCrystal | LLiquidCrystalI2C, LLiquidCrystalI2C => true
  | _, _ => false
  end.

(* position in the fixed order  Servo < LiquidCrystal < LiquidCrystal_I2C *)
Definition lib_rank (l : lib) : Z :=
  match l with LServo => 0 | LLiquidCrystal => 1 | LLiquidCrystalI2C => 2 end.
Definition lib_lt (a b : lib) : Prop := lib_rank a < lib_rank b.

Definition header_rank (h : header) : Z :=
  match h with HServo => 0 | HLiquidCrystal => 1 | HWire => 2 | HLiquidCrystalI2C => 3 end.
Definition header_lt (a b : header) : Prop := header_rank a < header_rank b.

(* which library a header belongs to (Wire.h ships with the core: no lib_deps entry) *)
Definition lib_of_header (h : header) : option lib :=
  match h with
  | HServo => Some LServo
  | HLiquidCrystal => Some LLiquidCrystal
  | HWire => None
  | HLiquidCrystalI2C => Some LLiquidCrystalI2C
  end.

(* ---------------------------------------------------------------- IR skeleton *)
(* Variable names are numbered by the harness (same identifier = same number). *)
Inductive node : Type :=
| NServo (name : Z)                       (* ServoDecl *)
| NLcdPar (name : Z)                      (* LCDDecl interface="parallel" *)
| NLcdI2c (name : Z)                      (* LCDDecl interface="i2c" *)
| NOtherDecl                              (* LedDecl, BuzzerDecl, ButtonDecl, ... *)
| NPlain                                  (* any other leaf statement *)
| NIf (branches : list (list node))       (* IfStatement: branch bodies, then else_body *)
| NWhile (body : list node)               (* WhileLoop *)
| NFor (body : list node)                 (* ForRangeLoop *)
| NTry (bodies : list (list node)).       (* TryStatement: try_body, then handler bodies *)

Record prog : Type := mkProg {
  setup : list node;                      (* Program.setup_body *)
  loop : list node;                       (* Program.loop_body *)
  functions : list (list node);           (* FunctionDef.body of Program.functions *)
  globals : list node                     (* Program.global_decls *)
}.

Definition children (n : node) : list (list node) :=
  match n with
  | NIf bs => bs
  | NTry bs => bs
  | NWhile b => [b]
  | NFor b => [b]
  | _ => []
  end.

Definition is_servo (n : node) : bool := match n with NServo _ => true | _ => false end.
Definition is_par (n : node) : bool := match n with NLcdPar _ => true | _ => false end.
Definition is_i2c (n : node) : bool := match n with NLcdI2c _ => true | _ => false end.
Definition is_lcd (n : node) : bool := is_par n || is_i2c n.

(* the library a declaration needs *)
Definition needs (n : node) : option lib :=
  match n with
  | NServo _ => Some LServo
  | NLcdPar _ => Some LLiquidCrystal
  | NLcdI2c _ => Some LLiquidCrystalI2C
  | _ => None
  end.

Definition needs_lib (l : lib) (n : node) : bool :=
  match needs n with Some k => lib_eqb k l | None => false end.

(* ---------------------------------------------------------------- deep walk (__init__.py) *)
(* _visit: test the value itself, then descend into every attribute / list item *)
Fixpoint any_node (f : node -> bool) (n : node) : bool :=
  f n ||
  match n with
  | NIf bs => existsb (existsb (any_node f)) bs
  | NTry bs => existsb (existsb (any_node f)) bs
  | NWhile b => existsb (any_node f) b
  | NFor b => existsb (any_node f) b
  | _ => false
  end.

Definition any_list (f : node -> bool) (l : list node) : bool := existsb (any_node f) l.

(* every node list hanging off the Program object *)
Definition all_lists (p : prog) : list (list node) :=
  setup p :: loop p :: globals p :: functions p.

Definition deep (f : node -> bool) (p : prog) : bool := existsb (any_list f) (all_lists p).

Definition opt_lib (b : bool) (l : lib) : list lib := if b then [l] else [].

(* _collect_required_libraries *)
Definition required (p : prog) : list lib :=
  opt_lib (deep is_servo p) LServo ++
  opt_lib (deep is_par p) LLiquidCrystal ++
  opt_lib (deep is_i2c p) LLiquidCrystalI2C.

(* ---------------------------------------------------------------- emitter pass 1 *)
Fixpoint zmem (x : Z) (l : list Z) : bool :=
  match l with [] => false | y :: r => (x =? y) || zmem x r end.

(* servo_used: _ensure_servo_globals is called for every top-level ServoDecl of setup_body
   and of loop_body *)
Definition servo_used (p : prog) : bool := existsb is_servo (setup p) || existsb is_servo (loop p).

(* lcd_parallel_used / lcd_i2c_used: scan of the top level of setup_body; every LCDDecl sets
   the flag of its interface *)
Fixpoint lcd_flags (l : list node) : bool * bool :=
  match l with
  | [] => (false, false)
  | NLcdPar x :: r => let '(a, b) := lcd_flags r in (true, b)
  | NLcdI2c x :: r => let '(a, b) := lcd_flags r in (a, true)
  | _ :: r => lcd_flags r
  end.

Definition par_used (p : prog) : bool := fst (lcd_flags (setup p)).
Definition i2c_used (p : prog) : bool := snd (lcd_flags (setup p)).

(* the "Stitch sections" block: the #include lines after HEADER, in order *)
Definition headers (p : prog) : list header :=
  (if servo_used p then [HServo] else []) ++
  (if par_used p then [HLiquidCrystal] else []) ++
  (if i2c_used p then [HWire; HLiquidCrystalI2C] else []).

(* the libraries whose header is included *)
Definition includes (p : prog) : list lib :=
  opt_lib (servo_used p) LServo ++
  opt_lib (par_used p) LLiquidCrystal ++
  opt_lib (i2c_used p) LLiquidCrystalI2C.

(* ---------------------------------------------------------------- global object definitions *)
Fixpoint servo_names (l : list node) : list Z :=
  match l with
  | [] => []
  | NServo x :: r => x :: servo_names r
  | _ :: r => servo_names r
  end.

(* "if obj_line not in globals_": keep the first occurrence *)
Fixpoint dedup (seen : list Z) (l : list Z) : list Z :=
  match l with
  | [] => []
  | x :: r => if zmem x seen then dedup seen r else x :: dedup (x :: seen) r
  end.

(* names n of the definitions "Servo __servo_n;" in textual order *)
Definition servo_objs (p : prog) : list Z :=
  dedup [] (servo_names (setup p) ++ servo_names (loop p)).

(* how many of the names in [l] are [x] *)
Fixpoint count (x : Z) (l : list Z) : Z :=
  match l with [] => 0 | y :: r => (if x =? y then 1 else 0) + count x r end.

(* one display object per declaration *)
Record lcd_obj : Type := mkObj {
  o_i2c : bool;                           (* class: LiquidCrystal_I2C (true) / LiquidCrystal *)
  o_name : Z;                             (* the script variable *)
  o_index : Z                             (* binding index: earlier declarations of that name *)
}.

(* the definitions "LiquidCrystal[_I2C] __redu_lcd[<k+1>]_n(...);" in textual order;
   [seen] = names of the LCD declarations scanned so far, with multiplicity (the length of the
   emitter's per-name "bindings" list) *)
Fixpoint lcd_scan (seen : list Z) (l : list node) : list lcd_obj :=
  match l with
  | [] => []
  | NLcdPar x :: r => mkObj false x (count x seen) :: lcd_scan (x :: seen) r
  | NLcdI2c x :: r => mkObj true x (count x seen) :: lcd_scan (x :: seen) r
  | _ :: r => lcd_scan seen r
  end.

Definition lcd_objs (p : prog) : list lcd_obj := lcd_scan [] (setup p).

(* the top-level LCD declarations of a body: (is_i2c, name) in order *)
Fixpoint lcd_decls (l : list node) : list (bool * Z) :=
  match l with
  | [] => []
  | NLcdPar x :: r => (false, x) :: lcd_decls r
  | NLcdI2c x :: r => (true, x) :: lcd_decls r
  | _ :: r => lcd_decls r
  end.

Definition nonempty {A} (l : list A) : bool := match l with [] => false | _ => true end.

(* the library classes of which the emitted source defines at least one object *)
Definition instantiated (p : prog) : list lib :=
  opt_lib (nonempty (servo_objs p)) LServo ++
  opt_lib (existsb (fun o => negb (o_i2c o)) (lcd_objs p)) LLiquidCrystal ++
  opt_lib (existsb o_i2c (lcd_objs p)) LLiquidCrystalI2C.

(* ---------------------------------------------------------------- the guard (executable) *)
(* no [f]-node strictly below the top level of [l] *)
Definition nested_free (f : node -> bool) (l : list node) : bool :=
  forallb (fun n => negb (existsb (any_list f) (children n))) l.

(* no [f]-node anywhere in [l] *)
Definition absent (f : node -> bool) (l : list node) : bool := negb (any_list f l).

Fixpoint par_names (l : list node) : list Z :=
  match l with [] => [] | NLcdPar x :: r => x :: par_names r | _ :: r => par_names r end.
Fixpoint i2c_names (l : list node) : list Z :=
  match l with [] => [] | NLcdI2c x :: r => x :: i2c_names r | _ :: r => i2c_names r end.

(* no LCD variable is bound to both interfaces.  NOT part of the guard any more (the finding
   F-C14-lcd-rebind is repaired): kept as the classifier of the region it used to exclude *)
Definition lcd_names_consistent (l : list node) : bool :=
  forallb (fun x => negb (zmem x (i2c_names l))) (par_names l).

(* every ServoDecl is a top-level node of setup_body or loop_body *)
Definition servos_documented (p : prog) : bool :=
  nested_free is_servo (setup p) && nested_free is_servo (loop p) &&
  absent is_servo (globals p) && forallb (absent is_servo) (functions p).

(* every LCDDecl is a top-level node of setup_body *)
Definition lcds_documented (p : prog) : bool :=
  nested_free is_lcd (setup p) && absent is_lcd (loop p) &&
  absent is_lcd (globals p) && forallb (absent is_lcd) (functions p).

Definition decls_at_documented_positions (p : prog) : bool :=
  servos_documented p && lcds_documented p.

(* the property's relation, as a boolean *)
Fixpoint libs_eqb (a b : list lib) : bool :=
  match a, b with
  | [], [] => true
  | x :: a', y :: b' => lib_eqb x y && libs_eqb a' b'
  | _, _ => false
  end.

Definition agree (p : prog) : bool :=
  libs_eqb (required p) (includes p) && libs_eqb (includes p) (instantiated p).
