(* C13, third round: near-miss names.

   The property quantifies over "registry + near-miss names".  A near-miss is a string that some
   plausible normaliser k (the environment-name sanitiser, case folding, blank stripping,
   dropping the separators) sends to the same key as a registered board id although it is a
   different string: a "twin" of that id under k.

   validate_platform_board looks the board up by the string itself.  The variant that a
   regression typically introduces looks it up through an index keyed by k(board); it is written
   down here ([validate_keyed_in]) so that the theorems can say exactly which inputs separate
   it from the code (Proofs/NearMissP.v) and so that the harness can measure, with the extracted
   function, how many of its generated cases do.

   Definitions only. *)
From Coq Require Import ZArith List Bool.
From RV Require Import Base.Wire Base.Text Gen.Registry Tool.Registry Tool.Ini.
Import ListNotations.
Open Scope Z_scope.

(* ---------------------------------------------------------------- the normalisers *)
Definition is_alnum (c : Z) : bool :=
  ((65 <=? c) && (c <=? 90)) || ((97 <=? c) && (c <=? 122)) || ((48 <=? c) && (c <=? 57)).

Definition norm_env (t : text) : text := sanitize_env_name t.       (* _sanitize_env_name *)
Definition norm_lower (t : text) : text := lower t.                 (* ASCII case folding *)
Definition norm_strip (t : text) : text := strip t.                 (* str.strip() *)
Definition norm_squash (t : text) : text := lower (filter is_alnum t).  (* separators dropped, case folded *)

Definition normaliser (code : Z) : text -> text :=
  match code with
  | 0 => norm_env
  | 1 => norm_lower
  | 2 => norm_strip
  | 3 => norm_squash
  | _ => fun t => t
  end.

(* ---------------------------------------------------------------- lookup through a keyed index *)
(* { k(board): platform for board, platform in BOARD_TO_PLATFORM.items() }: a dict comprehension,
   so on a key collision the LATER entry wins - the lookup runs over the reversed table *)
Definition keyed_index (k : text -> text) (b2p : list (text * text)) : list (text * text) :=
  rev (map (fun kv => (k (fst kv), snd kv)) b2p).

Definition validate_keyed_with (k : text -> text) (index : list (text * text))
           (plats : list (text * list text)) (pl b : text) : option verr :=
  if negb (tmem pl (map fst plats)) then Some UnsupportedPlatform
  else match tlookup (k b) index with
       | None => Some UnsupportedBoard
       | Some req => if text_eqb req pl then None else Some Mismatch
       end.

Definition validate_keyed_in (k : text -> text) (plats : list (text * list text))
           (b2p : list (text * text)) (pl b : text) : option verr :=
  validate_keyed_with k (keyed_index k b2p) plats pl b.

Definition validate_keyed (k : text -> text) := validate_keyed_in k platforms board_to_platform.

(* ---------------------------------------------------------------- twins *)
Definition board_ids (b2p : list (text * text)) : list text := map fst b2p.

(* the registered ids that share b's key *)
Definition twins_in (k : text -> text) (b2p : list (text * text)) (b : text) : list text :=
  filter (fun b' => text_eqb (k b') (k b)) (board_ids b2p).

Definition twins (k : text -> text) := twins_in k board_to_platform.

(* b is a near-miss under k: it shares its key with a registered id that is another string *)
Definition near_miss_in (k : text -> text) (b2p : list (text * text)) (b : text) : bool :=
  existsb (fun b' => negb (text_eqb b' b)) (twins_in k b2p b).

Definition near_miss (k : text -> text) := near_miss_in k board_to_platform.

(* k separates the registered ids (decidable on the generated table) *)
Fixpoint nodup_textb (l : list text) : bool :=
  match l with [] => true | a :: r => negb (tmem a r) && nodup_textb r end.

Definition separates_registry (k : text -> text) (b2p : list (text * text)) : bool :=
  nodup_textb (map k (board_ids b2p)).

(* ---------------------------------------------------------------- source inventory (tie of kind G) *)
(* what the translator found in pio.py is compared with these lists by theorems of Props/C13.v *)
Definition subset_textb (xs allowed : list text) : bool := forallb (fun x => tmem x allowed) xs.
