(* Model of toolchain/pio.py: validate_platform_board over the generated registry. *)
From Coq Require Import ZArith List Bool.
From RV Require Import Base.Wire Base.Text Gen.Registry.
Import ListNotations.
Open Scope Z_scope.

Inductive verr := UnsupportedPlatform | UnsupportedBoard | Mismatch.

(* None = accepted (the Python function returns None), Some e = ValueError of kind e.
   The order of the three tests is the code's. *)
Definition validate_in (plats : list (text * list text)) (b2p : list (text * text))
           (pl b : text) : option verr :=
  if negb (tmem pl (map fst plats)) then Some UnsupportedPlatform
  else match tlookup b b2p with
       | None => Some UnsupportedBoard
       | Some req => if text_eqb req pl then None else Some Mismatch
       end.

Definition validate := validate_in platforms board_to_platform.

(* the specification side: "board b is registered for platform pl" *)
Definition registered_in (plats : list (text * list text)) (pl b : text) : Prop :=
  exists bs, In (pl, bs) plats /\ In b bs.
Definition registered := registered_in platforms.

Definition verr_code (e : verr) : Z :=
  match e with UnsupportedPlatform => 1 | UnsupportedBoard => 2 | Mismatch => 3 end.
