(* Model of Reduino.target() (src/Reduino/__init__.py) together with ensure_pio,
   write_project and compile_upload (src/Reduino/toolchain/pio.py).

   target() is a straight-line program.  Its sequence of top-level statements is
   NOT written here: the translator harness/gen/target.py reads the current source
   with `ast` and prints it as a [list step] into Gen/TargetShape.v (fail-closed on
   any statement it does not recognise).  This file gives the step language, the
   effect semantics of each step (what ensure_pio / write_project / compile_upload
   do, in the order pio.py does it) against an environment oracle, and the
   decidable well-formedness predicate [shape_ok] the theorems are stated over.

   No proofs in this file. *)
From Coq Require Import ZArith List Bool.
From RV Require Import Base.Wire.
Import ListNotations.
Open Scope Z_scope.

(* ---- abstract values: each token names the place a value comes from ---------- *)
Inductive val :=
| VPort | VPlatform | VBoard          (* the arguments of target() *)
| VSrc                                (* text read from the __main__ file *)
| VProg                               (* parse(src) *)
| VLibs                               (* _collect_required_libraries(program) *)
| VCpp                                (* emit(program) *)
| VTmp                                (* Path(tempfile.mkdtemp(...)) *)
| VNone                               (* the constant None / a bare return *)
| VOmitted.                           (* argument not passed: callee default *)

Definition val_code (v : val) : Z :=
  match v with
  | VPort => 0 | VPlatform => 1 | VBoard => 2 | VSrc => 3 | VProg => 4
  | VLibs => 5 | VCpp => 6 | VTmp => 7 | VNone => 8 | VOmitted => 9
  end.

Definition val_eqb (a b : val) : bool := val_code a =? val_code b.

(* ---- guards of an `if upload:` / `if not upload:` around a statement -------- *)
Inductive guard := GAlways | GIfUpload | GIfNotUpload.

Definition guard_eqb (a b : guard) : bool :=
  match a, b with
  | GAlways, GAlways | GIfUpload, GIfUpload | GIfNotUpload, GIfNotUpload => true
  | _, _ => false
  end.

Definition guard_on (g : guard) (upload : bool) : bool :=
  match g with GAlways => true | GIfUpload => upload | GIfNotUpload => negb upload end.

(* ---- the ways the discovery probe `pio --version` can fail --------------------- *)
(* what subprocess.run(["pio","--version"], check=True) raises when PlatformIO is unusable *)
Inductive pfail :=
| PNotFound      (* no `pio` on PATH: FileNotFoundError (errno 2) *)
| PPerm          (* a `pio` without execute permission: PermissionError (errno 13) *)
| PFormat        (* a `pio` that is no executable format: plain OSError (errno 8) *)
| PNotDir        (* a PATH component is a file: NotADirectoryError (errno 20) *)
| PExit.         (* `pio --version` starts and exits non-zero: CalledProcessError *)

Definition all_pfail : list pfail := [PNotFound; PPerm; PFormat; PNotDir; PExit].

Definition pfail_code (f : pfail) : Z :=
  match f with PNotFound => 0 | PPerm => 1 | PFormat => 2 | PNotDir => 3 | PExit => 4 end.

Inductive kind := ValueError | RuntimeError | CalledProcessError | OSError.

Definition kind_eqb (a b : kind) : bool :=
  match a, b with
  | ValueError, ValueError | RuntimeError, RuntimeError
  | CalledProcessError, CalledProcessError | OSError, OSError => true
  | _, _ => false
  end.

(* the exception as subprocess.run raises it, by the four kinds the observer distinguishes *)
Definition raw_kind (f : pfail) : kind :=
  match f with PExit => CalledProcessError | _ => OSError end.

(* ---- the except clauses of ensure_pio(), as the translator reads them ---------- *)
(* exception classes an `except` clause of ensure_pio may name *)
Inductive hclass :=
| HBaseException | HException          (* also a bare `except:` *)
| HOSError                             (* OSError / IOError / EnvironmentError *)
| HFileNotFound | HPermission | HNotADirectory
| HSubprocessError | HCalledProcess
| HUnrelated.                          (* a class none of the probe's exceptions is an instance of *)

(* isinstance(exception raised for f, class) - CPython's built-in hierarchy *)
Definition catches (c : hclass) (f : pfail) : bool :=
  match c, f with
  | HBaseException, _ | HException, _ => true
  | HOSError, PExit => false
  | HOSError, _ => true
  | HFileNotFound, PNotFound => true
  | HPermission, PPerm => true
  | HNotADirectory, PNotDir => true
  | HSubprocessError, PExit | HCalledProcess, PExit => true
  | _, _ => false
  end.

(* what the body of a clause does: `raise K(...) [from e]` or a bare `raise` *)
Inductive haction := ARaise (k : kind) | AReraise.

Definition handler := (list hclass * haction)%type.

(* the exception that leaves ensure_pio() when the probe fails with f: the first clause
   (in source order) one of whose classes matches decides; no clause: the raw exception *)
Fixpoint ensure_kind (hs : list handler) (f : pfail) : kind :=
  match hs with
  | [] => raw_kind f
  | (cs, a) :: r =>
      if existsb (fun c => catches c f) cs
      then match a with ARaise k => k | AReraise => raw_kind f end
      else ensure_kind r f
  end.

(* every discovery failure leaves ensure_pio() as RuntimeError *)
Definition handlers_wrap (hs : list handler) : bool :=
  forallb (fun f => kind_eqb (ensure_kind hs f) RuntimeError) all_pfail.

(* ---- the top-level statements of target() ------------------------------------ *)
Inductive step :=
| SValidate (pl b : val)                    (* validate_platform_board(pl, b) *)
| SEnsurePio (g : guard) (h : list handler) (* ensure_pio(), with its except clauses *)
| SReadMain                                 (* src = Path(sys.modules["__main__"].__file__).read_text(...) *)
| SParse (src : val)                        (* program = parse(src) *)
| SLibs (prog : val)                        (* required_libs = _collect_required_libraries(program) *)
| SNotice                                   (* if "Servo" in required_libs: print(..., file=sys.stderr) *)
| SEmit (prog : val)                        (* cpp = emit(program) *)
| SMkdtemp                                  (* tmp = Path(tempfile.mkdtemp(prefix=...)) *)
| SWriteProject (dir cpp port pl b libs : val)  (* write_project(dir, cpp, port=, platform=, board=, lib_deps=) *)
| SCompileUpload (g : guard) (dir : val)    (* compile_upload(dir) *)
| SReturn (v : val).                        (* return v *)

(* ---- observable effects, in the order the code performs them ---------------- *)
Inductive event :=
| RunPioVersion                             (* subprocess.run(["pio","--version"], check=True) *)
| ReadMain                                  (* main_file.read_text *)
| Parse
| Emit                                      (* produces the text named VCpp *)
| Mkdtemp
| Mkdir (dir : val)                         (* (dir/"src").mkdir(parents=True, exist_ok=True) *)
| WriteMain (text : val)                    (* (dir/"src"/"main.cpp").write_text(text) *)
| WriteIni (port pl b libs : val)           (* (dir/"platformio.ini").write_text(render ...) *)
| RunBuild (cwd : val)                      (* subprocess.run(["pio","run"], cwd=, check=True) *)
| RunUpload (cwd : val).                    (* subprocess.run(["pio","run","-t","upload"], cwd=, check=True) *)

Inductive result :=
| Returned (v : val)
| Raised (k : kind)
| FellOff.                                  (* end of body reached without `return`: Python returns None *)

(* ---- the world ---------------------------------------------------------------- *)
(* points at which the outside world can make a step fail *)
Inductive fpoint :=
| FReadMain      (* reading the main file: OSError *)
| FParse         (* parse(src) raises ValueError (decided by the script text) *)
| FMkdtemp       (* tempfile.mkdtemp: OSError *)
| FMkdir         (* Path.mkdir: OSError *)
| FWriteMain     (* writing src/main.cpp: OSError *)
| FWriteIni      (* writing platformio.ini: OSError *)
| FBuild         (* `pio run` exits non-zero *)
| FUpload        (* `pio run -t upload` exits non-zero *)
| FBuildExec     (* `pio run` cannot be started (pio vanished / not executable): OSError *)
| FUploadExec.   (* `pio run -t upload` cannot be started: OSError *)

Record env := {
  validf : val -> val -> bool;   (* validate_platform_board accepts the texts these two values denote *)
  upload : bool;                 (* the upload= argument *)
  pio : bool;                    (* the probe `pio --version` starts and exits 0 *)
  pio_how : pfail;               (* how the probe fails when it does (consulted only if pio = false) *)
  fault : fpoint -> bool
}.

(* one statement: the events it performs and, if it ends the call, how *)
Definition exec_step (e : env) (s : step) : list event * option result :=
  match s with
  | SValidate a b =>
      if validf e a b then ([], None) else ([], Some (Raised ValueError))
  | SEnsurePio g h =>
      if guard_on g (upload e) then
        (* a failing probe leaves ensure_pio() as whatever its except clauses make of it *)
        if pio e then ([RunPioVersion], None)
        else ([RunPioVersion], Some (Raised (ensure_kind h (pio_how e))))
      else ([], None)
  | SReadMain =>
      if fault e FReadMain then ([ReadMain], Some (Raised OSError)) else ([ReadMain], None)
  | SParse _ =>
      if fault e FParse then ([Parse], Some (Raised ValueError)) else ([Parse], None)
  | SLibs _ => ([], None)
  | SNotice => ([], None)
  | SEmit _ => ([Emit], None)
  | SMkdtemp =>
      if fault e FMkdtemp then ([Mkdtemp], Some (Raised OSError)) else ([Mkdtemp], None)
  | SWriteProject d c po pl b l =>
      (* write_project validates again, then mkdir, main.cpp, platformio.ini *)
      if negb (validf e pl b) then ([], Some (Raised ValueError))
      else if fault e FMkdir then ([Mkdir d], Some (Raised OSError))
      else if fault e FWriteMain then ([Mkdir d; WriteMain c], Some (Raised OSError))
      else if fault e FWriteIni then ([Mkdir d; WriteMain c; WriteIni po pl b l], Some (Raised OSError))
      else ([Mkdir d; WriteMain c; WriteIni po pl b l], None)
  | SCompileUpload g d =>
      if guard_on g (upload e) then
        (* no try/except in compile_upload: an executable that cannot be started makes
           subprocess.run raise an OSError, a non-zero exit (check=True) CalledProcessError *)
        if fault e FBuildExec then ([RunBuild d], Some (Raised OSError))
        else if fault e FBuild then ([RunBuild d], Some (Raised CalledProcessError))
        else if fault e FUploadExec then ([RunBuild d; RunUpload d], Some (Raised OSError))
        else if fault e FUpload then ([RunBuild d; RunUpload d], Some (Raised CalledProcessError))
        else ([RunBuild d; RunUpload d], None)
      else ([], None)
  | SReturn v => ([], Some (Returned v))
  end.

(* a statement list; None = fell through to the end *)
Fixpoint exec_list (e : env) (ss : list step) : list event * option result :=
  match ss with
  | [] => ([], None)
  | s :: r =>
      match exec_step e s with
      | (ev, Some res) => (ev, Some res)
      | (ev, None) => let '(ev', o) := exec_list e r in (ev ++ ev', o)
      end
  end.

Definition target_run (e : env) (ss : list step) : list event * result :=
  let '(ev, o) := exec_list e ss in
  (ev, match o with Some r => r | None => FellOff end).

(* ---- well-formed shapes -------------------------------------------------------- *)
(* what a prefix of the body has established *)
Record sst := {
  k_validated : bool; k_pio : bool; k_src : bool; k_prog : bool; k_libs : bool;
  k_cpp : bool; k_tmp : bool; k_written : bool; k_built : bool
}.

Definition st0 : sst :=
  {| k_validated := false; k_pio := false; k_src := false; k_prog := false; k_libs := false;
     k_cpp := false; k_tmp := false; k_written := false; k_built := false |}.

Definition ready (s : sst) : bool := k_validated s && k_pio s.

Definition set_validated s := {| k_validated := true; k_pio := k_pio s; k_src := k_src s; k_prog := k_prog s; k_libs := k_libs s; k_cpp := k_cpp s; k_tmp := k_tmp s; k_written := k_written s; k_built := k_built s |}.
Definition set_pio s := {| k_validated := k_validated s; k_pio := true; k_src := k_src s; k_prog := k_prog s; k_libs := k_libs s; k_cpp := k_cpp s; k_tmp := k_tmp s; k_written := k_written s; k_built := k_built s |}.
Definition set_src s := {| k_validated := k_validated s; k_pio := k_pio s; k_src := true; k_prog := k_prog s; k_libs := k_libs s; k_cpp := k_cpp s; k_tmp := k_tmp s; k_written := k_written s; k_built := k_built s |}.
Definition set_prog s := {| k_validated := k_validated s; k_pio := k_pio s; k_src := k_src s; k_prog := true; k_libs := k_libs s; k_cpp := k_cpp s; k_tmp := k_tmp s; k_written := k_written s; k_built := k_built s |}.
Definition set_libs s := {| k_validated := k_validated s; k_pio := k_pio s; k_src := k_src s; k_prog := k_prog s; k_libs := true; k_cpp := k_cpp s; k_tmp := k_tmp s; k_written := k_written s; k_built := k_built s |}.
Definition set_cpp s := {| k_validated := k_validated s; k_pio := k_pio s; k_src := k_src s; k_prog := k_prog s; k_libs := k_libs s; k_cpp := true; k_tmp := k_tmp s; k_written := k_written s; k_built := k_built s |}.
Definition set_tmp s := {| k_validated := k_validated s; k_pio := k_pio s; k_src := k_src s; k_prog := k_prog s; k_libs := k_libs s; k_cpp := k_cpp s; k_tmp := true; k_written := k_written s; k_built := k_built s |}.
Definition set_written s := {| k_validated := k_validated s; k_pio := k_pio s; k_src := k_src s; k_prog := k_prog s; k_libs := k_libs s; k_cpp := k_cpp s; k_tmp := k_tmp s; k_written := true; k_built := k_built s |}.
Definition set_built s := {| k_validated := k_validated s; k_pio := k_pio s; k_src := k_src s; k_prog := k_prog s; k_libs := k_libs s; k_cpp := k_cpp s; k_tmp := k_tmp s; k_written := k_written s; k_built := true |}.

(* [step_ok s x] = Some s' : statement x is admissible after a prefix that established s.
   - validation of exactly (platform, board) comes first, before everything;
   - ensure_pio comes next, is guarded by `if upload:`, and its except clauses turn
     every failure of the probe (all of [all_pfail]) into RuntimeError;
   - every value is produced once and before it is used; nothing is created on disk
     before parse succeeded; write_project gets exactly tmp, cpp, port, platform,
     board, required_libs; compile_upload(tmp) is guarded by `if upload:` and comes
     after write_project; the body ends with `return cpp`. *)
Definition step_ok (s : sst) (x : step) : option sst :=
  match x with
  | SValidate a b =>
      if val_eqb a VPlatform && val_eqb b VBoard && negb (k_validated s) && negb (k_pio s)
      then Some (set_validated s) else None
  | SEnsurePio g h =>
      if guard_eqb g GIfUpload && handlers_wrap h && k_validated s && negb (k_pio s)
      then Some (set_pio s) else None
  | SReadMain =>
      if ready s && negb (k_src s) then Some (set_src s) else None
  | SParse v =>
      if ready s && val_eqb v VSrc && k_src s && negb (k_prog s) then Some (set_prog s) else None
  | SLibs v =>
      if ready s && val_eqb v VProg && k_prog s && negb (k_libs s) then Some (set_libs s) else None
  | SNotice =>
      if ready s && k_libs s then Some s else None
  | SEmit v =>
      if ready s && val_eqb v VProg && k_prog s && negb (k_cpp s) then Some (set_cpp s) else None
  | SMkdtemp =>
      if ready s && k_prog s && negb (k_tmp s) then Some (set_tmp s) else None
  | SWriteProject d c po pl b l =>
      if ready s && val_eqb d VTmp && val_eqb c VCpp && val_eqb po VPort && val_eqb pl VPlatform
         && val_eqb b VBoard && val_eqb l VLibs
         && k_prog s && k_tmp s && k_cpp s && k_libs s && negb (k_written s)
      then Some (set_written s) else None
  | SCompileUpload g d =>
      if ready s && guard_eqb g GIfUpload && val_eqb d VTmp && k_written s && negb (k_built s)
      then Some (set_built s) else None
  | SReturn v =>
      if ready s && val_eqb v VCpp && k_prog s && k_cpp s && k_written s && k_built s
      then Some s else None
  end.

Definition is_return (x : step) : bool := match x with SReturn _ => true | _ => false end.

Fixpoint check (s : sst) (ss : list step) : bool :=
  match ss with
  | [] => false                                   (* falling off the end returns None *)
  | x :: r =>
      match step_ok s x with
      | None => false
      | Some s' => if is_return x then match r with [] => true | _ => false end else check s' r
      end
  end.

Definition shape_ok (ss : list step) : bool := check st0 ss.

(* `except Exception as e: raise RuntimeError(...) from e` *)
Definition handlers_pinned : list handler := [([HException], ARaise RuntimeError)].

(* the narrowed clauses `except FileNotFoundError` / `except subprocess.CalledProcessError`,
   each raising RuntimeError: a pio that cannot be executed escapes as the raw OSError *)
Definition handlers_narrow : list handler :=
  [([HFileNotFound], ARaise RuntimeError); ([HCalledProcess], ARaise RuntimeError)].

Definition shape_narrow : list step :=
  [ SValidate VPlatform VBoard; SEnsurePio GIfUpload handlers_narrow; SReadMain; SParse VSrc; SLibs VProg;
    SNotice; SEmit VProg; SMkdtemp; SWriteProject VTmp VCpp VPort VPlatform VBoard VLibs;
    SCompileUpload GIfUpload VTmp; SReturn VCpp ].

(* the shape of target() at the pinned commit bbb6407 (ensure_pio unguarded), kept as a
   literal so that the defect it carries stays stated whatever the current tree says *)
Definition shape_pinned : list step :=
  [ SValidate VPlatform VBoard; SEnsurePio GAlways handlers_pinned; SReadMain; SParse VSrc; SLibs VProg;
    SNotice; SEmit VProg; SMkdtemp; SWriteProject VTmp VCpp VPort VPlatform VBoard VLibs;
    SCompileUpload GIfUpload VTmp; SReturn VCpp ].

(* and with the one-line repair `if upload: ensure_pio()` *)
Definition shape_repaired : list step :=
  [ SValidate VPlatform VBoard; SEnsurePio GIfUpload handlers_pinned; SReadMain; SParse VSrc; SLibs VProg;
    SNotice; SEmit VProg; SMkdtemp; SWriteProject VTmp VCpp VPort VPlatform VBoard VLibs;
    SCompileUpload GIfUpload VTmp; SReturn VCpp ].

(* ---- classification of events used by the statements ------------------------- *)
Definition is_write (ev : event) : bool :=
  match ev with Mkdtemp | Mkdir _ | WriteMain _ | WriteIni _ _ _ _ => true | _ => false end.

Definition is_run (ev : event) : bool :=
  match ev with RunPioVersion | RunBuild _ | RunUpload _ => true | _ => false end.

Definition is_tool_run (ev : event) : bool :=
  match ev with RunBuild _ | RunUpload _ => true | _ => false end.

(* [ev_fault e ev] = Some k : under e, attempting ev fails, with an exception of kind k *)
Definition ev_fault (e : env) (ev : event) : option kind :=
  match ev with
  | RunPioVersion => if pio e then None else Some RuntimeError
  | ReadMain => if fault e FReadMain then Some OSError else None
  | Parse => if fault e FParse then Some ValueError else None
  | Emit => None
  | Mkdtemp => if fault e FMkdtemp then Some OSError else None
  | Mkdir _ => if fault e FMkdir then Some OSError else None
  | WriteMain _ => if fault e FWriteMain then Some OSError else None
  | WriteIni _ _ _ _ => if fault e FWriteIni then Some OSError else None
  | RunBuild _ => if fault e FBuildExec then Some OSError
                  else if fault e FBuild then Some CalledProcessError else None
  | RunUpload _ => if fault e FUploadExec then Some OSError
                   else if fault e FUpload then Some CalledProcessError else None
  end.

Definition no_fault (e : env) : Prop := forall f, fault e f = false.

(* how a failing build ends the call *)
Definition build_fault (e : env) : option kind :=
  if fault e FBuildExec then Some OSError
  else if fault e FBuild then Some CalledProcessError else None.

(* every ensure_pio() of the list wraps every probe failure (weaker than [shape_ok]) *)
Definition wraps_all (ss : list step) : bool :=
  forallb (fun x => match x with SEnsurePio _ h => handlers_wrap h | _ => true end) ss.

(* two worlds that differ at most in whether PlatformIO is installed *)
Definition same_but_pio (e e' : env) : Prop :=
  (forall a b, validf e a b = validf e' a b) /\ upload e = upload e' /\
  (forall f, fault e f = fault e' f).
