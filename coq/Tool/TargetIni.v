(* The concrete layer under the effect model of target() (Tool/Target.v): what the abstract
   values of a run denote for one concrete call target(port, platform=, board=) of a script
   needing the libraries [c_libs], and the text the WriteIni effect puts into platformio.ini
   (Tool/Ini.v: render, the template regenerated from pio.py).

   No proofs in this file. *)
From Coq Require Import ZArith List Bool.
From RV Require Import Base.Wire Base.Text Gen.Registry Tool.Registry Tool.Ini Tool.Target.
Import ListNotations.
Open Scope Z_scope.

Record cargs := {
  c_port : text; c_platform : text; c_board : text;
  c_libs : list text             (* _collect_required_libraries(parse(script text)) *)
}.

(* the text an argument value denotes; values that are not strings denote nothing *)
Definition den (a : cargs) (v : val) : text :=
  match v with VPort => c_port a | VPlatform => c_platform a | VBoard => c_board a | _ => [] end.

(* lib_deps=: the collected list, or None / omitted (no lib_deps section) *)
Definition den_libs (a : cargs) (v : val) : list text :=
  match v with VLibs => c_libs a | _ => [] end.

(* validate_platform_board on what the two values denote *)
Definition validf_of (a : cargs) (x y : val) : bool :=
  match validate (den a x) (den a y) with None => true | Some _ => false end.

(* the world of one concrete call *)
Definition env_for (a : cargs) (up pi : bool) (how : pfail) (flt : fpoint -> bool) : env :=
  {| validf := validf_of a; upload := up; pio := pi; pio_how := how; fault := flt |}.

(* the text handed to (project_dir / "platformio.ini").write_text by a WriteIni effect *)
Definition ini_text (a : cargs) (ev : event) : option text :=
  match ev with
  | WriteIni po pl b l => Some (render (den a pl) (den a b) (den a po) (den_libs a l))
  | _ => None
  end.

(* the value of one key of the single [env:...] section, as configparser reads it back *)
Definition ini_key (k : text) (cfg : list (text * list (text * text))) : option text :=
  match cfg with
  | [(_, kvs)] => tlookup k kvs
  | _ => None
  end.

(* a write_project that formats the board line from the sanitised environment name
   (one placeholder for both uses): the regression class of the `board =` line *)
Definition render_board_sanitized (pl b port : text) (libs : list text) : text :=
  rstrip (fill ini_parts (sanitize_env_name b) pl (sanitize_env_name b) port (format_lib_section libs)) ++ [c_nl].

(* boards of the registry whose identifier is not its own environment name *)
Definition boards_not_word : list text :=
  filter (fun b => negb (text_eqb (sanitize_env_name b) b)) (map fst board_to_platform).
