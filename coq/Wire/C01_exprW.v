(* Wire entry of unit C01_expr.
   case 0: (0 types lens expr)        -> the translation: (0 text) | (1 1) rejected | (1 2 why) not modelled
           types = ((name code)...) code 0 int, 1 float, 2 bool, 3 String;  lens = ((name n)...)
   case 1: (1 env lens ins expr)      -> (translation guard peval ceval small)
           env = ((name value)...) Python values; the C environment holds the same values
           (int -> int, float -> float, bool -> bool, str -> String), types are derived from it;
           ins = (((analog pin) (v ...)) ...) scripted readings
           ceval: (0 (tag payload) serial-text n-readings-left) | (1 1) stuck | (1 2) undefined
           small: 1 when every float value of a subexpression is k/2^j, j <= 20, |k| < 2^40 *)
From Coq Require Import ZArith QArith List Bool.
From RV Require Import Base.Wire Base.Text Lang.PyAst Lang.PySem Lang.PyAstWire Lang.CAst Lang.CSem Lang.ToC.
Import ListNotations.
Open Scope Z_scope.

Definition dec_cty (z : Z) : option cty :=
  match z with 0 => Some TInt | 1 => Some TFloat | 2 => Some TBool | 3 => Some TString | _ => None end.

Fixpoint dec_types (l : list wv) : option tenv :=
  match l with
  | [] => Some []
  | WL [k; WI c] :: r =>
      match un_text k, dec_cty c, dec_types r with
      | Some kk, Some t, Some e => Some ((kk, t) :: e) | _, _, _ => None end
  | _ => None
  end.
Fixpoint dec_lens (l : list wv) : option (list (ident * Z)) :=
  match l with
  | [] => Some []
  | WL [k; WI n] :: r =>
      match un_text k, dec_lens r with Some kk, Some e => Some ((kk, n) :: e) | _, _ => None end
  | _ => None
  end.
Fixpoint dec_ins (l : list wv) : option inputs :=
  match l with
  | [] => Some []
  | WL [WL [a; WI p]; WL vs] :: r =>
      match un_bool a, un_ints vs, dec_ins r with
      | Some an, Some zs, Some e => Some (((an, p), zs) :: e) | _, _, _ => None end
  | _ => None
  end.

Definition inj (v : pval) : option cval :=
  match v with
  | VInt z => Some (CInt z) | VBool b => Some (CBool b) | VFloat q => Some (CFloat q) | VStr s => Some (CStr s)
  | _ => None
  end.
Fixpoint inj_env (rho : env) : cenv :=
  match rho with
  | [] => []
  | (x, v) :: r => match inj v with Some w => (x, w) :: inj_env r | None => inj_env r end
  end.
Definition types_of (s : cenv) : tenv := map (fun xw => (fst xw, tag_of (snd xw))) s.

Definition enc_tres (r : tres cexpr) : wv :=
  match r with
  | TOk c => WL [WI 0; wtext (print_c c)]
  | Rejected => WL [WI 1; WI 1]
  | NotModelled k => WL [WI 1; WI 2; WI k]
  end.

Definition enc_cval (w : cval) : wv :=
  match w with
  | CInt z => WL [WI 0; WI z] | CBool b => WL [WI 1; wbool b] | CFloat q => WL [WI 2; wq q]
  | CStr s => WL [WI 3; wtext s] | CLit s => WL [WI 4; wtext s]
  end.

Definition ins_left (i : inputs) : Z := fold_right (fun e n => Z.of_nat (length (snd e)) + n) 0 i.

Fixpoint subs (e : pexpr) : list pexpr :=
  e :: match e with
       | EBin _ a b => subs a ++ subs b
       | EUn _ a => subs a
       | EBoolOp _ vs => flat_map subs vs
       | ECompare l _ rs => subs l ++ flat_map subs rs
       | EIfExp c a b => subs c ++ subs a ++ subs b
       | EJoined ps => flat_map subs ps
       | EFmt _ v => subs v
       | ECall _ args _ => flat_map subs args
       | _ => []
       end.
Definition small_float (q : Q) : bool :=
  match pow2_exp (Qden (Qred q)) with
  | Some k => (Z.of_nat k <=? 20) && (Z.abs (Qnum (Qred q)) <? 2 ^ 40)
  | None => false
  end.
Definition floats_small (rho : env) (e : pexpr) : bool :=
  forallb (fun x => match peval rho x with Ok (VFloat q) => small_float q | _ => true end) (subs e).

Definition run (v : wv) : wv :=
  match v with
  | WL [WI 0; WL ty; WL ln; ex] =>
      match dec_types ty, dec_lens ln, dec_expr ex with
      | Some t, Some l, Some e => enc_tres (to_c {| tc_types := t; tc_lens := l |} e)
      | _, _, _ => wbad
      end
  | WL [WI 1; WL en; WL ln; WL ii; ex] =>
      match dec_env en, dec_lens ln, dec_ins ii, dec_expr ex with
      | Some rho, Some l, Some ins, Some e =>
          let s := inj_env rho in
          let G := {| tc_types := types_of s; tc_lens := l |} in
          let tr := to_c G e in
          WL [enc_tres tr;
              wbool (expr_guard G rho e);
              enc_res (peval rho e);
              match tr with
              | TOk c =>
                  match crun (tc_types G) s c ins with
                  | COk (w, i') => WL [WI 0; enc_cval w; wtext (serial_text w); WI (ins_left i')]
                  | CStuck => WL [WI 1; WI 1]
                  | CUndef => WL [WI 1; WI 2]
                  end
              | _ => WL [WI 1; WI 0]
              end;
              wbool (floats_small rho e)]
      | _, _, _, _ => wbad
      end
  | _ => wbad
  end.
