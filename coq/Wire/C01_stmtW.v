(* run: annotated program -> IR produced by Lang.Transl.transl (or rejection);
   with tag 1: annotated program + its expressions -> guard flag and both execution traces.
   Encoding documented in harness/props/c01_stmt.py. *)
From Coq Require Import ZArith List Bool.
From RV Require Import Base.Wire Base.Text Lang.StmtAst Lang.Transl.
From RV Require Import Lang.PyAst Lang.PySem Lang.PyAstWire Lang.StmtSem Lang.StmtGuard Lang.StmtExec.
From RV Require Import Lang.FnRet.
Import ListNotations.
Open Scope Z_scope.

Definition dec_ty (z : Z) : option ty :=
  match z with 0 => Some TyInt | 1 => Some TyFloat | 2 => Some TyBool | 3 => Some TyString | _ => None end.
Definition enc_ty (t : ty) : wv := WI (match t with TyInt => 0 | TyFloat => 1 | TyBool => 2 | TyString => 3 end).

Fixpoint dec_texts (l : list wv) : option (list text) :=
  match l with
  | [] => Some []
  | x :: r => match un_text x, dec_texts r with Some t, Some ts => Some (t :: ts) | _, _ => None end
  end.

Definition dec_ann (v : wv) : option ann :=
  match v with
  | WL [WI id; WI t; c; WL fv] =>
      match dec_ty t, un_bool c, dec_texts fv with
      | Some ty, Some cb, Some fvs => Some {| a_id := id; a_ty := ty; a_const := cb; a_fv := fvs |}
      | _, _, _ => None end
  | _ => None
  end.

Fixpoint dec_anns (l : list wv) : option (list ann) :=
  match l with
  | [] => Some []
  | x :: r => match dec_ann x, dec_anns r with Some a, Some xs => Some (a :: xs) | _, _ => None end
  end.

Fixpoint dec_stmt (v : wv) : option pstmt :=
  let fix decs (l : list wv) : option (list pstmt) :=
    match l with
    | [] => Some []
    | x :: r => match dec_stmt x, decs r with Some s, Some ss => Some (s :: ss) | _, _ => None end
    end in
  let fix decb (l : list wv) : option (list (ann * list pstmt)) :=
    match l with
    | [] => Some []
    | WL [c; WL b] :: r =>
        match dec_ann c, decs b, decb r with
        | Some a, Some bs, Some rest => Some ((a, bs) :: rest) | _, _, _ => None end
    | _ => None
    end in
  match v with
  | WL [WI 0; x; a] => match un_text x, dec_ann a with Some n, Some e => Some (PAssign n e) | _, _ => None end
  | WL [WI 1; x; WI op; a; WI t] =>
      match un_text x, dec_ann a, dec_ty t with Some n, Some e, Some ty => Some (PAug n op e ty) | _, _, _ => None end
  | WL [WI 2; WL xs; WL es] =>
      match dec_texts xs, dec_anns es with Some ns, Some as_ => Some (PTuple ns as_) | _, _ => None end
  | WL [WI 3; c; WL b; WL el; WL e] =>
      match dec_ann c, decs b, decb el, decs e with
      | Some a, Some bs, Some els, Some es => Some (PIf a bs els es) | _, _, _, _ => None end
  | WL [WI 4; c; WL b] => match dec_ann c, decs b with Some a, Some bs => Some (PWhile a bs) | _, _ => None end
  | WL [WI 5; x; c; WL b] =>
      match un_text x, dec_ann c, decs b with Some n, Some a, Some bs => Some (PFor n a bs) | _, _, _ => None end
  | WL [WI 6] => Some PBreak
  | WL [WI 10] => Some PContinue
  | WL [WI 7; a] => option_map PWrite (dec_ann a)
  | WL [WI 8; a] => option_map PSleep (dec_ann a)
  | WL [WI 9; a] => option_map PExprS (dec_ann a)
  | _ => None
  end.

Fixpoint dec_stmts (l : list wv) : option (list pstmt) :=
  match l with
  | [] => Some []
  | x :: r => match dec_stmt x, dec_stmts r with Some s, Some ss => Some (s :: ss) | _, _ => None end
  end.

Definition enc_cexpr (e : cexpr) : wv :=
  match e with
  | XE id => WL [WI 0; WI id] | XDefault t => WL [WI 1; enc_ty t] | XTmp k => WL [WI 2; WI k]
  | XAug x op id => WL [WI 3; wtext x; WI op; WI id] end.

Fixpoint enc_node (n : cnode) : wv :=
  let fix encs (l : list cnode) : list wv := match l with [] => [] | x :: r => enc_node x :: encs r end in
  let fix encb (l : list (Z * list cnode)) : list wv :=
    match l with [] => [] | (c, b) :: r => WL [WI c; WL (encs b)] :: encb r end in
  match n with
  | NDecl x t i g => WL [WI 0; wtext x; enc_ty t; enc_cexpr i; wbool g]
  | NDeclTmp k t i => WL [WI 1; WI k; enc_ty t; enc_cexpr i]
  | NAssign x e => WL [WI 2; wtext x; enc_cexpr e]
  | NIf bs els => WL [WI 3; WL (encb bs); WL (encs els)]
  | NWhile c b => WL [WI 4; WI c; WL (encs b)]
  | NFor x c b => WL [WI 5; wtext x; WI c; WL (encs b)]
  | NBreak => WL [WI 6]
  | NContinue => WL [WI 10]
  | NReturn => WL [WI 11]
  | NWrite id => WL [WI 7; WI id]
  | NSleep id => WL [WI 8; WI id]
  | NExprS id => WL [WI 9; WI id]
  end.

Definition enc_gdecl (g : gdecl) : wv := WL [wtext (g_name g); enc_ty (g_ty g); enc_cexpr (g_init g)].

Fixpoint dec_exprs (l : list wv) : option (list pexpr) :=
  match l with
  | [] => Some []
  | x :: r => match dec_expr x, dec_exprs r with Some e, Some es => Some (e :: es) | _, _ => None end
  end.

Definition enc_ev (e : ev) : wv :=
  match e with
  | EvSer v => WL [WI 0; enc_val (to_pval v)]
  | EvDelay v => WL [WI 1; enc_val (to_pval v)]
  | EvX id v => WL [WI 2; WI id; enc_val (to_pval v)]
  end.
Definition enc_trace (r : option (list ev)) : wv :=
  match r with Some tr => WL [WI 1; WL (map enc_ev tr)] | None => WL [WI 0] end.

Definition dec_prog (pre : list wv) (mainopt : list wv) : option pprog :=
  match dec_stmts pre,
        match mainopt with
        | [] => Some None
        | [WL b] => option_map Some (dec_stmts b)
        | _ => None end with
  | Some p, Some m => Some {| p_pre := p; p_main := m |}
  | _, _ => None
  end.

Definition run_exec (pre mainopt exprs : list wv) (n fuel : Z) : wv :=
  match dec_prog pre mainopt, dec_exprs exprs with
  | Some p, Some es =>
      let '(g, py, c) := exec_both p es (Z.to_nat n) (Z.to_nat fuel) in
      WL [WI 0; wbool g; enc_trace py;
          match c with None => WL [WI 2] | Some r => enc_trace r end]
  | _, _ => wbad
  end.

(* tag 2: labels of the return statements of a helper + has_void -> _merge_return_types (Lang.FnRet.merge_ret):
   [0; ty] = that type, [1] = void, [2] = ValueError *)
Fixpoint dec_tys (l : list wv) : option (list ty) :=
  match l with
  | [] => Some []
  | WI z :: r => match dec_ty z, dec_tys r with Some t, Some ts => Some (t :: ts) | _, _ => None end
  | _ => None
  end.
Definition run_merge (ls : list wv) (hv : wv) : wv :=
  match dec_tys ls, un_bool hv with
  | Some ts, Some b =>
      match merge_ret ts b with
      | RTy t => WL [WI 0; enc_ty t] | RVoid => WL [WI 1] | RReject => WL [WI 2] end
  | _, _ => wbad
  end.

Definition run (v : wv) : wv :=
  match v with
  | WL [WI 2; WL ls; hv] => run_merge ls hv
  | WL [WI 1; WL pre; WL mainopt; WL exprs; WI n; WI fuel] => run_exec pre mainopt exprs n fuel
  | WL [WL pre; WL mainopt] =>
      match dec_stmts pre,
            match mainopt with
            | [] => Some None
            | [WL b] => option_map Some (dec_stmts b)
            | _ => None end with
      | Some p, Some m =>
          match transl {| p_pre := p; p_main := m |} with
          | Some c => WL [WI 0; WL (map enc_gdecl (c_globals c)); WL (map enc_node (c_setup c)); WL (map enc_node (c_loop c))]
          | None => WL [WI 1]
          end
      | _, _ => wbad
      end
  | _ => wbad
  end.
