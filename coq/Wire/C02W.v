(* C02 wire entry: one case in, one result out.
   (0 ctx F A env expr)      -> (0 label env') | (1 4)          infer (static instance) incl. mutated var_types
   (1 label)                 -> (ctype ctype_text default_text label_text)
   (2 (labels) has_void)     -> (0 label) | (1 4)                _merge_return_types
   (3 (labels))              -> (0 label) | (1 4)                _merge_element_types
   (4 ctype)                 -> default_text                     _default_value_for_type
   (5 ctx (items))           -> (0 globals loop funcs labels var_types) | (1 4)   declaration bookkeeping
   (6 ctx F A env expr)      -> (guard pure)
   (7 merged annotated n)    -> label                            annotated-return override; annotated = () | (label)
   (8 () | (name))           -> label                            _annotation_to_type_label
   (9 ctx F A env rhs)       -> (0 label env' toc) | (1 4)       _infer_expr_type on a comprehension (Lang/InferComp.v);
                                                                 toc = () | (env'') the var_types after _to_c_expr's bracket
   (10 ctx (stmt ...) block)  -> (guard parsed)                   script_guard / run_items on  <stmts at column 0> ; while True: <block>
   (11 (stmt ...) block (n ...)) -> (0 (event ...) returned) | (1 code)    exec_prog along the oracle (Lang/StmtRef.v);
                                                                 event = (0 x value) store | (1 i value) for target | (2 value) return
   (12 ctx (items) fname (label ...)) -> (guard parsed)           fn_guard for the body of fname under call signature sg, in the
                                                                 parser state after the items; parsed = the variant parses
   (13 block (n ...) env)     -> (0 (event ...) returned) | (1 code)    exec_block of a function body from the given environment
   (14 (decl ...) (decl ...) site fname (arg ...)) -> ((psig ...) picked)   C++ name lookup + overload resolution (Lang/FnProto.v):
                                                                 prototypes, definitions in emission order; decl = (name (ctype ...));
                                                                 site = (0 i) body of the i-th definition | (1) setup/loop;
                                                                 arg = ctype | (7) a C++ double; picked = () | ((ctype ...))
   (15 (decl ...))            -> (decl ...)                      the prototype block emit() writes in front of these definitions
   (16 ctx (items) fname (label ...)) -> (parsed guard meant emitted)   call_guard in the parser state after the items *)
From Coq Require Import ZArith List Bool.
From RV Require Import Base.Wire Base.Text Lang.PyAst Lang.PySem Lang.PyAstWire
  Lang.Infer Lang.InferWire Lang.InferGuard Lang.InferComp Lang.Decl Lang.DeclWire Lang.FnSpec Lang.StmtRef Lang.FnProto.
Import ListNotations.
Open Scope Z_scope.

Fixpoint dec_stmts (l : list wv) : option (list stmt) :=
  match l with
  | [] => Some []
  | x :: r => match dec_stmt x, dec_stmts r with Some s, Some ss => Some (s :: ss) | _, _ => None end
  end.
Fixpoint dec_nats (l : list wv) : option (list nat) :=
  match l with
  | [] => Some []
  | WI z :: r => match dec_nats r with Some ns => Some (Z.to_nat z :: ns) | None => None end
  | _ => None
  end.
Definition enc_tev (e : tev) : wv :=
  match e with
  | TAssign x v => WL [WI 0; wtext x; enc_val v]
  | TLoopVar i v => WL [WI 1; wtext i; enc_val v]
  | TReturn v => WL [WI 2; enc_val v]
  end.
Definition enc_xout (r : res xout) : wv :=
  match r with
  | Ok (_, _, tr, b) => wok [WL (map enc_tev tr); wbool b]
  | Err e => werr (perr_code e)
  end.

Fixpoint dec_ctys (l : list wv) : option (list cty) :=
  match l with
  | [] => Some []
  | x :: r => match dec_cty x, dec_ctys r with Some c, Some cs => Some (c :: cs) | _, _ => None end
  end.
Definition dec_cdecl (v : wv) : option cdecl :=
  match v with
  | WL [n; WL ps] => match un_text n, dec_ctys ps with Some nm, Some cs => Some (nm, cs) | _, _ => None end
  | _ => None
  end.
Fixpoint dec_cdecls (l : list wv) : option (list cdecl) :=
  match l with
  | [] => Some []
  | x :: r => match dec_cdecl x, dec_cdecls r with Some d, Some ds => Some (d :: ds) | _, _ => None end
  end.
Definition dec_aty (v : wv) : option aty :=
  match v with
  | WL [WI 7] => Some ADouble
  | _ => match dec_cty v with Some c => Some (AT c) | None => None end
  end.
Fixpoint dec_atys (l : list wv) : option (list aty) :=
  match l with
  | [] => Some []
  | x :: r => match dec_aty x, dec_atys r with Some a, Some l1 => Some (a :: l1) | _, _ => None end
  end.
Definition dec_site (v : wv) : option site :=
  match v with
  | WL [WI 0; WI i] => Some (InBody (Z.to_nat i))
  | WL [WI 1] => Some InMain
  | _ => None
  end.
Definition enc_psig (p : psig) : wv := WL (map enc_cty p).
Definition enc_cdecl (d : cdecl) : wv := WL [wtext (fst d); enc_psig (snd d)].

Definition run (v : wv) : wv :=
  match v with
  | WL [WI 0; c; WL f; WL a; WL en; ex] =>
      match dec_ictx c, dec_ftable f, dec_aliases a, dec_tenv en, dec_expr ex with
      | Some C, Some F, Some A, Some G, Some e =>
          match infer_s F A C G e with
          | Some (t, G1) => wok [enc_ty t; enc_tenv G1]
          | None => werr 4
          end
      | _, _, _, _, _ => wbad
      end
  | WL [WI 1; t] =>
      match dec_ty t with
      | Some t1 => let c := cpp_type t1 in
                   WL [enc_cty c; wtext (cty_text c); wtext (default_value c); wtext (label_text t1)]
      | None => wbad
      end
  | WL [WI 2; WL ts; hv] =>
      match dec_tys ts, un_bool hv with
      | Some tys, Some h => enc_oty (merge_return_types tys h)
      | _, _ => wbad
      end
  | WL [WI 3; WL ts] =>
      match dec_tys ts with Some tys => enc_oty (merge_element_types tys) | None => wbad end
  | WL [WI 4; c] =>
      match dec_cty c with Some cc => wtext (default_value cc) | None => wbad end
  | WL [WI 5; c; WL its] =>
      match dec_ictx c, dec_items its with
      | Some C, Some items => enc_prog (run_items C items)
      | _, _ => wbad
      end
  | WL [WI 6; c; WL f; WL a; WL en; ex] =>
      match dec_ictx c, dec_ftable f, dec_aliases a, dec_tenv en, dec_expr ex with
      | Some C, Some F, Some A, Some G, Some e => WL [wbool (guard F A C G e); wbool (pure F A C G e)]
      | _, _, _, _, _ => wbad
      end
  | WL [WI 7; m; an; WI n] =>
      match dec_ty m, an with
      | Some mm, WL [] => enc_ty (override_return mm None (Z.to_nat n))
      | Some mm, WL [a] => match dec_ty a with
                           | Some aa => enc_ty (override_return mm (Some aa) (Z.to_nat n))
                           | None => wbad end
      | _, _ => wbad
      end
  | WL [WI 9; c; WL f; WL a; WL en; rx] =>
      match dec_ictx c, dec_ftable f, dec_aliases a, dec_tenv en, dec_rhs rx with
      | Some C, Some F, Some A, Some G, Some r =>
          match infer_rhs_s F A C G r with
          | Some (t, G1) => wok [enc_ty t; enc_tenv G1;
                                 match toc_rhs_types F A C G r with Some G2 => WL [enc_tenv G2] | None => WL [] end]
          | None => werr 4
          end
      | _, _, _, _, _ => wbad
      end
  | WL [WI 10; c; WL pre; WL main] =>
      match dec_ictx c, dec_stmts pre, dec_block main with
      | Some C, Some p, Some m =>
          WL [wbool (script_guard C p m);
              wbool (match run_items C (script_items p m) with Some _ => true | None => false end)]
      | _, _, _ => wbad
      end
  | WL [WI 11; WL pre; WL main; WL orc] =>
      match dec_stmts pre, dec_block main, dec_nats orc with
      | Some p, Some m, Some o => enc_xout (exec_prog o p m)
      | _, _, _ => wbad
      end
  | WL [WI 12; c; WL its; f; WL sg] =>
      match dec_ictx c, dec_items its, un_text f, dec_tys sg with
      | Some C, Some items, Some name, Some sig =>
          match run_items C items with
          | None => WL [wbool false; wbool false]
          | Some ps =>
              match tlookup name (fe_src (p_fe ps)) with
              | None => WL [wbool false; wbool false]
              | Some src =>
                  WL [wbool (fn_guard (fn_table (p_fe ps) name) (fe_alias (p_fe ps)) C (p_ctx ps) (fs_params src) sig (fs_body src));
                      wbool (match parse_function_core C (p_fe ps) (p_ctx ps) name src (Some sig) with Some _ => true | None => false end)]
              end
          end
      | _, _, _, _ => wbad
      end
  | WL [WI 13; WL body; WL orc; WL en] =>
      match dec_block body, dec_nats orc, dec_env en with
      | Some b, Some o, Some rho => enc_xout (exec_block o rho b)
      | _, _, _ => wbad
      end
  | WL [WI 14; WL pr; WL df; st; f; WL ar] =>
      match dec_cdecls pr, dec_cdecls df, dec_site st, un_text f, dec_atys ar with
      | Some protos, Some defs, Some s, Some name, Some args =>
          let sk := mk_sketch protos defs in
          WL [WL (map enc_psig (candidates sk s name));
              match cxx_resolve sk s name args with Some p => WL [enc_psig p] | None => WL [] end]
      | _, _, _, _, _ => wbad
      end
  | WL [WI 15; WL df] =>
      match dec_cdecls df with
      | Some defs => WL (map enc_cdecl (sk_protos (emit_sketch defs)))
      | None => wbad
      end
  | WL [WI 16; c; WL its; f; WL sg] =>
      match dec_ictx c, dec_items its, un_text f, dec_tys sg with
      | Some C, Some items, Some name, Some sig =>
          match run_items C items with
          | None => WL [wbool false; wbool false; WL []; WL []]
          | Some ps =>
              WL [wbool true; wbool (call_guard (p_fe ps) name sig);
                  match meant_variant (p_fe ps) name sig with Some d => WL [enc_psig (params_of d)] | None => WL [] end;
                  WL (map enc_cdecl (emitted_decls (p_fe ps)))]
          end
      | _, _, _, _ => wbad
      end
  | WL [WI 8; WL []] => enc_ty (annotation_label None)
  | WL [WI 8; WL [n]] => match un_text n with Some nn => enc_ty (annotation_label (Some nn)) | None => wbad end
  | _ => wbad
  end.
