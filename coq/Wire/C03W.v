(* Wire for C03 / C11: runs the model of _eval_const (and of the constant environment, case 1; of a function definition and a call, case 2) on one case.
   case 0: (0 cenv expr)  ->  (result trace has_name literal_length in_guard exact binds_safe calls)
     cenv   : ((name (0 val)) | (name (1)) ...)        Known / Marker
     result : (0 val) | (1 kind) | (9)                 kind 1 ValueError 2 TypeError 3 ZeroDivisionError
     trace  : primitive operations of eval_const_fx, in order
     exact  : every float produced by a sub-expression is a binary64 value (exact-rational = IEEE)
     calls  : (resolve_numeric resolve_bool glyph_bitmap resolve_sleep) outcomes *)
From Coq Require Import ZArith QArith List Bool.
From RV Require Import Base.Wire Base.Text Lang.PyAst Lang.PySem Lang.PyAstWire Gen.SafeCasts Lang.ConstEval Lang.ConstEnv Lang.ConstFlow Lang.ConstTuple Lang.ConstNodes Lang.ConstCall.
Import ListNotations.
Open Scope Z_scope.

Fixpoint dec_cenv (l : list wv) : option cenv :=
  match l with
  | [] => Some []
  | WL [k; WL [WI 0; x]] :: r =>
      match un_text k, dec_val x, dec_cenv r with
      | Some kk, Some v, Some e => Some ((kk, Known v) :: e) | _, _, _ => None end
  | WL [k; WL [WI 1]] :: r =>
      match un_text k, dec_cenv r with
      | Some kk, Some e => Some ((kk, Marker) :: e) | _, _ => None end
  | _ => None
  end.

Definition kind_code (k : ckind) : Z := match k with KValue => 1 | KType => 2 | KZeroDiv => 3 end.
Definition enc_cres (r : cres) : wv :=
  match r with CVal v => WL [WI 0; enc_val v] | CFail k => WL [WI 1; WI (kind_code k)] | COutOfModel => WL [WI 9] end.

Definition binop_code (op : binop) : Z :=
  match op with
  | Add => 0 | Sub => 1 | Mult => 2 | Div => 3 | FloorDiv => 4 | Mod => 5 | Pow => 6 | BitAnd => 7 | BitOr => 8
  | BitXor => 9 | LShift => 10 | RShift => 11 | MatMult => 12 end.
Definition enc_prim (p : prim) : wv :=
  match p with
  | PArith op => WL [WI 0; WI (binop_code op)] | PNeg => WL [WI 1] | PCast f => WL [WI 2; wtext f] | PStr => WL [WI 3]
  | PLen => WL [WI 4] | PAbs => WL [WI 5] | PMinMax => WL [WI 6] | PLookup x => WL [WI 7; wtext x]
  | PCompare => WL [WI 8] | PTruth => WL [WI 9] | PConcat => WL [WI 10] end.

(* sub-expressions, for the float-exactness audit (harness support, not used by any theorem) *)
Fixpoint subexprs (e : pexpr) : list pexpr :=
  let fix subs (l : list pexpr) : list pexpr := match l with [] => [] | x :: r => subexprs x ++ subs r end in
  e :: match e with
       | EBin _ a b => subexprs a ++ subexprs b
       | EUn _ a => subexprs a
       | EBoolOp _ vs => subs vs
       | ECompare l _ rs => subexprs l ++ subs rs
       | EIfExp c a b => subexprs c ++ subexprs a ++ subexprs b
       | EJoined ps => subs ps
       | EFmt _ v => subexprs v
       | ECall _ args _ => subs args
       | EList es | ETuple es => subs es
       | _ => []
       end.
Fixpoint is_pow2 (p : positive) : bool := match p with xH => true | xO q => is_pow2 q | xI _ => false end.
Definition repr53 (q : Q) : bool :=
  let r := Qred q in
  is_pow2 (Qden r) && (Z.log2 (Z.abs (Qnum r)) <? 53) && (Z.log2 (Zpos (Qden r)) <? 900).
Fixpoint val_exact (v : pval) : bool :=
  match v with
  | VFloat q => repr53 q
  | VInt z => Z.log2 (Z.abs z) <? 12000          (* above the evaluator's size bound (fold_max_bits + a sum chain), below CPython's int -> str digit limit (4300 digits) *)
  | VList l | VTuple l => forallb val_exact l
  | _ => true end.
Definition all_exact (c : cenv) (e : pexpr) : bool :=
  forallb (fun s => match eval_const c s with CVal v => val_exact v | _ => true end) (subexprs e).

Definition enc_outcome {A} (f : A -> wv) (o : outcome A) : wv :=
  match o with
  | Folded a => WL [WI 0; f a] | Fallback => WL [WI 1] | Raises k => WL [WI 2; WI (kind_code k)] | OutM => WL [WI 9] end.

(* ---- case 1: (1 program oracle) -> (accepted fresh firmware_outputs python_outputs) ---- *)
Fixpoint dec_texts (l : list wv) : option (list ident) :=
  match l with
  | [] => Some []
  | x :: r => match un_text x, dec_texts r with Some n, Some ns => Some (n :: ns) | _, _ => None end
  end.
Fixpoint dec_exprs (l : list wv) : option (list pexpr) :=
  match l with
  | [] => Some []
  | x :: r => match dec_expr x, dec_exprs r with Some n, Some ns => Some (n :: ns) | _, _ => None end
  end.
(* one wire statement -> a block: (9 k targets right-hand-sides) is a tuple assignment, expanded the way the transpiler
   emits it (Lang/ConstTuple.tuple_assign: temporaries __tmp_assign_k ..., then the targets) *)
Fixpoint dec_stmt (v : wv) : option (list stmt) :=
  let fix decs (l : list wv) : option (list stmt) :=
    match l with
    | [] => Some []
    | x :: r => match dec_stmt x, decs r with Some s, Some ss => Some (s ++ ss) | _, _ => None end
    end in
  let one (o : option stmt) : option (list stmt) := option_map (fun s => [s]) o in
  match v with
  | WL [WI 0; x; e] => one (match un_text x, dec_expr e with Some n, Some ex => Some (SAssign n ex) | _, _ => None end)
  | WL [WI 1; x; e] => one (match un_text x, dec_expr e with Some n, Some ex => Some (SAppend n ex) | _, _ => None end)
  | WL [WI 2; x; e] => one (match un_text x, dec_expr e with Some n, Some ex => Some (SRemove n ex) | _, _ => None end)
  | WL [WI 3; WI 0; x] => one (option_map (fun n => SObs (OLen n)) (un_text x))
  | WL [WI 3; WI 1; x] => one (option_map (fun n => SObs (OFlash n)) (un_text x))
  | WL [WI 3; WI 2; e] => one (option_map (fun ex => SObs (OGlyph ex)) (dec_expr e))
  | WL [WI 3; WI 3; x] => one (option_map (fun n => SObs (OVal n)) (un_text x))
  | WL [WI 8; e] => one (match dec_expr e with Some (EBin op (EName x) ex) => Some (SAug x op ex) | _ => None end)   (* x op= ex, sent as x op (ex) *)
  | WL [WI 9; WI k; WL xs; WL es] =>
      match dec_texts xs, dec_exprs es with
      | Some ns, Some exs =>
          if Nat.eqb (length ns) (length exs) && tmps_fresh (tmp_names (Z.to_nat k) (length ns)) ns exs
          then Some (tuple_assign (Z.to_nat k) ns exs) else None
      | _, _ => None end
  | WL [WI 5; WL a; WL b] => one (match decs a, decs b with Some x, Some y => Some (SIf x y) | _, _ => None end)
  | WL [WI 6; WL a] => one (option_map SWhile (decs a))
  | WL [WI 7; x; WL a] => one (match un_text x, decs a with Some n, Some b => Some (SFor n b) | _, _ => None end)
  | _ => None
  end.
Fixpoint dec_stmts (l : list wv) : option (list stmt) :=
  match l with
  | [] => Some []
  | x :: r => match dec_stmt x, dec_stmts r with Some s, Some ss => Some (s ++ ss) | _, _ => None end
  end.
Fixpoint dec_nats (l : list wv) : option (list nat) :=
  match l with
  | [] => Some []
  | WI z :: r => option_map (cons (Z.to_nat z)) (dec_nats r)
  | _ => None end.
Definition enc_outs (o : option (list pval)) : wv :=
  match o with Some l => WL [WL (map enc_val l)] | None => WL [] end.
(* the observation points of the residual program, in source order: (0 v) = a constant was baked in,
   (1) = left to run time *)
Fixpoint obs_stmt (s : stmt) : list wv :=
  let fix obs_block (b : list stmt) : list wv := match b with [] => [] | x :: r => obs_stmt x ++ obs_block r end in
  match s with
  | SEmit v => [WL [WI 0; enc_val v]]
  | SObs _ => [WL [WI 1]]
  | SIf a b => obs_block a ++ obs_block b
  | SWhile a => obs_block a
  | SFor _ a => obs_block a
  | _ => []
  end.
Definition obs_block := fix obs_block (b : list stmt) : list wv := match b with [] => [] | x :: r => obs_stmt x ++ obs_block r end.
(* module level: the globals declared by first assignments (0 = static initialiser, 1 = default value) and the
   names assigned by the statements that stay at the top level of setup() *)
Definition enc_global (g : ident * ginit) : wv :=
  WL [wtext (fst g); WI (match snd g with GStatic _ => 0 | GDefault => 1 end)].
Fixpoint top_assigns (b : list stmt) : list wv :=
  match b with
  | [] => []
  | SAssign x _ :: r | SAug x _ _ :: r => wtext x :: top_assigns r
  | _ :: r => top_assigns r
  end.
Definition run_env (prog orc : list wv) : wv :=
  match dec_stmts prog, dec_nats orc with
  | Some p, Some o =>
      WL [ wbool (match tblock [] p [] [] with Some _ => true | None => false end);
           wbool (is_fresh p); enc_outs (firmware_outputs p o); enc_outs (python_outputs p o);
           (* read when parsing is complete, like the emitter (and the harness) reads the IR: Lang/ConstNodes.emitted *)
           WL (match emitted false p with Some res => obs_block res | None => [] end);
           WL [ wbool (split_ok p); enc_outs (sketch_outputs p o);
                WL (match ttop p [] [] [] with Some (_, _, gs, _, _, _) => map enc_global gs | None => [] end);
                WL (match ttop p [] [] [] with Some (_, _, _, body, _, _) => top_assigns body | None => [] end) ];
           (* (the flow guard of the unrepaired transpiler: now the same flag), and the hoisting side conditions of the
              module-level split alone *)
           WL [ wbool (is_fresh p); wbool (match ttop p [] [] [] with Some (_, _, _, _, _, h) => h | None => false end) ] ]
  | _, _ => wbad
  end.

(* ---- case 2: (2 prefix params body mid post args oracle) -> (accepted def_ok firmware python static-obs-of-the-body static-obs-of-mid)
   args are expressions evaluated in the module state at the call; post = the module statements after the call *)
Fixpoint dec_vals (l : list wv) : option (list pval) :=
  match l with
  | [] => Some []
  | x :: r => match dec_val x, dec_vals r with Some n, Some ns => Some (n :: ns) | _, _ => None end
  end.
Definition enc_outs2 (o : option (list pval * list pval)) : wv :=
  match o with Some (a, b) => WL [WL (map enc_val a); WL (map enc_val b)] | None => WL [] end.
Definition run_def (prefix ps body mid post vals orc : list wv) : wv :=
  match dec_stmts prefix, dec_texts ps, dec_stmts body, dec_stmts mid, dec_stmts post, dec_vals vals, dec_nats orc with
  | Some p, Some xs, Some b, Some m, Some q, Some vs, Some o =>
      WL [ wbool (match tdef p xs b m q with Some _ => true | None => false end);
           wbool (def_ok p xs b m q);
           enc_outs2 (firmware_call_outputs p xs b m q vs o); enc_outs2 (python_call_outputs p xs b m vs o);
           WL (match tdef p xs b m q with Some (_, rb, _) => obs_block rb | None => [] end);
           WL (match tdef p xs b m q with Some (rp, _, rm) => obs_block (rp ++ rm) | None => [] end) ]
  | _, _, _, _, _, _, _ => wbad
  end.

(* ---- case 3: (3 in_fn prefix body first (seg ...) oracle) -> (accepted calls_ok firmware python obs-of-prefix obs-of-the-calling-sequence obs-of-the-body)
   a parameterless function that writes module-level names, called before every seg (Lang/ConstCall.v); in_fn = 1: the
   calling sequence is the body of another function *)
Fixpoint dec_blocks (l : list wv) : option (list (list stmt)) :=
  match l with
  | [] => Some []
  | WL b :: r => match dec_stmts b, dec_blocks r with Some x, Some xs => Some (x :: xs) | _, _ => None end
  | _ => None end.
Definition run_calls (in_fn : Z) (prefix body first rest orc : list wv) : wv :=
  match dec_stmts prefix, dec_stmts body, dec_stmts first, dec_blocks rest, dec_nats orc with
  | Some p, Some b, Some f, Some r, Some o =>
      let inf := negb (in_fn =? 0) in
      let t := tcalls inf p b f r in
      WL [ wbool (match t with Some _ => true | None => false end);
           wbool (match t with Some (_, _, _, _, fl) => fl | None => false end);
           enc_outs (firmware_calls_outputs inf p b f r o); enc_outs (python_calls_outputs p b f r o);
           WL (match t with Some (rp, _, _, _, _) => obs_block rp | None => [] end);
           WL (match t with Some (_, _, rf, rs, _) => obs_block (rf ++ concat rs) | None => [] end);
           WL (match t with Some (_, rb, _, _, _) => obs_block rb | None => [] end) ]
  | _, _, _, _, _ => wbad
  end.

Definition run (v : wv) : wv :=
  match v with
  | WL [WI 0; WL en; ex] =>
      match dec_cenv en, dec_expr ex with
      | Some c, Some e =>
          let (r, t) := eval_const_fx c e in
          WL [ enc_cres r; WL (map enc_prim t); wbool (has_name e);
               wopt WI (literal_length c e); wbool (in_guard c e); wbool (all_exact c e);
               wbool (binds_safe_name c);
               WL [ enc_outcome WI (resolve_numeric c e); enc_outcome wbool (resolve_bool c e);
                    enc_outcome (fun zs => WL (map WI zs)) (glyph_bitmap c e);
                    enc_outcome WI (resolve_sleep c e) ];
               enc_cres (eval_const c e) ]
      | _, _ => wbad
      end
  | WL [WI 1; WL prog; WL orc] => run_env prog orc
  | WL [WI 2; WL prefix; WL ps; WL body; WL mid; WL post; WL vals; WL orc] => run_def prefix ps body mid post vals orc
  | WL [WI 3; WI inf; WL prefix; WL body; WL first; WL rest; WL orc] => run_calls inf prefix body first rest orc
  | _ => wbad
  end.
