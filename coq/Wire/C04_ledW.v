(* Wire interface of unit C04_led (Device/DLed.v against Host/Led.v, canonicaliser Device/Signal.v).

   pynum, Led ops: as in Wire/C19_ledW.v (the op decoder of that file is reused)
   case ::= (0 pin (op ...))        run both models from the initial states
              -> (0 (dev ...) (hev ...) (dget ...) (hget ...) hok canon_dev canon_host (in_range ...))
          | (1 (dev ...))           canonical signal of a device trace (e.g. a REAL firmware trace)
              -> (0 canon)
          | (2 pin (hev ...))       canonical signal of a host trace (e.g. the REAL class, sleeps as rationals)
              -> (0 canon)
   dev   ::= (1 pin v) digitalWrite | (2 pin v) analogWrite | (3 ms) delay
   hev   ::= (4 (num den)) sleep | (5 level) completed set_brightness
   get   ::= () | (z)
   canon ::= (((t ch v) ...) total_ms) *)
From Coq Require Import ZArith QArith List Bool.
From RV Require Import Base.Wire Base.Num Host.Led Device.Signal Device.DLed Wire.C19_ledW.
Import ListNotations.
Import Num.
Open Scope Z_scope.

Definition w_dev (e : dev) : wv :=
  match e with
  | EDW p v => WL [WI 1; WI p; wbool v]
  | EAW p v => WL [WI 2; WI p; WI v]
  | EDelay d => WL [WI 3; WI d]
  end.

Definition w_hev (e : ev) : wv :=
  match e with
  | Sleep q => WL [WI 4; wq q]
  | Lvl l => WL [WI 5; WI (nth 0 l 0)]
  end.

Definition un_dev (v : wv) : option dev :=
  match v with
  | WL [WI 1; WI p; b] => match un_bool b with Some b' => Some (EDW p b') | None => None end
  | WL [WI 2; WI p; WI x] => Some (EAW p x)
  | WL [WI 3; WI d] => Some (EDelay d)
  | _ => None
  end.

Definition un_hev (v : wv) : option ev :=
  match v with
  | WL [WI 4; q] => match un_q q with Some q' => Some (Sleep q') | None => None end
  | WL [WI 5; WI x] => Some (Lvl [x])
  | _ => None
  end.

Fixpoint all_some {A} (l : list (option A)) : option (list A) :=
  match l with
  | [] => Some []
  | Some a :: r => match all_some r with Some t => Some (a :: t) | None => None end
  | None :: _ => None
  end.

Definition w_get (g : option Z) : wv := match g with None => WL [] | Some z => WL [WI z] end.

Definition w_canon (c : list citem * Z) : wv :=
  WL [WL (map (fun i : citem => let '(t, ch, v) := i in WL [WI t; WI ch; WI v]) (fst c)); WI (snd c)].

Definition run (v : wv) : wv :=
  match v with
  | WL [WI 0; WI pn; WL ops] =>
      match all_some (map un_led_op ops) with
      | None => wbad
      | Some ops' =>
          let d := drun pn dinit ops' in
          let h := hrun (init (PI pn)) ops' in
          wok [WL (map w_dev (fst d)); WL (map w_hev (fst (fst h)));
               WL (map w_get (snd d)); WL (map w_get (snd (fst h))); wbool (snd h);
               w_canon (canon (map dconv (fst d))); w_canon (canon (map (hconv pn) (fst (fst h))));
               WL (map (fun o => wbool (in_range o)) ops')]
      end
  | WL [WI 1; WL evs] =>
      match all_some (map un_dev evs) with
      | None => wbad
      | Some e => wok [w_canon (canon (map dconv e))]
      end
  | WL [WI 2; WI pn; WL evs] =>
      match all_some (map un_hev evs) with
      | None => wbad
      | Some e => wok [w_canon (canon (map (hconv pn) e))]
      end
  | _ => wbad
  end.
