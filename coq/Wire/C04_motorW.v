(* Wire interface of unit C04_motor (Device/DMotor.v against Host/DCMotor.v).
   ops: as in Wire/C19_motorW.v (decoder reused)
   case ::= (0 (in1 in2 en) (op ...)) -> (0 (dev ...) (dget ...) (hget ...) hok canon_dev canon_host (in_range ...))
          | (1 (dev ...))              -> (0 canon)
          | (2 (in1 in2 en) (hev ...)) -> (0 canon)       hev ::= (0 (n d) mode) applied speed + mode | (1 (n d)) sleep
   dev ::= (1 pin v) | (2 pin v) | (3 ms);   get ::= () | (1 (n d)) | (2 z) | (3 mode) *)
From Coq Require Import ZArith QArith List Bool.
From RV Require Import Base.Wire Base.NumM Host.DCMotor Device.Signal Device.DLed Device.DMotor
  Wire.C19_motorW Wire.C04_ledW.
Import ListNotations.
Open Scope Z_scope.

Definition w_dget (g : dget) : wv :=
  match g with
  | GNone => WL []
  | GFloat q => WL [WI 1; wqr q]
  | GInt z => WL [WI 2; WI z]
  | GMode md => WL [WI 3; wmode md]
  end.

Definition un_mode (z : Z) : mode := if z =? 1 then Drive else if z =? 2 then Brake else Coast.

Definition un_mhev (p : mpins) (v : wv) : option (list tev) :=
  match v with
  | WL [WI 0; q; WI md] => match un_q q with Some q' => Some (hmconv p (MLvl 0 q' (un_mode md))) | None => None end
  | WL [WI 1; q] => match un_q q with Some q' => Some (hmconv p (MSleep q')) | None => None end
  | _ => None
  end.

Definition run (v : wv) : wv :=
  match v with
  | WL [WI 0; WL [WI p1; WI p2; WI p3]; WL ops] =>
      match all_some (map un_mop ops) with
      | None => wbad
      | Some ops' =>
          let p := (p1, p2, p3) in
          let m0 := mkMotor (PI p1, PI p2, PI p3) 0 false Coast 0 LastOther in
          let d := dmrun p dminit ops' in
          let h := hmrun p m0 ops' in
          wok [WL (map w_dev (fst d)); WL (map w_dget (snd d)); WL (map w_dget (snd (fst h))); wbool (snd h);
               w_canon (canon (map dconv (fst d))); w_canon (canon (fst (fst h)));
               WL (map wbool (motor_guard_flags m0 ops'))]
      end
  | WL [WI 1; WL evs] =>
      match all_some (map un_dev evs) with
      | None => wbad
      | Some e => wok [w_canon (canon (map dconv e))]
      end
  | WL [WI 2; WL [WI p1; WI p2; WI p3]; WL evs] =>
      match all_some (map (un_mhev (p1, p2, p3)) evs) with
      | None => wbad
      | Some e => wok [w_canon (canon (concat e))]
      end
  | _ => wbad
  end.
