(* Wire interface of unit C04_rgb (Device/DRGB.v against Host/RGBLed.v).

   RGBLed ops: as in Wire/C19_ledW.v (decoder reused)
   case ::= (0 (p1 p2 p3) (op ...))   run both models from the initial states
              -> (0 (dev ...) hok canon_dev canon_host (in_range ...))
          | (1 (dev ...))             canonical signal of a device trace           -> (0 canon)
          | (2 (p1 p2 p3) (hev ...))  canonical signal of a host trace             -> (0 canon)
   dev ::= (1 pin v) digitalWrite | (2 pin v) analogWrite | (3 ms) delay
   hev ::= (4 (num den) mode) sleep, mode 0 = device truncates, 1 = device rounds half up | (6 r g b) completed set_color *)
From Coq Require Import ZArith QArith List Bool.
From RV Require Import Base.Wire Base.Num Host.Led Host.RGBLed Device.Signal Device.DLed Device.DRGB
  Wire.C19_ledW Wire.C04_ledW.
Import ListNotations.
Import Num.
Open Scope Z_scope.

Definition un_rhev (p : pins3) (v : wv) : option (list tev) :=
  match v with
  | WL [WI 4; q; WI m] =>
      match un_q q with
      | Some q' => Some (hrconv p (if m =? 0 then RTrunc else RHalfUp) (Sleep q'))
      | None => None
      end
  | WL [WI 6; WI r; WI g; WI b] => Some (hrconv p RTrunc (Lvl [r; g; b]))
  | _ => None
  end.

Fixpoint guard_flags (s : rgb) (ops : list RGBLed.op) : list wv :=
  match ops with
  | [] => []
  | o :: r => wbool (rgb_in_range (color s) o) :: guard_flags (RGBLed.st (RGBLed.step s o)) r
  end.

Definition run (v : wv) : wv :=
  match v with
  | WL [WI 0; WL [WI p1; WI p2; WI p3]; WL ops] =>
      match all_some (map un_rgb_op ops) with
      | None => wbad
      | Some ops' =>
          let p := (p1, p2, p3) in
          let s0 := mkRgb (PI p1, PI p2, PI p3) (0, 0, 0) false in
          let d := drrun p drinit ops' in
          let h := hrrun p s0 ops' in
          wok [WL (map w_dev d); wbool (snd h);
               w_canon (canon (map dconv d)); w_canon (canon (fst h));
               WL (guard_flags s0 ops')]
      end
  | WL [WI 1; WL evs] =>
      match all_some (map un_dev evs) with
      | None => wbad
      | Some e => wok [w_canon (canon (map dconv e))]
      end
  | WL [WI 2; WL [WI p1; WI p2; WI p3]; WL evs] =>
      match all_some (map (un_rhev (p1, p2, p3)) evs) with
      | None => wbad
      | Some e => wok [w_canon (canon (concat e))]
      end
  | _ => wbad
  end.
