(* Wire interface of unit C04_servo (Device/DServo.v against Host/Servo.v).
   case ::= (0 ctor_args (op ...))      ctor_args and ops as in Wire/C19_servoW.v (decoders reused):
            ctor_args = (pin mina maxa minp maxp), each () omitted | (pynum);  op ::= (0 v) write | (1 v) write_us | (2) read | (3) read_us
   answer   (0 hctor decl (sdev ...) (get ...) (sdev ...) (get ...) hok (range ...) decl_ok)
            hctor ::= (0) the host constructor returned | (1 kind) it raised (the host lists are then empty)
            decl  ::= (0) the parser rejects the declaration | (1 (sdev ...)) the setup() calls
            then: device events, device getters, host commands, host getters, no host call raised,
                  per-op range flags, declaration guard
   sdev ::= (0 pin min max) attach | (1 pin z) write | (2 pin z) writeMicroseconds;   get ::= () | (1 (n d)) *)
From Coq Require Import ZArith QArith List Bool.
From RV Require Import Base.Wire Base.NumM Host.Servo Device.DMotor Device.DServo Wire.C19_servoW Wire.C04_ledW.
Import ListNotations.
Open Scope Z_scope.

Definition w_sdev (e : sdev) : wv :=
  match e with
  | SAttach p a b => WL [WI 0; WI p; WI a; WI b]
  | SWriteDeg p z => WL [WI 1; WI p; WI z]
  | SWriteMicros p z => WL [WI 2; WI p; WI z]
  end.

Definition w_sget (g : sget) : wv :=
  match g with
  | SGNone => WL []
  | SGFloat q => WL [WI 1; wqr q]
  end.

Definition run (v : wv) : wv :=
  match v with
  | WL [WI 0; WL [p; a1; a2; p1; p2]; WL ops] =>
      match un_opt_pynum p, un_opt_pynum a1, un_opt_pynum a2, un_opt_pynum p1, un_opt_pynum p2, all_some (map un_sop ops) with
      | Some p', Some a1', Some a2', Some p1', Some p2', Some ops' =>
          let a := mkServoArgs p' a1' a2' p1' p2' in
          let hc := servo_ctor a in
          let dd := ds_decl a in
          let d := match dd with Some (d, _) => dsrun d ops' | None => ([], []) end in
          let pin := match dd with Some (d, _) => ds_pin d | None => 0 end in
          let h := match hc with inl h => hsrun pin h ops' | inr _ => ([], [], false) end in
          wok [match hc with inl _ => WL [WI 0] | inr k => WL [WI 1; wexn k] end;
               match dd with Some (_, evs) => WL [WI 1; WL (map w_sdev evs)] | None => WL [WI 0] end;
               WL (map w_sdev (fst d)); WL (map w_sget (snd d));
               WL (map w_sdev (fst (fst h))); WL (map w_sget (snd (fst h))); wbool (snd h);
               WL (map wbool (match hc with inl h => servo_range_flags h ops' | inr _ => [] end));
               wbool (decl_ok a)]
      | _, _, _, _, _, _ => wbad
      end
  | _ => wbad
  end.
