(* Wire driver of C05: decodes one case, runs the Split/Emit model, encodes the result.
   case (0 items)                -> IR placement (what the harness compares with the real Program)
   case (1 inputs n items)       -> firmware phases (model), reference (CPython) phases, guards
   case (2 pollpins ticks setup passes) -> the temporal monitors on an abstract trace (also used on
                                    abstracted REAL firmware traces)
   case (3 n pre loop)           -> pin-expression sketch (Lang/EmitPin.v): executed trace with emit()'s keys, guard,
                                    monitor, and the trace with the text-only keys
   case (4 trace)                -> the numeric-pin monitor on a (real) trace *)
From Coq Require Import ZArith List Bool.
From RV Require Import Base.Wire Lang.Split Lang.Emit Lang.EmitPin.
Import ListNotations.
Open Scope Z_scope.

(* ------------------------------------------------------------------ decoding *)
Definition dec_kind (z : Z) : option kind :=
  match z with
  | 0 => Some KLed | 1 => Some KRGB | 2 => Some KServo | 3 => Some KMotor | 4 => Some KButton
  | 5 => Some KPot | 6 => Some KUltra | 7 => Some KBuzzer | 8 => Some KLcd | 9 => Some KSerial
  | _ => None
  end.

Definition dec_optname (v : wv) : option (option name) :=
  match v with
  | WL [] => Some None
  | WL [n] => match un_text n with Some t => Some (Some t) | None => None end
  | _ => None
  end.

Definition dec_decl (v : wv) : option decl :=
  match v with
  | WL [WI k; n; p; h] =>
      match dec_kind k, un_text n, un_text p, dec_optname h with
      | Some kk, Some nn, Some pp, Some hh => Some (mkDecl kk nn pp hh)
      | _, _, _, _ => None
      end
  | _ => None
  end.

Definition dec_rhs (v : wv) : option rhs :=
  match v with
  | WL [WI 0; WI z] => Some (RConst z)
  | WL [WI 1; x; WI z] => option_map (fun n => RAdd n z) (un_text x)
  | _ => None
  end.

Fixpoint dec_stmt (v : wv) : option stmt :=
  let fix decs (l : list wv) : option (list stmt) :=
    match l with
    | [] => Some []
    | x :: r => match dec_stmt x, decs r with Some s, Some ss => Some (s :: ss) | _, _ => None end
    end in
  match v with
  | WL [WI 0; WI id; d] => option_map (SMark id) (dec_optname d)
  | WL [WI 1; d] => option_map SDecl (dec_decl d)
  | WL [WI 2; x; e] =>
      match un_text x, dec_rhs e with Some n, Some r => Some (SSet n r) | _, _ => None end
  | WL [WI 3; d; x] =>
      match un_text d, un_text x with Some dd, Some n => Some (SShow dd n) | _, _ => None end
  | WL [WI 4; l] => option_map SAnim (un_text l)
  | WL [WI 5] => Some SBreak
  | WL [WI 6; x; WL b] =>
      match un_text x, decs b with Some n, Some bb => Some (SIf n bb []) | _, _ => None end
  | WL [WI 6; x; WL b; WL e] =>
      match un_text x, decs b, decs e with Some n, Some bb, Some ee => Some (SIf n bb ee) | _, _, _ => None end
  | WL [WI 7; WI c; WL b] => option_map (SFor (Z.to_nat c)) (decs b)
  | WL [WI 8; x; WL b] =>
      match un_text x, decs b with Some n, Some bb => Some (SWhile n bb) | _, _ => None end
  | WL [WI 9; WL b; WL h] =>
      match decs b, decs h with Some bb, Some hh => Some (STry bb hh) | _, _ => None end
  | _ => None
  end.

Fixpoint dec_stmts (l : list wv) : option (list stmt) :=
  match l with
  | [] => Some []
  | x :: r => match dec_stmt x, dec_stmts r with Some s, Some ss => Some (s :: ss) | _, _ => None end
  end.

Definition dec_item (v : wv) : option item :=
  match v with
  | WL [WI 0; s] => option_map IStmt (dec_stmt s)
  | WL [WI 1; WL b] => option_map IMainLoop (dec_stmts b)
  | WL [WI 2; f; WL b] =>
      match un_text f, dec_stmts b with Some n, Some bb => Some (IFunc n bb) | _, _ => None end
  | _ => None
  end.

Fixpoint dec_items (l : list wv) : option (list item) :=
  match l with
  | [] => Some []
  | x :: r => match dec_item x, dec_items r with Some s, Some ss => Some (s :: ss) | _, _ => None end
  end.

(* scripted digitalRead levels: ((pin (l0 l1 ...)) ...); the last level repeats, none = LOW *)
Fixpoint dec_inputs (l : list wv) : option (list (Z * list bool)) :=
  match l with
  | [] => Some []
  | WL [WI p; WL ls] :: r =>
      match un_ints ls, dec_inputs r with
      | Some zs, Some rs => Some ((p, map (fun z => negb (z =? 0)) zs) :: rs)
      | _, _ => None
      end
  | _ => None
  end.

Fixpoint find_levels (p : Z) (l : list (Z * list bool)) : list bool :=
  match l with
  | [] => []
  | (q, ls) :: r => if p =? q then ls else find_levels p r
  end.

Definition oracle (l : list (Z * list bool)) (p : Z) (k : nat) : bool :=
  let ls := find_levels p l in nth k ls (last ls false).

Definition dec_res (v : wv) : option res :=
  match v with
  | WL [WI 0; WI p] => Some (RPin p)
  | WL [WI 1] => Some RSer
  | WL [WI 2; WI p] => Some (RServo p)
  | WL [WI 3; l] => option_map RLcd (un_text l)
  | _ => None
  end.

Definition dec_ev (v : wv) : option ev :=
  match v with
  | WL [WI 0; WI id] => Some (EMark id)
  | WL [WI 1; x; WI z] => option_map (fun n => EVal n z) (un_text x)
  | WL [WI 2; r; WI m] => option_map (fun rr => ECfg rr m) (dec_res r)
  | WL [WI 3; r; w] => match dec_res r, un_bool w with Some rr, Some ww => Some (EUse rr ww) | _, _ => None end
  | WL [WI 4; WI p] => Some (EPoll p)
  | WL [WI 5; l] => option_map ETick (un_text l)
  | WL [WI 6; WI id] => Some (EHand id)
  | WL [WI 7; r; w] => match dec_res r, un_bool w with Some rr, Some ww => Some (EHUse rr ww) | _, _ => None end
  | _ => None
  end.

Fixpoint dec_evs (l : list wv) : option (list ev) :=
  match l with
  | [] => Some []
  | x :: r => match dec_ev x, dec_evs r with Some e, Some es => Some (e :: es) | _, _ => None end
  end.

Fixpoint dec_passes (l : list wv) : option (list (list ev)) :=
  match l with
  | [] => Some []
  | WL x :: r => match dec_evs x, dec_passes r with Some e, Some es => Some (e :: es) | _, _ => None end
  | _ => None
  end.

Fixpoint dec_names (l : list wv) : option (list name) :=
  match l with
  | [] => Some []
  | x :: r => match un_text x, dec_names r with Some e, Some es => Some (e :: es) | _, _ => None end
  end.

(* ------------------------------------------------------------------ encoding *)
Definition enc_names (l : list name) : wv := WL (map wtext l).

Fixpoint enc_irn (n : irn) : wv :=
  match n with
  | NMark id => WL [WI 0; WI id]
  | NDecl nm => WL [WI 1; wtext nm]
  | NVarDecl x => WL [WI 2; wtext x]
  | NVarAssign x => WL [WI 3; wtext x]
  | NShow x => WL [WI 4; wtext x]
  | NAnim l => WL [WI 5; wtext l]
  | NBreak => WL [WI 6]
  | NIf x b e => WL [WI 7; wtext x; WL (map enc_irn b); WL (map enc_irn e)]
  | NFor c b => WL [WI 8; WI (Z.of_nat c); WL (map enc_irn b)]
  | NWhile x b => WL [WI 11; wtext x; WL (map enc_irn b)]
  | NTry b h => WL [WI 12; WL (map enc_irn b); WL (map enc_irn h)]
  | NPoll b => WL [WI 9; wtext b]
  | NTick l => WL [WI 10; wtext l]
  end.

Definition enc_res (r : res) : wv :=
  match r with
  | RPin p => WL [WI 0; WI p]
  | RSer => WL [WI 1]
  | RServo p => WL [WI 2; WI p]
  | RLcd l => WL [WI 3; wtext l]
  end.

Definition enc_ev (e : ev) : wv :=
  match e with
  | EMark id => WL [WI 0; WI id]
  | EVal x v => WL [WI 1; wtext x; WI v]
  | ECfg r m => WL [WI 2; enc_res r; WI m]
  | EUse r w => WL [WI 3; enc_res r; wbool w]
  | EPoll p => WL [WI 4; WI p]
  | ETick l => WL [WI 5; wtext l]
  | EHand id => WL [WI 6; WI id]
  | EHUse r w => WL [WI 7; enc_res r; wbool w]
  end.

Definition enc_evs (t : list ev) : wv := WL (map enc_ev t).
Definition enc_passes (l : list (list ev)) : wv := WL (map enc_evs l).

(* ------------------------------------------------------------------ pin expressions *)
Definition dec_pexp (v : wv) : option pexp :=
  match v with
  | WL [WI 0; WI z] => Some (PLit z)
  | WL [WI 1; WI x] => Some (PVar x)
  | WL [WI 2; WI x; WI k] => Some (PAdd x k)
  | _ => None
  end.

Fixpoint dec_pexps (l : list wv) : option (list pexp) :=
  match l with
  | [] => Some []
  | x :: r => match dec_pexp x, dec_pexps r with Some e, Some es => Some (e :: es) | _, _ => None end
  end.

Definition dec_qkind (z : Z) : option qkind :=
  match z with
  | 0 => Some QLed | 1 => Some QRGB | 2 => Some QUltra | 3 => Some QBuzzer | 4 => Some QMotor | 5 => Some QButton
  | _ => None
  end.

Definition dec_pstmt (v : wv) : option pstmt :=
  match v with
  | WL [WI 0; WI x; e] => option_map (QSet x) (dec_pexp e)
  | WL [WI 1; WI k; WI nm; WL pins] =>
      match dec_qkind k, dec_pexps pins with Some kk, Some pp => Some (QDecl kk nm pp) | _, _ => None end
  | WL [WI 2; WI nm] => Some (QCmd nm)
  | _ => None
  end.

Fixpoint dec_pstmts (l : list wv) : option (list pstmt) :=
  match l with
  | [] => Some []
  | x :: r => match dec_pstmt x, dec_pstmts r with Some s, Some ss => Some (s :: ss) | _, _ => None end
  end.

Definition enc_pev (e : pev) : wv :=
  match e with
  | PCfg p m => WL [WI 0; WI p; WI m]
  | PUse p w => WL [WI 1; WI p; wbool w]
  end.

Definition dec_pev (v : wv) : option pev :=
  match v with
  | WL [WI 0; WI p; WI m] => Some (PCfg p m)
  | WL [WI 1; WI p; w] => option_map (PUse p) (un_bool w)
  | _ => None
  end.

Fixpoint dec_pevs (l : list wv) : option (list pev) :=
  match l with
  | [] => Some []
  | x :: r => match dec_pev x, dec_pevs r with Some e, Some es => Some (e :: es) | _, _ => None end
  end.

Definition run_pin (v : wv) : wv :=
  match v with
  | WL [WI 3; WI n; WL pre; WL lp] =>
      match dec_pstmts pre, dec_pstmts lp with
      | Some a, Some b =>
          let p := mkQ a b in
          let t := run_sketch kf_real p (Z.to_nat n) in
          wok [WL (map enc_pev t); wbool (pins_tracked kf_real p (Z.to_nat n)); wbool (pcbu t);
               WL (map enc_pev (run_sketch kf_text p (Z.to_nat n)))]
      | _, _ => wbad
      end
  | WL [WI 4; WL t] =>
      match dec_pevs t with
      | Some tr => wok [wbool (pcbu tr)]
      | None => wbad
      end
  | _ => wbad
  end.

(* ------------------------------------------------------------------ run *)
Definition run (v : wv) : wv :=
  match v with
  | WL [WI 0; WL its] =>
      match dec_items its with
      | Some p =>
          wok [wbool (transl_ok p);
               WL (map enc_irn (ir_setup p));
               WL (map enc_irn (ir_loop p));
               enc_names (globals_of p);
               enc_names (locals_of p);
               enc_names (poll_names p);
               enc_names (tick_names p)]
      | None => wbad
      end
  | WL [WI 1; WL ins; WI n; WL its] =>
      match dec_inputs ins, dec_items its with
      | Some i, Some p =>
          match exec_phases (oracle i) (Z.to_nat n) p, py_phases (Z.to_nat n) p with
          | (ts, tl, cu), (ps, pl, pu) =>
              wok [enc_evs ts; enc_passes tl; wbool cu;
                   enc_evs ps; enc_passes pl; wbool pu;
                   WL [wbool (transl_ok p); wbool (breaks_ok p); wbool (well_placed p);
                       wbool (one_main_last p); wbool (well_placed_unique p)];
                   WL (map WI (poll_pins (transl p)));
                   enc_names (tick_list (transl p))]
          end
      | _, _ => wbad
      end
  | WL [WI 2; WL pp; WL tk; WL ts; WL tl] =>
      match un_ints pp, dec_names tk, dec_evs ts, dec_passes tl with
      | Some pins, Some ticks, Some s, Some l =>
          wok [wbool (cbu (s ++ concat l)); wbool (one_mode (s ++ concat l));
               WL (map (fun t => wbool (hk_ok pins ticks t)) l);
               wbool (forallb (fun e => negb (is_hk e)) s)]
      | _, _, _, _ => wbad
      end
  | WL (WI 3 :: _) => run_pin v
  | WL (WI 4 :: _) => run_pin v
  | _ => wbad
  end.
