From Coq Require Import ZArith List Bool.
From RV Require Import Base.Wire Base.Text Lang.Escape Lang.Sections.
From RV Require Lang.StmtAst Lang.Transl Lang.Scope Wire.C01_stmtW.
From RV Require Lang.Headers Lang.FnSelect Lang.EmitScope Lang.Reserved Lang.ExcDecl.
From RV Require Lang.PyAst Lang.PyAstWire Lang.Infer Lang.InferComp Lang.DeclWire Lang.CompScope.
Import ListNotations.
Open Scope Z_scope.

(* cases
     (0 s)            -> (0 (escape s))
     (1 s)            -> (0 content rest)  |  (1 0)   clex_string on the raw text s
     (2 s rest)       -> the property itself on the model: lex (c_literal s ++ rest);
                         (0 1) if it yields exactly (s, rest), (0 0) otherwise
     (3 inc hlp glb fns ult setup loop)   each section a list of bodies ((defs) (uses)),
                         setup/loop one body
                      -> (0 kinds wf guard undeclared protos)
                         kinds = ranks of the stitched items in order (the prototypes the emitter generates
                         from fns and ult included), undeclared = ((pos ident) ...),
                         protos = the names each generated prototype declares ((ident ...) ...), in order
     (4 ... same ...) -> the same for stitch_noproto / guard_noproto, the order BEFORE the repair (protos empty)
     (5 pre mainopt)  -> annotated statement program (encoding of Wire/C01_stmtW.v) through
                         Lang.Transl.transl and Lang.Scope:
                         (0 1 setup_ok loop_ok all_ok_with_aug setup_has_no_toplevel_local) | (0 0) rejected
     (6 decls)        -> top-level device declarations ((name kind) ...), kind 0 none 1 Servo 2 parallel LCD 3 I2C LCD,
                         through Lang.Headers: (0 includes objects headers_ok elif_variant_ok)
                         includes = header codes 0 Arduino 1 Servo 2 LiquidCrystal 3 Wire 4 LiquidCrystal_I2C,
                         objects = ((name kind) ...)
     (7 fns)          -> the function-selection loop of parse() (Lang.FnSelect):
                         fns = ((name variants used aliases primaryopt) ...), a signature = list of labels,
                         label = 0 int 1 float 2 bool 3 String 4 void | (5 label) list | (6 code) other
                         -> (0 selected no_redefinition)   selected = ((name sig) ...)
     (8 params toks)  -> C++ block scoping (Lang.EmitScope.scan) of one function read from the real text:
                         tok = (0 (header names)) block opens | (1) block closes | (2 name) declaration; names are texts
                         -> (0 fn_ok first_redeclared_name)      (name empty when there is none)
     (9 lcds buttons setup loop fns)  -> the emitter's block structure (Lang.EmitScope.emit_program) for the IR of one program:
                         lcds / buttons = names registered by emit()'s first pass, fns = (((params) nodes) ...),
                         node = (0) plain | (1 x) local VarDecl | (2 (names)) block opens | (3) closes | (4 b) ButtonPoll
                              | (5 l) LCDDecl | (6 l) LCDGlyph | (10) ServoWrite (11) ServoWriteMicroseconds (12) DCMotorSetSpeed
                              (13) Backward (14) Invert (15) Ramp (16) RunFor (17) RGBLed set_color/on/off (18) LedSetBrightness
                              (19) LedBlink (20) RGBLedFade (21) RGBLedBlink (22) LedFadeIn/Out (23 empty) LedFlashPattern
                              (24 d) BuzzerPlayTone d = 0 no duration 1 literal 2 expression (25 on_lit off_lit) BuzzerBeep
                              (26 lit) BuzzerSweep (27 known) BuzzerMelody
                         -> (0 (toks ok user_ok) (toks ok user_ok) ((toks ok user_ok) ...))  for setup, loop, the functions;
                            toks rendered as in op 8 (function bodies without their parameters) *)

Definition un_body (v : wv) : option body :=
  match v with
  | WL [d; u] =>
      match un_text d, un_text u with
      | Some ds, Some us => Some (ds, us)
      | _, _ => None
      end
  | _ => None
  end.

Fixpoint un_bodies_l (l : list wv) : option (list body) :=
  match l with
  | [] => Some []
  | v :: r =>
      match un_body v, un_bodies_l r with
      | Some b, Some bs => Some (b :: bs)
      | _, _ => None
      end
  end.

Definition un_bodies (v : wv) : option (list body) :=
  match v with WL l => un_bodies_l l | _ => None end.

Definition un_sketch (inc hlp glb fns ult st lp : wv) : option sketch :=
  match un_bodies inc, un_bodies hlp, un_bodies glb, un_bodies fns, un_bodies ult, un_body st, un_body lp with
  | Some a, Some b, Some c, Some d, Some e, Some f, Some g =>
      Some {| sk_includes := a; sk_helpers := b; sk_globals := c; sk_functions := d;
              sk_ultras := e; sk_setup := f; sk_loop := g |}
  | _, _, _, _, _, _, _ => None
  end.

Definition enc_items (l : list item) (g : bool) (ps : list item) : wv :=
  wok [ WL (map (fun it => WI (rank (ikind it))) l);
        wbool (wf_order l);
        wbool g;
        WL (map (fun pu => WL [WI (fst pu); WI (snd pu)]) (undeclared l));
        WL (map (fun it => WL (map WI (idefs it))) ps) ].

Section UnList.
  Context {A : Type} (f : wv -> option A).
  Fixpoint un_list_l (l : list wv) : option (list A) :=
    match l with
    | [] => Some []
    | v :: r => match f v, un_list_l r with Some a, Some b => Some (a :: b) | _, _ => None end
    end.
  Definition un_list (v : wv) : option (list A) := match v with WL l => un_list_l l | _ => None end.
End UnList.

Definition un_decl (v : wv) : option Headers.decl :=
  match v with
  | WL [WI n; WI 0] => Some (n, None)
  | WL [WI n; WI 1] => Some (n, Some Headers.LServo)
  | WL [WI n; WI 2] => Some (n, Some Headers.LLcdPar)
  | WL [WI n; WI 3] => Some (n, Some Headers.LLcdI2C)
  | _ => None
  end.

Definition enc_lib (k : Headers.lib) : Z :=
  match k with Headers.LServo => 1 | Headers.LLcdPar => 2 | Headers.LLcdI2C => 3 end.

Definition enc_hdr (h : Headers.hdr) : Z :=
  match h with
  | Headers.HArduino => 0 | Headers.HServo => 1 | Headers.HLiquidCrystal => 2
  | Headers.HWire => 3 | Headers.HLiquidCrystalI2C => 4
  end.

Fixpoint un_lbl (v : wv) : option FnSelect.lbl :=
  match v with
  | WI 0 => Some FnSelect.LInt
  | WI 1 => Some FnSelect.LFloat
  | WI 2 => Some FnSelect.LBool
  | WI 3 => Some FnSelect.LString
  | WI 4 => Some FnSelect.LVoid
  | WL [WI 5; e] => option_map FnSelect.LList (un_lbl e)
  | WL [WI 6; WI c] => Some (FnSelect.LOther c)
  | _ => None
  end.

Fixpoint enc_lbl (l : FnSelect.lbl) : wv :=
  match l with
  | FnSelect.LInt => WI 0 | FnSelect.LFloat => WI 1 | FnSelect.LBool => WI 2
  | FnSelect.LString => WI 3 | FnSelect.LVoid => WI 4
  | FnSelect.LList e => WL [WI 5; enc_lbl e]
  | FnSelect.LOther c => WL [WI 6; WI c]
  end.

Definition un_sig : wv -> option FnSelect.sig := un_list un_lbl.

Definition un_alias (v : wv) : option (FnSelect.sig * FnSelect.sig) :=
  match v with
  | WL [a; c] => match un_sig a, un_sig c with Some x, Some y => Some (x, y) | _, _ => None end
  | _ => None
  end.

Definition un_fentry (v : wv) : option (Z * FnSelect.fentry) :=
  match v with
  | WL [WI n; vs; us; al; WL po] =>
      match un_list un_sig vs, un_list un_sig us, un_list un_alias al,
            match po with [] => Some None | [p] => option_map Some (un_sig p) | _ => None end with
      | Some a, Some b, Some c, Some d =>
          Some (n, {| FnSelect.fe_variants := a; FnSelect.fe_used := b; FnSelect.fe_aliases := c; FnSelect.fe_primary := d |})
      | _, _, _, _ => None
      end
  | _ => None
  end.



Definition un_tok (v : wv) : option EmitScope.tok :=
  match v with
  | WL [WI 0; h] => option_map (fun l => EmitScope.TOpen (map EmitScope.CUser l)) (un_list un_text h)
  | WL [WI 1] => Some EmitScope.TClose
  | WL [WI 2; x] => option_map (fun t => EmitScope.TDecl (EmitScope.CUser t)) (un_text x)
  | _ => None
  end.

Definition un_dur (v : wv) : option EmitScope.dur :=
  match v with WI 0 => Some EmitScope.DNone | WI 1 => Some EmitScope.DLit | WI 2 => Some EmitScope.DExpr | _ => None end.

Definition un_node (v : wv) : option EmitScope.node :=
  match v with
  | WL [WI 0] => Some EmitScope.NPlain
  | WL [WI 1; x] => option_map EmitScope.NVarDecl (un_text x)
  | WL [WI 2; h] => option_map EmitScope.NOpen (un_list un_text h)
  | WL [WI 3] => Some EmitScope.NClose
  | WL [WI 4; b] => option_map EmitScope.NButtonPoll (un_text b)
  | WL [WI 5; l] => option_map EmitScope.NLcdDecl (un_text l)
  | WL [WI 6; l] => option_map EmitScope.NGlyph (un_text l)
  | WL [WI 10] => Some EmitScope.NServoWrite
  | WL [WI 11] => Some EmitScope.NServoWriteUs
  | WL [WI 12] => Some EmitScope.NMotorSetSpeed
  | WL [WI 13] => Some EmitScope.NMotorBackward
  | WL [WI 14] => Some EmitScope.NMotorInvert
  | WL [WI 15] => Some EmitScope.NMotorRamp
  | WL [WI 16] => Some EmitScope.NMotorRunFor
  | WL [WI 17] => Some EmitScope.NRgbUpdate
  | WL [WI 18] => Some EmitScope.NLedSetBrightness
  | WL [WI 19] => Some EmitScope.NLedBlink
  | WL [WI 20] => Some EmitScope.NRgbFade
  | WL [WI 21] => Some EmitScope.NRgbBlink
  | WL [WI 22] => Some EmitScope.NLedFade
  | WL [WI 23; e] => option_map EmitScope.NLedFlash (un_bool e)
  | WL [WI 24; x] => option_map EmitScope.NBuzzerPlayTone (un_dur x)
  | WL [WI 25; a; b] => match un_bool a, un_bool b with Some x, Some y => Some (EmitScope.NBuzzerBeep x y) | _, _ => None end
  | WL [WI 26; a] => option_map EmitScope.NBuzzerSweep (un_bool a)
  | WL [WI 27; k] => option_map EmitScope.NBuzzerMelody (un_bool k)
  | _ => None
  end.

Definition un_fn (v : wv) : option (list text * list EmitScope.node) :=
  match v with
  | WL [ps; ns] => match un_list un_text ps, un_list un_node ns with Some a, Some b => Some (a, b) | _, _ => None end
  | _ => None
  end.

Definition enc_tok (t : EmitScope.tok) : wv :=
  match t with
  | EmitScope.TOpen h => WL [WI 0; WL (map (fun n => wtext (EmitScope.render n)) h)]
  | EmitScope.TClose => WL [WI 1]
  | EmitScope.TDecl x => WL [WI 2; wtext (EmitScope.render x)]
  end.

Definition enc_body (params : list EmitScope.cname) (toks utoks : list EmitScope.tok) : wv :=
  WL [WL (map enc_tok toks); wbool (EmitScope.fn_ok params toks); wbool (EmitScope.fn_ok params utoks)].

(* op 11: the IR as _nested_blocks sees it.  [0, body, [[has_class, class, body] ...]] = TryStatement, [1, [block ...]] = other *)
Fixpoint un_enode (fuel : nat) (v : wv) : option ExcDecl.enode :=
  match fuel with
  | O => None
  | S k =>
      match v with
      | WL [WI 0; WL b; WL hs] =>
          match un_list (un_enode k) (WL b),
                un_list (fun h => match h with
                                  | WL [WI has; c; WL hb] =>
                                      match un_text c, un_list (un_enode k) (WL hb) with
                                      | Some t, Some l => Some (if has =? 1 then Some t else None, l)
                                      | _, _ => None
                                      end
                                  | _ => None
                                  end) (WL hs) with
          | Some b', Some hs' => Some (ExcDecl.XTry b' hs')
          | _, _ => None
          end
      | WL [WI 1; WL bs] =>
          match un_list (fun b => un_list (un_enode k) b) (WL bs) with
          | Some l => Some (ExcDecl.XNode l)
          | None => None
          end
      | _ => None
      end
  end.

Definition run (v : wv) : wv :=
  match v with
  | WL [WI 10; ns] =>
      match un_list un_text ns with
      | Some l => wok [WL (map (fun n => wbool (Reserved.reserved n)) l); wbool (Reserved.check_all l)]
      | None => wbad
      end
  | WL [WI 11; su; lo; fs] =>
      match un_list (un_enode 64) su, un_list (un_enode 64) lo, un_list (un_list (un_enode 64)) fs with
      | Some s, Some l, Some f =>
          let cs := ExcDecl.program_classes s l f in
          wok [WL (map wtext cs); WL (map (fun c => wtext (ExcDecl.class_decl c)) cs);
               WL (map (fun c => wtext (ExcDecl.dots_to_colons c)) cs)]
      | _, _, _ => wbad
      end
  | WL [WI 0; s] =>
      match un_text s with Some t => wok [wtext (escape t)] | None => wbad end
  | WL [WI 1; s] =>
      match un_text s with
      | Some t =>
          match clex_string t with
          | Some (c, r) => wok [wtext c; wtext r]
          | None => werr 0
          end
      | None => wbad
      end
  | WL [WI 2; s; r] =>
      match un_text s, un_text r with
      | Some t, Some rest =>
          match clex_string (c_literal t ++ rest) with
          | Some (c, r') => wok [wbool (text_eqb c t && text_eqb r' rest)]
          | None => wok [wbool false]
          end
      | _, _ => wbad
      end
  | WL [WI 3; inc; hlp; glb; fns; ult; st; lp] =>
      match un_sketch inc hlp glb fns ult st lp with
      | Some sk => enc_items (stitch sk) (guard sk) (protos sk)
      | None => wbad
      end
  | WL [WI 4; inc; hlp; glb; fns; ult; st; lp] =>
      match un_sketch inc hlp glb fns ult st lp with
      | Some sk => enc_items (stitch_noproto sk) (guard_noproto sk) []
      | None => wbad
      end
  | WL [WI 5; WL pre; WL mainopt] =>
      match C01_stmtW.dec_stmts pre,
            match mainopt with
            | [] => Some None
            | [WL b] => option_map Some (C01_stmtW.dec_stmts b)
            | _ => None end with
      | Some p, Some m =>
          match Transl.transl {| StmtAst.p_pre := p; StmtAst.p_main := m |} with
          | Some c =>
              let G := Scope.gnames (StmtAst.c_globals c) in
              wok [WI 1; wbool (Scope.scoped_b false G (StmtAst.c_setup c));
                   wbool (Scope.scoped_b false G (StmtAst.c_loop c));
                   wbool (Scope.scoped_prog true c);
                   wbool (match Scope.topdecls (StmtAst.c_setup c) with [] => true | _ => false end)]
          | None => wok [WI 0]
          end
      | _, _ => wbad
      end
  | WL [WI 6; ds] =>
      match un_list un_decl ds with
      | Some l =>
          let st := Headers.hrun l in
          wok [ WL (map (fun h => WI (enc_hdr h)) (Headers.includes l));
                WL (map (fun o => WL [WI (fst o); WI (enc_lib (snd o))]) (Headers.objects l));
                wbool (Headers.headers_ok (Headers.includes l) (Headers.objects l));
                wbool (Headers.headers_ok (Headers.includes_elif st) (Headers.objects l)) ]
      | None => wbad
      end
  | WL [WI 7; fs] =>
      match un_list un_fentry fs with
      | Some l =>
          wok [ WL (map (fun ns => WL [WI (fst ns); WL (map enc_lbl (snd ns))]) (FnSelect.select l));
                wbool (FnSelect.no_redefinition (FnSelect.cpp_defs l)) ]
      | None => wbad
      end
  | WL [WI 8; ps; ts] =>
      match un_list un_text ps, un_list un_tok ts with
      | Some p, Some l =>
          wok [ wbool (EmitScope.fn_ok (map EmitScope.CUser p) l);
                match EmitScope.first_redecl [map EmitScope.CUser p] l with Some n => wtext (EmitScope.render n) | None => wtext [] end ]
      | _, _ => wbad
      end
  | WL [WI 9; ls; bs; su; lo; fs] =>
      match un_list un_text ls, un_list un_text bs, un_list un_node su, un_list un_node lo, un_list un_fn fs with
      | Some lcds, Some btns, Some setup, Some loop, Some fns =>
          let st := {| EmitScope.e_lcds := lcds; EmitScope.e_buttons := btns; EmitScope.e_glyph := [] |} in
          let '(ts, tl, tf) := EmitScope.emit_program st setup loop fns in
          wok [ enc_body [] ts (EmitScope.user_proj st setup); enc_body [] tl (EmitScope.user_proj st loop);
                WL (map (fun pf => enc_body (map EmitScope.CUser (fst (fst pf))) (snd (snd pf)) (EmitScope.user_proj st (snd (fst pf))))
                        (combine fns tf)) ]
      | _, _, _, _, _ => wbad
      end
  | WL [WI 12; ss] =>
      (* a sequence of assignments  x = rhs  (Lang/CompScope.v): declarations, recorded types afterwards, guard, the lexical
         reference, the scope verdict of the block, and the declarations under the popping `finally` *)
      match un_list (fun p => match p with
                              | WL [x; r] => match un_text x, DeclWire.dec_rhs r with Some n, Some rr => Some (n, rr) | _, _ => None end
                              | _ => None end) ss with
      | Some l =>
          let enc_ds := fun ds : list (text * Infer.cty) => WL (map (fun d => WL [wtext (fst d); wtext (Infer.cty_text (snd d))]) ds) in
          let enc_o := fun o : option (list (text * Infer.cty)) => match o with Some ds => WL [WI 1; enc_ds ds] | None => WL [WI 0] end in
          wok [ match CompScope.run_decls [] [] None CompScope.st_empty l with
                | Some st => WL [WI 1; enc_ds (CompScope.ds_decls st);
                                 WL (map (fun d => WL [wtext (fst d); wtext (Infer.label_text (snd d))]) (CompScope.ds_types st))]
                | None => WL [WI 0]
                end;
                wbool (CompScope.pure_run [] [] None [] l);
                enc_o (CompScope.ref_decls [] [] None [] [] l);
                wbool (match EmitScope.scan [[]] (CompScope.prog_toks [] l) with Some [_] => true | _ => false end);
                enc_o (option_map CompScope.ds_decls (CompScope.run_pop [] [] None CompScope.st_empty l)) ]
      | None => wbad
      end
  | _ => wbad
  end.
