From Coq Require Import ZArith List Bool.
From RV Require Import Base.Wire Base.Text Lang.Escape Lang.Sections.
From RV Require Lang.StmtAst Lang.Transl Lang.Scope Wire.C01_stmtW.
From RV Require Lang.Headers Lang.FnSelect.
Import ListNotations.
Open Scope Z_scope.

(* cases
     (0 s)            -> (0 (escape s))
     (1 s)            -> (0 content rest)  |  (1 0)   clex_string on the raw text s
     (2 s rest)       -> the property itself on the model: lex (c_literal s ++ rest);
                         (0 1) if it yields exactly (s, rest), (0 0) otherwise
     (3 inc hlp glb fns ult setup loop)   each section a list of bodies ((defs) (uses)),
                         setup/loop one body
                      -> (0 kinds wf guard undeclared)
                         kinds = ranks of the stitched items in order,
                         undeclared = ((pos ident) ...)
     (4 ... same ...) -> the same for stitch_proto / guard_proto
     (5 pre mainopt)  -> annotated statement program (encoding of Wire/C01_stmtW.v) through
                         Lang.Transl.transl and Lang.Scope:
                         (0 1 setup_ok loop_ok all_ok_with_aug setup_has_no_toplevel_local) | (0 0) rejected
     (6 decls)        -> top-level device declarations ((name kind) ...), kind 0 none 1 Servo 2 parallel LCD 3 I2C LCD,
                         through Lang.Headers: (0 includes objects headers_ok elif_variant_ok)
                         includes = header codes 0 Arduino 1 Servo 2 LiquidCrystal 3 Wire 4 LiquidCrystal_I2C,
                         objects = ((name kind) ...)
     (7 fns)          -> the function-selection loop of parse() (Lang.FnSelect):
                         fns = ((name variants used aliases primaryopt) ...), a signature = list of labels,
                         label = 0 int 1 float 2 bool 3 String 4 void | (5 label) list | (6 code) other
                         -> (0 selected no_redefinition)   selected = ((name sig) ...) *)

Definition un_body (v : wv) : option body :=
  match v with
  | WL [d; u] =>
      match un_text d, un_text u with
      | Some ds, Some us => Some (ds, us)
      | _, _ => None
      end
  | _ => None
  end.

Fixpoint un_bodies_l (l : list wv) : option (list body) :=
  match l with
  | [] => Some []
  | v :: r =>
      match un_body v, un_bodies_l r with
      | Some b, Some bs => Some (b :: bs)
      | _, _ => None
      end
  end.

Definition un_bodies (v : wv) : option (list body) :=
  match v with WL l => un_bodies_l l | _ => None end.

Definition un_sketch (inc hlp glb fns ult st lp : wv) : option sketch :=
  match un_bodies inc, un_bodies hlp, un_bodies glb, un_bodies fns, un_bodies ult, un_body st, un_body lp with
  | Some a, Some b, Some c, Some d, Some e, Some f, Some g =>
      Some {| sk_includes := a; sk_helpers := b; sk_globals := c; sk_functions := d;
              sk_ultras := e; sk_setup := f; sk_loop := g |}
  | _, _, _, _, _, _, _ => None
  end.

Definition enc_items (l : list item) (g : bool) : wv :=
  wok [ WL (map (fun it => WI (rank (ikind it))) l);
        wbool (wf_order l);
        wbool g;
        WL (map (fun pu => WL [WI (fst pu); WI (snd pu)]) (undeclared l)) ].

Section UnList.
  Context {A : Type} (f : wv -> option A).
  Fixpoint un_list_l (l : list wv) : option (list A) :=
    match l with
    | [] => Some []
    | v :: r => match f v, un_list_l r with Some a, Some b => Some (a :: b) | _, _ => None end
    end.
  Definition un_list (v : wv) : option (list A) := match v with WL l => un_list_l l | _ => None end.
End UnList.

Definition un_decl (v : wv) : option Headers.decl :=
  match v with
  | WL [WI n; WI 0] => Some (n, None)
  | WL [WI n; WI 1] => Some (n, Some Headers.LServo)
  | WL [WI n; WI 2] => Some (n, Some Headers.LLcdPar)
  | WL [WI n; WI 3] => Some (n, Some Headers.LLcdI2C)
  | _ => None
  end.

Definition enc_lib (k : Headers.lib) : Z :=
  match k with Headers.LServo => 1 | Headers.LLcdPar => 2 | Headers.LLcdI2C => 3 end.

Definition enc_hdr (h : Headers.hdr) : Z :=
  match h with
  | Headers.HArduino => 0 | Headers.HServo => 1 | Headers.HLiquidCrystal => 2
  | Headers.HWire => 3 | Headers.HLiquidCrystalI2C => 4
  end.

Fixpoint un_lbl (v : wv) : option FnSelect.lbl :=
  match v with
  | WI 0 => Some FnSelect.LInt
  | WI 1 => Some FnSelect.LFloat
  | WI 2 => Some FnSelect.LBool
  | WI 3 => Some FnSelect.LString
  | WI 4 => Some FnSelect.LVoid
  | WL [WI 5; e] => option_map FnSelect.LList (un_lbl e)
  | WL [WI 6; WI c] => Some (FnSelect.LOther c)
  | _ => None
  end.

Fixpoint enc_lbl (l : FnSelect.lbl) : wv :=
  match l with
  | FnSelect.LInt => WI 0 | FnSelect.LFloat => WI 1 | FnSelect.LBool => WI 2
  | FnSelect.LString => WI 3 | FnSelect.LVoid => WI 4
  | FnSelect.LList e => WL [WI 5; enc_lbl e]
  | FnSelect.LOther c => WL [WI 6; WI c]
  end.

Definition un_sig : wv -> option FnSelect.sig := un_list un_lbl.

Definition un_alias (v : wv) : option (FnSelect.sig * FnSelect.sig) :=
  match v with
  | WL [a; c] => match un_sig a, un_sig c with Some x, Some y => Some (x, y) | _, _ => None end
  | _ => None
  end.

Definition un_fentry (v : wv) : option (Z * FnSelect.fentry) :=
  match v with
  | WL [WI n; vs; us; al; WL po] =>
      match un_list un_sig vs, un_list un_sig us, un_list un_alias al,
            match po with [] => Some None | [p] => option_map Some (un_sig p) | _ => None end with
      | Some a, Some b, Some c, Some d =>
          Some (n, {| FnSelect.fe_variants := a; FnSelect.fe_used := b; FnSelect.fe_aliases := c; FnSelect.fe_primary := d |})
      | _, _, _, _ => None
      end
  | _ => None
  end.

Definition run (v : wv) : wv :=
  match v with
  | WL [WI 0; s] =>
      match un_text s with Some t => wok [wtext (escape t)] | None => wbad end
  | WL [WI 1; s] =>
      match un_text s with
      | Some t =>
          match clex_string t with
          | Some (c, r) => wok [wtext c; wtext r]
          | None => werr 0
          end
      | None => wbad
      end
  | WL [WI 2; s; r] =>
      match un_text s, un_text r with
      | Some t, Some rest =>
          match clex_string (c_literal t ++ rest) with
          | Some (c, r') => wok [wbool (text_eqb c t && text_eqb r' rest)]
          | None => wok [wbool false]
          end
      | _, _ => wbad
      end
  | WL [WI 3; inc; hlp; glb; fns; ult; st; lp] =>
      match un_sketch inc hlp glb fns ult st lp with
      | Some sk => enc_items (stitch sk) (guard sk)
      | None => wbad
      end
  | WL [WI 4; inc; hlp; glb; fns; ult; st; lp] =>
      match un_sketch inc hlp glb fns ult st lp with
      | Some sk => enc_items (stitch_proto sk) (guard_proto sk)
      | None => wbad
      end
  | WL [WI 5; WL pre; WL mainopt] =>
      match C01_stmtW.dec_stmts pre,
            match mainopt with
            | [] => Some None
            | [WL b] => option_map Some (C01_stmtW.dec_stmts b)
            | _ => None end with
      | Some p, Some m =>
          match Transl.transl {| StmtAst.p_pre := p; StmtAst.p_main := m |} with
          | Some c =>
              let G := Scope.gnames (StmtAst.c_globals c) in
              wok [WI 1; wbool (Scope.scoped_b false G (StmtAst.c_setup c));
                   wbool (Scope.scoped_b false G (StmtAst.c_loop c));
                   wbool (Scope.scoped_prog true c);
                   wbool (match Scope.topdecls (StmtAst.c_setup c) with [] => true | _ => false end)]
          | None => wok [WI 0]
          end
      | _, _ => wbad
      end
  | WL [WI 6; ds] =>
      match un_list un_decl ds with
      | Some l =>
          let st := Headers.hrun l in
          wok [ WL (map (fun h => WI (enc_hdr h)) (Headers.includes l));
                WL (map (fun o => WL [WI (fst o); WI (enc_lib (snd o))]) (Headers.objects l));
                wbool (Headers.headers_ok (Headers.includes l) (Headers.objects l));
                wbool (Headers.headers_ok (Headers.includes_elif st) (Headers.objects l)) ]
      | None => wbad
      end
  | WL [WI 7; fs] =>
      match un_list un_fentry fs with
      | Some l =>
          wok [ WL (map (fun ns => WL [WI (fst ns); WL (map enc_lbl (snd ns))]) (FnSelect.select l));
                wbool (FnSelect.no_redefinition (FnSelect.cpp_defs l)) ]
      | None => wbad
      end
  | _ => wbad
  end.
