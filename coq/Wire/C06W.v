From Coq Require Import ZArith List Bool.
From RV Require Import Base.Wire Base.Text Lang.Escape Lang.Sections.
From RV Require Lang.StmtAst Lang.Transl Lang.Scope Wire.C01_stmtW.
Import ListNotations.
Open Scope Z_scope.

(* cases
     (0 s)            -> (0 (escape s))
     (1 s)            -> (0 content rest)  |  (1 0)   clex_string on the raw text s
     (2 s rest)       -> the property itself on the model: lex (c_literal s ++ rest);
                         (0 1) if it yields exactly (s, rest), (0 0) otherwise
     (3 inc hlp glb fns ult setup loop)   each section a list of bodies ((defs) (uses)),
                         setup/loop one body
                      -> (0 kinds wf guard undeclared)
                         kinds = ranks of the stitched items in order,
                         undeclared = ((pos ident) ...)
     (4 ... same ...) -> the same for stitch_proto / guard_proto
     (5 pre mainopt)  -> annotated statement program (encoding of Wire/C01_stmtW.v) through
                         Lang.Transl.transl and Lang.Scope:
                         (0 1 setup_ok loop_ok all_ok_with_aug setup_has_no_toplevel_local) | (0 0) rejected *)

Definition un_body (v : wv) : option body :=
  match v with
  | WL [d; u] =>
      match un_text d, un_text u with
      | Some ds, Some us => Some (ds, us)
      | _, _ => None
      end
  | _ => None
  end.

Fixpoint un_bodies_l (l : list wv) : option (list body) :=
  match l with
  | [] => Some []
  | v :: r =>
      match un_body v, un_bodies_l r with
      | Some b, Some bs => Some (b :: bs)
      | _, _ => None
      end
  end.

Definition un_bodies (v : wv) : option (list body) :=
  match v with WL l => un_bodies_l l | _ => None end.

Definition un_sketch (inc hlp glb fns ult st lp : wv) : option sketch :=
  match un_bodies inc, un_bodies hlp, un_bodies glb, un_bodies fns, un_bodies ult, un_body st, un_body lp with
  | Some a, Some b, Some c, Some d, Some e, Some f, Some g =>
      Some {| sk_includes := a; sk_helpers := b; sk_globals := c; sk_functions := d;
              sk_ultras := e; sk_setup := f; sk_loop := g |}
  | _, _, _, _, _, _, _ => None
  end.

Definition enc_items (l : list item) (g : bool) : wv :=
  wok [ WL (map (fun it => WI (rank (ikind it))) l);
        wbool (wf_order l);
        wbool g;
        WL (map (fun pu => WL [WI (fst pu); WI (snd pu)]) (undeclared l)) ].

Definition run (v : wv) : wv :=
  match v with
  | WL [WI 0; s] =>
      match un_text s with Some t => wok [wtext (escape t)] | None => wbad end
  | WL [WI 1; s] =>
      match un_text s with
      | Some t =>
          match clex_string t with
          | Some (c, r) => wok [wtext c; wtext r]
          | None => werr 0
          end
      | None => wbad
      end
  | WL [WI 2; s; r] =>
      match un_text s, un_text r with
      | Some t, Some rest =>
          match clex_string (c_literal t ++ rest) with
          | Some (c, r') => wok [wbool (text_eqb c t && text_eqb r' rest)]
          | None => wok [wbool false]
          end
      | _, _ => wbad
      end
  | WL [WI 3; inc; hlp; glb; fns; ult; st; lp] =>
      match un_sketch inc hlp glb fns ult st lp with
      | Some sk => enc_items (stitch sk) (guard sk)
      | None => wbad
      end
  | WL [WI 4; inc; hlp; glb; fns; ult; st; lp] =>
      match un_sketch inc hlp glb fns ult st lp with
      | Some sk => enc_items (stitch_proto sk) (guard_proto sk)
      | None => wbad
      end
  | WL [WI 5; WL pre; WL mainopt] =>
      match C01_stmtW.dec_stmts pre,
            match mainopt with
            | [] => Some None
            | [WL b] => option_map Some (C01_stmtW.dec_stmts b)
            | _ => None end with
      | Some p, Some m =>
          match Transl.transl {| StmtAst.p_pre := p; StmtAst.p_main := m |} with
          | Some c =>
              let G := Scope.gnames (StmtAst.c_globals c) in
              wok [WI 1; wbool (Scope.scoped_b false G (StmtAst.c_setup c));
                   wbool (Scope.scoped_b false G (StmtAst.c_loop c));
                   wbool (Scope.scoped_prog true c);
                   wbool (match Scope.topdecls (StmtAst.c_setup c) with [] => true | _ => false end)]
          | None => wok [WI 0]
          end
      | _, _ => wbad
      end
  | _ => wbad
  end.
