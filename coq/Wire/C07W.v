From Coq Require Import ZArith List Bool.
From RV Require Import Base.Wire Base.Text Lang.Rx Lang.Lex Lang.PyLayout Lang.Layout Lang.DispatchSpec Lang.EmitBlocks Lang.LineShapes Lang.LineDispatch Lang.Promote Lang.EmitStmt Lang.TopFlow Gen.LineRx.
Import ListNotations.
Open Scope Z_scope.

Fixpoint un_texts_l (l : list wv) : option (list text) :=
  match l with
  | [] => Some []
  | x :: r => match un_text x, un_texts_l r with Some t, Some ts => Some (t :: ts) | _, _ => None end
  end.
Definition un_texts (v : wv) : option (list text) := match v with WL l => un_texts_l l | _ => None end.
Definition un_nat (v : wv) : option nat :=
  match v with WI z => if z <? 0 then None else Some (Z.to_nat z) | _ => None end.
Definition wnat (n : nat) : wv := WI (Z.of_nat n).
Definition wtexts (l : list text) : wv := WL (map wtext l).

Definition dec_kind (z : Z) : option hkind :=
  match z with 0 => Some KIf | 1 => Some KElif | 2 => Some KElse | 3 => Some KTry | 4 => Some KExcept
             | 5 => Some KWhile | 6 => Some KFor | _ => None end.
Definition enc_kind (k : hkind) : Z :=
  match k with KIf => 0 | KElif => 1 | KElse => 2 | KTry => 3 | KExcept => 4 | KWhile => 5 | KFor => 6 end.

Fixpoint dec_ltree (v : wv) : option ltree :=
  let fix decs (l : list wv) : option (list ltree) :=
    match l with
    | [] => Some []
    | x :: r => match dec_ltree x, decs r with Some e, Some es => Some (e :: es) | _, _ => None end
    end in
  match v with
  | WL [WI 0; pre; s; tr] =>
      match un_texts pre, un_text s, un_text tr with
      | Some p, Some s', Some t => Some (LLeaf p s' t) | _, _, _ => None end
  | WL [WI 1; pre; WI k; h; tr; WL body] =>
      match un_texts pre, dec_kind k, un_text h, un_text tr, decs body with
      | Some p, Some k', Some h', Some t, Some b => Some (LBlock p k' h' t b) | _, _, _, _, _ => None end
  | _ => None
  end.
Fixpoint dec_ltrees (l : list wv) : option (list ltree) :=
  match l with
  | [] => Some []
  | x :: r => match dec_ltree x, dec_ltrees r with Some e, Some es => Some (e :: es) | _, _ => None end
  end.
Definition dec_ltop (v : wv) : option ltop :=
  match v with
  | WL [WI 0; WL ns] => option_map LChain (dec_ltrees ns)
  | WL [WI 1; pre; h; tr; WL body] =>
      match un_texts pre, un_text h, un_text tr, dec_ltrees body with
      | Some p, Some h', Some t, Some b => Some (LMain p h' t b) | _, _, _, _ => None end
  | WL [WI 2; pre; h; tr; WL body] =>
      match un_texts pre, un_text h, un_text tr, dec_ltrees body with
      | Some p, Some h', Some t, Some b => Some (LDef p h' t b) | _, _, _, _ => None end
  | WL [WI 3; pre; s; tr] =>
      match un_texts pre, un_text s, un_text tr with
      | Some p, Some s', Some t => Some (LImp p s' t) | _, _, _ => None end
  | _ => None
  end.
Fixpoint dec_ltops (l : list wv) : option (list ltop) :=
  match l with
  | [] => Some []
  | x :: r => match dec_ltop x, dec_ltops r with Some e, Some es => Some (e :: es) | _, _ => None end
  end.

Fixpoint enc_stree (t : stree) : wv :=
  match t with
  | SLeaf s => WL [WI 0; wtext s]
  | SBlock k h body => WL [WI 1; WI (enc_kind k); wtext h; WL (map enc_stree body)]
  end.
Definition enc_sitem (i : sitem) : wv :=
  match i with
  | SSetup ns => WL [WI 0; WL (map enc_stree ns)]
  | SLoop ns => WL [WI 1; WL (map enc_stree ns)]
  | SDef h ns => WL [WI 2; wtext h; WL (map enc_stree ns)]
  end.


(* ---- firmware side (Lang/EmitBlocks.v) *)
Fixpoint dec_ir (v : wv) : option ir :=
  let fix decs (l : list wv) : option (list ir) :=
    match l with
    | [] => Some []
    | x :: r => match dec_ir x, decs r with Some e, Some es => Some (e :: es) | _, _ => None end
    end in
  let fix decb (l : list wv) : option (list (text * list ir)) :=
    match l with
    | [] => Some []
    | WL [c; WL b] :: r =>
        match un_text c, decs b, decb r with Some c', Some b', Some r' => Some ((c', b') :: r') | _, _, _ => None end
    | _ => None
    end in
  match v with
  | WL [WI 0; cl] => option_map ILeaf (un_texts cl)
  | WL [WI 1; WL brs; WL els] =>
      match decb brs, decs els with Some b, Some e => Some (IIf b e) | _, _ => None end
  | WL [WI 2; c; WL b] =>
      match un_text c, decs b with Some c', Some b' => Some (IWhile c' b') | _, _ => None end
  | WL [WI 3; x; n; WL b] =>
      match un_text x, un_text n, decs b with Some x', Some n', Some b' => Some (IFor x' n' b') | _, _, _ => None end
  | WL [WI 4; WL b; WL hs] =>
      match decs b, decb hs with Some b', Some h' => Some (ITry b' h') | _, _ => None end
  | _ => None
  end.
Fixpoint dec_irs (l : list wv) : option (list ir) :=
  match l with
  | [] => Some []
  | x :: r => match dec_ir x, dec_irs r with Some e, Some es => Some (e :: es) | _, _ => None end
  end.

Fixpoint enc_ctree (t : ctree) : wv :=
  match t with
  | CLine s => WL [WI 0; wtext s]
  | CBlock h b => WL [WI 1; wtext h; WL (map enc_ctree b)]
  end.
Definition enc_ctrees (o : option (list ctree)) : wv := wopt (fun ts => WL (map enc_ctree ts)) o.

Definition enc_pstep (p : pstep) : wv :=
  match p with
  | PChain neg own => WL [WI 0; wtexts neg; wopt wtext own]
  | POther h => WL [WI 1; wtext h]
  end.
Definition enc_paths (o : option (list (list pstep * text))) : wv :=
  wopt (fun ps => WL (map (fun e => WL [WL (map enc_pstep (fst e)); wtext (snd e)]) ps)) o.

(* association tables sent by the harness for the statement layer (not modelled here) *)
Fixpoint dec_tbl (l : list wv) : option (list (text * list (list text))) :=
  match l with
  | [] => Some []
  | WL [k; WL nodes] :: r =>
      let fix dn (ns : list wv) : option (list (list text)) :=
        match ns with
        | [] => Some []
        | x :: q => match un_texts x, dn q with Some a, Some b => Some (a :: b) | _, _ => None end
        end in
      match un_text k, dn nodes, dec_tbl r with
      | Some k', Some n', Some r' => Some ((k', n') :: r') | _, _, _ => None end
  | _ => None
  end.
Fixpoint dec_tbl1 (l : list wv) : option (list (text * text)) :=
  match l with
  | [] => Some []
  | WL [k; v] :: r =>
      match un_text k, un_text v, dec_tbl1 r with
      | Some k', Some v', Some r' => Some ((k', v') :: r') | _, _, _ => None end
  | _ => None
  end.
Definition look1 (t : list (text * text)) (k : text) : text :=
  match tlookup k t with Some v => v | None => k end.
Definition lookn (t : list (text * list (list text))) (k : text) : list (list text) :=
  match tlookup k t with Some v => v | None => [[k]] end.

Definition enc_span (r : list text * nat) : wv := wok [wtexts (fst r); wnat (snd r)].

(* ---- statement recognisers (Lang/Rx.v, Lang/LineDispatch.v, Gen/LineRx.v) *)
Definition searched_ids : list Z :=
  flat_map (fun s => match s with StSearch i _ => [i] | _ => [] end) chain.
Definition rx_verdict (line : text) (p : Z * rx) : bool :=
  if existsb (Z.eqb (fst p)) searched_ids then rx_search_nb (snd p) None line else rx_match (snd p) line.
Definition enc_handler (h : handler) : wv :=
  match h with
  | HImport i => WL [WI 0; WI i] | HEq t => WL [WI 1; wtext t] | HPrefix t => WL [WI 2; wtext t]
  | HRx i => WL [WI 3; WI i] | HSearch i => WL [WI 4; WI i] | HAssign => WL [WI 5] | HTail => WL [WI 6]
  end.
Fixpoint un_sets (l : list wv) : option (list (list text)) :=
  match l with
  | [] => Some []
  | x :: r => match un_texts x, un_sets r with Some a, Some b => Some (a :: b) | _, _ => None end
  end.
Definition un_bool (v : wv) : option bool := match v with WI 0 => Some false | WI 1 => Some true | _ => None end.
Fixpoint un_gaps (l : list wv) : option (list text) :=
  match l with
  | [] => Some []
  | x :: r => match un_text x, un_gaps r with Some a, Some b => Some (a :: b) | _, _ => None end
  end.

(* ---- statement layer (Lang/Promote.v, Lang/EmitStmt.v) *)
Definition dec_phdr (v : wv) : option phdr :=
  match v with
  | WL [WI 0; c] => option_map HIf (un_text c)
  | WL [WI 1; c] => option_map HElif (un_text c)
  | WL [WI 2] => Some HElse
  | WL [WI 3; c] => option_map HWhile (un_text c)
  | WL [WI 4; x; n] => match un_text x, un_text n with Some x', Some n' => Some (HFor x' n') | _, _ => None end
  | WL [WI 5] => Some HTry
  | WL [WI 6; c] => option_map HCatch (un_text c)
  | _ => None
  end.
Definition enc_phdr (h : phdr) : wv :=
  match h with
  | HIf c => WL [WI 0; wtext c] | HElif c => WL [WI 1; wtext c] | HElse => WL [WI 2]
  | HWhile c => WL [WI 3; wtext c] | HFor x n => WL [WI 4; wtext x; wtext n] | HTry => WL [WI 5]
  | HCatch c => WL [WI 6; wtext c]
  end.
Fixpoint dec_pn (v : wv) : option pn :=
  let fix decs (l : list wv) : option (list pn) :=
    match l with
    | [] => Some []
    | x :: r => match dec_pn x, decs r with Some e, Some es => Some (e :: es) | _, _ => None end
    end in
  match v with
  | WL [WI 0; n; t; e; g] =>
      match un_text n, un_text t, un_text e, un_bool g with
      | Some n', Some t', Some e', Some g' => Some (PDecl n' t' e' g') | _, _, _, _ => None end
  | WL [WI 1; n; e] => match un_text n, un_text e with Some n', Some e' => Some (PAssign n' e') | _, _ => None end
  | WL [WI 2; cl] => option_map PSimple (un_texts cl)
  | WL [WI 3; h; WL b] => match dec_phdr h, decs b with Some h', Some b' => Some (PCtl h' b') | _, _ => None end
  | _ => None
  end.
Fixpoint dec_pns (l : list wv) : option (list pn) :=
  match l with
  | [] => Some []
  | x :: r => match dec_pn x, dec_pns r with Some e, Some es => Some (e :: es) | _, _ => None end
  end.
Fixpoint enc_pn (n : pn) : wv :=
  match n with
  | PDecl a t e g => WL [WI 0; wtext a; wtext t; wtext e; wbool g]
  | PAssign a e => WL [WI 1; wtext a; wtext e]
  | PSimple cl => WL [WI 2; wtexts cl]
  | PCtl h b => WL [WI 3; enc_phdr h; WL (map enc_pn b)]
  end.
Definition enc_pitem (e : list phdr * pitem) : wv :=
  WL [WL (map enc_phdr (fst e));
      match snd e with ItAssign n x => WL [WI 0; wtext n; wtext x] | ItOther cl => WL [WI 1; wtexts cl] end].

Fixpoint dec_keys (l : list wv) : option (list key) :=
  match l with
  | [] => Some []
  | x :: r => match un_texts x, dec_keys r with Some a, Some b => Some (a :: b) | _, _ => None end
  end.
Fixpoint dec_pins (l : list wv) : option (list (key * text)) :=
  match l with
  | [] => Some []
  | WL [k; t] :: r => match un_texts k, un_text t, dec_pins r with Some k', Some t', Some r' => Some ((k', t') :: r') | _, _, _ => None end
  | _ => None
  end.
Fixpoint dec_sn (v : wv) : option sn :=
  let fix decs (l : list wv) : option (list sn) :=
    match l with
    | [] => Some []
    | x :: r => match dec_sn x, decs r with Some e, Some es => Some (e :: es) | _, _ => None end
    end in
  match v with
  | WL [WI 0; cl] => option_map SStmt (un_texts cl)
  | WL [WI 1; u; WL pins; tl] =>
      match un_bool u, dec_pins pins, un_texts tl with
      | Some u', Some p', Some t' => Some (SDecl u' p' t') | _, _, _ => None end
  | WL [WI 3; o; h; WL b] =>
      match un_bool o, un_text h, decs b with Some o', Some h', Some b' => Some (SCtl o' h' b') | _, _, _ => None end
  | _ => None
  end.
Fixpoint dec_sns (l : list wv) : option (list sn) :=
  match l with
  | [] => Some []
  | x :: r => match dec_sn x, dec_sns r with Some e, Some es => Some (e :: es) | _, _ => None end
  end.
Definition enc_keys (l : list key) : wv := WL (map wtexts l).

Definition run (v : wv) : wv :=
  match v with
  | WL [WI 21; WI mode; names; WL tys; top; WL ns] =>
      (* variable promotion: 0 _rewrite_nodes, 1 the if handler's _rewrite, 2 _make_promotion_decls; with the SPEC views *)
      match un_texts names, dec_tbl1 tys, un_bool top, dec_pns ns with
      | Some p, Some ty, Some tp, Some nodes =>
          let out := match mode with 0 => rewrite p nodes | 1 => rewrite_if p nodes | _ => make_decls p ty tp end in
          wok [WL (map enc_pn out); WL (map enc_pitem (items [] out)); WL (map enc_pitem (items [] nodes));
               wbool (forallb is_placeholder out)]
      | _, _, _, _ => wbad end
  | WL [WI 22; b; i; WL pm; WL us; WL ns] =>
      (* _emit_block with its two de-duplication sets: lines, sets afterwards; the statement lines alone (SPEC) *)
      match un_bool b, un_text i, dec_keys pm, dec_keys us, dec_sns ns with
      | Some b', Some ind, Some pm', Some us', Some nodes =>
          let r := emit_sl b' ind nodes (pm', us') in
          wok [wtexts (fst r); enc_keys (fst (snd r)); enc_keys (snd (snd r)); wtexts (emit_pl ind (map stmt_only nodes))]
      | _, _, _, _, _ => wbad end
  | WL [WI 17; l] =>
      (* every regenerated RE_* pattern on the line, in table order *)
      match un_text l with
      | Some t => wok [WL (map (fun p => wbool (rx_verdict t p)) rx_table)]
      | None => wbad end
  | WL [WI 18; a; WL ss; l] =>
      (* the dispatch loop: patterns tried with outcome, handler; the recognisers parse() applies first *)
      match un_bool a, un_sets ss, un_text l with
      | Some asg, Some sets, Some t =>
          let r := dispatch chain asg sets t in
          wok [WL (map (fun e => WL [WI (fst e); wbool (snd e)]) (fst r)); enc_handler (snd r);
               wtext (lead_ident t); wbool (top_target t)]
      | _, _, _ => wbad end
  | WL [WI 23; e; l] =>
      (* the end of the dispatch loop: what happens to a line no recogniser took (0 expression branch, 1 skipped:
         no meaning on the device, 2 rejected, 3 dropped); whether a failed expression translation raises *)
      match un_bool e, un_text l with
      | Some isexpr, Some t =>
          wok [WI (tail_class_id (tail_class_of tail_benign_eq tail_benign_rx tail_rejects isexpr t));
               wbool tail_expr_failure_rejects;
               WL (map (fun e => WL [WI (fst e); wbool (snd e)]) (tail_trace tail_benign_eq tail_benign_rx isexpr t))]
      | _, _ => wbad end
  | WL [WI 20; WI k; nm; me; ar; WL gs] =>
      (* SPEC renderers of the spacing theorems: the line, is it inside the guard, what its shape says *)
      match un_text nm, un_text me, un_text ar, un_gaps gs with
      | Some name, Some meth, Some args, Some [g0; g1; g2; g3; g4] =>
          let gaps_ok := gap g0 && gap g1 && gap g2 && gap g3 && gap g4 in
          match k with
          | 0 => wok [wtext (line_call0 name meth g0 g1 g2 g3); wbool (gaps_ok && is_ident name && is_nil g1 && is_nil g2);
                      wbool (rx_match (sh_method0 meth) (line_call0 name meth g0 g1 g2 g3))]
          | 1 => wok [wtext (line_call name meth args g0 g1 g2 g3 g4); wbool (gaps_ok && is_ident name && one_line args && is_nil g1 && is_nil g2);
                      wbool (rx_match (sh_method meth) (line_call name meth args g0 g1 g2 g3 g4))]
          | 2 => wok [wtext (line_decl name meth args g0 g1 g2 g3 g4); wbool (gaps_ok && is_ident name && one_line args);
                      wbool (rx_match (sh_decl meth) (line_decl name meth args g0 g1 g2 g3 g4))]
          | 3 => wok [wtext (line_sleep args g0 g1 g2); wbool (gaps_ok && one_line args && negb (is_nil args));
                      wbool (rx_match sh_sleep (line_sleep args g0 g1 g2))]
          | _ => werr 1
          end
      | _, _, _, _ => wbad end
  | WL [WI 0; l] => match un_text l with Some t => wok [wnat (indent_of t)] | None => wbad end
  | WL [WI 1; l] => match un_text l with Some t => wok [wtext (strip_inline_comment t)] | None => wbad end
  | WL [WI 2; ls; st] =>
      match un_texts ls, un_nat st with
      | Some lines, Some start =>
          if (start <? length lines)%nat then enc_span (collect_block lines start) else werr 1
      | _, _ => wbad end
  | WL [WI 3; ls; st] =>
      match un_texts ls, un_nat st with
      | Some lines, Some start =>
          if (start <? length lines)%nat then enc_span (collect_if_structure lines start) else werr 1
      | _, _ => wbad end
  | WL [WI 4; ls; st] =>
      match un_texts ls, un_nat st with
      | Some lines, Some start =>
          if (start <? length lines)%nat then enc_span (collect_try_structure lines start) else werr 1
      | _, _ => wbad end
  | WL [WI 5; ls] =>
      match un_texts ls with
      | Some lines => wok [WL (map (fun e => match e with (sc, d, sn) => WL [WI sc; wnat d; wtexts sn] end) (call_trace lines))]
      | None => wbad end
  | WL [WI 24; ls] =>
      (* parse() with the seen_main_loop flag: accepted?, the calls made before the rejection (or all of them),
         the variant segment of every def taken, position of the main loop among the items *)
      match un_texts ls with
      | Some lines =>
          let enc_calls := fun cs => WL (map (fun e => match e with (sc, d, sn) => WL [WI sc; wnat d; wtexts sn] end) cs) in
          wok [wbool (match parse_flow lines with Some _ => true | None => false end);
               enc_calls (flow_trace lines);
               WL (map enc_calls (variant_segments lines));
               WL (map (fun it => wbool (is_loop it)) (flow_prefix (S (length lines)) false lines))]
      | None => wbad end
  | WL [WI 25; ls; WL real] =>
      (* is the observed call trace the script's own trace with variant segments of its defs inserted? *)
      match un_texts ls with
      | Some lines =>
          let dec_call := fun w => match w with
                                   | WL [WI sc; d; sn] => match un_nat d, un_texts sn with
                                                          | Some d', Some sn' => Some (sc, d', sn')
                                                          | _, _ => None end
                                   | _ => None end in
          let real' := flat_map (fun w => match dec_call w with Some c => [c] | None => [] end) real in
          if (length real' =? length real)%nat
          then wok [wbool (explain (S (length real')) (variant_segments lines) (flow_trace lines) real');
                    wbool (explain_p true (S (length real')) (variant_segments lines) (flow_trace lines) real')]
          else wbad
      | None => wbad end
  | WL [WI 6; l] =>
      match un_text l with
      | Some t => wok (map wbool [re_if t; re_elif t; re_else t; re_try t; re_except t; re_while t;
                                  re_while_true t; re_for_range t; re_def t; top_import t])
      | None => wbad end
  | WL [WI 7; l] =>
      match un_text l with
      | Some t => wok [wnat (py_indent t); wtext (py_strip_comment t); wbool (py_has_comment t);
                       wbool (no_triple_quote t); wbool (no_code_backslash PCode t); wbool (py_logical t)]
      | None => wbad end
  | WL [WI 8; ls; st] =>
      match un_texts ls, un_nat st with
      | Some lines, Some start =>
          if (start <? length lines)%nat
          then wok [wtexts (fst (py_block lines start)); wnat (snd (py_block lines start)); wbool (block_guard lines start)]
          else werr 1
      | _, _ => wbad end
  | WL [WI 9; u; WL tops; junk] =>
      match un_text u, dec_ltops tops, un_texts junk with
      | Some u', Some ts, Some j =>
          wok [wtexts (render_top (ind_unit u') ts j); WL (map enc_sitem (lerase_tops ts))]
      | _, _, _ => wbad end
  | WL [WI 10; ls] =>
      match un_texts ls with
      | Some lines => wok [WL (map enc_sitem (map erase_item (parse_top lines)))]
      | None => wbad end
  | WL [WI 11; u; WL ns] =>
      match un_text u, dec_ltrees ns with
      | Some u', Some ts =>
          wok [wtexts (render_list (ind_unit u') O ts); wbool (layout_ok u' ts);
               WL (map enc_stree (map erase (parse_lines (render_list (ind_unit u') O ts))))]
      | _, _ => wbad end
  | WL [WI 13; u; WL tops; junk] =>
      match un_text u, dec_ltops tops, un_texts junk with
      | Some u', Some ts, Some j => wok [wbool (top_layout_ok u' ts j)]
      | _, _, _ => wbad end
  | WL [WI 14; i; WL ns] =>
      (* _emit_block on an IR control skeleton: the lines, the guard, the lines read back as C++ *)
      match un_text i, dec_irs ns with
      | Some ind, Some irs =>
          wok [wtexts (emit_list ind irs); wbool (irs_ok irs && is_blank ind);
               enc_ctrees (c_read (emit_list ind irs)); WL (map enc_ctree (irs_c irs))]
      | _, _ => wbad end
  | WL [WI 15; ls] =>
      (* the SPEC reader of C++ compound statements and the conditions every line runs under *)
      match un_texts ls with
      | Some lines => wok [enc_ctrees (c_read lines); enc_paths (fw_paths lines)]
      | None => wbad end
  | WL [WI 16; ls; WL t; WL c; WL fv; WL fn; WL ex] =>
      (* script snippet -> lexical skeleton -> IR -> firmware lines; and what Python's block tree prescribes *)
      match un_texts ls, dec_tbl t, dec_tbl1 c, dec_tbl1 fv, dec_tbl1 fn, dec_tbl1 ex with
      | Some lines, Some tS, Some tc, Some tv, Some tn, Some te =>
          let sk := map erase (parse_lines lines) in
          let irs := to_ir (lookn tS) (look1 tc) (look1 tv) (look1 tn) (look1 te) sk in
          wok [wbool (chain_ok (lookn tS) PvNone sk);
               WL (map enc_ctree (py_cs (lookn tS) (look1 tc) (look1 tv) (look1 tn) (look1 te) sk));
               wtexts (emit_list s_two irs);
               enc_ctrees (c_read (emit_list s_two irs))]
      | _, _, _, _, _, _ => wbad end
  | WL [WI 12; k; c; o] =>
      (* the line-accounting SPEC applied to one observed row: kind index, context index, outcome
         (0 translated, 1 rejected, 2 ignored) -> allowed, known gap, row_ok, row_pinned_ok *)
      match un_nat k, un_nat c, un_nat o with
      | Some kn, Some cn, Some on =>
          match find (fun x => Nat.eqb (kind_id x) kn) all_kinds,
                find (fun x => Nat.eqb (ctx_id x) cn) all_contexts,
                nth_error [Translated; Rejected; Ignored] on with
          | Some k', Some c', Some o' =>
              wok [wbool (allowed k'); wbool (known_gap k' c'); wbool (row_ok (k', c', o'));
                   wbool (row_pinned_ok (k', c', o'))]
          | _, _, _ => werr 1
          end
      | _, _, _ => wbad end
  | _ => wbad
  end.
