(* wire interface of the C08 model (extracted, run against the real parser and the real
   inspect.signature binder by harness/props/c08.py) *)
From Coq Require Import String Ascii ZArith List Bool Arith.
From RV Require Import Base.Wire Base.Text Lang.Sig Gen.Signatures Lang.Bind.
Import ListNotations.
Open Scope Z_scope.

Definition wnat (n : nat) : wv := WI (Z.of_nat n).

Definition wdval (d : dval) : wv :=
  match d with
  | DNone => WL [WI 0]
  | DNum n dn => WL [WI 1; WI n; WI dn]
  | DStr t => WL [WI 2; wtext t]
  | DBool b => WL [WI 3; wbool b]
  end.

Definition wslot (s : slot) : wv :=
  match s with
  | STag (TPos i) => WL [WI 0; wnat i]
  | STag (TKw k) => WL [WI 1; wtext k]
  | SDefault d => WL [WI 2; wdval d]
  end.

Definition wbinding (b : binding) : wv := WL (map (fun ns => WL [wtext (fst ns); wslot (snd ns)]) b).

Fixpoint un_texts (l : list wv) : option (list text) :=
  match l with
  | [] => Some []
  | v :: r => match un_text v, un_texts r with Some t, Some ts => Some (t :: ts) | _, _ => None end
  end.

Definition un_shape (n : wv) (ks : wv) : option call_shape :=
  match n, ks with
  | WI z, WL l => if z <? 0 then None else
                  match un_texts l with Some ts => Some (mk_shape (Z.to_nat z) ts) | None => None end
  | _, _ => None
  end.

(* (0 m npos (kw ...))  -> redu_bind          : (0 binding) | (1)
   (1 m npos (kw ...))  -> py_bind            : (0 binding) | (1)
   (2 m npos (kw ...))  -> guard_ok (guard_of m)
   (3)                  -> table summary: ((name translated device-params guarded) ...) + the RGBLed.on flag *)
Definition run (v : wv) : wv :=
  match v with
  | WL [WI 0; m; n; ks] =>
      match un_text m, un_shape n ks with
      | Some m, Some sh =>
          match redu_bind m sh with Rejected => WL [WI 1] | Bound b => WL [WI 0; wbinding b] end
      | _, _ => wbad
      end
  | WL [WI 1; m; n; ks] =>
      match un_text m, un_shape n ks with
      | Some m, Some sh =>
          match py_bind (sig_of m) sh with None => WL [WI 1] | Some b => WL [WI 0; wbinding b] end
      | _, _ => wbad
      end
  | WL [WI 2; m; n; ks] =>
      match un_text m, un_shape n ks with
      | Some m, Some sh => WL [WI 0; wbool (guard_ok (guard_of m) sh)]
      | _, _ => wbad
      end
  | WL [WI 3] =>
      WL [WL (map (fun m => WL [wtext m; wbool true; WL (map wtext (device_params m)); wbool (negb (unguarded m))])
                  translated_methods
              ++ map (fun m => WL [wtext m; wbool false; WL []; wbool false]) host_only_methods);
          wbool rgb_on_keyword_fix_landed]
  | _ => wbad
  end.
