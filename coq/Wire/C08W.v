(* wire interface of the C08 model (extracted, run against the real parser and the real
   inspect.signature binder by harness/props/c08.py) *)
From Coq Require Import String Ascii ZArith List Bool Arith.
From RV Require Import Base.Wire Base.Text Lang.Sig Gen.Signatures Lang.Bind Lang.EmitTypes Gen.EmitStage Lang.BindEmit.
Import ListNotations.
Open Scope Z_scope.

Definition wnat (n : nat) : wv := WI (Z.of_nat n).

Definition wdval (d : dval) : wv :=
  match d with
  | DNone => WL [WI 0]
  | DNum n dn => WL [WI 1; WI n; WI dn]
  | DStr t => WL [WI 2; wtext t]
  | DBool b => WL [WI 3; wbool b]
  end.

Definition wslot (s : slot) : wv :=
  match s with
  | STag (TPos i) => WL [WI 0; wnat i]
  | STag (TKw k) => WL [WI 1; wtext k]
  | SDefault d => WL [WI 2; wdval d]
  end.

Definition wbinding (b : binding) : wv := WL (map (fun ns => WL [wtext (fst ns); wslot (snd ns)]) b).

Fixpoint un_texts (l : list wv) : option (list text) :=
  match l with
  | [] => Some []
  | v :: r => match un_text v, un_texts r with Some t, Some ts => Some (t :: ts) | _, _ => None end
  end.

Definition un_shape (n : wv) (ks : wv) : option call_shape :=
  match n, ks with
  | WI z, WL l => if z <? 0 then None else
                  match un_texts l with Some ts => Some (mk_shape (Z.to_nat z) ts) | None => None end
  | _, _ => None
  end.

(* ---- emitter stage *)
Definition un_fval (v : wv) : option fval :=
  match v with
  | WL [WI 0] => Some (FConst CNone)
  | WL [WI 1; WI n; WI d] => Some (FConst (CNum n d))
  | WL [WI 2; t] => match un_text t with Some t => Some (FConst (CStr t)) | None => None end
  | WL [WI 3; WI b] => Some (FConst (CBool (negb (b =? 0))))
  | WL [WI 4; t] => match un_text t with Some t => Some (FExpr t) | None => None end
  | _ => None
  end.

Fixpoint un_fvals (l : list wv) : option (list fval) :=
  match l with
  | [] => Some []
  | v :: r => match un_fval v, un_fvals r with Some x, Some xs => Some (x :: xs) | _, _ => None end
  end.

Definition wfval (v : fval) : wv :=
  match v with
  | FConst CNone => WL [WI 0]
  | FConst (CNum n d) => WL [WI 1; WI n; WI d]
  | FConst (CStr t) => WL [WI 2; wtext t]
  | FConst (CBool b) => WL [WI 3; wbool b]
  | FExpr e => WL [WI 4; wtext e]
  end.

Definition wsarg (a : sarg) : wv := match a with AOmitted => WL [WI 0] | AGiven v => WL [WI 1; wfval v] end.

Definition wptest (t : ptest) : wv :=
  WI (match t with PAlways => 0 | PNotNone => 1 | PTruthy => 2 | PNoneAsZero => 3 | PUnread => 4 end).

(* values of the arguments of one call: positional values in order, keyword values in the order of the keywords *)
Definition mk_val (pv kv : list fval) (ks : list text) : tag -> fval :=
  fun t => match t with
           | TPos i => nth i pv (FExpr [])
           | TKw k => match tlookup k (combine ks kv) with Some v => v | None => FExpr [] end
           end.

(* (0 m npos (kw ...))  -> redu_bind          : (0 binding) | (1)
   (1 m npos (kw ...))  -> py_bind            : (0 binding) | (1)
   (2 m npos (kw ...))  -> guard_ok (guard_of m)
   (3)                  -> table summary: ((name translated device-params guarded) ...)
   (4)                  -> parameter -> IR field table: ((method kind ((param field test guarded) ...)) ...)
   (5 m npos (kw ...) (positional values) (keyword values)) -> firmware arguments of the bound call:
                           (0 ((param sarg) ...)) | (1) rejected *)
Definition run (v : wv) : wv :=
  match v with
  | WL [WI 0; m; n; ks] =>
      match un_text m, un_shape n ks with
      | Some m, Some sh =>
          match redu_bind m sh with Rejected => WL [WI 1] | Bound b => WL [WI 0; wbinding b] end
      | _, _ => wbad
      end
  | WL [WI 1; m; n; ks] =>
      match un_text m, un_shape n ks with
      | Some m, Some sh =>
          match py_bind (sig_of m) sh with None => WL [WI 1] | Some b => WL [WI 0; wbinding b] end
      | _, _ => wbad
      end
  | WL [WI 2; m; n; ks] =>
      match un_text m, un_shape n ks with
      | Some m, Some sh => WL [WI 0; wbool (guard_ok (guard_of m) sh)]
      | _, _ => wbad
      end
  | WL [WI 3] =>
      WL [WL (map (fun m => WL [wtext m; wbool true; WL (map wtext (device_params m)); wbool (negb (unguarded m))])
                  translated_methods
              ++ map (fun m => WL [wtext m; wbool false; WL []; wbool false]) host_only_methods)]
  | WL [WI 4] =>
      WL [WL (map (fun r : text * (text * list (text * text)) =>
                     let m := fst r in
                     WL [wtext m; wtext (fst (snd r));
                         WL (map (fun pf : text * text =>
                                    WL [wtext (fst pf); wtext (snd pf); wptest (test_of m (fst pf)); wbool (param_guarded m (fst pf))])
                                 (snd (snd r)))])
                  ir_table)]
  | WL [WI 5; m; n; ks; WL pv; WL kv] =>
      match un_text m, un_shape n ks, un_fvals pv, un_fvals kv with
      | Some m, Some sh, Some pv, Some kv =>
          match redu_bind m sh with
          | Rejected => WL [WI 1]
          | Bound b => WL [WI 0; WL (map (fun ps => WL [wtext (fst ps); wsarg (snd ps)]) (fw_vector m (mk_val pv kv (kws sh)) b))]
          end
      | _, _, _, _ => wbad
      end
  | _ => wbad
  end.
