(* C09 wire: one list program (source statements of setup and of the main loop, number of
   passes) -> the elaborated program's firmware run (per phase: printed values, live
   blocks, live cells, or the kind of memory error), the CPython reference run (per
   phase: printed values, live data, or the exception), and the single-owner guard. *)
From Coq Require Import ZArith List Bool.
From RV Require Import Base.Wire Device.DList Device.DListProg Device.DListLen Device.DListArm.
Import ListNotations.
Open Scope Z_scope.

Definition un_comp (l : list wv) : option comp :=
  match l with
  | [WI a; WI b; WI c; WI d; WI e] => Some (mkcomp a b c d e)
  | _ => None
  end.

Fixpoint un_rhss (l : list wv) : option (list rhs) :=
  match l with
  | [] => Some []
  | WL [WI 0; WI y] :: r => match un_rhss r with Some rs => Some (RVar y :: rs) | None => None end
  | WL [WI 1; WL items] :: r =>
      match un_ints items, un_rhss r with Some it, Some rs => Some (RLit it :: rs) | _, _ => None end
  | _ => None
  end.

(* (8 x y i) x.append(y[i])   (9 x y i) x.remove(y[i])   (10 (xs) (rhs..)) tuple assignment, rhs = (0 y) | (1 (items))
   (11 x y) x = ident(y) *)
(* (0 x (items))  (1 x (start stop step mul add))  (2 x y)  (3 x v)  (4 x v)  (5 x i)  (6 x i)  (7 x v) *)
Definition un_sstmt (v : wv) : option sstmt :=
  match v with
  | WL [WI 0; WI x; WL items] => match un_ints items with Some l => Some (SLit x l) | None => None end
  | WL [WI 1; WI x; WL c] => match un_comp c with Some c => Some (SComp x c) | None => None end
  | WL [WI 2; WI x; WI y] => Some (SVar x y)
  | WL [WI 3; WI x; WI a] => Some (SAppend x a)
  | WL [WI 4; WI x; WI a] => Some (SRemove x a)
  | WL [WI 5; WI x; WI i] => Some (SGet x i)
  | WL [WI 6; WI x; WI i] => Some (SCallGet x i)
  | WL [WI 7; WI x; WI a] => Some (SCallAppend x a)
  | WL [WI 8; WI x; WI y; WI i] => Some (SAppendRef x y i)
  | WL [WI 9; WI x; WI y; WI i] => Some (SRemoveRef x y i)
  | WL [WI 10; WL xs; WL rs] =>
      match un_ints xs, un_rhss rs with Some xl, Some rl => Some (STuple xl rl) | _, _ => None end
  | WL [WI 11; WI x; WI y] => Some (SRet x y)
  | _ => None
  end.

(* (16 x y z t form)  x = sel_t(y, z, c) with  def sel_t(a, b, k): if k > t: return a / return b   (form 0)
                      x = y if c > t else z                                                          (form 1)
   resolved for the run-time value g of the pass: the call returns (a shallow copy of) y when t < g, of z otherwise *)
Definition un_sstmt_g (g : Z) (v : wv) : option sstmt :=
  match v with
  | WL [WI 16; WI x; WI y; WI z; WI t; WI form] =>
      let w := if (t <? g)%Z then y else z in
      Some (if Z.eqb form 0 then SRet x w else SVar x w)
  | _ => un_sstmt v
  end.

Fixpoint un_sstmts_g (g : Z) (l : list wv) : option (list sstmt) :=
  match l with
  | [] => Some []
  | v :: r => match un_sstmt_g g v, un_sstmts_g g r with
              | Some s, Some ss => Some (s :: ss)
              | _, _ => None
              end
  end.

Fixpoint un_sstmts (l : list wv) : option (list sstmt) :=
  match l with
  | [] => Some []
  | v :: r => match un_sstmt v, un_sstmts r with
              | Some s, Some ss => Some (s :: ss)
              | _, _ => None
              end
  end.

Definition wnat (n : nat) : wv := WI (Z.of_nat n).
Definition wkind (k : ukind) : Z :=
  match k with OutOfBounds => 0 | UseAfterFree => 1 | DoubleFree => 2 end.
Definition wexc (e : pyexc) : Z :=
  match e with IndexError => 0 | ValueError => 1 | NameError => 2 end.

Definition fw_phase (st : fstate) (o : list Z) : wv :=
  WL [WI 0; WL (map WI o); wnat (f_live_blocks st); wnat (f_live_cells st)].

Fixpoint fw_passes (body : list stmt) (st : fstate) (n : nat) : list wv :=
  match n with
  | O => []
  | S n' =>
      match run_pass body st with
      | Safe (st1, o) => fw_phase st1 o :: fw_passes body st1 n'
      | Unsafe k => [WL [WI 1; WI (wkind k)]]
      end
  end.

Definition fw_trace (setup body : list stmt) (n : nat) : list wv :=
  match run_setup setup with
  | Safe (st0, o) => fw_phase st0 o :: fw_passes body st0 n
  | Unsafe k => [WL [WI 1; WI (wkind k)]]
  end.

Definition py_phase (st : pstate) (o : list Z) : wv :=
  WL [WI 0; WL (map WI o); wnat (p_live st); wnat (p_named st)].

Fixpoint py_passes_tr (body : list stmt) (st : pstate) (n : nat) : list wv :=
  match n with
  | O => []
  | S n' =>
      match py_pass body st with
      | POk (st1, o) => py_phase st1 o :: py_passes_tr body st1 n'
      | PRaise e => [WL [WI 1; WI (wexc e)]]
      end
  end.

Definition py_trace (setup body : list stmt) (n : nat) : list wv :=
  match py_setup setup with
  | POk (st0, o) => py_phase st0 o :: py_passes_tr body st0 n
  | PRaise e => [WL [WI 1; WI (wexc e)]]
  end.

Fixpoint fw_passes_seq (bodies : list (list stmt)) (st : fstate) : list wv :=
  match bodies with
  | [] => []
  | b :: r =>
      match run_pass b st with
      | Safe (st1, o) => fw_phase st1 o :: fw_passes_seq r st1
      | Unsafe k => [WL [WI 1; WI (wkind k)]]
      end
  end.

Definition fw_trace_seq (setup : list stmt) (bodies : list (list stmt)) : list wv :=
  match run_setup setup with
  | Safe (st0, o) => fw_phase st0 o :: fw_passes_seq bodies st0
  | Unsafe k => [WL [WI 1; WI (wkind k)]]
  end.

Fixpoint py_passes_seq_tr (bodies : list (list stmt)) (st : pstate) : list wv :=
  match bodies with
  | [] => []
  | b :: r =>
      match py_pass b st with
      | POk (st1, o) => py_phase st1 o :: py_passes_seq_tr r st1
      | PRaise e => [WL [WI 1; WI (wexc e)]]
      end
  end.

Definition py_trace_seq (setup : list stmt) (bodies : list (list stmt)) : list wv :=
  match py_setup setup with
  | POk (st0, o) => py_phase st0 o :: py_passes_seq_tr bodies st0
  | PRaise e => [WL [WI 1; WI (wexc e)]]
  end.

(* ---- programs with run-time scalar arguments and len() indices (Device/DListLen.v)
   (0 x (items)) (1 x (comp)) (2 x x) (3 x v) (4 x v) (5 x i) (6 x i) (8 x y i) (9 x y i) (10 (xs) ((0 y)..)) as above, and
   (12 x off) x.append(c + off)   (13 x off) x.remove(c + off)   (14 x y sg k) mon.write(x[len(y) + k]) / x[k - len(y)]
   (17 x p y sg k) r = h(x); mon.write(r)  with  def h(l_p): return l_p[len(l_y) + k] / l_p[k - len(l_y)]  in front of the main loop *)
Fixpoint un_rvars (l : list wv) : option (list name) :=
  match l with
  | [] => Some []
  | WL [WI 0; WI y] :: r => match un_rvars r with Some ys => Some (y :: ys) | None => None end
  | _ => None
  end.

Definition un_tstmt (v : wv) : option tstmt :=
  match v with
  | WL [WI 0; WI x; WL items] => match un_ints items with Some l => Some (TDeclLit x l) | None => None end
  | WL [WI 1; WI x; WL c] => match un_comp c with Some c => Some (TDeclComp x c) | None => None end
  | WL [WI 2; WI x; WI y] => if Z.eqb x y then Some (TSelf x) else None
  | WL [WI 3; WI x; WI a] => Some (TAppend x (TConst a))
  | WL [WI 4; WI x; WI a] => Some (TRemove x (TConst a))
  | WL [WI 5; WI x; WI i] => Some (TGet x i)
  | WL [WI 6; WI x; WI i] => Some (TCallGet x i)
  | WL [WI 8; WI x; WI y; WI i] => Some (TAppend x (TElem y i))
  | WL [WI 9; WI x; WI y; WI i] => Some (TRemove x (TElem y i))
  | WL [WI 10; WL xs; WL rs] =>
      match un_ints xs, un_rvars rs with Some xl, Some yl => Some (TPerm xl yl) | _, _ => None end
  | WL [WI 12; WI x; WI off] => Some (TAppend x (TRt off))
  | WL [WI 13; WI x; WI off] => Some (TRemove x (TRt off))
  | WL [WI 14; WI x; WI y; WI sg; WI k] => Some (TGetLen x y (negb (Z.eqb sg 0)) k)
  | WL [WI 17; WI x; WI p; WI y; WI sg; WI k] => Some (TCallLen x p y (negb (Z.eqb sg 0)) k)
  | _ => None
  end.

Fixpoint un_tstmts (l : list wv) : option (list tstmt) :=
  match l with
  | [] => Some []
  | v :: r => match un_tstmt v, un_tstmts r with
              | Some s, Some ss => Some (s :: ss)
              | _, _ => None
              end
  end.

Definition un_gate (t : Z) : option Z := if (t <? 0)%Z then None else Some t.

Fixpoint tf_passes_tr (rb : list name) (t : tenv) (d : list name) (body : list gstmt) (st : fstate) (cs : list Z) : list wv :=
  match cs with
  | [] => []
  | c :: r =>
      match tf_pass rb c t d body st with
      | Safe (st1, o) => fw_phase st1 o :: tf_passes_tr rb t d body st1 r
      | Unsafe k => [WL [WI 1; WI (wkind k)]]
      end
  end.

Definition tf_trace (setup : list tstmt) (body : list gstmt) (cs : list Z) : list wv :=
  let '(t0, d0) := track false [] [] (ungated setup) in
  match tf_block false 0 (fun _ => []) [] [] f_init (ungated setup) with
  | Safe (st0, o) => fw_phase st0 o :: tf_passes_tr (rebound setup body) (loop_env t0 body) d0 body st0 cs
  | Unsafe k => [WL [WI 1; WI (wkind k)]]
  end.

Fixpoint tp_passes_tr (d : list name) (body : list gstmt) (st : pstate) (cs : list Z) : list wv :=
  match cs with
  | [] => []
  | c :: r =>
      match tp_block true c d st body with
      | POk (st1, o) => py_phase st1 o :: tp_passes_tr d body st1 r
      | PRaise e => [WL [WI 1; WI (wexc e)]]
      end
  end.

Definition tp_trace (setup : list tstmt) (body : list gstmt) (cs : list Z) : list wv :=
  let '(_, d0) := track false [] [] (ungated setup) in
  match tp_block false 0 [] p_init (ungated setup) with
  | POk (st0, o) => py_phase st0 o :: tp_passes_tr d0 body st0 cs
  | PRaise e => [WL [WI 1; WI (wexc e)]]
  end.

(* the folded len() values, one per len() read of the body in source order (-1: emitted as run-time __redu_len) *)
Fixpoint folded_lens (fe : tstmt -> tenv) (t : tenv) (ss : list gstmt) : list wv :=
  match ss with
  | [] => []
  | (s, g) :: r =>
      (match s with
       | TGetLen _ y _ _ => [WI (match t_cur t y with Some cur => Z.of_nat (length cur) | None => -1 end)]
       | TCallLen _ p y _ _ => [WI (match t_cur (fn_env (fe s) [p]) y with Some cur => Z.of_nat (length cur) | None => -1 end)]
       | _ => []
       end) ++ folded_lens fe (track1 (is_gated g) t s) r
  end.

(* the statements of an arm of an if / try statement: the wire forms 3 4 12 13 14 5 *)
Definition from_t (s : tstmt) : option astmt :=
  match s with
  | TAppend x (TConst v) => Some (AApp x v)
  | TAppend x (TRt o) => Some (AAppRt x o)
  | TRemove x (TConst v) => Some (ARem x v)
  | TRemove x (TRt o) => Some (ARemRt x o)
  | TGetLen x y sg k => Some (ARead x y sg k)
  | TGet x i => Some (AGet x i)
  | _ => None
  end.

Fixpoint un_arm (l : list wv) : option (list astmt) :=
  match l with
  | [] => Some []
  | v :: r => match un_tstmt v with
              | Some s => match from_t s, un_arm r with Some a, Some ar => Some (a :: ar) | _, _ => None end
              | None => None
              end
  end.

Fixpoint un_arms (l : list wv) : option (list (list astmt)) :=
  match l with
  | [] => Some []
  | WL a :: r => match un_arm a, un_arms r with Some a', Some r' => Some (a' :: r') | _, _ => None end
  | _ => None
  end.

Definition w_lens (ls : list (list (option nat))) : wv :=
  WL (map (fun l => WL (map (fun o => WI (match o with Some n => Z.of_nat n | None => -1 end)) l)) ls).

(* case: (0 (setup stmts) (body stmts) n)  ->  (0 guard (fw phases) (py phases) frozen_ok value_ok)      py phase = (0 (outs) live named)
   case: (1 (setup stmts) (body stmts) (gates) (g values, one per pass))  ->  the same for the
         history in which pass k executes the body statements whose gate t satisfies t < g_k
   case: (2 (setup tstmts) (body tstmts) (gates) (run-time values c, one per pass))  ->  (0 len_ok (fw phases) (py phases)
         (folded len() values of the body's len() reads)) *)
Definition run (v : wv) : wv :=
  match v with
  | WL [WI 0; WL s; WL b; WI n] =>
      match un_sstmts s, un_sstmts b with
      | Some ss, Some bs =>
          let '(setup, body) := elab_prog ss bs in
          let k := Z.to_nat n in
          wok [wbool (single_owner setup body);
               WL (fw_trace setup body k);
               WL (py_trace setup body k);
               wbool (frozen_ok setup (repeat body k));
               wbool (value_ok setup (repeat body k))]
      | _, _ => wbad
      end
  | WL [WI 1; WL s; WL b; WL gates; WL gvals] =>
      match un_sstmts s, un_sstmts_g 0 b, un_ints gates, un_ints gvals with
      | Some ss, Some _, Some gs, Some vs =>
          let '(setup, d1) := elab false [] ss in
          let bodies := map (fun g => match un_sstmts_g g b with
                                      | Some bs => select g gs (fst (elab true d1 bs))
                                      | None => []
                                      end) vs in
          wok [wbool (single_owner_seq setup bodies);
               WL (fw_trace_seq setup bodies);
               WL (py_trace_seq setup bodies);
               wbool (frozen_ok setup bodies);
               wbool (value_ok setup bodies)]
      | _, _, _, _ => wbad
      end
  | WL [WI 2; WL s; WL b; WL gates; WL cvals] =>
      match un_tstmts s, un_tstmts b, un_ints gates, un_ints cvals with
      | Some ss, Some bs, Some gs, Some cs =>
          let body := zip_gates bs (map un_gate gs) in
          wok [wbool (len_ok ss body);
               WL (tf_trace ss body cs);
               WL (tp_trace ss body cs);
               WL (let t1 := loop_env (fst (track false [] [] (ungated ss))) body in folded_lens (fn_first (rebound ss body) t1 body) t1 body)]
      | _, _, _, _ => wbad
      end
  | WL [WI 3; WL pre; WL arms; WI k; WL post; WL b; WL cvals] =>
      (* the statements [pre], then ONE if / elif / else (try / except) statement with the arms [arms] of which arm k is the
         one taken at run time, then the top-level statements [post] (reads), then the main loop [b]:  ->  (0 len_ok-of-the-taken-path (fw phases) (py phases)
         (the lengths the parser folds in every arm: one list per arm, one entry per statement, -1 = none / run-time)
         (the same for the parser that copies the environment once per statement)
         ((the lengths folded in [post]: the names some arm writes are forgotten))) *)
      match un_tstmts pre, un_arms arms, un_tstmts b, un_ints cvals, un_tstmts post with
      | Some ps, Some ars, Some bs, Some cs, Some po =>
          let setup := taken_path ps ars (Z.to_nat k) ++ po in
          let body := ungated bs in
          wok [wbool (len_ok setup body);
               WL (tf_trace setup body cs);
               WL (tp_trace setup body cs);
               w_lens (arm_lens ps ars);
               w_lens (arm_lens_shared ps ars);
               w_lens [after_lens ps ars po]]
      | _, _, _, _, _ => wbad
      end
  | _ => wbad
  end.
