(* C09 wire: one list program (source statements of setup and of the main loop, number of
   passes) -> the elaborated program's firmware run (per phase: printed values, live
   blocks, live cells, or the kind of memory error), the CPython reference run (per
   phase: printed values, live data, or the exception), and the single-owner guard. *)
From Coq Require Import ZArith List Bool.
From RV Require Import Base.Wire Device.DList Device.DListProg.
Import ListNotations.
Open Scope Z_scope.

Definition un_comp (l : list wv) : option comp :=
  match l with
  | [WI a; WI b; WI c; WI d; WI e] => Some (mkcomp a b c d e)
  | _ => None
  end.

Fixpoint un_rhss (l : list wv) : option (list rhs) :=
  match l with
  | [] => Some []
  | WL [WI 0; WI y] :: r => match un_rhss r with Some rs => Some (RVar y :: rs) | None => None end
  | WL [WI 1; WL items] :: r =>
      match un_ints items, un_rhss r with Some it, Some rs => Some (RLit it :: rs) | _, _ => None end
  | _ => None
  end.

(* (8 x y i) x.append(y[i])   (9 x y i) x.remove(y[i])   (10 (xs) (rhs..)) tuple assignment, rhs = (0 y) | (1 (items))
   (11 x y) x = ident(y) *)
(* (0 x (items))  (1 x (start stop step mul add))  (2 x y)  (3 x v)  (4 x v)  (5 x i)  (6 x i)  (7 x v) *)
Definition un_sstmt (v : wv) : option sstmt :=
  match v with
  | WL [WI 0; WI x; WL items] => match un_ints items with Some l => Some (SLit x l) | None => None end
  | WL [WI 1; WI x; WL c] => match un_comp c with Some c => Some (SComp x c) | None => None end
  | WL [WI 2; WI x; WI y] => Some (SVar x y)
  | WL [WI 3; WI x; WI a] => Some (SAppend x a)
  | WL [WI 4; WI x; WI a] => Some (SRemove x a)
  | WL [WI 5; WI x; WI i] => Some (SGet x i)
  | WL [WI 6; WI x; WI i] => Some (SCallGet x i)
  | WL [WI 7; WI x; WI a] => Some (SCallAppend x a)
  | WL [WI 8; WI x; WI y; WI i] => Some (SAppendRef x y i)
  | WL [WI 9; WI x; WI y; WI i] => Some (SRemoveRef x y i)
  | WL [WI 10; WL xs; WL rs] =>
      match un_ints xs, un_rhss rs with Some xl, Some rl => Some (STuple xl rl) | _, _ => None end
  | WL [WI 11; WI x; WI y] => Some (SRet x y)
  | _ => None
  end.

Fixpoint un_sstmts (l : list wv) : option (list sstmt) :=
  match l with
  | [] => Some []
  | v :: r => match un_sstmt v, un_sstmts r with
              | Some s, Some ss => Some (s :: ss)
              | _, _ => None
              end
  end.

Definition wnat (n : nat) : wv := WI (Z.of_nat n).
Definition wkind (k : ukind) : Z :=
  match k with OutOfBounds => 0 | UseAfterFree => 1 | DoubleFree => 2 end.
Definition wexc (e : pyexc) : Z :=
  match e with IndexError => 0 | ValueError => 1 | NameError => 2 end.

Definition fw_phase (st : fstate) (o : list Z) : wv :=
  WL [WI 0; WL (map WI o); wnat (f_live_blocks st); wnat (f_live_cells st)].

Fixpoint fw_passes (body : list stmt) (st : fstate) (n : nat) : list wv :=
  match n with
  | O => []
  | S n' =>
      match run_pass body st with
      | Safe (st1, o) => fw_phase st1 o :: fw_passes body st1 n'
      | Unsafe k => [WL [WI 1; WI (wkind k)]]
      end
  end.

Definition fw_trace (setup body : list stmt) (n : nat) : list wv :=
  match run_setup setup with
  | Safe (st0, o) => fw_phase st0 o :: fw_passes body st0 n
  | Unsafe k => [WL [WI 1; WI (wkind k)]]
  end.

Definition py_phase (st : pstate) (o : list Z) : wv :=
  WL [WI 0; WL (map WI o); wnat (p_live st)].

Fixpoint py_passes_tr (body : list stmt) (st : pstate) (n : nat) : list wv :=
  match n with
  | O => []
  | S n' =>
      match py_pass body st with
      | POk (st1, o) => py_phase st1 o :: py_passes_tr body st1 n'
      | PRaise e => [WL [WI 1; WI (wexc e)]]
      end
  end.

Definition py_trace (setup body : list stmt) (n : nat) : list wv :=
  match py_setup setup with
  | POk (st0, o) => py_phase st0 o :: py_passes_tr body st0 n
  | PRaise e => [WL [WI 1; WI (wexc e)]]
  end.

Fixpoint fw_passes_seq (bodies : list (list stmt)) (st : fstate) : list wv :=
  match bodies with
  | [] => []
  | b :: r =>
      match run_pass b st with
      | Safe (st1, o) => fw_phase st1 o :: fw_passes_seq r st1
      | Unsafe k => [WL [WI 1; WI (wkind k)]]
      end
  end.

Definition fw_trace_seq (setup : list stmt) (bodies : list (list stmt)) : list wv :=
  match run_setup setup with
  | Safe (st0, o) => fw_phase st0 o :: fw_passes_seq bodies st0
  | Unsafe k => [WL [WI 1; WI (wkind k)]]
  end.

Fixpoint py_passes_seq_tr (bodies : list (list stmt)) (st : pstate) : list wv :=
  match bodies with
  | [] => []
  | b :: r =>
      match py_pass b st with
      | POk (st1, o) => py_phase st1 o :: py_passes_seq_tr r st1
      | PRaise e => [WL [WI 1; WI (wexc e)]]
      end
  end.

Definition py_trace_seq (setup : list stmt) (bodies : list (list stmt)) : list wv :=
  match py_setup setup with
  | POk (st0, o) => py_phase st0 o :: py_passes_seq_tr bodies st0
  | PRaise e => [WL [WI 1; WI (wexc e)]]
  end.

(* case: (0 (setup stmts) (body stmts) n)  ->  (0 guard (fw phases) (py phases))
   case: (1 (setup stmts) (body stmts) (gates) (g values, one per pass))  ->  the same for the
         history in which pass k executes the body statements whose gate t satisfies t < g_k *)
Definition run (v : wv) : wv :=
  match v with
  | WL [WI 0; WL s; WL b; WI n] =>
      match un_sstmts s, un_sstmts b with
      | Some ss, Some bs =>
          let '(setup, body) := elab_prog ss bs in
          let k := Z.to_nat n in
          wok [wbool (single_owner setup body);
               WL (fw_trace setup body k);
               WL (py_trace setup body k)]
      | _, _ => wbad
      end
  | WL [WI 1; WL s; WL b; WL gates; WL gvals] =>
      match un_sstmts s, un_sstmts b, un_ints gates, un_ints gvals with
      | Some ss, Some bs, Some gs, Some vs =>
          let '(setup, body) := elab_prog ss bs in
          let bodies := map (fun g => select g gs body) vs in
          wok [wbool (single_owner_seq setup bodies);
               WL (fw_trace_seq setup bodies);
               WL (py_trace_seq setup bodies)]
      | _, _, _, _ => wbad
      end
  | _ => wbad
  end.
