(* Wire for C10 (harness/props/c10.py is the other side).
   case (0 items)              -> (0 globals funs setup loop ok)   : transl sigma_rank   (ok = inside the pre-repair guard)
   case (1 o names)            -> (0 names')                       : sorted_site (sigma_rank o)
   case (2 o construct)        -> (0 decls guard)                  : promote (sigma_rank o)
   case (3 o names)            -> (0 (x)?)                         : pop_site (sigma_rank o)
   case (6 progs)              -> (0 ((0 ((y e t)...)) | (1))...)  : map transl_dev  (device-registry sessions)
   case (7 progs)              -> (0 ((out...)...))                : helper session under Python's == and the memoised
                                                                     helpers of the regenerated inventory (cached_gen)
   case (8 vprogs)             -> (0 (outcome...))                 : vsession vcfg_gen [] (function-variant sessions; the guard
                                                                     configuration is the one the inventory reads off the source)
   case (9 srcs ops)           -> (0 ((outs)?...))                 : esession mk_gen srcs ops [] (parse()/emit() sessions over glyph scripts)
   case (10 o labels has_void) -> (0 (0 label) | (1))              : merge_ret (sigma_rank o) (the join of the return types of a function; (1) = ValueError)
   vprog: (((f (ret...))...) ((v f t)...))   ret: (0) the parameter | (1 t) a literal of type t     outcome: (1) rejected | (0 ((v t)...) ((f t r)...))
   snode: (0 lcd slot (rows)) | (1 text)     eop: (0 i) parse | (1 i) emit     eout: (0 lcd n slot (vals)) | (1 text)
   hcall: (0 indent var value) _emit_duration_ms | (1 value) _format_float     value: (0 n) | (1 (num den)) | (2 b) | (3 text)
   hout:  (0 indent var value) literal form | (1 indent var expr) run-time form | (2 micro) float literal | (3) raises
   dstmt: (0 x kind) | (1 y x meth)    kind: 0 Servo 1 Pot 2 Serial 3 Ultra 4 Button 5 Led   meth: 0 read 1 read_us 2 measure 3 pressed 4 state 5 bright
   stmt:  (0 x t) | (1 o (body...)) if | (2 o body) while | (3 o v body) for | (4 o (body...)) try
   item:  (0 stmt) | (1 f body) | (2 body)
   construct: (0 parent ((x t)...)...) | (1 body_decls ((x t)...))
   node:  (0 x t) decl | (1 x) assign | (2 (body...)) if | (3 body) while | (4 v body) for | (5 (body...)) try *)
From Coq Require Import ZArith List Bool.
From RV Require Import Base.Wire Base.Text Lang.Order Lang.DevSession Lang.MemoSession Gen.SetSites Lang.OrderSites.
From RV Require Import Lang.EmitSession Lang.VariantSession Gen.PuritySites Lang.PuritySites Lang.RetJoin.
Import ListNotations.
Open Scope Z_scope.

Fixpoint un_texts (l : list wv) : option (list text) :=
  match l with
  | [] => Some []
  | v :: r => match un_text v, un_texts r with Some t, Some ts => Some (t :: ts) | _, _ => None end
  end.

Definition un_tlist (v : wv) : option (list text) :=
  match v with WL l => un_texts l | _ => None end.

Fixpoint dec_stmt (v : wv) : option stmt :=
  let fix decs (l : list wv) : option (list stmt) :=
    match l with
    | [] => Some []
    | x :: r => match dec_stmt x, decs r with Some s, Some ss => Some (s :: ss) | _, _ => None end
    end in
  let fix decss (l : list wv) : option (list (list stmt)) :=
    match l with
    | [] => Some []
    | WL b :: r => match decs b, decss r with Some s, Some ss => Some (s :: ss) | _, _ => None end
    | _ => None
    end in
  match v with
  | WL [WI 0; x; WI t] => option_map (fun x => SAssign x t) (un_text x)
  | WL [WI 1; o; WL brs] =>
      match un_tlist o, decss brs with Some o, Some b => Some (SIf o b) | _, _ => None end
  | WL [WI 2; o; WL body] =>
      match un_tlist o, decs body with Some o, Some b => Some (SWhile o b) | _, _ => None end
  | WL [WI 3; o; x; WL body] =>
      match un_tlist o, un_text x, decs body with
      | Some o, Some x, Some b => Some (SFor o x b) | _, _, _ => None end
  | WL [WI 4; o; WL brs] =>
      match un_tlist o, decss brs with Some o, Some b => Some (STry o b) | _, _ => None end
  | _ => None
  end.

Fixpoint dec_stmts (l : list wv) : option (list stmt) :=
  match l with
  | [] => Some []
  | x :: r => match dec_stmt x, dec_stmts r with Some s, Some ss => Some (s :: ss) | _, _ => None end
  end.

Definition dec_item (v : wv) : option item :=
  match v with
  | WL [WI 0; s] => option_map IStmt (dec_stmt s)
  | WL [WI 1; f; WL body] =>
      match un_text f, dec_stmts body with Some f, Some b => Some (IDef f b) | _, _ => None end
  | WL [WI 2; WL body] => option_map IMain (dec_stmts body)
  | _ => None
  end.

Fixpoint dec_items (l : list wv) : option (list item) :=
  match l with
  | [] => Some []
  | x :: r => match dec_item x, dec_items r with Some s, Some ss => Some (s :: ss) | _, _ => None end
  end.

Definition dec_decl (v : wv) : option decl :=
  match v with
  | WL [x; WI t] => option_map (fun x => (x, t)) (un_text x)
  | _ => None
  end.

Fixpoint dec_decls (l : list wv) : option (list decl) :=
  match l with
  | [] => Some []
  | x :: r => match dec_decl x, dec_decls r with Some s, Some ss => Some (s :: ss) | _, _ => None end
  end.

Fixpoint dec_declss (l : list wv) : option (list (list decl)) :=
  match l with
  | [] => Some []
  | WL b :: r => match dec_decls b, dec_declss r with Some s, Some ss => Some (s :: ss) | _, _ => None end
  | _ => None
  end.

Definition dec_construct (v : wv) : option construct :=
  match v with
  | WL [WI 0; p; WL brs] =>
      match un_tlist p, dec_declss brs with Some p, Some b => Some (CIf p b) | _, _ => None end
  | WL [WI 1; d; WL s] =>
      match un_tlist d, dec_decls s with Some d, Some s => Some (CLoop d s) | _, _ => None end
  | _ => None
  end.

Definition enc_decl (d : decl) : wv := WL [wtext (fst d); WI (snd d)].

Fixpoint enc_node (n : node) : wv :=
  match n with
  | NDecl x t => WL [WI 0; wtext x; WI t]
  | NHoist x t => WL [WI 0; wtext x; WI t]      (* emitted like any declaration *)
  | NAssign x => WL [WI 1; wtext x]
  | NIf brs => WL [WI 2; WL (map (fun b => WL (map enc_node b)) brs)]
  | NWhile b => WL [WI 3; WL (map enc_node b)]
  | NFor v b => WL [WI 4; wtext v; WL (map enc_node b)]
  | NTry brs => WL [WI 5; WL (map (fun b => WL (map enc_node b)) brs)]
  end.

Definition enc_nodes (l : list node) : wv := WL (map enc_node l).

Definition enc_out (r : prog_out) : wv :=
  wok [ WL (map enc_decl (o_globals r));
        WL (map (fun f => WL [wtext (fst f); enc_nodes (snd f)]) (o_funs r));
        enc_nodes (o_setup r); enc_nodes (o_loop r); wbool (o_ok r) ].

Definition dec_dkind (z : Z) : option dkind :=
  match z with 0 => Some DServo | 1 => Some DPot | 2 => Some DSerial | 3 => Some DUltra | 4 => Some DButton | 5 => Some DLed | _ => None end.

Definition dec_meth (z : Z) : option meth :=
  match z with 0 => Some MRead | 1 => Some MReadUs | 2 => Some MMeasure | 3 => Some MPressed | 4 => Some MState | 5 => Some MBright | _ => None end.

Definition dec_dstmt (v : wv) : option dstmt :=
  match v with
  | WL [WI 0; x; WI k] => match un_text x, dec_dkind k with Some x, Some k => Some (DDev x k) | _, _ => None end
  | WL [WI 1; y; x; WI m] =>
      match un_text y, un_text x, dec_meth m with Some y, Some x, Some m => Some (DRead y x m) | _, _, _ => None end
  | _ => None
  end.

Fixpoint dec_dstmts (l : list wv) : option (list dstmt) :=
  match l with
  | [] => Some []
  | x :: r => match dec_dstmt x, dec_dstmts r with Some s, Some ss => Some (s :: ss) | _, _ => None end
  end.

Fixpoint dec_dprogs (l : list wv) : option (list (list dstmt)) :=
  match l with
  | [] => Some []
  | WL p :: r => match dec_dstmts p, dec_dprogs r with Some s, Some ss => Some (s :: ss) | _, _ => None end
  | _ => None
  end.

Definition enc_dout (o : option (list rdecl)) : wv :=
  match o with
  | Some ds => WL [WI 0; WL (map (fun d => WL [wtext (fst (fst d)); WI (snd (fst d)); WI (snd d)]) ds)]
  | None => WL [WI 1]
  end.

Definition dec_pval (v : wv) : option pval :=
  match v with
  | WL [WI 0; WI n] => Some (VI n)
  | WL [WI 1; q] => option_map VF (un_q q)
  | WL [WI 2; b] => option_map VB (un_bool b)
  | WL [WI 3; s] => option_map VS (un_text s)
  | _ => None
  end.

Definition dec_hcall (v : wv) : option hcall :=
  match v with
  | WL [WI 0; i; x; a] =>
      match un_text i, un_text x, dec_pval a with Some i, Some x, Some a => Some (CDur i x a) | _, _, _ => None end
  | WL [WI 1; a] => option_map CFmt (dec_pval a)
  | _ => None
  end.

Fixpoint dec_hcalls (l : list wv) : option (list hcall) :=
  match l with
  | [] => Some []
  | x :: r => match dec_hcall x, dec_hcalls r with Some s, Some ss => Some (s :: ss) | _, _ => None end
  end.

Fixpoint dec_hprogs (l : list wv) : option (list (list hcall)) :=
  match l with
  | [] => Some []
  | WL p :: r => match dec_hcalls p, dec_hprogs r with Some s, Some ss => Some (s :: ss) | _, _ => None end
  | _ => None
  end.

Definition enc_pval (v : pval) : wv :=
  match v with
  | VI n => WL [WI 0; WI n]
  | VF q => WL [WI 1; wq q]
  | VB b => WL [WI 2; wbool b]
  | VS s => WL [WI 3; wtext s]
  end.

Definition enc_hout (o : hout) : wv :=
  match o with
  | ODurLit i x v => WL [WI 0; wtext i; wtext x; enc_pval v]
  | ODurArg i x e => WL [WI 1; wtext i; wtext x; wtext e]
  | OFix m => WL [WI 2; WI m]
  | ORaise => WL [WI 3]
  end.

Definition dec_ret (v : wv) : option ret :=
  match v with
  | WL [WI 0] => Some RParam
  | WL [WI 1; WI t] => Some (RLit t)
  | _ => None
  end.

Fixpoint dec_rets (l : list wv) : option (list ret) :=
  match l with
  | [] => Some []
  | x :: r => match dec_ret x, dec_rets r with Some s, Some ss => Some (s :: ss) | _, _ => None end
  end.

Definition dec_fdef (v : wv) : option fdef :=
  match v with
  | WL [f; WL (b :: body)] => match un_text f, dec_rets (b :: body) with Some f, Some b => Some (mk_fdef f b) | _, _ => None end
  | _ => None
  end.

Fixpoint dec_fdefs (l : list wv) : option (list fdef) :=
  match l with
  | [] => Some []
  | x :: r => match dec_fdef x, dec_fdefs r with Some s, Some ss => Some (s :: ss) | _, _ => None end
  end.

Definition dec_vcall (v : wv) : option vcall :=
  match v with
  | WL [x; f; WI t] => match un_text x, un_text f with Some x, Some f => Some (mk_vcall x f t) | _, _ => None end
  | _ => None
  end.

Fixpoint dec_vcalls (l : list wv) : option (list vcall) :=
  match l with
  | [] => Some []
  | x :: r => match dec_vcall x, dec_vcalls r with Some s, Some ss => Some (s :: ss) | _, _ => None end
  end.

Definition dec_vprog (v : wv) : option vprog :=
  match v with
  | WL [WL ds; WL cs] => match dec_fdefs ds, dec_vcalls cs with Some d, Some c => Some (mk_vprog d c) | _, _ => None end
  | _ => None
  end.

Fixpoint dec_vprogs (l : list wv) : option (list vprog) :=
  match l with
  | [] => Some []
  | x :: r => match dec_vprog x, dec_vprogs r with Some s, Some ss => Some (s :: ss) | _, _ => None end
  end.

Definition enc_outcome (o : outcome) : wv :=
  match o with
  | Rejected => WL [WI 1]
  | Accepted vars fns =>
      WL [WI 0; WL (map (fun d => WL [wtext (fst d); WI (snd d)]) vars);
          WL (map (fun v => let '(f, t, r) := v in WL [wtext f; WI t; WI r]) fns)]
  end.

Definition dec_snode (v : wv) : option snode :=
  match v with
  | WL [WI 0; lcd; slot; WL rows] =>
      match un_text lcd, un_text slot, un_ints rows with Some l, Some s, Some r => Some (SGlyph l s r) | _, _, _ => None end
  | WL [WI 1; t] => option_map SOther (un_text t)
  | _ => None
  end.

Fixpoint dec_snodes (l : list wv) : option (list snode) :=
  match l with
  | [] => Some []
  | x :: r => match dec_snode x, dec_snodes r with Some s, Some ss => Some (s :: ss) | _, _ => None end
  end.

Fixpoint dec_ssrcs (l : list wv) : option (list (list snode)) :=
  match l with
  | [] => Some []
  | WL p :: r => match dec_snodes p, dec_ssrcs r with Some s, Some ss => Some (s :: ss) | _, _ => None end
  | _ => None
  end.

Definition dec_eop (v : wv) : option eop :=
  match v with
  | WL [WI 0; WI i] => Some (EParse (Z.to_nat i))
  | WL [WI 1; WI i] => Some (EEmit (Z.to_nat i))
  | _ => None
  end.

Fixpoint dec_eops (l : list wv) : option (list eop) :=
  match l with
  | [] => Some []
  | x :: r => match dec_eop x, dec_eops r with Some s, Some ss => Some (s :: ss) | _, _ => None end
  end.

Definition enc_eout (o : eout) : wv :=
  match o with
  | OGlyph lcd n slot vals => WL [WI 0; wtext lcd; WI n; wtext slot; WL (map WI vals)]
  | OText t => WL [WI 1; wtext t]
  end.

Definition run (v : wv) : wv :=
  match v with
  | WL [WI 0; WL items] =>
      match dec_items items with
      | Some p => enc_out (transl sigma_rank p)
      | None => wbad
      end
  | WL [WI 1; o; names] =>
      match un_tlist o, un_tlist names with
      | Some o, Some l => wok [WL (map wtext (sorted_site (sigma_rank o) l))]
      | _, _ => wbad
      end
  | WL [WI 2; o; c] =>
      match un_tlist o, dec_construct c with
      | Some o, Some c => wok [WL (map enc_decl (promote (sigma_rank o) c)); wbool (guard c)]
      | _, _ => wbad
      end
  | WL [WI 3; o; names] =>
      match un_tlist o, un_tlist names with
      | Some o, Some l => wok [wopt wtext (pop_site (sigma_rank o) l)]
      | _, _ => wbad
      end
  | WL [WI 6; WL progs] =>
      match dec_dprogs progs with
      | Some ps => wok [WL (map enc_dout (map transl_dev ps))]
      | None => wbad
      end
  | WL [WI 7; WL progs] =>
      match dec_hprogs progs with
      | Some ps => wok [WL (map (fun o => WL (map enc_hout o)) (session py_keq cached_gen keep keep [] ps))]
      | None => wbad
      end
  | WL [WI 8; WL progs] =>
      match dec_vprogs progs with
      | Some ps => wok [WL (map enc_outcome (vsession vcfg_gen [] ps))]
      | None => wbad
      end
  | WL [WI 9; WL srcs; WL ops] =>
      match dec_ssrcs srcs, dec_eops ops with
      | Some ss, Some os => wok [WL (map (wopt (fun o => WL (map enc_eout o))) (esession mk_gen ss os []))]
      | _, _ => wbad
      end
  | WL [WI 10; o; labels; WI hv] =>
      match un_tlist o, un_tlist labels with
      | Some o, Some l => wok [match merge_ret (sigma_rank o) l (negb (hv =? 0)) with JTy t => WL [WI 0; wtext t] | JErr => WL [WI 1] end]
      | _, _ => wbad
      end
  | _ => wbad
  end.
