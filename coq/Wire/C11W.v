(* Wire for C11: the same model as C03 (Lang/ConstEval.v); case 0 returns result and primitive trace. *)
From RV Require Import Base.Wire Wire.C03W.
Definition run (v : wv) : wv := C03W.run v.
