(* Second wire of C11 (harness: WIRE = ["C11", "C11x"]).
   case [100; idx; text]      -> the idx-th regular expression of the regenerated inventory (Gen/Regexes.v) on a text:
                                 [full match?; prefix match?; number of backtracking paths]
   case [101; [script ...]]   -> a process transpiling the scripts one after the other (Lang/FoldSession.v, memo as the
                                 inventory of the current source allows): per script the folded observations
   case [102; ua; prog]       -> the function-variant machinery (Lang/VariantCost.v) on a script of defs and top-level calls:
                                 [out of fuel / wrong arity?; the _parse_function invocations in order: [name; [] | [signature]]]
                                 (ua = 1: the memo is looked up through the alias table, as the code does)
   case [103; room; [stmt ...]] -> the stack model of the two stages (Lang/NestDepth.v with the constants measured on the current
                                 source, Gen/NestDepth.v) on a program tree (stmt = [0; leaf] | [1; slot; [stmt ...]]):
                                 [frames parse() needs; frames emit() needs; outcome of the pipeline with `room` frames:
                                  0 firmware / 1 clean ValueError from parse() / 2 RecursionError from emit() / 3 clean ValueError
                                  from emit() - with the guard of emit() as observed on the current source]
   case [104]                  -> facts about the regenerated tables, for the evidence: [emit() guarded?; emit's constants dominated
                                 by parse's?; [indices of the simple statements emit() needs more frames for than parse()]]
   case [105; [script ...]]    -> a process transpiling scripts that define functions named like (or unlike) the foldable builtins and
                                 call them on literals (Lang/NameSession.v, the mode the inventory of the current source allows;
                                 stmt = [0; name] def | [1; name; lit] call): per script, per call [folded?; lit]
   (a unit of its own - Wire/C11W.v stays the evaluator wire shared with C03 - because the extraction flattens names) *)
From Coq Require Import ZArith List Bool.
From RV Require Import Base.Wire Lang.Regex Gen.Regexes Lang.FoldSession Lang.VariantCost Lang.NestDepth Gen.NestDepth Gen.SafeCasts Lang.NameSession.
Import ListNotations.
Open Scope Z_scope.

Definition dec_fstmt (v : wv) : option fstmt :=
  match v with
  | WL [WI 0; x; l] => match un_text x, un_text l with Some n, Some zs => Some (FAssign n zs) | _, _ => None end
  | WL [WI 1; x; WI z] => match un_text x with Some n => Some (FAppend n z) | None => None end
  | WL [WI 2; x; WI z] => match un_text x with Some n => Some (FRemove n z) | None => None end
  | WL [WI 3; x] => match un_text x with Some n => Some (FLen n) | None => None end
  | WL [WI 4; x] => match un_text x with Some n => Some (FFlash n) | None => None end
  | _ => None
  end.

Fixpoint dec_all {A} (f : wv -> option A) (l : list wv) : option (list A) :=
  match l with
  | [] => Some []
  | x :: r => match f x, dec_all f r with Some a, Some b => Some (a :: b) | _, _ => None end
  end.

Definition dec_script (v : wv) : option (list fstmt) := match v with WL l => dec_all dec_fstmt l | _ => None end.

Definition enc_fout (o : fout) : wv :=
  match o with OLenIs n => WL [WI 0; WI n] | OPattern l => WL [WI 1; wtext l] | ORuntime => WL [WI 2] end.

Definition dec_arg (v : wv) : option arg :=
  match v with
  | WL [WI 0; WI i] => Some (AParam (Z.to_nat i))
  | WL [WI 1; WI t] => Some (ALit t)
  | _ => None
  end.

Definition dec_term (v : wv) : option term :=
  match v with
  | WL [WI 0; WI i] => Some (TParam (Z.to_nat i))
  | WL [WI 1; WI t] => Some (TLit t)
  | WL [WI 2; WI f; WL args] => match dec_all dec_arg args with Some a => Some (TCall f a) | None => None end
  | _ => None
  end.

Definition dec_item (v : wv) : option item :=
  match v with
  | WL [WI 0; WI n; WI a; WL ts] => match dec_all dec_term ts with Some b => Some (IDef n (mkfn (Z.to_nat a) b)) | None => None end
  | WL [WI 1; WI n; sg] => match un_text sg with Some s => Some (ICall n s) | None => None end
  | _ => None
  end.

Definition enc_parse (e : Z * option sig) : wv :=
  WL [WI (fst e); match snd e with None => WL [] | Some s => WL [wtext s] end].

Fixpoint dec_stmt (v : wv) : option stmt :=
  match v with
  | WL [WI 0; WI l] => Some (Leaf (Z.to_nat l))
  | WL [WI 1; WI k; WL body] =>
      match (fix go (b : list wv) : option (list stmt) :=
               match b with
               | [] => Some []
               | x :: r => match dec_stmt x, go r with Some a, Some c => Some (a :: c) | _, _ => None end
               end) body with
      | Some b => Some (Block (Z.to_nat k) b)
      | None => None
      end
  | _ => None
  end.

Definition dec_nstmt (v : wv) : option nstmt :=
  match v with
  | WL [WI 0; x] => match un_text x with Some n => Some (NBind n) | None => None end
  | WL [WI 1; x; WI z] => match un_text x with Some n => Some (NCall n z) | None => None end
  | _ => None
  end.
Definition dec_nscript (v : wv) : option (list nstmt) := match v with WL l => dec_all dec_nstmt l | _ => None end.
Definition enc_nout (o : nout) : wv :=
  match o with NFolded _ z => WL [WI 1; WI z] | NRuntime _ z => WL [WI 0; WI z] end.

Definition run (v : wv) : wv :=
  match v with
  | WL [WI 105; WL ps] =>
      match dec_all dec_nscript ps with
      | Some scripts => WL (map (fun o => WL (map enc_nout o)) (nsession current_mode safe_name_references scripts))
      | None => wbad
      end
  | WL [WI 103; WI room; WL ts] =>
      match dec_all dec_stmt ts with
      | Some p => WL [WI (need_prog parse_stage p); WI (need_prog emit_stage p); WI (pipeline emit_guarded parse_stage emit_stage room p)]
      | None => wbad
      end
  | WL [WI 104] =>
      WL [wbool emit_guarded; wbool (blocks_dominated parse_stage emit_stage);
          WL (map (fun l => WI (Z.of_nat l)) (fat_leaves parse_stage emit_stage))]
  | WL [WI 102; WI ua; WL items] =>
      match dec_all dec_item items with
      | Some p => let s := vrun (negb (ua =? 0)) 400 p in WL [wbool (oof s); WL (map enc_parse (rev (trace s)))]
      | None => wbad
      end
  | WL [WI 100; WI idx; t] =>
      match un_text t, nth_error regex_table (Z.to_nat idx) with
      | Some w, Some e =>
          WL [wbool (full_match (re_rx e) w); wbool (prefix_match (re_rx e) w); WI (Z.of_nat (paths (re_rx e) w))]
      | _, _ => wbad
      end
  | WL [WI 101; WL ps] =>
      match dec_all dec_script ps with
      | Some scripts => WL (map (fun o => WL (map enc_fout o)) (fsession memo_possible ms_empty scripts))
      | None => wbad
      end
  | _ => wbad
  end.
