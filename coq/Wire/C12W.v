(* Wire for C12: one scenario in, the model's effect list and result out.
   case 0: (0 port platform board upload pio (f_readmain f_parse f_mkdtemp f_mkdir f_writemain f_writeini f_build f_upload
                                                f_buildexec f_uploadexec) how (lib ...))
           -> (0 ((tag val...) ...) result (ini-text ...))
              result = (0 val) returned | (1 kind) raised | (2) fell off the end
              how = 0 not found | 1 no execute permission | 2 no executable format | 3 PATH component not a directory
                    | 4 exits non-zero (consulted only when pio = false)
              ini-text: the platformio.ini text of every WriteIni effect, in order
   case 1: (1) -> (0 shape_ok number_of_steps)
   The statement list interpreted is the one the translator read from the current source. *)
From Coq Require Import ZArith List Bool.
From RV Require Import Base.Wire Base.Text Gen.Registry Tool.Registry Tool.Ini Tool.Target Tool.TargetIni Gen.TargetShape.
Import ListNotations.
Open Scope Z_scope.

Definition wval (v : val) : wv := WI (val_code v).

Definition wevent (ev : event) : wv :=
  match ev with
  | RunPioVersion => WL [WI 0]
  | ReadMain => WL [WI 1]
  | Parse => WL [WI 2]
  | Emit => WL [WI 3]
  | Mkdtemp => WL [WI 4]
  | Mkdir d => WL [WI 5; wval d]
  | WriteMain t => WL [WI 6; wval t]
  | WriteIni po pl b l => WL [WI 7; wval po; wval pl; wval b; wval l]
  | RunBuild d => WL [WI 8; wval d]
  | RunUpload d => WL [WI 9; wval d]
  end.

Definition kind_code (k : kind) : Z :=
  match k with ValueError => 1 | RuntimeError => 2 | CalledProcessError => 3 | OSError => 4 end.

Definition wresult (r : result) : wv :=
  match r with
  | Returned v => WL [WI 0; wval v]
  | Raised k => WL [WI 1; WI (kind_code k)]
  | FellOff => WL [WI 2]
  end.

Definition how_of (z : Z) : pfail :=
  if z =? 1 then PPerm else if z =? 2 then PFormat else if z =? 3 then PNotDir
  else if z =? 4 then PExit else PNotFound.

Fixpoint un_texts (l : list wv) : option (list text) :=
  match l with
  | [] => Some []
  | v :: r => match un_text v, un_texts r with
              | Some t, Some ts => Some (t :: ts)
              | _, _ => None
              end
  end.

Fixpoint ini_texts (a : cargs) (evs : list event) : list wv :=
  match evs with
  | [] => []
  | ev :: r => match ini_text a ev with
               | Some t => wtext t :: ini_texts a r
               | None => ini_texts a r
               end
  end.

Definition mk_fault (l : list bool) (f : fpoint) : bool :=
  let n := match f with
           | FReadMain => 0 | FParse => 1 | FMkdtemp => 2 | FMkdir => 3
           | FWriteMain => 4 | FWriteIni => 5 | FBuild => 6 | FUpload => 7
           | FBuildExec => 8 | FUploadExec => 9
           end%nat in
  nth n l false.

Fixpoint un_bools (l : list wv) : option (list bool) :=
  match l with
  | [] => Some []
  | v :: r => match un_bool v, un_bools r with
              | Some b, Some bs => Some (b :: bs)
              | _, _ => None
              end
  end.

Definition run (v : wv) : wv :=
  match v with
  | WL [WI 0; po; p; b; u; pi; WL fl; WI how; WL ls] =>
      match un_text po, un_text p, un_text b, un_bool u, un_bool pi, un_bools fl, un_texts ls with
      | Some port, Some pl, Some bd, Some up, Some pio_ok, Some faults, Some libs =>
          let a := {| c_port := port; c_platform := pl; c_board := bd; c_libs := libs |} in
          let e := env_for a up pio_ok (how_of how) (mk_fault faults) in
          let '(evs, res) := target_run e steps in
          wok [WL (map wevent evs); wresult res; WL (ini_texts a evs)]
      | _, _, _, _, _, _, _ => wbad
      end
  | WL [WI 1] => wok [wbool (shape_ok steps); WI (Z.of_nat (length steps))]
  | _ => wbad
  end.
