From Coq Require Import ZArith List Bool.
From RV Require Import Base.Wire Base.Text Gen.Registry Tool.Registry Tool.Ini.
Import ListNotations.
Open Scope Z_scope.

Fixpoint un_texts (l : list wv) : option (list text) :=
  match l with
  | [] => Some []
  | v :: r => match un_text v, un_texts r with
              | Some t, Some ts => Some (t :: ts)
              | _, _ => None
              end
  end.

(* sections as ((name ((key value) ...)) ...); a parse error as () - a successful read of a
   rendered file always has at least one section, and case 4 tags the two outcomes apart *)
Definition wsections (o : option (list (text * list (text * text)))) : wv :=
  match o with
  | None => WL []
  | Some secs =>
      WL (map (fun so => WL [wtext (fst so);
                             WL (map (fun kv => WL [wtext (fst kv); wtext (snd kv)]) (snd so))]) secs)
  end.

(* case 0: (0 platform board)                    -> validate
   case 1: (1 port platform board (lib ...))     -> (0 ini_text sections) | (1 kind) for an invalid pair
   case 2: (2 (lib ...))                         -> (0 lib_section_text)
   case 3: (3 board)                             -> (0 env_name)
   case 4: (4 ini_text)                          -> (0 sections) | (1 0) when the read raises *)
Definition run (v : wv) : wv :=
  match v with
  | WL [WI 0; p; b] =>
      match un_text p, un_text b with
      | Some pl, Some bd =>
          match validate pl bd with None => wok [] | Some e => werr (verr_code e) end
      | _, _ => wbad
      end
  | WL [WI 1; port; p; b; WL libs] =>
      match un_text port, un_text p, un_text b, un_texts libs with
      | Some port, Some pl, Some bd, Some ls =>
          match write_ini pl bd port ls with
          | inl e => werr (verr_code e)
          | inr t => wok [wtext t; wsections (ini_read t)]
          end
      | _, _, _, _ => wbad
      end
  | WL [WI 2; WL libs] =>
      match un_texts libs with
      | Some ls => wok [wtext (format_lib_section ls)]
      | None => wbad
      end
  | WL [WI 3; b] =>
      match un_text b with
      | Some bd => wok [wtext (sanitize_env_name bd)]
      | None => wbad
      end
  | WL [WI 4; t] =>
      match un_text t with
      | Some t => match ini_read t with
                  | Some secs => wok [wsections (Some secs)]
                  | None => werr 0
                  end
      | None => wbad
      end
  | _ => wbad
  end.
