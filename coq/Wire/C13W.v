From Coq Require Import ZArith List Bool.
From RV Require Import Base.Wire Base.Text Gen.Registry Tool.Registry Tool.Ini Tool.NearMiss.
Import ListNotations.
Open Scope Z_scope.

Fixpoint un_texts (l : list wv) : option (list text) :=
  match l with
  | [] => Some []
  | v :: r => match un_text v, un_texts r with
              | Some t, Some ts => Some (t :: ts)
              | _, _ => None
              end
  end.

(* sections as ((name ((key value) ...)) ...); a parse error as () - a successful read of a
   rendered file always has at least one section, and case 4 tags the two outcomes apart *)
Definition wsections (o : option (list (text * list (text * text)))) : wv :=
  match o with
  | None => WL []
  | Some secs =>
      WL (map (fun so => WL [wtext (fst so);
                             WL (map (fun kv => WL [wtext (fst kv); wtext (snd kv)]) (snd so))]) secs)
  end.

(* case 0: (0 platform board)                    -> validate
   case 1: (1 port platform board (lib ...))     -> (0 ini_text sections) | (1 kind) for an invalid pair
   case 2: (2 (lib ...))                         -> (0 lib_section_text)
   case 3: (3 board)                             -> (0 env_name)
   case 4: (4 ini_text)                          -> (0 sections) | (1 0) when the read raises
   case 5: (5 code board)                        -> (0 near_miss (twin ...)) under normaliser [code]
   case 6: (6 platform board)                    -> (0 v v0 v1 v2 v3): verdict of validate and of the four
                                                    keyed variants (0 accepted, 1/2/3 the error kind) *)
Definition verdict (o : option verr) : wv :=
  match o with None => WI 0 | Some e => WI (verr_code e) end.

(* the four keyed indices, built once (by definition [keyed_index k board_to_platform]) *)
Definition idx_env := keyed_index norm_env board_to_platform.
Definition idx_lower := keyed_index norm_lower board_to_platform.
Definition idx_strip := keyed_index norm_strip board_to_platform.
Definition idx_squash := keyed_index norm_squash board_to_platform.

Definition run (v : wv) : wv :=
  match v with
  | WL [WI 0; p; b] =>
      match un_text p, un_text b with
      | Some pl, Some bd =>
          match validate pl bd with None => wok [] | Some e => werr (verr_code e) end
      | _, _ => wbad
      end
  | WL [WI 1; port; p; b; WL libs] =>
      match un_text port, un_text p, un_text b, un_texts libs with
      | Some port, Some pl, Some bd, Some ls =>
          match write_ini pl bd port ls with
          | inl e => werr (verr_code e)
          | inr t => wok [wtext t; wsections (ini_read t)]
          end
      | _, _, _, _ => wbad
      end
  | WL [WI 2; WL libs] =>
      match un_texts libs with
      | Some ls => wok [wtext (format_lib_section ls)]
      | None => wbad
      end
  | WL [WI 3; b] =>
      match un_text b with
      | Some bd => wok [wtext (sanitize_env_name bd)]
      | None => wbad
      end
  | WL [WI 4; t] =>
      match un_text t with
      | Some t => match ini_read t with
                  | Some secs => wok [wsections (Some secs)]
                  | None => werr 0
                  end
      | None => wbad
      end
  | WL [WI 5; WI c; b] =>
      match un_text b with
      | Some bd => wok [wbool (near_miss (normaliser c) bd); WL (map wtext (twins (normaliser c) bd))]
      | None => wbad
      end
  | WL [WI 6; p; b] =>
      match un_text p, un_text b with
      | Some pl, Some bd =>
          wok [verdict (validate pl bd);
               verdict (validate_keyed_with norm_env idx_env platforms pl bd);
               verdict (validate_keyed_with norm_lower idx_lower platforms pl bd);
               verdict (validate_keyed_with norm_strip idx_strip platforms pl bd);
               verdict (validate_keyed_with norm_squash idx_squash platforms pl bd)]
      | _, _ => wbad
      end
  | _ => wbad
  end.
