From Coq Require Import ZArith List Bool.
From RV Require Import Base.Wire Base.Text Gen.Registry Tool.Registry.
Import ListNotations.
Open Scope Z_scope.

(* case 0: (0 platform board) -> validate *)
Definition run (v : wv) : wv :=
  match v with
  | WL [WI 0; p; b] =>
      match un_text p, un_text b with
      | Some pl, Some bd =>
          match validate pl bd with None => wok [] | Some e => werr (verr_code e) end
      | _, _ => wbad
      end
  | _ => wbad
  end.
