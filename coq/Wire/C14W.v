From Coq Require Import ZArith List Bool.
From RV Require Import Base.Wire Tool.Libs.
Import ListNotations.
Open Scope Z_scope.

(* node:  (0 name) ServoDecl | (1 name) LCDDecl parallel | (2 name) LCDDecl i2c | (3) other decl
          | (4) plain | (5 (body ...)) if | (6 body) while | (7 body) for | (8 (body ...)) try
   body = (node ...) *)
Fixpoint dec_node (v : wv) : option node :=
  let fix decs (l : list wv) : option (list node) :=
    match l with
    | [] => Some []
    | x :: r => match dec_node x, decs r with Some n, Some ns => Some (n :: ns) | _, _ => None end
    end in
  let fix decss (l : list wv) : option (list (list node)) :=
    match l with
    | [] => Some []
    | WL b :: r => match decs b, decss r with Some n, Some ns => Some (n :: ns) | _, _ => None end
    | _ => None
    end in
  match v with
  | WL [WI 0; WI x] => Some (NServo x)
  | WL [WI 1; WI x] => Some (NLcdPar x)
  | WL [WI 2; WI x] => Some (NLcdI2c x)
  | WL [WI 3] => Some NOtherDecl
  | WL [WI 4] => Some NPlain
  | WL [WI 5; WL bs] => option_map NIf (decss bs)
  | WL [WI 6; WL b] => option_map NWhile (decs b)
  | WL [WI 7; WL b] => option_map NFor (decs b)
  | WL [WI 8; WL bs] => option_map NTry (decss bs)
  | _ => None
  end.

Fixpoint dec_nodes (l : list wv) : option (list node) :=
  match l with
  | [] => Some []
  | x :: r => match dec_node x, dec_nodes r with Some n, Some ns => Some (n :: ns) | _, _ => None end
  end.

Fixpoint dec_bodies (l : list wv) : option (list (list node)) :=
  match l with
  | [] => Some []
  | WL b :: r => match dec_nodes b, dec_bodies r with Some n, Some ns => Some (n :: ns) | _, _ => None end
  | _ => None
  end.

Definition enc_lib (l : lib) : wv :=
  WI (match l with LServo => 0 | LLiquidCrystal => 1 | LLiquidCrystalI2C => 2 end).
Definition enc_header (h : header) : wv :=
  WI (match h with HServo => 0 | HLiquidCrystal => 1 | HWire => 2 | HLiquidCrystalI2C => 3 end).

(* case (0 setup loop functions globals) ->
   (0 required headers includes instantiated servo_objs lcd_objs guard agree servos_ok lcds_ok names_ok)
   lcd_objs = ((i2c name binding_index) ...); names_ok = no LCD name bound to both interfaces (a
   classifier of the region the repaired finding used to exclude, not part of the guard) *)
Definition run (v : wv) : wv :=
  match v with
  | WL [WI 0; WL s; WL l; WL fs; WL g] =>
      match dec_nodes s, dec_nodes l, dec_bodies fs, dec_nodes g with
      | Some s', Some l', Some fs', Some g' =>
          let p := mkProg s' l' fs' g' in
          wok [ WL (map enc_lib (required p));
                WL (map enc_header (headers p));
                WL (map enc_lib (includes p));
                WL (map enc_lib (instantiated p));
                WL (map WI (servo_objs p));
                WL (map (fun o => WL [wbool (o_i2c o); WI (o_name o); WI (o_index o)]) (lcd_objs p));
                wbool (decls_at_documented_positions p);
                wbool (agree p);
                wbool (servos_documented p);
                wbool (lcds_documented p);
                wbool (lcd_names_consistent (setup p)) ]
      | _, _, _, _ => wbad
      end
  | _ => wbad
  end.
