From Coq Require Import ZArith List Bool.
From Coq Require Import QArith.
From RV Require Import Base.Wire Tool.Libs Tool.LibObjs.
Import ListNotations.
Open Scope Z_scope.

(* node:  (0 name) ServoDecl | (1 name) LCDDecl parallel | (2 name) LCDDecl i2c | (3) other decl
          | (4) plain | (5 (body ...)) if | (6 body) while | (7 body) for | (8 (body ...)) try
   body = (node ...) *)
Fixpoint dec_node (v : wv) : option node :=
  let fix decs (l : list wv) : option (list node) :=
    match l with
    | [] => Some []
    | x :: r => match dec_node x, decs r with Some n, Some ns => Some (n :: ns) | _, _ => None end
    end in
  let fix decss (l : list wv) : option (list (list node)) :=
    match l with
    | [] => Some []
    | WL b :: r => match decs b, decss r with Some n, Some ns => Some (n :: ns) | _, _ => None end
    | _ => None
    end in
  match v with
  | WL [WI 0; WI x] => Some (NServo x)
  | WL [WI 1; WI x] => Some (NLcdPar x)
  | WL [WI 2; WI x] => Some (NLcdI2c x)
  | WL [WI 3] => Some NOtherDecl
  | WL [WI 4] => Some NPlain
  | WL [WI 5; WL bs] => option_map NIf (decss bs)
  | WL [WI 6; WL b] => option_map NWhile (decs b)
  | WL [WI 7; WL b] => option_map NFor (decs b)
  | WL [WI 8; WL bs] => option_map NTry (decss bs)
  | _ => None
  end.

Fixpoint dec_nodes (l : list wv) : option (list node) :=
  match l with
  | [] => Some []
  | x :: r => match dec_node x, dec_nodes r with Some n, Some ns => Some (n :: ns) | _, _ => None end
  end.

Fixpoint dec_bodies (l : list wv) : option (list (list node)) :=
  match l with
  | [] => Some []
  | WL b :: r => match dec_nodes b, dec_bodies r with Some n, Some ns => Some (n :: ns) | _, _ => None end
  | _ => None
  end.

Definition enc_lib (l : lib) : wv :=
  WI (match l with LServo => 0 | LLiquidCrystal => 1 | LLiquidCrystalI2C => 2 end).
Definition enc_header (h : header) : wv :=
  WI (match h with HServo => 0 | HLiquidCrystal => 1 | HWire => 2 | HLiquidCrystalI2C => 3 end).

(* case (0 setup loop functions globals) ->
   (0 required headers includes instantiated servo_objs lcd_objs guard agree servos_ok lcds_ok names_ok)
   lcd_objs = ((i2c name binding_index) ...); names_ok = no LCD name bound to both interfaces (a
   classifier of the region the repaired finding used to exclude, not part of the guard) *)
(* ---------------------------------------------------------------- items with arguments (case 1)
   val:   () None | (0 z) int | (1 text) C expression
   pulse: (0 z) | (1 text) | (2 (num den)) float
   item:  (0 name pin minp maxp) ServoDecl
          | (1 name i2c cols rows rs en d4 d5 d6 d7 rw backlight addr) LCDDecl
          | (3) other decl | (4) plain | (5 (body ...)) if | (6 body) while | (7 body) for
          | (8 (body ...)) try | (9 name) LCD command emitting one line *)
Definition dec_val (v : wv) : option val :=
  match v with
  | WL [] => Some VNone
  | WL [WI 0; WI z] => Some (VInt z)
  | WL [WI 1; t] => option_map VText (un_text t)
  | _ => None
  end.

Definition dec_pulse (v : wv) : option pulse :=
  match v with
  | WL [WI 0; WI z] => Some (PInt z)
  | WL [WI 1; t] => option_map PText (un_text t)
  | WL [WI 2; q] => option_map PFloat (un_q q)
  | _ => None
  end.

Fixpoint dec_vals (l : list wv) : option (list val) :=
  match l with
  | [] => Some []
  | x :: r => match dec_val x, dec_vals r with Some n, Some ns => Some (n :: ns) | _, _ => None end
  end.

Definition dec_lcd (n : wv) (i2c : wv) (fields : list wv) : option lcdd :=
  match un_text n, un_bool i2c, dec_vals fields with
  | Some n', Some b, Some [cols; rows; rs; en; d4; d5; d6; d7; rw; bl; addr] =>
      Some (mkLcd n' b cols rows rs en d4 d5 d6 d7 rw bl addr)
  | _, _, _ => None
  end.

Fixpoint dec_item (v : wv) : option item :=
  let fix decs (l : list wv) : option (list item) :=
    match l with
    | [] => Some []
    | x :: r => match dec_item x, decs r with Some n, Some ns => Some (n :: ns) | _, _ => None end
    end in
  let fix decss (l : list wv) : option (list (list item)) :=
    match l with
    | [] => Some []
    | WL b :: r => match decs b, decss r with Some n, Some ns => Some (n :: ns) | _, _ => None end
    | _ => None
    end in
  match v with
  | WL [WI 0; n; pin; mn; mx] =>
      match un_text n, dec_val pin, dec_pulse mn, dec_pulse mx with
      | Some n', Some p, Some a, Some b => Some (IServo (mkServo n' p a b))
      | _, _, _, _ => None
      end
  | WL (WI 1 :: n :: i2c :: fields) => option_map ILcd (dec_lcd n i2c fields)
  | WL [WI 3] => Some IOther
  | WL [WI 4] => Some IPlain
  | WL [WI 5; WL bs] => option_map IBlock (decss bs)
  | WL [WI 6; WL b] => option_map (fun x => IBlock [x]) (decs b)
  | WL [WI 7; WL b] => option_map (fun x => IBlock [x]) (decs b)
  | WL [WI 8; WL bs] => option_map IBlock (decss bs)
  | WL [WI 9; n] => option_map ICmd (un_text n)
  | _ => None
  end.

Fixpoint dec_items (l : list wv) : option (list item) :=
  match l with
  | [] => Some []
  | x :: r => match dec_item x, dec_items r with Some n, Some ns => Some (n :: ns) | _, _ => None end
  end.

Fixpoint dec_ibodies (l : list wv) : option (list (list item)) :=
  match l with
  | [] => Some []
  | WL b :: r => match dec_items b, dec_ibodies r with Some n, Some ns => Some (n :: ns) | _, _ => None end
  | _ => None
  end.

Definition enc_recvs (l : list (text * text)) : wv :=
  WL (map (fun r => WL [wtext (fst r); wtext (snd r)]) l).

(* case (1 setup loop functions globals) ->
   (0 lib_globals lib_init recv_setup recv_loop recv_functions spec_setup spec_loop
      lcds_at_top cmds_follow_decl headers_of_erased lcd_defs lib_sketch)
   lcd_defs = ((i2c name index object_identifier) ...) *)
Definition run_objs (s l : list wv) (fs : list wv) (g : list wv) : wv :=
  match dec_items s, dec_items l, dec_ibodies fs, dec_items g with
  | Some s', Some l', Some fs', Some g' =>
      let p := mkDProg s' l' fs' g' in
      let '(rs, rl, rf) := resolve p in
      let names := rev (top_lcd_names s') in
      wok [ WL (map wtext (lib_globals p));
            WL (map wtext (lib_init p));
            enc_recvs rs; enc_recvs rl; WL (map enc_recvs rf);
            enc_recvs (spec_items [] s');
            enc_recvs (flat_map (spec_item names) l');
            wbool (lcds_at_top p);
            wbool (cmds_follow_decl [] s');
            WL (map enc_header (headers (erase_prog p)));
            WL (map (fun dk => WL [wbool (l_i2c (fst dk)); wtext (l_name (fst dk)); WI (snd dk);
                                   wtext (lcd_ident (snd dk) (l_name (fst dk)))]) (lcd_defs p));
            WL (map wtext (lib_sketch p)) ]
  | _, _, _, _ => wbad
  end.

Definition run (v : wv) : wv :=
  match v with
  | WL [WI 1; WL s; WL l; WL fs; WL g] => run_objs s l fs g
  | WL [WI 0; WL s; WL l; WL fs; WL g] =>
      match dec_nodes s, dec_nodes l, dec_bodies fs, dec_nodes g with
      | Some s', Some l', Some fs', Some g' =>
          let p := mkProg s' l' fs' g' in
          wok [ WL (map enc_lib (required p));
                WL (map enc_header (headers p));
                WL (map enc_lib (includes p));
                WL (map enc_lib (instantiated p));
                WL (map WI (servo_objs p));
                WL (map (fun o => WL [wbool (o_i2c o); WI (o_name o); WI (o_index o)]) (lcd_objs p));
                wbool (decls_at_documented_positions p);
                wbool (agree p);
                wbool (servos_documented p);
                wbool (lcds_documented p);
                wbool (lcd_names_consistent (setup p)) ]
      | _, _, _, _ => wbad
      end
  | _ => wbad
  end.
