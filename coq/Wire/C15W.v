(* Wire for C15: one case = one generated sketch (buttons, potentiometers, ultrasonic sensors,
   a per-pass statement list gated by a run-time value) with its scripted inputs, or one host
   Button history.  The sketch interpreter below only *composes* the device models of
   Device/DButton.v, DPot.v, DUltra.v in the order in which parser/emitter lay the statements out:
     setup():  one digitalRead per button declared before the main loop (declaration order)
     loop():   the polls of all buttons (name order), then the body statements.
   Events are encoded as lists of integers:
     (1 pin v)  digitalRead        (2 i)      on_click handler of button i entered
     (3 v)      Serial line, int   (4 pin v)  analogRead
     (5 ms)     delay              (6 trig t) trigger pulse on pin trig, HIGH edge at clock t (us)
     (7 echo r) pulseIn result     (8 (n d))  Serial line, distance n/d                      *)
From Coq Require Import ZArith QArith List Bool.
From RV Require Import Base.Wire Device.DButton Device.DPot Device.DUltra.
Import ListNotations.
Open Scope Z_scope.

(* scripted input list -> oracle; the last value repeats (mock_core.cpp next_input) *)
Definition nth_rep (l : list Z) (d : Z) (k : nat) : Z :=
  match l with [] => d | _ => nth k l (last l d) end.

Definition zbool (z : Z) : bool := negb (z =? 0).
Definition boolz (b : bool) : Z := if b then 1 else 0.

Record bdesc := { bd_pin : Z; bd_place : place; bd_h : option nat; bd_samples : list Z }.
Record pdesc := { pd_pin : Z; pd_values : list Z }.
Record udesc := { ud_trig : Z; ud_echo : Z; ud_echoes : list Z }.

Inductive op := OIsPressed (i : nat) | OPot (j : nat) | OMeasure (u : nat) | OSleep (ms : Z).

Record sketch := {
  k_drifts : list Z; k_passgaps : list Z;
  k_buttons : list bdesc; k_pots : list pdesc; k_ultras : list udesc;
  k_gate : option pdesc; k_ops : list (Z * op) }.

Record sstate := {
  s_clk : clock;
  s_btn : list bstate;
  s_pidx : list nat;
  s_us : list (ustate * nat) }.

Fixpoint set_nth {A} (n : nat) (x : A) (l : list A) : list A :=
  match n, l with
  | O, _ :: r => x :: r
  | S m, y :: r => y :: set_nth m x r
  | _, [] => []
  end.

Definition ev (l : list Z) : wv := WL (map WI l).

(* the digitalRead index of pass k: the setup sample comes first for a declaration before the loop *)
Definition sample_of (bd : bdesc) (k : nat) : bool :=
  zbool (nth_rep (bd_samples bd) 0 (match bd_place bd with BeforeLoop => S k | LoopTop => k end)).

Definition enc_bev (pin idx : Z) (e : bev) : wv :=
  match e with
  | BRead v => ev [1; pin; boolz v]
  | BClick => ev [2; idx]
  | BPrintH v => ev [3; boolz v]
  | BPrint v => ev [3; boolz v]
  end.

Definition setup_one (bd : bdesc) : bstate * list wv :=
  let r := b_setup (bd_place bd) (zbool (nth_rep (bd_samples bd) 0 0)) in
  (fst r, map (enc_bev (bd_pin bd) 0) (snd r)).

Fixpoint poll_all (k : nat) (bds : list bdesc) (sts : list bstate) (idx : Z) : list bstate * list wv :=
  match bds, sts with
  | bd :: bds', st :: sts' =>
      let r := b_poll (bd_h bd) st (sample_of bd k) in
      let rest := poll_all k bds' sts' (idx + 1) in
      (fst r :: fst rest, map (enc_bev (bd_pin bd) idx) (snd r) ++ snd rest)
  | _, _ => ([], [])
  end.

Definition enc_uev (ud : udesc) (e : uev) : list wv :=
  match e with
  | UDelay d => [ev [5; d]]
  | UTrig t dur _ => [ev [6; ud_trig ud; t]; ev [7; ud_echo ud; dur]]
  end.

Definition exec_op (sk : sketch) (st : sstate) (o : op) : sstate * list wv :=
  let drift := nth_rep (k_drifts sk) 0 in
  match o with
  | OIsPressed i =>
      match nth_error (s_btn st) i with
      | Some b => (st, [ev [3; boolz (b_is_pressed b)]])
      | None => (st, [ev [99]])
      end
  | OPot j =>
      match nth_error (k_pots sk) j, nth_error (s_pidx st) j with
      | Some pd, Some idx =>
          let r := pot_read (pd_pin pd) (nth_rep (pd_values pd) 0) idx in
          ({| s_clk := s_clk st; s_btn := s_btn st; s_pidx := set_nth j (p_next r) (s_pidx st); s_us := s_us st |},
           map (fun e => match e with PAR p v => ev [4; p; v] end) (p_evs r) ++ [ev [3; p_val r]])
      | _, _ => (st, [ev [99]])
      end
  | OMeasure u =>
      match nth_error (k_ultras sk) u, nth_error (s_us st) u with
      | Some ud, Some (us, np) =>
          let r := u_measure drift (nth_rep (ud_echoes ud) 0) us (s_clk st) np in
          ({| s_clk := r_clk r; s_btn := s_btn st; s_pidx := s_pidx st;
              s_us := set_nth u (r_st r, r_np r) (s_us st) |},
           flat_map (enc_uev ud) (r_evs r) ++ [WL [WI 8; wq (Qred (r_val r))]])
      | _, _ => (st, [ev [99]])
      end
  | OSleep ms =>
      ({| s_clk := do_delay drift (s_clk st) ms; s_btn := s_btn st; s_pidx := s_pidx st; s_us := s_us st |},
       [ev [5; ms]])
  end.

Fixpoint exec_ops (sk : sketch) (g : Z) (st : sstate) (ops : list (Z * op)) : sstate * list wv :=
  match ops with
  | [] => (st, [])
  | (thr, o) :: r =>
      if thr <? g then
        let r1 := exec_op sk st o in
        let r2 := exec_ops sk g (fst r1) r in
        (fst r2, snd r1 ++ snd r2)
      else exec_ops sk g st r
  end.

Definition run_pass (sk : sketch) (k : nat) (st : sstate) : sstate * list wv :=
  let c := match k_passgaps sk with
           | [] => s_clk st
           | _ => tick_us (s_clk st) (nth_rep (k_passgaps sk) 0 k * 1000)
           end in
  let polled := poll_all k (k_buttons sk) (s_btn st) 0 in
  let st1 := {| s_clk := c; s_btn := fst polled; s_pidx := s_pidx st; s_us := s_us st |} in
  let '(g, gev) := match k_gate sk with
                   | Some gd => let v := nth_rep (pd_values gd) 0 k in (v, [ev [4; pd_pin gd; v]])
                   | None => (0, [])
                   end in
  let r := exec_ops sk g st1 (k_ops sk) in
  (fst r, snd polled ++ gev ++ snd r).

Fixpoint run_passes (sk : sketch) (n k : nat) (st : sstate) : list wv :=
  match n with
  | O => []
  | S m => let r := run_pass sk k st in WL (snd r) :: run_passes sk m (S k) (fst r)
  end.

Definition run_sketch (sk : sketch) (n : nat) (clock0 : Z) : wv :=
  let setups := map setup_one (k_buttons sk) in
  let st0 := {| s_clk := {| now_us := clock0 * 1000; ndelay := 0 |};
                s_btn := map fst setups;
                s_pidx := map (fun _ => O) (k_pots sk);
                s_us := map (fun _ => (u_init, O)) (k_ultras sk) |} in
  wok [WL (flat_map snd setups); WL (run_passes sk n O st0)].

(* ---- decoding *)
Definition un_nat (v : wv) : option nat :=
  match v with WI z => if z <? 0 then None else Some (Z.to_nat z) | _ => None end.

Fixpoint all_some {A} (l : list (option A)) : option (list A) :=
  match l with
  | [] => Some []
  | Some a :: r => match all_some r with Some t => Some (a :: t) | None => None end
  | None :: _ => None
  end.

Definition un_list {A} (f : wv -> option A) (v : wv) : option (list A) :=
  match v with WL l => all_some (map f l) | _ => None end.

Definition un_bdesc (v : wv) : option bdesc :=
  match v with
  | WL [WI pin; WI pl; WI h; s] =>
      match un_text s with
      | Some ss => Some {| bd_pin := pin; bd_place := if pl =? 0 then BeforeLoop else LoopTop;
                           bd_h := if h <? 0 then None else Some (Z.to_nat h); bd_samples := ss |}
      | None => None
      end
  | _ => None
  end.

Definition un_pdesc (v : wv) : option pdesc :=
  match v with
  | WL [WI pin; s] => match un_text s with Some ss => Some {| pd_pin := pin; pd_values := ss |} | None => None end
  | _ => None
  end.

Definition un_udesc (v : wv) : option udesc :=
  match v with
  | WL [WI t; WI e; s] =>
      match un_text s with Some ss => Some {| ud_trig := t; ud_echo := e; ud_echoes := ss |} | None => None end
  | _ => None
  end.

Definition un_op (v : wv) : option (Z * op) :=
  match v with
  | WL [WI thr; WI 0; WI a] => Some (thr, OIsPressed (Z.to_nat a))
  | WL [WI thr; WI 1; WI a] => Some (thr, OPot (Z.to_nat a))
  | WL [WI thr; WI 2; WI a] => Some (thr, OMeasure (Z.to_nat a))
  | WL [WI thr; WI 3; WI a] => Some (thr, OSleep a)
  | _ => None
  end.

Definition un_gate (v : wv) : option (option pdesc) :=
  match v with
  | WL [] => Some None
  | WL [g] => match un_pdesc g with Some gd => Some (Some gd) | None => None end
  | _ => None
  end.

(* case 0: (0 N clock0 drifts passgaps buttons pots ultras gate ops)  -> (0 setup-events (pass-events ...))
   case 1: (1 cb samples) -> (0 ((clicked result) ...))   host Button polled once per sample *)
Definition run (v : wv) : wv :=
  match v with
  | WL [WI 0; n; WI clock0; dr; pg; bs; ps; us; g; ops] =>
      match un_nat n, un_text dr, un_text pg, un_list un_bdesc bs, un_list un_pdesc ps with
      | Some n', Some dr', Some pg', Some bs', Some ps' =>
          match un_list un_udesc us, un_gate g, un_list un_op ops with
          | Some us', Some g', Some ops' =>
              run_sketch {| k_drifts := dr'; k_passgaps := pg'; k_buttons := bs'; k_pots := ps';
                            k_ultras := us'; k_gate := g'; k_ops := ops' |} n' clock0
          | _, _, _ => wbad
          end
      | _, _, _, _, _ => wbad
      end
  | WL [WI 1; cb; s] =>
      match un_bool cb, un_text s with
      | Some cb', Some s' =>
          wok [WL (map (fun r => WL [wbool (fst r); wbool (snd r)]) (host_run cb' (map zbool s')))]
      | _, _ => wbad
      end
  | _ => wbad
  end.
