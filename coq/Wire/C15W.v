(* Wire for C15: one case = one generated sketch (buttons, potentiometers, ultrasonic sensors,
   a loop body written in a small statement / expression language in which is_pressed(), read() and
   measure_distance() occur in every position the transpiler accepts: printed, assigned, in
   arithmetic, as call argument, in if / elif / nested-while / for-range conditions, under not / and /
   or, in conditional expressions, as sleep() argument) with its scripted inputs, or one host
   Button history.  The sketch interpreter below only *composes* the device models of
   Device/DButton.v, DPot.v, DUltra.v in the order in which parser/emitter lay the statements out:
     setup():  one digitalRead per button (declaration order: the buttons declared before the main loop,
               then those declared at the top of the loop body)
     loop():   the polls of all buttons (name order), then the body statements.
   Events are encoded as lists of integers:
     (1 pin v)  digitalRead        (2 i)      on_click handler of button i entered
     (3 v)      Serial line, int   (4 pin v)  analogRead
     (5 ms)     delay              (6 trig t) trigger pulse on pin trig, HIGH edge at clock t (us)
     (7 echo r) pulseIn result     (8 (n d))  Serial line, distance n/d                      *)
From Coq Require Import ZArith QArith List Bool.
From RV Require Import Base.Wire Base.NumC Device.DButton Device.DPot Device.DUltra Host.ButtonHist Device.DRebind.
Import ListNotations.
Open Scope Z_scope.

(* scripted input list -> oracle; the last value repeats (mock_core.cpp next_input) *)
Definition nth_rep (l : list Z) (d : Z) (k : nat) : Z :=
  match l with [] => d | _ => nth k l (last l d) end.

Definition zbool (z : Z) : bool := negb (z =? 0).
Definition boolz (b : bool) : Z := if b then 1 else 0.

(* bd_pin / bd_h / bd_samples: the pin the poll of loop() reads, its handler, the scripted levels of that pin;
   bd_spin / bd_ssamples: the pin on which setup() takes the start-up sample, and its scripted levels - the same pin unless the
   name was declared more than once with different pins (Device/DRebind.v: poll = last declaration, start-up sample = first) *)
Record bdesc := { bd_pin : Z; bd_place : place; bd_h : option nat; bd_samples : list Z; bd_spin : Z; bd_ssamples : list Z }.
Record pdesc := { pd_pin : Z; pd_values : list Z }.
Record udesc := { ud_trig : Z; ud_echo : Z; ud_echoes : list Z }.

(* ---- the loop body: expressions and statements are interpreted directly on their wire form
   (tag :: arguments), by recursion on a depth bound [fuel] (loops have their own structural
   counters).  C semantics of the emitted code: && and || short-circuit, the condition of a while
   and the bound of a for are re-evaluated on every iteration.
     int expressions   (0 n) literal            (1 i) b_i.is_pressed()    (2 j) p_j.read()
                       (3) the gate variable    (4) innermost loop counter
                       (5 op a b) a op b  op: 0 + 1 - 2 *               (6 a) a + a  (evaluated twice)
                       (7 a) f(a) = a + 1       (8 c a b) a if c else b
     conditions        (10 a) a (non-zero)      (11 c) not c              (12 c d) c and d   (13 c d) c or d
                       (14 op a b) a op b  op: 0 < 1 <= 2 == 3 != 4 > 5 >=
                       (15 f (num den)) f < num/den
     float expressions (20 u) u.measure_distance()                        (21 f) f + f  (evaluated twice)
     statements        (30 a) mon.write(a)      (32 ((c body) ...) else-body) if / elif / else
                       (33 c K order body) n = 0; while (order 0: c and n < K | 1: n < K and c): body; n = n + 1
                                           followed by mon.write(n)
                       (34 a body) for i in range(a): body                (35 a) sleep(a)
                       (36 f) mon.write(f)      (37 body) a block (the body of a helper function, called here) *)
Record sketch := {
  k_w : Z;
  k_drifts : list Z; k_passgaps : list Z;
  k_buttons : list bdesc; k_pots : list pdesc; k_ultras : list udesc;
  k_gate : option pdesc; k_body : list wv }.

Record sstate := {
  s_clk : clock;
  s_btn : list bstate;
  s_pidx : list nat;
  s_us : list (ustate * nat) }.

Fixpoint set_nth {A} (n : nat) (x : A) (l : list A) : list A :=
  match n, l with
  | O, _ :: r => x :: r
  | S m, y :: r => y :: set_nth m x r
  | _, [] => []
  end.

Definition ev (l : list Z) : wv := WL (map WI l).
Definition bad_ev : wv := ev [99].

(* the digitalRead index of pass k on the polled pin: the setup sample comes first (for either declaration place) when it was
   taken on that pin *)
Definition sample_of (bd : bdesc) (k : nat) : bool :=
  zbool (nth_rep (bd_samples bd) 0 (if bd_spin bd =? bd_pin bd then S k else k)).

Definition enc_bev (pin idx : Z) (e : bev) : wv :=
  match e with
  | BRead v => ev [1; pin; boolz v]
  | BClick => ev [2; idx]
  | BPrintH v => ev [3; boolz v]
  | BPrint v => ev [3; boolz v]
  end.

Definition setup_one (bd : bdesc) : bstate * list wv :=
  let r := b_setup (bd_place bd) (zbool (nth_rep (bd_ssamples bd) 0 0)) in
  (fst r, map (enc_bev (bd_spin bd) 0) (snd r)).

Fixpoint poll_all (k : nat) (bds : list bdesc) (sts : list bstate) (idx : Z) : list bstate * list wv :=
  match bds, sts with
  | bd :: bds', st :: sts' =>
      let r := b_poll (bd_h bd) st (sample_of bd k) in
      let rest := poll_all k bds' sts' (idx + 1) in
      (fst r :: fst rest, map (enc_bev (bd_pin bd) idx) (snd r) ++ snd rest)
  | _, _ => ([], [])
  end.

Definition enc_uev (ud : udesc) (e : uev) : list wv :=
  match e with
  | UDelay d => [ev [5; d]]
  | UTrig t dur _ => [ev [6; ud_trig ud; t]; ev [7; ud_echo ud; dur]]
  end.

(* the three sensor primitives: the only places where the device models are used *)
Definition do_pressed (st : sstate) (i : Z) : option Z :=
  match nth_error (s_btn st) (Z.to_nat i) with
  | Some b => Some (boolz (b_is_pressed b))
  | None => None
  end.

Definition do_read (sk : sketch) (st : sstate) (j : Z) : option (sstate * list wv * Z) :=
  match nth_error (k_pots sk) (Z.to_nat j), nth_error (s_pidx st) (Z.to_nat j) with
  | Some pd, Some idx =>
      let r := pot_read (pd_pin pd) (nth_rep (pd_values pd) 0) idx in
      Some ({| s_clk := s_clk st; s_btn := s_btn st; s_pidx := set_nth (Z.to_nat j) (p_next r) (s_pidx st); s_us := s_us st |},
            map (fun e => match e with PAR p v => ev [4; p; v] end) (p_evs r), p_val r)
  | _, _ => None
  end.

Definition do_measure (sk : sketch) (st : sstate) (u : Z) : option (sstate * list wv * Q) :=
  match nth_error (k_ultras sk) (Z.to_nat u), nth_error (s_us st) (Z.to_nat u) with
  | Some ud, Some (us, np) =>
      let r := u_measure (k_w sk) (nth_rep (k_drifts sk) 0) (nth_rep (ud_echoes ud) 0) us (s_clk st) np in
      Some ({| s_clk := r_clk r; s_btn := s_btn st; s_pidx := s_pidx st;
               s_us := set_nth (Z.to_nat u) (r_st r, r_np r) (s_us st) |},
            flat_map (enc_uev ud) (r_evs r), r_val r)
  | _, _ => None
  end.

Definition do_sleep (sk : sketch) (st : sstate) (ms : Z) : sstate * list wv :=
  ({| s_clk := do_delay (nth_rep (k_drifts sk) 0) (s_clk st) ms; s_btn := s_btn st; s_pidx := s_pidx st; s_us := s_us st |},
   [ev [5; ms]]).

Definition arith (op a b : Z) : Z := if op =? 0 then a + b else if op =? 1 then a - b else a * b.
Definition compare_op (op a b : Z) : bool :=
  if op =? 0 then a <? b else if op =? 1 then a <=? b else if op =? 2 then a =? b
  else if op =? 3 then negb (a =? b) else if op =? 4 then b <? a else b <=? a.
Definition q_lt (a b : Q) : bool := negb (Qle_bool b a).

Definition loop_cap : nat := 16.

Fixpoint eval_f (fuel : nat) (sk : sketch) (g cnt : Z) (st : sstate) (v : wv) {struct fuel} : sstate * list wv * Q :=
  let bad := (st, [bad_ev], 0%Q) in
  match fuel with
  | O => bad
  | S f =>
      match v with
      | WL (WI tag :: args) =>
          if tag =? 20 then
            match args with
            | [WI u] => match do_measure sk st u with Some r => r | None => bad end
            | _ => bad
            end
          else if tag =? 21 then
            match args with
            | [a] =>
                let '(s1, e1, x) := eval_f f sk g cnt st a in
                let '(s2, e2, y) := eval_f f sk g cnt s1 a in
                (s2, e1 ++ e2, (x + y)%Q)
            | _ => bad
            end
          else bad
      | _ => bad
      end
  end.

Fixpoint eval_i (fuel : nat) (sk : sketch) (g cnt : Z) (st : sstate) (v : wv) {struct fuel} : sstate * list wv * Z :=
  let bad := (st, [bad_ev], 0) in
  match fuel with
  | O => bad
  | S f =>
      match v with
      | WL (WI tag :: args) =>
          if tag =? 0 then match args with [WI n] => (st, [], n) | _ => bad end
          else if tag =? 1 then
            match args with
            | [WI i] => match do_pressed st i with Some x => (st, [], x) | None => bad end
            | _ => bad
            end
          else if tag =? 2 then
            match args with
            | [WI j] => match do_read sk st j with Some r => r | None => bad end
            | _ => bad
            end
          else if tag =? 3 then (st, [], g)
          else if tag =? 4 then (st, [], cnt)
          else if tag =? 5 then
            match args with
            | [WI op; a; b] =>
                let '(s1, e1, x) := eval_i f sk g cnt st a in
                let '(s2, e2, y) := eval_i f sk g cnt s1 b in
                (s2, e1 ++ e2, arith op x y)
            | _ => bad
            end
          else if tag =? 6 then
            match args with
            | [a] =>
                let '(s1, e1, x) := eval_i f sk g cnt st a in
                let '(s2, e2, y) := eval_i f sk g cnt s1 a in
                (s2, e1 ++ e2, x + y)
            | _ => bad
            end
          else if tag =? 7 then
            match args with
            | [a] => let '(s1, e1, x) := eval_i f sk g cnt st a in (s1, e1, x + 1)
            | _ => bad
            end
          else if tag =? 8 then
            match args with
            | [c; a; b] =>
                let '(s1, e1, t) := eval_c f sk g cnt st c in
                let '(s2, e2, x) := eval_i f sk g cnt s1 (if t then a else b) in
                (s2, e1 ++ e2, x)
            | _ => bad
            end
          else bad
      | _ => bad
      end
  end
with eval_c (fuel : nat) (sk : sketch) (g cnt : Z) (st : sstate) (v : wv) {struct fuel} : sstate * list wv * bool :=
  let bad := (st, [bad_ev], false) in
  match fuel with
  | O => bad
  | S f =>
      match v with
      | WL (WI tag :: args) =>
          if tag =? 10 then
            match args with
            | [a] => let '(s1, e1, x) := eval_i f sk g cnt st a in (s1, e1, negb (x =? 0))
            | _ => bad
            end
          else if tag =? 11 then
            match args with
            | [c] => let '(s1, e1, t) := eval_c f sk g cnt st c in (s1, e1, negb t)
            | _ => bad
            end
          else if tag =? 12 then
            match args with
            | [c; d] =>
                let '(s1, e1, t) := eval_c f sk g cnt st c in
                if t then let '(s2, e2, t2) := eval_c f sk g cnt s1 d in (s2, e1 ++ e2, t2)
                else (s1, e1, false)
            | _ => bad
            end
          else if tag =? 13 then
            match args with
            | [c; d] =>
                let '(s1, e1, t) := eval_c f sk g cnt st c in
                if t then (s1, e1, true)
                else let '(s2, e2, t2) := eval_c f sk g cnt s1 d in (s2, e1 ++ e2, t2)
            | _ => bad
            end
          else if tag =? 14 then
            match args with
            | [WI op; a; b] =>
                let '(s1, e1, x) := eval_i f sk g cnt st a in
                let '(s2, e2, y) := eval_i f sk g cnt s1 b in
                (s2, e1 ++ e2, compare_op op x y)
            | _ => bad
            end
          else if tag =? 15 then
            match args with
            | [a; thr] =>
                match un_q thr with
                | Some q => let '(s1, e1, x) := eval_f f sk g cnt st a in (s1, e1, q_lt x q)
                | None => bad
                end
            | _ => bad
            end
          else bad
      | _ => bad
      end
  end.

(* control-flow combinators, parametrised by the evaluators of the next lower depth *)
Definition exec_fn := Z -> sstate -> wv -> sstate * list wv.            (* counter, state, statement *)
Definition cond_fn := Z -> sstate -> wv -> sstate * list wv * bool.
Definition int_fn := Z -> sstate -> wv -> sstate * list wv * Z.

Fixpoint run_list (ex : exec_fn) (cnt : Z) (st : sstate) (l : list wv) : sstate * list wv :=
  match l with
  | [] => (st, [])
  | s :: r =>
      let '(s1, e1) := ex cnt st s in
      let '(s2, e2) := run_list ex cnt s1 r in
      (s2, e1 ++ e2)
  end.

Fixpoint run_chain (ex : exec_fn) (ec : cond_fn) (cnt : Z) (els : list wv) (st : sstate) (l : list wv) : sstate * list wv :=
  match l with
  | [] => run_list ex cnt st els
  | WL [c; WL body] :: r =>
      let '(s1, e1, t) := ec cnt st c in
      let '(s2, e2) := if t then run_list ex cnt s1 body else run_chain ex ec cnt els s1 r in
      (s2, e1 ++ e2)
  | _ :: _ => (st, [bad_ev])
  end.

Fixpoint run_while (ex : exec_fn) (ec : cond_fn) (c : wv) (K order : Z) (body : list wv)
                   (k : nat) (n : Z) (st : sstate) : sstate * list wv * Z :=
  match k with
  | O => (st, [bad_ev], n)
  | S k' =>
      let '(s1, e1, go) :=
        if order =? 0 then
          let '(s1, e1, t) := ec n st c in (s1, e1, t && (n <? K))
        else if n <? K then ec n st c
        else (st, [], false) in
      if go then
        let '(s2, e2) := run_list ex n s1 body in
        let '(s3, e3, n3) := run_while ex ec c K order body k' (n + 1) s2 in
        (s3, e1 ++ e2 ++ e3, n3)
      else (s1, e1, n)
  end.

Fixpoint run_for (ex : exec_fn) (ei : int_fn) (a : wv) (body : list wv) (cnt : Z)
                 (k : nat) (i : Z) (st : sstate) : sstate * list wv :=
  match k with
  | O => (st, [bad_ev])
  | S k' =>
      let '(s1, e1, x) := ei cnt st a in
      if i <? x then
        let '(s2, e2) := run_list ex i s1 body in
        let '(s3, e3) := run_for ex ei a body cnt k' (i + 1) s2 in
        (s3, e1 ++ e2 ++ e3)
      else (s1, e1)
  end.

Fixpoint exec (fuel : nat) (sk : sketch) (g cnt : Z) (st : sstate) (v : wv) {struct fuel} : sstate * list wv :=
  let bad := (st, [bad_ev]) in
  match fuel with
  | O => bad
  | S f =>
      let ex : exec_fn := fun cnt' st' s => exec f sk g cnt' st' s in
      let ec : cond_fn := fun cnt' st' c => eval_c f sk g cnt' st' c in
      let ei : int_fn := fun cnt' st' a => eval_i f sk g cnt' st' a in
      match v with
      | WL (WI tag :: args) =>
          if tag =? 30 then
            match args with
            | [a] => let '(s1, e1, x) := eval_i f sk g cnt st a in (s1, e1 ++ [ev [3; x]])
            | _ => bad
            end
          else if tag =? 32 then
            match args with
            | [WL brs; WL els] => run_chain ex ec cnt els st brs
            | _ => bad
            end
          else if tag =? 33 then
            match args with
            | [c; WI K; WI order; WL body] =>
                let '(s9, e9, n9) := run_while ex ec c K order body (S (Z.to_nat K)) 0 st in
                (s9, e9 ++ [ev [3; n9]])
            | _ => bad
            end
          else if tag =? 34 then
            match args with
            | [a; WL body] => run_for ex ei a body cnt loop_cap 0 st
            | _ => bad
            end
          else if tag =? 35 then
            match args with
            | [a] =>
                let '(s1, e1, x) := eval_i f sk g cnt st a in
                let '(s2, e2) := do_sleep sk s1 x in
                (s2, e1 ++ e2)
            | _ => bad
            end
          else if tag =? 36 then
            match args with
            | [a] => let '(s1, e1, x) := eval_f f sk g cnt st a in (s1, e1 ++ [WL [WI 8; wq (Qred x)]])
            | _ => bad
            end
          else if tag =? 37 then
            match args with
            | [WL body] => run_list ex cnt st body
            | _ => bad
            end
          else bad
      | _ => bad
      end
  end.

Definition body_fuel : nat := 64.

(* (38 thr) at the top level of the loop body:  if g > thr: continue  - parser/emitter turn a continue of the main loop into
   "return;" inside loop(): the rest of the body is skipped in this pass (the polls at the head of loop() have already run).
   Some b: the statement is such a continue, b = taken in this pass *)
Definition pass_ends (g : Z) (s : wv) : option bool :=
  match s with
  | WL [WI 38; WI thr] => Some (g >? thr)
  | _ => None
  end.

Fixpoint exec_body (sk : sketch) (g : Z) (st : sstate) (l : list wv) : sstate * list wv :=
  match l with
  | [] => (st, [])
  | s :: r =>
      match pass_ends g s with
      | Some true => (st, [])
      | Some false => exec_body sk g st r
      | None =>
          let '(s1, e1) := exec body_fuel sk g 0 st s in
          let '(s2, e2) := exec_body sk g s1 r in
          (s2, e1 ++ e2)
      end
  end.

Definition run_pass (sk : sketch) (k : nat) (st : sstate) : sstate * list wv :=
  let c := match k_passgaps sk with
           | [] => s_clk st
           | _ => tick_us (s_clk st) (nth_rep (k_passgaps sk) 0 k * 1000)
           end in
  let polled := poll_all k (k_buttons sk) (s_btn st) 0 in
  let st1 := {| s_clk := c; s_btn := fst polled; s_pidx := s_pidx st; s_us := s_us st |} in
  let '(g, gev) := match k_gate sk with
                   | Some gd => let v := nth_rep (pd_values gd) 0 k in (v, [ev [4; pd_pin gd; v]])
                   | None => (0, [])
                   end in
  let r := exec_body sk g st1 (k_body sk) in
  (fst r, snd polled ++ gev ++ snd r).

Fixpoint run_passes (sk : sketch) (n k : nat) (st : sstate) : list wv :=
  match n with
  | O => []
  | S m => let r := run_pass sk k st in WL (snd r) :: run_passes sk m (S k) (fst r)
  end.

(* clock0 = the true start time in ms (any non-negative integer, e.g. 2^W - 30) *)
Definition run_sketch (sk : sketch) (n : nat) (clock0 : Z) : wv :=
  let setups := map setup_one (k_buttons sk) in
  let st0 := {| s_clk := {| now_us := clock0 * 1000; ndelay := 0 |};
                s_btn := map fst setups;
                s_pidx := map (fun _ => O) (k_pots sk);
                s_us := map (fun _ => (u_init, O)) (k_ultras sk) |} in
  (* setup(): the samples of the buttons declared before the loop, then those of the loop-top buttons *)
  let sevs (pl : place) :=
    flat_map (fun bd => match bd_place bd, pl with
                        | BeforeLoop, BeforeLoop | LoopTop, LoopTop => snd (setup_one bd)
                        | _, _ => []
                        end) (k_buttons sk) in
  wok [WL (sevs BeforeLoop ++ sevs LoopTop); WL (run_passes sk n O st0)].

(* ---- decoding *)
Definition un_nat (v : wv) : option nat :=
  match v with WI z => if z <? 0 then None else Some (Z.to_nat z) | _ => None end.

Fixpoint all_some {A} (l : list (option A)) : option (list A) :=
  match l with
  | [] => Some []
  | Some a :: r => match all_some r with Some t => Some (a :: t) | None => None end
  | None :: _ => None
  end.

Definition un_list {A} (f : wv -> option A) (v : wv) : option (list A) :=
  match v with WL l => all_some (map f l) | _ => None end.

(* one declaration of a button: (pin place h samples-of-that-pin) *)
Record bdecl_w := { bw_pin : Z; bw_place : place; bw_h : option nat; bw_samples : list Z }.

Definition un_bdecl (v : wv) : option bdecl_w :=
  match v with
  | WL [WI pin; WI pl; WI h; s] =>
      match un_text s with
      | Some ss => Some {| bw_pin := pin; bw_place := if pl =? 0 then BeforeLoop else LoopTop;
                           bw_h := if h <? 0 then None else Some (Z.to_nat h); bw_samples := ss |}
      | None => None
      end
  | _ => None
  end.

(* a button NAME with all its declarations in text order (those before the loop, then those at the loop top): the firmware has
   one poll per name - pin, handler of the LAST declaration ([after], the binding the text leaves = Python's while loop() runs) -
   and one start-up sample, emitted where the FIRST declaration stands, on its pin ([first_of]) *)
Definition resolve_button (ds : list bdecl_w) : option bdesc :=
  match first_of (map IDecl ds), after (map IDecl ds) None with
  | Some f, Some l => Some {| bd_pin := bw_pin l; bd_place := bw_place f; bd_h := bw_h l; bd_samples := bw_samples l;
                              bd_spin := bw_pin f; bd_ssamples := bw_samples f |}
  | _, _ => None
  end.

(* (pin place h samples): a name declared once;  ((pin place h samples) ...): a name with several declarations *)
Definition un_bdesc (v : wv) : option bdesc :=
  match v with
  | WL (WI _ :: _) => match un_bdecl v with Some d => resolve_button [d] | None => None end
  | WL (WL _ :: _) => match un_list un_bdecl v with Some ds => resolve_button ds | None => None end
  | _ => None
  end.

Definition un_pdecl (v : wv) : option pdesc :=
  match v with
  | WL [WI pin; s] => match un_text s with Some ss => Some {| pd_pin := pin; pd_values := ss |} | None => None end
  | _ => None
  end.

(* a potentiometer name declared several times, every declaration above the loop body's statements (before the loop / at the loop
   top): read() in the loop body is analogRead of the pin of the declaration written last above it - [after] *)
Definition un_pdesc (v : wv) : option pdesc :=
  match v with
  | WL (WI _ :: _) => un_pdecl v
  | WL (WL _ :: _) => match un_list un_pdecl v with Some ds => after (map IDecl ds) None | None => None end
  | _ => None
  end.

Definition un_udecl (v : wv) : option udesc :=
  match v with
  | WL [WI t; WI e; s] =>
      match un_text s with Some ss => Some {| ud_trig := t; ud_echo := e; ud_echoes := ss |} | None => None end
  | _ => None
  end.

(* an ultrasonic name declared several times: one helper per name, built from the last declaration *)
Definition un_udesc (v : wv) : option udesc :=
  match v with
  | WL (WI _ :: _) => un_udecl v
  | WL (WL _ :: _) => match un_list un_udecl v with Some ds => after (map IDecl ds) None | None => None end
  | _ => None
  end.

Definition un_gate (v : wv) : option (option pdesc) :=
  match v with
  | WL [] => Some None
  | WL [g] => match un_pdesc g with Some gd => Some (Some gd) | None => None end
  | _ => None
  end.

(* case 0: (0 N W clock0 drifts passgaps buttons pots ultras gate body)  -> (0 setup-events (pass-events ...))
   case 1: (1 cb samples) -> (0 ((clicked result) ...))   host Button polled once per sample
   case 2: (2 depth h provider provider-values ops) -> (0 (events-of-call ...) ok)   host Button, whole call history
           (Host/ButtonHist.v): h = -1 no on_click, n >= 0 a handler that calls is_pressed() n times; provider-values:
           what the state_provider returns call after call (the last value repeats; none: False);
           op (0 num) = set_pressed(num), (1) = is_pressed(); num = (0 z) int | (1 (n d)) float | (2 b) bool | (3) None;
           event (0) = on_click entered, (1 v) = an is_pressed() call returned v; ok = 0: the last call listed ran out
           of depth (RecursionError) and the history stops there *)
Definition un_pynum (v : wv) : option pynum :=
  match v with
  | WL [WI 0; WI z] => Some (PI z)
  | WL [WI 1; q] => match un_q q with Some x => Some (PF x) | None => None end
  | WL [WI 2; b] => match un_bool b with Some x => Some (PB x) | None => None end
  | WL [WI 3] => Some PO
  | _ => None
  end.

Definition un_hop (v : wv) : option hop :=
  match v with
  | WL [WI 0; x] => match un_pynum x with Some a => Some (HSet a) | None => None end
  | WL [WI 1] => Some HPoll
  | _ => None
  end.

(* case 4: (4 N setup-items loop-items) - the places where one sensor name occurs (Device/DRebind.v); item (0 key) declaration
   (key: a number for the pin(s) it names), (1) a call written here, (2 f) def of a function making the call, (3 f) a call of f
   -> (0 python lexical last first-declaration lex_ok last_ok last_ok_loop); a run = (keys-of-the-calls-before-the-loop
   (keys-of-pass-0 ...)), key -1: nothing bound *)
Definition un_item (v : wv) : option (item Z) :=
  match v with
  | WL [WI 0; WI d] => Some (IDecl d)
  | WL [WI 1] => Some IUse
  | WL [WI 2; f] => match un_nat f with Some f' => Some (IDef f') | None => None end
  | WL [WI 3; f] => match un_nat f with Some f' => Some (ICall f') | None => None end
  | _ => None
  end.

Definition w_key (o : option Z) : wv := match o with Some d => WI d | None => WI (-1) end.
Definition w_brun (r : list (option Z) * list (list (option Z))) : wv :=
  WL [WL (map w_key (fst r)); WL (map (fun p => WL (map w_key p)) (snd r))].

Definition run_binding (n : nat) (t : btext Z) : wv :=
  wok [w_brun (run_dyn n t); w_brun (run_lex n t); w_brun (run_last n t); w_key (first_decl t);
       wbool (lex_ok Z.eqb t); wbool (last_ok Z.eqb t); wbool (last_ok_loop Z.eqb t)].

Definition prov_of (l : list pynum) (k : nat) : bool := truthy (nth k l (last l (PB false))).

Definition w_hev (e : hev) : wv := match e with HClick => WL [WI 0] | HRet v => WL [WI 1; wbool v] end.

Definition run (v : wv) : wv :=
  match v with
  | WL [WI 0; n; WI w; WI clock0; dr; pg; bs; ps; us; g; WL body] =>
      match un_nat n, un_text dr, un_text pg, un_list un_bdesc bs, un_list un_pdesc ps with
      | Some n', Some dr', Some pg', Some bs', Some ps' =>
          match un_list un_udesc us, un_gate g with
          | Some us', Some g' =>
              run_sketch {| k_w := w; k_drifts := dr'; k_passgaps := pg'; k_buttons := bs'; k_pots := ps';
                            k_ultras := us'; k_gate := g'; k_body := body |} n' clock0
          | _, _ => wbad
          end
      | _, _, _, _, _ => wbad
      end
  | WL [WI 4; n; st; lp] =>
      match un_nat n, un_list un_item st, un_list un_item lp with
      | Some n', Some st', Some lp' => run_binding n' {| t_setup := st'; t_loop := lp' |}
      | _, _, _ => wbad
      end
  | WL [WI 1; cb; s] =>
      match un_bool cb, un_text s with
      | Some cb', Some s' =>
          wok [WL (map (fun r => WL [wbool (fst r); wbool (snd r)]) (host_run cb' (map zbool s')))]
      | _, _ => wbad
      end
  | WL [WI 2; d; WI h; pv; pvals; ops] =>
      match un_nat d, un_bool pv, un_list un_pynum pvals, un_list un_hop ops with
      | Some d', Some pv', Some pvals', Some ops' =>
          let r := h_hist d' {| hc_click := if h <? 0 then None else Some (Z.to_nat h); hc_provider := pv' |}
                          (prov_of pvals') hs_init ops' in
          wok [WL (map (fun evs => WL (map w_hev evs)) (fst r)); wbool (snd r)]
      | _, _, _, _ => wbad
      end
  | _ => wbad
  end.
