From Coq Require Import ZArith QArith List Bool.
From RV Require Import Base.Wire Base.Text Device.DBuzzer Device.MelodySpec Gen.Melodies.
Import ListNotations.
Open Scope Z_scope.

(* what a case may contain: device calls and getter reads (printed by the script) *)
Inductive item : Type :=
| Call (o : op)
| GetState | GetFrequency | GetLast.

Definition un_qopt (v : wv) : option (option Q) :=
  match v with
  | WL [] => Some None
  | WL [x] => match un_q x with Some q => Some (Some q) | None => None end
  | _ => None
  end.

Definition un_item (v : wv) : option item :=
  match v with
  | WL [WI 0; f] => match un_q f with Some f => Some (Call (PlayTone f None)) | _ => None end
  | WL [WI 1; f; d] =>
      match un_q f, un_q d with Some f, Some d => Some (Call (PlayTone f (Some d))) | _, _ => None end
  | WL [WI 2] => Some (Call Stop)
  | WL [WI 3; f; on; off; times] =>
      match un_qopt f, un_q on, un_q off, un_q times with
      | Some f, Some on, Some off, Some t => Some (Call (Beep f on off t))
      | _, _, _, _ => None
      end
  | WL [WI 4; s; e; d; steps] =>
      match un_q s, un_q e, un_q d, un_q steps with
      | Some s, Some e, Some d, Some n => Some (Call (Sweep s e d n))
      | _, _, _, _ => None
      end
  | WL [WI 5; name; tempo] =>
      match un_text name, un_qopt tempo with
      | Some nm, Some t => Some (Call (Melody nm t))
      | _, _ => None
      end
  | WL [WI 6] => Some GetState
  | WL [WI 7] => Some GetFrequency
  | WL [WI 8] => Some GetLast
  | _ => None
  end.

Fixpoint un_items (l : list wv) : option (list item) :=
  match l with
  | [] => Some []
  | v :: r => match un_item v, un_items r with
              | Some i, Some is => Some (i :: is)
              | _, _ => None
              end
  end.

Definition w_ev (e : ev) : wv :=
  match e with
  | Tone p f => WL [WI 0; WI p; WI f]
  | NoTone p => WL [WI 1; WI p]
  | Delay ms => WL [WI 2; WI ms]
  end.

(* generated cases stay inside durations >= 0, so [neg] is never consulted; literal semantics *)
Fixpoint exec (pin : Z) (st : bz) (is : list item) : list wv * bz :=
  match is with
  | [] => ([], st)
  | Call o :: r =>
      let '(st1, evs) := dstep pin neg_literal emitter_melodies st o in
      let '(out, st2) := exec pin st1 r in (map w_ev evs ++ out, st2)
  | GetState :: r =>
      let '(out, st2) := exec pin st r in (WL [WI 3; wbool (get_state st)] :: out, st2)
  | GetFrequency :: r =>
      let '(out, st2) := exec pin st r in (WL [WI 4; wq (Qred (get_frequency st))] :: out, st2)
  | GetLast :: r =>
      let '(out, st2) := exec pin st r in (WL [WI 5; wq (Qred (get_last_frequency st))] :: out, st2)
  end.

Definition w_score (kv : text * score) : wv :=
  let '(k, (t, s)) := kv in
  WL [wtext k; wq t; WL (map (fun fb => WL [wq (fst fb); wq (snd fb)]) s)].

(* case 0: (0 pin default (items...)) -> (0 (events and getter values...) (state current last))
   case 1: (1 name) -> (0 accepted lowered has_emitter_score)     parser side of melody()
   case 2: (2) -> the pinned specification scores (Device/MelodySpec.v) *)
Definition run (v : wv) : wv :=
  match v with
  | WL [WI 0; WI pin; d; WL items] =>
      match un_q d, un_items items with
      | Some d, Some is =>
          let '(out, st) := exec pin (init d) is in
          wok [WL out; WL [wbool (b_state st); wq (Qred (b_current st)); wq (Qred (b_last st))]]
      | _, _ => wbad
      end
  | WL [WI 1; name] =>
      match un_text name with
      | Some nm =>
          match parser_melody parser_melody_names nm with
          | Some l => wok [WI 1; wtext l;
                           wbool (match tlookup l emitter_melodies with Some _ => true | None => false end)]
          | None => wok [WI 0]
          end
      | None => wbad
      end
  | WL [WI 2] => wok [WL (map w_score spec_melodies)]
  | _ => wbad
  end.
