From Coq Require Import ZArith QArith List Bool.
From RV Require Import Base.Wire Base.Text Device.DBuzzer Device.MelodySpec Gen.Melodies.
Import ListNotations.
Open Scope Z_scope.

(* a frequency-type argument: a number, or an expression over a getter of the same buzzer evaluated in
   the state the call is made in:  get_last_frequency() * a + b  /  get_frequency() * a + b *)
Inductive aexp : Type :=
| ALit (q : Q)
| ALast (a b : Q)
| ACur (a b : Q).

Definition aeval (st : bz) (x : aexp) : Q :=
  match x with
  | ALit q => q
  | ALast a b => Qred (get_last_frequency st * a + b)
  | ACur a b => Qred (get_frequency st * a + b)
  end.

Definition un_ax (v : wv) : option aexp :=
  match v with
  | WL [WI 1; a; b] => match un_q a, un_q b with Some a, Some b => Some (ALast a b) | _, _ => None end
  | WL [WI 2; a; b] => match un_q a, un_q b with Some a, Some b => Some (ACur a b) | _, _ => None end
  | _ => match un_q v with Some q => Some (ALit q) | None => None end
  end.

(* what a case may contain: device calls (the op is built in the current state; [shown] lists the values of
   its frequency-type arguments, reported back to the harness) and getter reads (printed by the script) *)
Inductive item : Type :=
| Call (mk : bz -> op) (shown : bz -> list Q)
| GetState | GetFrequency | GetLast.

Definition un_qopt (v : wv) : option (option Q) :=
  match v with
  | WL [] => Some None
  | WL [x] => match un_q x with Some q => Some (Some q) | None => None end
  | _ => None
  end.

Definition un_axopt (v : wv) : option (option aexp) :=
  match v with
  | WL [] => Some None
  | WL [x] => match un_ax x with Some q => Some (Some q) | None => None end
  | _ => None
  end.

Definition aopt (st : bz) (x : option aexp) : option Q :=
  match x with Some e => Some (aeval st e) | None => None end.
Definition ashow (st : bz) (x : option aexp) : list Q :=
  match x with Some e => [aeval st e] | None => [] end.

Definition un_item (v : wv) : option item :=
  match v with
  | WL [WI 0; f] =>
      match un_ax f with
      | Some f => Some (Call (fun st => PlayTone (aeval st f) None) (fun st => [aeval st f]))
      | _ => None
      end
  | WL [WI 1; f; d] =>
      match un_ax f, un_q d with
      | Some f, Some d => Some (Call (fun st => PlayTone (aeval st f) (Some d)) (fun st => [aeval st f]))
      | _, _ => None
      end
  | WL [WI 2] => Some (Call (fun _ => Stop) (fun _ => []))
  | WL [WI 3; f; on; off; times] =>
      match un_axopt f, un_q on, un_q off, un_q times with
      | Some f, Some on, Some off, Some t =>
          Some (Call (fun st => Beep (aopt st f) on off t) (fun st => ashow st f))
      | _, _, _, _ => None
      end
  | WL [WI 4; s; e; d; steps] =>
      match un_ax s, un_ax e, un_q d, un_q steps with
      | Some s, Some e, Some d, Some n =>
          Some (Call (fun st => Sweep (aeval st s) (aeval st e) d n) (fun st => [aeval st s; aeval st e]))
      | _, _, _, _ => None
      end
  | WL [WI 5; name; tempo] =>
      match un_text name, un_axopt tempo with
      | Some nm, Some t => Some (Call (fun st => Melody nm (aopt st t)) (fun st => ashow st t))
      | _, _ => None
      end
  | WL [WI 6] => Some GetState
  | WL [WI 7] => Some GetFrequency
  | WL [WI 8] => Some GetLast
  | _ => None
  end.

Fixpoint un_items (l : list wv) : option (list item) :=
  match l with
  | [] => Some []
  | v :: r => match un_item v, un_items r with
              | Some i, Some is => Some (i :: is)
              | _, _ => None
              end
  end.

Definition w_ev (e : ev) : wv :=
  match e with
  | Tone p f => WL [WI 0; WI p; WI f]
  | NoTone p => WL [WI 1; WI p]
  | Delay ms => WL [WI 2; WI ms]
  end.

Fixpoint exec (pin : Z) (st : bz) (is : list item) : list wv * bz :=
  match is with
  | [] => ([], st)
  | Call mk shown :: r =>
      let '(st1, evs) := dstep pin emitter_melodies st (mk st) in
      let '(out, st2) := exec pin st1 r in
      (WL (WI 9 :: map (fun x => wq (Qred x)) (shown st)) :: map w_ev evs ++ out, st2)
  | GetState :: r =>
      let '(out, st2) := exec pin st r in (WL [WI 3; wbool (get_state st)] :: out, st2)
  | GetFrequency :: r =>
      let '(out, st2) := exec pin st r in (WL [WI 4; wq (Qred (get_frequency st))] :: out, st2)
  | GetLast :: r =>
      let '(out, st2) := exec pin st r in (WL [WI 5; wq (Qred (get_last_frequency st))] :: out, st2)
  end.

Definition w_score (kv : text * score) : wv :=
  let '(k, (t, s)) := kv in
  WL [wtext k; wq t; WL (map (fun fb => WL [wq (fst fb); wq (snd fb)]) s)].

(* case 0: (0 pin default (items...)) -> (0 (events and getter values...) (state current last));
           before the events of every call: (9 v...) = the values its frequency-type arguments had
   case 1: (1 name) -> (0 accepted lowered has_emitter_score)     parser side of melody()
   case 2: (2) -> the pinned specification scores (Device/MelodySpec.v) *)
Definition run (v : wv) : wv :=
  match v with
  | WL [WI 0; WI pin; d; WL items] =>
      match un_q d, un_items items with
      | Some d, Some is =>
          let '(out, st) := exec pin (init d) is in
          wok [WL out; WL [wbool (b_state st); wq (Qred (b_current st)); wq (Qred (b_last st))]]
      | _, _ => wbad
      end
  | WL [WI 1; name] =>
      match un_text name with
      | Some nm =>
          match parser_melody parser_melody_names nm with
          | Some l => wok [WI 1; wtext l;
                           wbool (match tlookup l emitter_melodies with Some _ => true | None => false end)]
          | None => wok [WI 0]
          end
      | None => wbad
      end
  | WL [WI 2] => wok [WL (map w_score spec_melodies)]
  | _ => wbad
  end.
