(* Wire driver of unit C17: decodes one case, runs the host or the firmware LCD model.

   case  (0 geom ops)   host model (progress with the binary64 arithmetic of Host/LCDFloat.v: hstep_fl)
                                      -> (0 (status buf display backlight bright glyphs)...)   | (1 1) ctor raises
         (1 geom ops)   device model  -> (0 init_events init_cells (accepted events cells bright blstate)...)
         (2 value maxv width)         -> (0 hfilled dfilled hfilled_fl ptie)
         (4 num den)                  -> (0 num' den')   fl53 (num/den), den > 0, reduced
         (3 geom op)                  -> (0 fitsb op_guard)
   geom  (cols rows i2c blpin_opt)            opt = () | (x)
   op    (0 col row text clear align) | (1 row text align clear) | (2 top_opt bottom_opt ta ba clear)
         | (3) | (4 row value maxv width_opt style label) | (5 on) | (6 on) | (7 level) | (8 slot bitmap) *)
From Coq Require Import ZArith List Bool.
From Coq Require Import QArith.
From RV Require Import Base.Wire Base.LcdBase Host.LCD Host.LCDFloat Device.DLCD Device.LCDRefine.
Import ListNotations.
Open Scope Z_scope.

Definition un_opt {A} (f : wv -> option A) (v : wv) : option (option A) :=
  match v with
  | WL [] => Some None
  | WL [x] => match f x with Some a => Some (Some a) | None => None end
  | _ => None
  end.

Definition un_geom (v : wv) : option geom :=
  match v with
  | WL [WI c; WI r; i; p] =>
      match un_bool i, un_opt un_int p with
      | Some i2c, Some pin => Some {| g_cols := c; g_rows := r; g_i2c := i2c; g_blpin := pin |}
      | _, _ => None
      end
  | _ => None
  end.

Definition un_op (v : wv) : option lop :=
  match v with
  | WL [WI 0; WI col; WI row; t; c; WI a] =>
      match un_text t, un_bool c with
      | Some t, Some c => Some (OWrite col row t c a) | _, _ => None end
  | WL [WI 1; WI row; t; WI a; c] =>
      match un_text t, un_bool c with
      | Some t, Some c => Some (OLine row t a c) | _, _ => None end
  | WL [WI 2; top; bot; WI ta; WI ba; c] =>
      match un_opt un_text top, un_opt un_text bot, un_bool c with
      | Some top, Some bot, Some c => Some (OMessage top bot ta ba c) | _, _, _ => None end
  | WL [WI 3] => Some OClear
  | WL [WI 4; WI row; WI value; WI maxv; w; WI style; l] =>
      match un_opt un_int w, un_text l with
      | Some w, Some l => Some (OProgress row value maxv w style l) | _, _ => None end
  | WL [WI 5; b] => match un_bool b with Some b => Some (ODisplay b) | None => None end
  | WL [WI 6; b] => match un_bool b with Some b => Some (OBacklight b) | None => None end
  | WL [WI 7; WI level] => Some (OBrightness level)
  | WL [WI 8; WI slot; bm] => match un_text bm with Some bm => Some (OGlyph slot bm) | None => None end
  | _ => None
  end.

Fixpoint un_ops (l : list wv) : option (list lop) :=
  match l with
  | [] => Some []
  | v :: r => match un_op v, un_ops r with
              | Some o, Some os => Some (o :: os)
              | _, _ => None
              end
  end.

Definition wbuf (b : list (list Z)) : wv := WL (map wtext b).
Definition wglyphs (l : list (Z * list Z)) : wv := WL (map (fun p => WL [WI (fst p); wtext (snd p)]) l).

Definition whost (h : hlcd) (r : hres) : wv :=
  WL [WI (match r with HOk => 0 | HRaise k => k end); wbuf (h_buf h);
      wbool (h_display h); wbool (h_backlight h); WI (h_bright h); wglyphs (h_glyphs h)].

Fixpoint host_trace (h : hlcd) (ops : list lop) : list wv :=
  match ops with
  | [] => []
  | op :: r => let '(h', res) := hstep_fl h op in whost h' res :: host_trace h' r
  end.

Definition wev (e : dev_ev) : wv :=
  match e with
  | EvB c r => WL [WI 0; WI c; WI r]
  | EvCLR => WL [WI 1]
  | EvSC c r => WL [WI 2; WI c; WI r]
  | EvW r c ch => WL [WI 3; WI r; WI c; WI ch]
  | EvCG loc rows => WL (WI 4 :: WI loc :: map WI rows)
  | EvDISP b => WL [WI 5; wbool b]
  | EvBL b => WL [WI 6; wbool b]
  | EvPM p m => WL [WI 7; WI p; WI m]
  | EvAW p v => WL [WI 8; WI p; WI v]
  end.

(* events added since a log of length n0, oldest first *)
Definition new_events (d : dlcd) (n0 : nat) : list dev_ev :=
  rev (firstn (length (d_log d) - n0) (d_log d)).

Fixpoint dev_trace (d : dlcd) (ops : list lop) : list wv :=
  match ops with
  | [] => []
  | op :: r =>
      match dstep d op with
      | Some d' =>
          WL [WI 1; WL (map wev (new_events d' (length (d_log d)))); wbuf (cells d');
              WI (d_bright d'); wbool (d_blstate d')] :: dev_trace d' r
      | None => WL [WI 0] :: dev_trace d r
      end
  end.

Definition run (v : wv) : wv :=
  match v with
  | WL [WI 0; g; WL ops] =>
      match un_geom g, un_ops ops with
      | Some g, Some ops =>
          match hinit g with
          | Some h => wok (host_trace h ops)
          | None => werr 1
          end
      | _, _ => wbad
      end
  | WL [WI 1; g; WL ops] =>
      match un_geom g, un_ops ops with
      | Some g, Some ops =>
          let d := dinit g in
          wok (WL (map wev (rev (d_log d))) :: wbuf (cells d) :: dev_trace d ops)
      | _, _ => wbad
      end
  | WL [WI 2; WI value; WI maxv; WI width] =>
      wok [WI (hfilled value maxv width); WI (dfilled value maxv width);
           WI (hfilled_fl value maxv width); wbool (ptie value maxv width)]
  | WL [WI 4; WI num; WI den] =>
      match den with
      | Zpos d => let q := Qred (fl53 (num # d)) in wok [WI (Qnum q); WI (Zpos (Qden q))]
      | _ => wbad
      end
  | WL [WI 3; g; op] =>
      match un_geom g, un_op op with
      | Some g, Some op => wok [wbool (fitsb g); wbool (op_guard g op)]
      | _, _ => wbad
      end
  | _ => wbad
  end.
