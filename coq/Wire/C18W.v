From Coq Require Import ZArith List Bool.
From RV Require Import Base.Wire Host.LCDAnim Host.LCDReg Device.DLCDAnim Device.DLCDAnimW Device.DLCDInject.
Import ListNotations.
Open Scope Z_scope.

(* case 0 (host)  : (0 cols rows (anim...) (now...))   anim = (style row text speed loop)
   case 1 (device): (1 cols rows (anim...) (now...))
   case 2 (emit)  : (2 (site...) (site...))            site = (name style)     setup sites, loop sites
   case 3 (sched) : (3 speed endless budget (now...))  the specification schedule [due_flags] from last = 0
   case 4 (tree)  : (4 (stmt...) (stmt...))            setup block, main-loop block;
                    stmt = (0 name style) lcd.animate | (1) other | (2 kind (body...))  body = (stmt...)
                    kind: 0 if (branches then else), 1 while, 2 for, 3 try (try body then handlers)
   case 6 (device, W-bit clock): (6 W cols rows (anim...) (t...))   t = TRUE tick times (any size); millis() = t mod 2^W,
                    the limiter computed in W-bit unsigned arithmetic (Device/DLCDAnimW.v); speed_ms cast to W bits
   case 7 (host registry history): (7 cols rows (op...))   op = (0 style row text speed loop) animate | (1 now) tick |
                    (2 row text) line | (3) clear | (4) begin;  per op: (raised? (event...) buffer ((key state)...)) with
                    key = (style row count) - the triple the real key string '<style>:<row>:<count>' is rendered from
   style: 0 scroll, 1 blink, 2 typewriter, 3 bounce *)

Definition un_style (z : Z) : option style :=
  match z with 0 => Some Scroll | 1 => Some Blink | 2 => Some Typewriter | 3 => Some Bounce | _ => None end.
Definition style_code (s : style) : Z :=
  match s with Scroll => 0 | Blink => 1 | Typewriter => 2 | Bounce => 3 end.

Definition un_list (v : wv) : option (list wv) := match v with WL l => Some l | _ => None end.

(* (style-code row text speed loop); the style stays a code: an unknown name is a ValueError of animate *)
Definition un_anim (v : wv) : option (Z * Z * list Z * Z * bool) :=
  match v with
  | WL [WI s; WI row; t; WI speed; lp] =>
      match un_text t, un_bool lp with
      | Some text, Some loop => Some (s, row, text, speed, loop)
      | _, _ => None
      end
  | _ => None
  end.

Fixpoint un_anims (l : list wv) : option (list (Z * Z * list Z * Z * bool)) :=
  match l with
  | [] => Some []
  | v :: r => match un_anim v, un_anims r with Some a, Some rs => Some (a :: rs) | _, _ => None end
  end.

Definition w_hev (e : hev) : wv :=
  match e with HRow r s => WL [WI 0; WI r; wtext s] | HDelay ms => WL [WI 1; WI ms] end.
Definition w_dev (e : dev) : wv :=
  match e with DW r c ch => WL [WI 0; WI r; WI c; WI ch] | DDelay ms => WL [WI 1; WI ms] end.

Definition w_hstate (s : hstate) : wv :=
  WL [WI (style_code (h_style s)); WI (h_row s); wtext (h_text s); WI (h_speed s); wbool (h_loop s);
      WI (h_last s); WI (h_offset s); wbool (h_active s); WI (h_dir s); WI (h_visible s);
      wbool (h_show s); WI (h_cycles s)].

Definition w_matrix (m : list (list Z)) : wv := WL (map wtext m).
Definition w_hsnap (l : hlcd) : wv := WL [w_matrix (l_buf l); WL (map w_hstate (l_anims l))].

(* host: run the animate calls (a failing one leaves the object unchanged), then the ticks *)
Fixpoint h_animates (l : hlcd) (as_ : list (Z * Z * list Z * Z * bool)) : hlcd * list wv :=
  match as_ with
  | [] => (l, [])
  | (s, row, text, speed, loop) :: rest =>
      match un_style s with
      | None => let '(l', out) := h_animates l rest in (l', WL [WI 1] :: out)
      | Some sty =>
          match hanimate l sty row text speed loop with
          | None => let '(l', out) := h_animates l rest in (l', WL [WI 1] :: out)
          | Some (l1, ev) => let '(l', out) := h_animates l1 rest in (l', WL [WI 0; WL (map w_hev ev)] :: out)
          end
      end
  end.

Fixpoint h_ticks (l : hlcd) (nows : list Z) : list wv :=
  match nows with
  | [] => []
  | now :: rest =>
      match htick l now with
      | None => [WL [WI 1]]
      | Some (l', ev) => WL [WI 0; WL (map w_hev ev); w_hsnap l'] :: h_ticks l' rest
      end
  end.

(* host registry history (Host/LCDReg.v): one output per call *)
Definition w_key (k : hkey) : wv := let '(s, r, n) := k in WL [WI (style_code s); WI r; WI n].
Definition w_rsnap (l : rlcd) : list wv :=
  [w_matrix (r_buf l); WL (map (fun e => WL [w_key (fst e); w_hstate (snd e)]) (r_reg l))].

Definition un_rop (v : wv) : option rop :=
  match v with
  | WL [WI 0; WI s; WI row; t; WI speed; lp] =>
      match un_style s, un_text t, un_bool lp with
      | Some sty, Some text, Some loop => Some (OAnimate sty row text speed loop)
      | _, _, _ => None
      end
  | WL [WI 1; WI now] => Some (OTick now)
  | WL [WI 2; WI row; t] => match un_text t with Some text => Some (OLine row text) | None => None end
  | WL [WI 3] => Some OClear
  | WL [WI 4] => Some OBegin
  | _ => None
  end.

(* the buffer assignments of the call (animate, tick, line); the state after it is that of [rstep] *)
Definition r_events (l : rlcd) (o : rop) : list hev :=
  match o with
  | OAnimate sty row text speed loop =>
      match ranimate l sty row text speed loop with Some (_, ev) => ev | None => [] end
  | OTick now => match rtick l now with Some (_, ev) => ev | None => [] end
  | OLine row text =>
      match hline (r_cols l) (r_rows l) (r_buf l) row text with Some (_, ev) => ev | None => [] end
  | _ => []
  end.

(* an op the decoder does not know (an unknown style name): the call raises before it changes anything *)
Fixpoint r_history (l : rlcd) (ops : list wv) : list wv :=
  match ops with
  | [] => []
  | v :: rest =>
      match un_rop v with
      | None => WL (WI 1 :: WL [] :: w_rsnap l) :: r_history l rest
      | Some o =>
          let '(l', ok) := rstep l o in
          WL (WI (if ok then 0 else 1) :: WL (map w_hev (r_events l o)) :: w_rsnap l') :: r_history l' rest
      end
  end.

(* device: start every animation in order (unsigned long is 64 bits wide under the mock's compiler),
   then tick all of them once per pass *)
Fixpoint d_starts (cols : Z) (as_ : list (Z * Z * list Z * Z * bool)) : option (list (style * dstate) * list dev) :=
  match as_ with
  | [] => Some ([], [])
  | (s, row, text, speed, loop) :: rest =>
      match un_style s, d_starts cols rest with
      | Some sty, Some (sts, evs) =>
          let '(st, ev) := dstart_emit 64 sty cols row text speed loop in Some ((sty, st) :: sts, ev ++ evs)
      | _, _ => None
      end
  end.

Fixpoint d_ticks (cols : Z) (anims : list (style * dstate)) (m : list (list Z)) (nows : list Z) : list wv :=
  match nows with
  | [] => []
  | now :: rest =>
      let flags := map (fun a => wbool (dgate (snd a) now)) anims in
      let '(anims', ev) := dtick_all cols now anims in
      let m' := apply_devs ev m in
      WL [WL (map w_dev ev); w_matrix m'; WL flags; WL (map (fun a => wbool (d_active (snd a))) anims')]
        :: d_ticks cols anims' m' rest
  end.

(* the same with the clock arithmetic of a W-bit unsigned long *)
Fixpoint d_startsW (W cols : Z) (as_ : list (Z * Z * list Z * Z * bool)) : option (list (style * dstate) * list dev) :=
  match as_ with
  | [] => Some ([], [])
  | (s, row, text, speed, loop) :: rest =>
      match un_style s, d_startsW W cols rest with
      | Some sty, Some (sts, evs) =>
          let '(st, ev) := dstart_emit W sty cols row text speed loop in Some ((sty, st) :: sts, ev ++ evs)
      | _, _ => None
      end
  end.

Fixpoint d_ticksW (W cols : Z) (anims : list (style * dstate)) (m : list (list Z)) (ts : list Z) : list wv :=
  match ts with
  | [] => []
  | t :: rest =>
      let flags := map (fun a => wbool (dgateW W (snd a) (uwrap W t))) anims in
      let '(anims', ev) := dtick_allW W cols t anims in
      let m' := apply_devs ev m in
      WL [WL (map w_dev ev); w_matrix m'; WL flags; WL (map (fun a => wbool (d_active (snd a))) anims')]
        :: d_ticksW W cols anims' m' rest
  end.

Definition un_site (v : wv) : option site :=
  match v with
  | WL [WI n; WI s] => match un_style s with Some sty => Some (n, sty) | None => None end
  | _ => None
  end.
Fixpoint un_sites (l : list wv) : option (list site) :=
  match l with
  | [] => Some []
  | v :: r => match un_site v, un_sites r with Some a, Some rs => Some (a :: rs) | _, _ => None end
  end.
Definition w_var (t : Z * Z * style) : wv :=
  let '(n, k, sty) := t in WL [WI n; WI k; WI (style_code sty)].

Definition un_kind (z : Z) : option bkind :=
  match z with 0 => Some KIf | 1 => Some KWhile | 2 => Some KFor | 3 => Some KTry | _ => None end.

Fixpoint dec_stmt (v : wv) : option stmt :=
  let fix decs (l : list wv) : option (list stmt) :=
    match l with
    | [] => Some []
    | x :: r => match dec_stmt x, decs r with Some s, Some ss => Some (s :: ss) | _, _ => None end
    end in
  let fix decb (l : list wv) : option (list (list stmt)) :=
    match l with
    | [] => Some []
    | WL b :: r => match decs b, decb r with Some bs, Some rest => Some (bs :: rest) | _, _ => None end
    | _ => None
    end in
  match v with
  | WL [WI 0; WI n; WI s] => match un_style s with Some sty => Some (SAnim n sty) | None => None end
  | WL [WI 1] => Some SOther
  | WL [WI 2; WI k; WL bodies] =>
      match un_kind k, decb bodies with Some kd, Some bs => Some (SBlock kd bs) | _, _ => None end
  | _ => None
  end.

Fixpoint dec_stmts (l : list wv) : option (list stmt) :=
  match l with
  | [] => Some []
  | x :: r => match dec_stmt x, dec_stmts r with Some s, Some ss => Some (s :: ss) | _, _ => None end
  end.

Fixpoint dec_bodies (l : list wv) : option (list (list stmt)) :=
  match l with
  | [] => Some []
  | WL b :: r => match dec_stmts b, dec_bodies r with Some bs, Some rest => Some (bs :: rest) | _, _ => None end
  | _ => None
  end.

Definition run (v : wv) : wv :=
  match v with
  | WL [WI 0; WI cols; WI rows; WL as_; nows] =>
      match un_anims as_, un_text nows with
      | Some anims, Some ts =>
          match hnew cols rows with
          | None => werr 1
          | Some l0 =>
              let '(l1, outs) := h_animates l0 anims in
              wok [WL outs; w_hsnap l1; WL (h_ticks l1 ts)]
          end
      | _, _ => wbad
      end
  | WL [WI 1; WI cols; WI rows; WL as_; nows] =>
      match un_anims as_, un_text nows with
      | Some anims, Some ts =>
          match d_starts cols anims with
          | None => wbad
          | Some (sts, ev0) =>
              let m0 := apply_devs ev0 (blank_matrix cols rows) in
              wok [WL (map w_dev ev0); w_matrix m0; WL (d_ticks cols sts m0 ts)]
          end
      | _, _ => wbad
      end
  | WL [WI 6; WI W; WI cols; WI rows; WL as_; nows] =>
      match un_anims as_, un_text nows with
      | Some anims, Some ts =>
          match d_startsW W cols anims with
          | None => wbad
          | Some (sts, ev0) =>
              let m0 := apply_devs ev0 (blank_matrix cols rows) in
              wok [WL (map w_dev ev0); w_matrix m0; WL (d_ticksW W cols sts m0 ts)]
          end
      | _, _ => wbad
      end
  | WL [WI 7; WI cols; WI rows; WL ops] =>
      match rnew cols rows with
      | None => werr 1
      | Some l0 => wok [WL (r_history l0 ops)]
      end
  | WL [WI 3; WI speed; lp; WI budget; nows] =>
      match un_bool lp, un_text nows with
      | Some endless, Some ts => wok [WL (map wbool (due_flags speed endless 0 budget ts))]
      | _, _ => wbad
      end
  | WL [WI 4; WL s1; WL s2] =>
      match dec_stmts s1, dec_stmts s2 with
      | Some a, Some b => wok [WL (map w_var (tree_loop_ticks a b)); WL (map w_var (tree_all_vars a b));
                               WL (map WI (parser_ticks a b))]
      | _, _ => wbad
      end
  | WL [WI 5; WL s1; WL s2; WL fs] =>
      match dec_stmts s1, dec_stmts s2, dec_bodies fs with
      | Some a, Some b, Some funs =>
          wok [WL (map w_var (prog_ticks a b funs)); WL (map w_var (prog_vars a b funs));
               WL (map WI (parser_ticks a (b ++ concat funs)))]
      | _, _, _ => wbad
      end
  | WL [WI 2; WL s1; WL s2] =>
      match un_sites s1, un_sites s2 with
      | Some a, Some b => wok [WL (map w_var (loop_ticks a b)); WL (map w_var (all_vars a b))]
      | _, _ => wbad
      end
  | _ => wbad
  end.
