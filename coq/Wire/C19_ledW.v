(* Wire interface of unit C19_led (Host/Led.v, Host/RGBLed.v).

   pynum p      ::= (0 z) int | (1 (num den)) float | (2 b) bool | (3) non-numeric object
   argument a   ::= p | (4 i delta sp)     state-relative (Host/RelArgs.v): channel i of the colour the
                                           MODEL object shows at that point (Led: its brightness) + delta,
                                           spelled sp = 0 int | 1 bool when 0/1 | 2 float
   Every op argument (and every flash_pattern entry) is an [a]; the concrete values used are
   reported back per op ([resolved]).
   case         ::= (cls ctor_args (op ...))
     cls 0 = Led     ctor_args ::= () | (pin)                      () = the default pin
     cls 1 = RGBLed  ctor_args ::= (red_pin green_pin blue_pin)
   Trailing arguments in [..] may be omitted; the model then uses the signature default.
   Led ops      ::= (0) on | (1) off | (2) get_state | (3) get_brightness
                  | (4 v) set_brightness | (5) toggle | (6 duration [times]) blink
                  | (7 [step [delay]]) fade_in | (8 [step [delay]]) fade_out
                  | (9 (entry ...) [delay]) flash_pattern
   RGBLed ops   ::= (0) pins | (1) get_color | (2) get_state | (3 r g b) set_color
                  | (4 [r [g [b]]]) on | (5) off
                  | (6 r g b [duration [steps]]) fade | (7 r g b [times [delay]]) blink
   output       ::= (ctor_result (op_out ...))             ((2) = undecodable case)
     ctor_result ::= (0 snapshot) | (1 kind)               kind: 0 ValueError, 1 TypeError
                     (after a failed constructor the op list is not run: op_outs = ())
     op_out      ::= (0 ret snapshot events resolved) | (1 kind snapshot events resolved)
     resolved    ::= (p ...)     for flash_pattern ((entry_p ...) p ...)
     ret         ::= (0) None | (1 b) bool | (2 z) int | (3 (p ...)) tuple
     snapshot    ::= Led: (pin_p state brightness)   RGBLed: ((p p p) (r g b) state)
     events      ::= ((0 (num den)) sleep | (1 (z ...)) level ...)     in program order *)
From Coq Require Import ZArith QArith List Bool.
From RV Require Import Base.Wire Base.Num Host.Led Host.RGBLed Host.RelArgs.
Import ListNotations.
Import Num.
Open Scope Z_scope.

Definition w_kind (k : kind) : wv := WI (match k with ValueError => 0 | TypeError => 1 end).

Definition w_ret (r : ret) : wv :=
  match r with
  | RNone => WL [WI 0]
  | RBool b => WL [WI 1; wbool b]
  | RInt z => WL [WI 2; WI z]
  | RTup l => WL [WI 3; WL (map w_pynum l)]
  end.

Definition w_ev (e : ev) : wv :=
  match e with
  | Sleep q => WL [WI 0; wq q]
  | Lvl l => WL [WI 1; WL (map WI l)]
  end.

Definition w_out (snap : wv) (e : list ev) (r : result) (resolved : wv) : wv :=
  match r with
  | Ok x => WL [WI 0; w_ret x; snap; WL (map w_ev e); resolved]
  | Raised k => WL [WI 1; w_kind k; snap; WL (map w_ev e); resolved]
  end.

Definition un_carg (v : wv) : option carg :=
  match v with
  | WL [WI 4; WI i; WI d; WI sp] =>
      match sp with
      | 0 => Some (CCur (Z.to_nat i) d SpInt)
      | 1 => Some (CCur (Z.to_nat i) d SpBool)
      | 2 => Some (CCur (Z.to_nat i) d SpFloat)
      | _ => None
      end
  | _ => match un_pynum v with Some p => Some (CAbs p) | None => None end
  end.

Fixpoint un_args (res : carg -> pynum) (l : list wv) : option (list pynum) :=
  match l with
  | [] => Some []
  | v :: rest =>
      match un_carg v, un_args res rest with
      | Some a, Some l' => Some (res a :: l')
      | _, _ => None
      end
  end.

(* ---------------- Led ---------------- *)
Definition w_led (s : led) : wv := WL [w_pynum (Led.pin s); wbool (Led.lit s); WI (Led.bright s)].

Definition un_led_rop (s : led) (v : wv) : option (Led.op * wv) :=
  let with_args (a : list pynum) (o : option Led.op) : option (Led.op * wv) :=
    match o with Some o' => Some (o', WL (map w_pynum a)) | None => None end in
  match v with
  | WL (WI code :: args) =>
      match code, args with
      | 0, [] => Some (Led.On, WL [])
      | 1, [] => Some (Led.Off, WL [])
      | 2, [] => Some (Led.GetState, WL [])
      | 3, [] => Some (Led.GetBrightness, WL [])
      | 5, [] => Some (Led.Toggle, WL [])
      | 9, WL p :: rest =>
          match un_args (resolve_led s) p, un_args (resolve_led s) rest with
          | Some p', Some [] =>
              Some (Led.FlashPattern p' Led.default_flash_delay, WL [WL (map w_pynum p')])
          | Some p', Some [d] => Some (Led.FlashPattern p' d, WL [WL (map w_pynum p'); w_pynum d])
          | _, _ => None
          end
      | _, _ =>
          match un_args (resolve_led s) args with
          | None => None
          | Some a =>
              with_args a
              match code, a with
              | 4, [x] => Some (Led.SetBrightness x)
              | 6, [d] => Some (Led.Blink d Led.default_blink_times)
              | 6, [d; t] => Some (Led.Blink d t)
              | 7, [] => Some (Led.FadeIn Led.default_fade_step Led.default_fade_delay)
              | 7, [x] => Some (Led.FadeIn x Led.default_fade_delay)
              | 7, [x; d] => Some (Led.FadeIn x d)
              | 8, [] => Some (Led.FadeOut Led.default_fade_step Led.default_fade_delay)
              | 8, [x] => Some (Led.FadeOut x Led.default_fade_delay)
              | 8, [x; d] => Some (Led.FadeOut x d)
              | _, _ => None
              end
          end
      end
  | _ => None
  end.

(* decoder for absolute arguments only (reused by Wire/C04_ledW.v): the state is irrelevant then *)
Definition un_led_op (v : wv) : option Led.op :=
  match un_led_rop (Led.init Led.default_pin) v with Some (o, _) => Some o | None => None end.

Fixpoint run_led (s : led) (ops : list wv) : option (list wv) :=
  match ops with
  | [] => Some []
  | v :: rest =>
      match un_led_rop s v with
      | None => None
      | Some (o, resolved) =>
          let '(s', e, r) := Led.step s o in
          match run_led s' rest with
          | Some outs => Some (w_out (w_led s') e r resolved :: outs)
          | None => None
          end
      end
  end.

(* ---------------- RGBLed ---------------- *)
Definition w_triple (c : triple) : wv := let '(r, g, b) := c in WL [WI r; WI g; WI b].

Definition w_rgb (s : rgb) : wv :=
  let '(p1, p2, p3) := RGBLed.pins s in
  WL [WL [w_pynum p1; w_pynum p2; w_pynum p3]; w_triple (RGBLed.color s); wbool (RGBLed.lit s)].

Definition un_rgb_rop (s : rgb) (v : wv) : option (RGBLed.op * wv) :=
  match v with
  | WL (WI code :: args) =>
      match un_args (resolve_rgb s) args with
      | None => None
      | Some a =>
          let d255 := RGBLed.default_on in
          match
          match code, a with
          | 0, [] => Some RGBLed.GetPins
          | 1, [] => Some RGBLed.GetColor
          | 2, [] => Some RGBLed.GetState
          | 3, [r; g; b] => Some (RGBLed.SetColor r g b)
          | 4, [] => Some (RGBLed.On d255 d255 d255)
          | 4, [r] => Some (RGBLed.On r d255 d255)
          | 4, [r; g] => Some (RGBLed.On r g d255)
          | 4, [r; g; b] => Some (RGBLed.On r g b)
          | 5, [] => Some RGBLed.Off
          | 6, [r; g; b] => Some (RGBLed.Fade r g b RGBLed.default_fade_duration RGBLed.default_fade_steps)
          | 6, [r; g; b; d] => Some (RGBLed.Fade r g b d RGBLed.default_fade_steps)
          | 6, [r; g; b; d; n] => Some (RGBLed.Fade r g b d n)
          | 7, [r; g; b] => Some (RGBLed.Blink r g b RGBLed.default_blink_times RGBLed.default_blink_delay)
          | 7, [r; g; b; t] => Some (RGBLed.Blink r g b t RGBLed.default_blink_delay)
          | 7, [r; g; b; t; d] => Some (RGBLed.Blink r g b t d)
          | _, _ => None
          end
          with Some o => Some (o, WL (map w_pynum a)) | None => None end
      end
  | _ => None
  end.

(* decoder for absolute arguments only (reused by Wire/C04_rgbW.v) *)
Definition un_rgb_op (v : wv) : option RGBLed.op :=
  match un_rgb_rop (mkRgb (PI 0, PI 0, PI 0) (0, 0, 0) false) v with Some (o, _) => Some o | None => None end.

Fixpoint run_rgb (s : rgb) (ops : list wv) : option (list wv) :=
  match ops with
  | [] => Some []
  | v :: rest =>
      match un_rgb_rop s v with
      | None => None
      | Some (o, resolved) =>
          let '(s', e, r) := RGBLed.step s o in
          match run_rgb s' rest with
          | Some outs => Some (w_out (w_rgb s') e r resolved :: outs)
          | None => None
          end
      end
  end.

Definition run (v : wv) : wv :=
  match v with
  | WL [WI 0; WL cargs; WL ops] =>
      let go (p : pynum) :=
        let s := Led.init p in
        match run_led s ops with
        | Some outs => WL [WL [WI 0; w_led s]; WL outs]
        | None => wbad
        end in
      match un_pynums cargs with
      | Some [] => go Led.default_pin
      | Some [p] => go p
      | _ => wbad
      end
  | WL [WI 1; WL cargs; WL ops] =>
      match un_pynums cargs with
      | Some [r; g; b] =>
          match RGBLed.create r g b with
          | inr k => WL [WL [WI 1; w_kind k]; WL []]
          | inl s =>
              match run_rgb s ops with
              | Some outs => WL [WL [WI 0; w_rgb s]; WL outs]
              | None => wbad
              end
          end
      | _ => wbad
      end
  | _ => wbad
  end.
