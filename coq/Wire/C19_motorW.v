(* Wire layer of unit C19_motor (host model of Reduino.Actuators.DCMotor).

   A pynum is  (0 z) int | (1 (num den)) float | (2 b) bool | (3) non-number (None).
   A rational q is (num den), sent in lowest terms.

   CASE    (1 ctor_args (op1 op2 ...))
     ctor_args = (in1 in2 enable), each a pynum
     ops:  (0 v) set_speed v | (1) backward() | (1 v) backward(v) | (2) stop
           (3) coast | (4) invert | (5 t d) ramp(t, d) | (6 d v) run_for(d, v)
           (7) get_speed | (8) get_applied_speed | (9) is_inverted | (10) get_mode

   OUTPUT  (ctor_result step1 step2 ...)
     ctor_result = (0 snapshot)  the object was built
                 | (1 kind)      the constructor raised; no steps follow
     step  = (0 ret  snapshot events)   the call returned
           | (1 kind snapshot events)   the call raised
     kind  = 0 ValueError | 1 TypeError
     ret   = (0) None | (1 q) float | (2 b) bool | (3 m) mode
     mode  = 0 coast | 1 drive | 2 brake
     snapshot = ((in1 in2 enable) speed inverted mode applied ghost)
                ghost = 0 last successful command was not stop/run_for | 1 it was
     events   = (0 speed applied mode)  one per completed _apply_speed/stop/coast
              | (1 q)                   one per call of the package-level sleep

   CASE    (2 x)                      DCMotor._clamp_speed on a float x that may be an IEEE special
   OUTPUT  (0 xfloat) returned | (1 0) raised ValueError
                                      xfloat = (0 (num den)) finite | (1) NaN | (2) +inf | (3) -inf

   CASE    (3 ctor_args (op1 ...) last)   run the ops, then ONE call whose arguments may be special:
             last = (0 d v) run_for(duration = xfloat d, speed = xarg v)
                  | (1 t d) ramp(target = xarg t, duration = xfloat d)
                  | (2 v)   set_speed(xarg v)
                  | (3 v)   backward(xarg v)
             xarg = (0 pynum) | (1 xfloat)
   OUTPUT  (snapshot events res)      of that last call; res = (0) returned | (1 kind),
                                      kind = 0 ValueError | 1 TypeError | 2 OverflowError
   CASE    (4 ctor_args (op1 op2 ...))   as CASE 1, but ramp() runs in BINARY64 (Host/DCMotorFloat.v: mstep_fl); every
                                      rational of the output is then the exact value of the float CPython holds
                                      (arguments must be exact values of binary64 numbers): compared exactly
   OUTPUT  as CASE 1
   CASE    (5 start target)           the 20 raw arguments ramp() hands to set_speed (before the clamp), binary64
   OUTPUT  (q1 ... q20)
   An undecodable case answers (2). *)
From Coq Require Import ZArith QArith List Bool.
From RV Require Import Base.Wire Base.NumM Base.XFloat Host.DCMotor Host.ActuatorsX Host.DCMotorFloat.
Import ListNotations.
Open Scope Z_scope.

Definition wqr (q : Q) : wv := wq (Qred q).

Definition wmode (m : mode) : wv :=
  WI (match m with Coast => 0 | Drive => 1 | Brake => 2 end).

(* ---------------- DCMotor ---------------- *)
Definition un_mop (v : wv) : option mop :=
  match v with
  | WL [WI 0; x] => match un_pynum x with Some p => Some (MSetSpeed p) | None => None end
  | WL [WI 1] => Some (MBackward None)
  | WL [WI 1; x] => match un_pynum x with Some p => Some (MBackward (Some p)) | None => None end
  | WL [WI 2] => Some MStop
  | WL [WI 3] => Some MCoast
  | WL [WI 4] => Some MInvert
  | WL [WI 5; t; d] =>
      match un_pynum t, un_pynum d with Some t', Some d' => Some (MRamp t' d') | _, _ => None end
  | WL [WI 6; d; x] =>
      match un_pynum d, un_pynum x with Some d', Some x' => Some (MRunFor d' x') | _, _ => None end
  | WL [WI 7] => Some MGetSpeed
  | WL [WI 8] => Some MGetApplied
  | WL [WI 9] => Some MIsInverted
  | WL [WI 10] => Some MGetMode
  | _ => None
  end.

Definition wmotor (m : motor) : wv :=
  let '(i1, i2, en) := pins m in
  WL [WL [wpynum i1; wpynum i2; wpynum en]; wqr (speed m); wbool (inverted m); wmode (mmode m);
      wqr (applied m); WI (match ghost m with LastOther => 0 | LastStop => 1 end)].

Definition wmev (e : mev) : wv :=
  match e with
  | MLvl sp ap md => WL [WI 0; wqr sp; wqr ap; wmode md]
  | MSleep q => WL [WI 1; wqr q]
  end.

Definition wmret (r : mret) : wv :=
  match r with
  | MNone => WL [WI 0]
  | MFloat q => WL [WI 1; wqr q]
  | MBool b => WL [WI 2; wbool b]
  | MMode md => WL [WI 3; wmode md]
  end.

Fixpoint motor_steps (stepf : motor -> mop -> motor * list mev * result mret) (m : motor) (ops : list wv) : option (list wv) :=
  match ops with
  | [] => Some []
  | o :: r =>
      match un_mop o with
      | None => None
      | Some op =>
          let '(m', evs, res) := stepf m op in
          let head := match res with
                      | Ok ret => WL [WI 0; wmret ret; wmotor m'; WL (map wmev evs)]
                      | Raised k => WL [WI 1; wexn k; wmotor m'; WL (map wmev evs)]
                      end in
          match motor_steps stepf m' r with
          | Some tl => Some (head :: tl)
          | None => None
          end
      end
  end.

Definition run_motor (stepf : motor -> mop -> motor * list mev * result mret) (args : wv) (ops : list wv) : wv :=
  match args with
  | WL [a; b; c] =>
      match un_pynum a, un_pynum b, un_pynum c with
      | Some a', Some b', Some c' =>
          match motor_ctor a' b' c' with
          | inr k => WL [WL [WI 1; wexn k]]
          | inl m =>
              match motor_steps stepf m ops with
              | Some l => WL (WL [WI 0; wmotor m] :: l)
              | None => wbad
              end
          end
      | _, _, _ => wbad
      end
  | _ => wbad
  end.

(* ---------------- calls with IEEE specials (Host/ActuatorsX.v) ---------------- *)
Fixpoint motor_after (m : motor) (ops : list wv) : option motor :=
  match ops with
  | [] => Some m
  | o :: r => match un_mop o with
              | None => None
              | Some op => motor_after (mstate (mstep m op)) r
              end
  end.

Definition wxres (r : xresult) : wv :=
  match r with
  | XOk => WL [WI 0]
  | XRaised k => WL [WI 1; WI (match k with XValueError => 0 | XTypeError => 1 | XOverflowError => 2 end)]
  end.

Definition un_xarg (v : wv) : option xarg :=
  match v with
  | WL [WI 0; p] => match un_pynum p with Some p' => Some (XNum p') | None => None end
  | WL [WI 1; x] => match un_xfloat x with Some x' => Some (XSpec x') | None => None end
  | _ => None
  end.

Definition run_x (args : wv) (ops : list wv) (last : wv) : wv :=
  match args with
  | WL [a; b; c] =>
      match un_pynum a, un_pynum b, un_pynum c with
      | Some a', Some b', Some c' =>
          match motor_ctor a' b' c' with
          | inr _ => wbad
          | inl m0 =>
              match motor_after m0 ops with
              | None => wbad
              | Some m =>
                  let out (r : motor * list mev * xresult) :=
                    let '(m', evs, res) := r in WL [wmotor m'; WL (map wmev evs); wxres res] in
                  match last with
                  | WL [WI 0; d; v] =>
                      match un_xfloat d, un_xarg v with
                      | Some d', Some v' => out (mstep_x m (XRunFor d' v'))
                      | _, _ => wbad
                      end
                  | WL [WI 1; t; d] =>
                      match un_xarg t, un_xfloat d with
                      | Some t', Some d' => out (mstep_x m (XRamp t' d'))
                      | _, _ => wbad
                      end
                  | WL [WI 2; v] =>
                      match un_xarg v with Some v' => out (mstep_x m (XSetSpeed v')) | None => wbad end
                  | WL [WI 3; v] =>
                      match un_xarg v with Some v' => out (mstep_x m (XBackward v')) | None => wbad end
                  | _ => wbad
                  end
              end
          end
      | _, _, _ => wbad
      end
  | _ => wbad
  end.

Definition run (v : wv) : wv :=
  match v with
  | WL [WI 1; args; WL ops] => run_motor mstep args ops
  | WL [WI 4; args; WL ops] => run_motor mstep_fl args ops
  | WL [WI 5; a; b] =>
      match un_q a, un_q b with
      | Some start, Some target => WL (map wqr (ramp_raws_fl start target))
      | _, _ => wbad
      end
  | WL [WI 2; x] =>
      match un_xfloat x with
      | Some x' => match xclamp x' with Some y => WL [WI 0; wxfloat y] | None => WL [WI 1; WI 0] end
      | None => wbad
      end
  | WL [WI 3; args; WL ops; last] => run_x args ops last
  | _ => wbad
  end.
