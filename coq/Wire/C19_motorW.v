(* Wire layer of unit C19_motor (Servo + DCMotor host models).

   A pynum is  (0 z) int | (1 (num den)) float | (2 b) bool | (3) non-number (None).
   A rational q is (num den), sent in lowest terms.

   CASE    (cls ctor_args (op1 op2 ...))
     cls 0 = Servo    ctor_args = (pin mina maxa minp maxp), each  ()  = argument omitted
                                                                 | (v) = pynum v
              ops:  (0 v) write v | (1 v) write_us v | (2) read | (3) read_us
     cls 1 = DCMotor  ctor_args = (in1 in2 enable), each a pynum
              ops:  (0 v) set_speed v | (1) backward() | (1 v) backward(v) | (2) stop
                    (3) coast | (4) invert | (5 t d) ramp(t, d) | (6 d v) run_for(d, v)
                    (7) get_speed | (8) get_applied_speed | (9) is_inverted | (10) get_mode

   OUTPUT  (ctor_result step1 step2 ...)
     ctor_result = (0 snapshot)  the object was built
                 | (1 kind)      the constructor raised; no steps follow
     step  = (0 ret  snapshot events)   the call returned
           | (1 kind snapshot events)   the call raised
     kind  = 0 ValueError | 1 TypeError
     ret   = (0) None | (1 q) float | (2 b) bool | (3 m) mode
     mode  = 0 coast | 1 drive | 2 brake
     Servo   snapshot = (pin min_angle max_angle min_pulse max_pulse angle pulse)   pin a pynum
             events   = ((0 angle pulse) ...)                     one per completed write/write_us
     DCMotor snapshot = ((in1 in2 enable) speed inverted mode applied ghost)
                        ghost = 0 last successful command was not stop/run_for | 1 it was
             events   = (0 speed applied mode)  one per completed _apply_speed/stop/coast
                      | (1 q)                   one per call of the package-level sleep
   An undecodable case answers (2). *)
From Coq Require Import ZArith QArith List Bool.
From RV Require Import Base.Wire Base.NumM Host.Servo Host.DCMotor.
Import ListNotations.
Open Scope Z_scope.

Definition wqr (q : Q) : wv := wq (Qred q).

Definition wmode (m : mode) : wv :=
  WI (match m with Coast => 0 | Drive => 1 | Brake => 2 end).

(* ---------------- Servo ---------------- *)
Definition un_sop (v : wv) : option sop :=
  match v with
  | WL [WI 0; x] => match un_pynum x with Some p => Some (SWrite p) | None => None end
  | WL [WI 1; x] => match un_pynum x with Some p => Some (SWriteUs p) | None => None end
  | WL [WI 2] => Some SRead
  | WL [WI 3] => Some SReadUs
  | _ => None
  end.

Definition wservo (s : servo) : wv :=
  WL [wpynum (sv_pin s); wqr (min_a s); wqr (max_a s); wqr (min_p s); wqr (max_p s);
      wqr (cur_a s); wqr (cur_p s)].

Definition wsev (e : sev) : wv :=
  match e with SLvl a p => WL [WI 0; wqr a; wqr p] end.

Definition wsret (r : sret) : wv :=
  match r with SNone => WL [WI 0] | SFloat q => WL [WI 1; wqr q] end.

Fixpoint servo_steps (s : servo) (ops : list wv) : option (list wv) :=
  match ops with
  | [] => Some []
  | o :: r =>
      match un_sop o with
      | None => None
      | Some op =>
          let '(s', evs, res) := sstep s op in
          let head := match res with
                      | Ok ret => WL [WI 0; wsret ret; wservo s'; WL (map wsev evs)]
                      | Raised k => WL [WI 1; wexn k; wservo s'; WL (map wsev evs)]
                      end in
          match servo_steps s' r with
          | Some tl => Some (head :: tl)
          | None => None
          end
      end
  end.

Definition run_servo (args : wv) (ops : list wv) : wv :=
  match args with
  | WL [p; a1; a2; p1; p2] =>
      match un_opt_pynum p, un_opt_pynum a1, un_opt_pynum a2, un_opt_pynum p1, un_opt_pynum p2 with
      | Some p', Some a1', Some a2', Some p1', Some p2' =>
          match servo_ctor (mkServoArgs p' a1' a2' p1' p2') with
          | inr k => WL [WL [WI 1; wexn k]]
          | inl s =>
              match servo_steps s ops with
              | Some l => WL (WL [WI 0; wservo s] :: l)
              | None => wbad
              end
          end
      | _, _, _, _, _ => wbad
      end
  | _ => wbad
  end.

(* ---------------- DCMotor ---------------- *)
Definition un_mop (v : wv) : option mop :=
  match v with
  | WL [WI 0; x] => match un_pynum x with Some p => Some (MSetSpeed p) | None => None end
  | WL [WI 1] => Some (MBackward None)
  | WL [WI 1; x] => match un_pynum x with Some p => Some (MBackward (Some p)) | None => None end
  | WL [WI 2] => Some MStop
  | WL [WI 3] => Some MCoast
  | WL [WI 4] => Some MInvert
  | WL [WI 5; t; d] =>
      match un_pynum t, un_pynum d with Some t', Some d' => Some (MRamp t' d') | _, _ => None end
  | WL [WI 6; d; x] =>
      match un_pynum d, un_pynum x with Some d', Some x' => Some (MRunFor d' x') | _, _ => None end
  | WL [WI 7] => Some MGetSpeed
  | WL [WI 8] => Some MGetApplied
  | WL [WI 9] => Some MIsInverted
  | WL [WI 10] => Some MGetMode
  | _ => None
  end.

Definition wmotor (m : motor) : wv :=
  let '(i1, i2, en) := pins m in
  WL [WL [wpynum i1; wpynum i2; wpynum en]; wqr (speed m); wbool (inverted m); wmode (mmode m);
      wqr (applied m); WI (match ghost m with LastOther => 0 | LastStop => 1 end)].

Definition wmev (e : mev) : wv :=
  match e with
  | MLvl sp ap md => WL [WI 0; wqr sp; wqr ap; wmode md]
  | MSleep q => WL [WI 1; wqr q]
  end.

Definition wmret (r : mret) : wv :=
  match r with
  | MNone => WL [WI 0]
  | MFloat q => WL [WI 1; wqr q]
  | MBool b => WL [WI 2; wbool b]
  | MMode md => WL [WI 3; wmode md]
  end.

Fixpoint motor_steps (m : motor) (ops : list wv) : option (list wv) :=
  match ops with
  | [] => Some []
  | o :: r =>
      match un_mop o with
      | None => None
      | Some op =>
          let '(m', evs, res) := mstep m op in
          let head := match res with
                      | Ok ret => WL [WI 0; wmret ret; wmotor m'; WL (map wmev evs)]
                      | Raised k => WL [WI 1; wexn k; wmotor m'; WL (map wmev evs)]
                      end in
          match motor_steps m' r with
          | Some tl => Some (head :: tl)
          | None => None
          end
      end
  end.

Definition run_motor (args : wv) (ops : list wv) : wv :=
  match args with
  | WL [a; b; c] =>
      match un_pynum a, un_pynum b, un_pynum c with
      | Some a', Some b', Some c' =>
          match motor_ctor a' b' c' with
          | inr k => WL [WL [WI 1; wexn k]]
          | inl m =>
              match motor_steps m ops with
              | Some l => WL (WL [WI 0; wmotor m] :: l)
              | None => wbad
              end
          end
      | _, _, _ => wbad
      end
  | _ => wbad
  end.

Definition run (v : wv) : wv :=
  match v with
  | WL [WI 0; args; WL ops] => run_servo args ops
  | WL [WI 1; args; WL ops] => run_motor args ops
  | _ => wbad
  end.
