(* Wire layer of unit C19_servo (host model of Reduino.Actuators.Servo).

   A pynum is  (0 z) int | (1 (num den)) float | (2 b) bool | (3) non-number (None).
   A rational q is (num den), sent in lowest terms.

   CASE    (0 ctor_args (op1 op2 ...))
     ctor_args = (pin mina maxa minp maxp), each  ()  = argument omitted | (v) = pynum v
     ops:  (0 v) write v | (1 v) write_us v | (2) read | (3) read_us

   OUTPUT  (ctor_result step1 step2 ...)
     ctor_result = (0 snapshot)  the object was built
                 | (1 kind)      the constructor raised; no steps follow
     step  = (0 ret  snapshot events)   the call returned
           | (1 kind snapshot events)   the call raised
     kind  = 0 ValueError | 1 TypeError
     ret   = (0) None | (1 q) float
     snapshot = (pin min_angle max_angle min_pulse max_pulse angle pulse)   pin a pynum
     events   = ((0 angle pulse) ...)                     one per completed write/write_us

   CASE    (1 mina maxa minp maxp)    the three bound checks of Servo.__init__ on floats that may be IEEE
                                      specials; xfloat = (0 (num den)) finite | (1) NaN | (2) +inf | (3) -inf
   OUTPUT  (0) a ValueError is raised | (1) the bounds are accepted
   An undecodable case answers (2). *)
From Coq Require Import ZArith QArith List Bool.
From RV Require Import Base.Wire Base.NumM Base.XFloat Host.Servo Host.ActuatorsX Host.ServoFloat.
Import ListNotations.
Open Scope Z_scope.

Definition wqr (q : Q) : wv := wq (Qred q).

(* ---------------- Servo ---------------- *)
Definition un_sop (v : wv) : option sop :=
  match v with
  | WL [WI 0; x] => match un_pynum x with Some p => Some (SWrite p) | None => None end
  | WL [WI 1; x] => match un_pynum x with Some p => Some (SWriteUs p) | None => None end
  | WL [WI 2] => Some SRead
  | WL [WI 3] => Some SReadUs
  | _ => None
  end.

Definition wservo (s : servo) : wv :=
  WL [wpynum (sv_pin s); wqr (min_a s); wqr (max_a s); wqr (min_p s); wqr (max_p s);
      wqr (cur_a s); wqr (cur_p s)].

Definition wsev (e : sev) : wv :=
  match e with SLvl a p => WL [WI 0; wqr a; wqr p] end.

Definition wsret (r : sret) : wv :=
  match r with SNone => WL [WI 0] | SFloat q => WL [WI 1; wqr q] end.

Fixpoint servo_steps (stepf : servo -> sop -> servo * list sev * result sret) (s : servo) (ops : list wv) : option (list wv) :=
  match ops with
  | [] => Some []
  | o :: r =>
      match un_sop o with
      | None => None
      | Some op =>
          let '(s', evs, res) := stepf s op in
          let head := match res with
                      | Ok ret => WL [WI 0; wsret ret; wservo s'; WL (map wsev evs)]
                      | Raised k => WL [WI 1; wexn k; wservo s'; WL (map wsev evs)]
                      end in
          match servo_steps stepf s' r with
          | Some tl => Some (head :: tl)
          | None => None
          end
      end
  end.

Definition run_servo (stepf : servo -> sop -> servo * list sev * result sret) (args : wv) (ops : list wv) : wv :=
  match args with
  | WL [p; a1; a2; p1; p2] =>
      match un_opt_pynum p, un_opt_pynum a1, un_opt_pynum a2, un_opt_pynum p1, un_opt_pynum p2 with
      | Some p', Some a1', Some a2', Some p1', Some p2' =>
          match servo_ctor (mkServoArgs p' a1' a2' p1' p2') with
          | inr k => WL [WL [WI 1; wexn k]]
          | inl s =>
              match servo_steps stepf s ops with
              | Some l => WL (WL [WI 0; wservo s] :: l)
              | None => wbad
              end
          end
      | _, _, _, _, _ => wbad
      end
  | _ => wbad
  end.

Definition run (v : wv) : wv :=
  match v with
  | WL [WI 0; args; WL ops] => run_servo sstep args ops
  | WL [WI 4; args; WL ops] => run_servo sstep_fl args ops   (* the two maps in binary64 (Host/ServoFloat.v): compared exactly *)
  | WL [WI 1; a; b; c; d] =>
      match un_xfloat a, un_xfloat b, un_xfloat c, un_xfloat d with
      | Some a', Some b', Some c', Some d' => WL [wbool (servo_bounds_accepted a' b' c' d')]
      | _, _, _, _ => wbad
      end
  | _ => wbad
  end.
