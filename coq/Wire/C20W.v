(* Wire codec for the C20 models: [run] decodes one case, runs the model, encodes the result.

   Shared encodings
     text   : (c1 c2 ...)                 code points
     num    : (0 z) int | (1 (n d)) float as the exact rational n/d | (2 b) bool | (3) None
     pin    : (0 z) int pin | (1 text) str pin
     opt X  : () absent | (X) present
     kind   : 1 ValueError | 2 TypeError | 3 RuntimeError
     q      : (n d)

   Cases (leading tag selects the sub-model)
   (0 ops)                                   Core history from the empty dicts
        op   : (0 pin modetext) pin_mode | (1 pin num) digital_write | (2 pin num) analog_write
               | (3 pin) digital_read | (4 pin) analog_read
        ->   (0 results state refs)
        results : one per op: (0) returned None | (0 z) returned z | (1 kind) raised
        state   : (modes digital analog), each a list of (pin value) with unique keys
        refs    : one per op: () for non-reads; for reads (r) where r is what the
                  reference memory semantics [ref_dread]/[ref_aread] of Host/Core.v demands
                  for the history before the call
   (1 x fl fh tl th)                         Utils.map on five nums
        ->   (0 q) | (1 kind) | (3) not modelled (a None argument)
   (2 d)                                     Utils.sleep on a num
        ->   (0 calls) returned | (1 kind calls) raised; calls = seconds passed to the sleeper
   (3 pin click provider ops)                Button(pin, on_click given?, state_provider given?)
        op   : (0 num) set_pressed | (1 num) is_pressed, num = provider sample (ignored without provider)
        ->   (1 kind) constructor raised | (0 outs), outs: () per set_pressed, (ret fired) per is_pressed
   (4 pinopt provider samples)               Potentiometer(pin); one read() per sample
        pinopt : () not a str | (text)
        ->   (1 kind) constructor raised | (0 storedpin results), results: (0 z) | (1 kind)
   (5 sensoropt modelopt trig echo default provider samples)   Ultrasonic(...); one measure per sample
        ->   (1 kind) factory raised | (0 results), results: (0 q) | (1 kind)
   (6 backend baud portgiven newline ops)    SerialMonitor(baud, port?, newline) and calls
        op   : (0 sval) write | (1) close | (2) connect;  sval : (0 z) | (2 b) | (4 text)
        ->   (1 kind) constructor raised | (0 outs), outs per op: (payloads res),
             payloads = texts handed to the backend write(), res: (0 text) | (0) | (1 kind)
   (7 x fl fh tl th)                         Utils.map, BIT-EXACT binary64 model (Host/UtilsFloat.v)
        fnum : (0 z) int | (1 sf) float | (2 b) bool | (3) None
        sf   : (0 s) zero | (1 s) infinity | (2) nan | (3 s m e) finite (-1)^s * m * 2^e, canonical
               (53-bit mantissa or exponent -1074; anything else is undecodable), s = 0 | 1
        ->   (0 sf) | (1 kind), kind: 1 ValueError | 2 TypeError | 4 OverflowError | 5 ZeroDivisionError
   (8 d)                                     Utils.sleep, bit-exact
        ->   (0 calls) | (1 kind calls), calls = list of sf
   (9 ops)                                   Core history over extended pins (Host/CoreKeys.v)
        xpin : (0 z) int | (1 text) str | (2 b) bool | (3 (n d)) float | (4) None | (5) unhashable
        op as in case 0 with xpin; -> as case 0 (keys of the state: int / str / the embedded
        keys of non-integral floats and None, see Host/CoreKeys.v)
   anything else -> (2)  (undecodable: harness bug) *)
From Coq Require Import ZArith QArith List Bool.
From Coq Require Import SpecFloat.
From RV Require Import Base.Wire Base.Text Base.NumC Base.TextC
  Host.Core Host.Utils Host.Sensors Host.Serial Host.UtilsFloat Host.CoreKeys.
Import ListNotations.
Open Scope Z_scope.

Definition un_num (v : wv) : option pynum :=
  match v with
  | WL [WI 0; WI z] => Some (PI z)
  | WL [WI 1; q] => match un_q q with Some x => Some (PF x) | None => None end
  | WL [WI 2; b] => match un_bool b with Some x => Some (PB x) | None => None end
  | WL [WI 3] => Some PO
  | _ => None
  end.

Definition un_pin (v : wv) : option pin :=
  match v with
  | WL [WI 0; WI z] => Some (PinI z)
  | WL [WI 1; t] => match un_text t with Some x => Some (PinS x) | None => None end
  | _ => None
  end.

Definition w_pin (p : pin) : wv :=
  match p with PinI z => WL [WI 0; WI z] | PinS t => WL [WI 1; wtext t] end.

Fixpoint un_list {A} (f : wv -> option A) (l : list wv) : option (list A) :=
  match l with
  | [] => Some []
  | x :: r =>
      match f x, un_list f r with
      | Some a, Some rs => Some (a :: rs)
      | _, _ => None
      end
  end.

Definition un_opt {A} (f : wv -> option A) (v : wv) : option (option A) :=
  match v with
  | WL [] => Some None
  | WL [x] => match f x with Some a => Some (Some a) | None => None end
  | _ => None
  end.

Definition w_raise (e : exn) : wv := WL [WI 1; WI (exn_code e)].

(* ------------------------------------------------------------------ Core *)

Definition un_op (v : wv) : option op :=
  match v with
  | WL [WI 0; p; m] =>
      match un_pin p, un_text m with Some a, Some b => Some (PinMode a b) | _, _ => None end
  | WL [WI 1; p; x] =>
      match un_pin p, un_num x with Some a, Some b => Some (DWrite a b) | _, _ => None end
  | WL [WI 2; p; x] =>
      match un_pin p, un_num x with Some a, Some b => Some (AWrite a b) | _, _ => None end
  | WL [WI 3; p] => match un_pin p with Some a => Some (DRead a) | None => None end
  | WL [WI 4; p] => match un_pin p with Some a => Some (ARead a) | None => None end
  | _ => None
  end.

Definition w_res (r : res) : wv :=
  match r with
  | RNone => WL [WI 0]
  | RVal z => WL [WI 0; WI z]
  | RRaise e => w_raise e
  end.

Definition w_state (s : core) : wv :=
  WL [WL (map (fun kv => WL [w_pin (fst kv); wtext (snd kv)]) (modes s));
      WL (map (fun kv => WL [w_pin (fst kv); WI (snd kv)]) (dig s));
      WL (map (fun kv => WL [w_pin (fst kv); WI (snd kv)]) (ana s))].

(* reference answers, from the history before each read *)
Fixpoint refs (pre rest : list op) : list wv :=
  match rest with
  | [] => []
  | o :: r =>
      (match o with
       | DRead p => WL [WI (ref_dread (history (normalise p) pre))]
       | ARead p => WL [WI (ref_aread (history (normalise p) pre))]
       | _ => WL []
       end) :: refs (pre ++ [o]) r
  end.

Definition run_core (ops : list op) : wv :=
  let '(s, rs) := run_from init ops in
  wok [WL (map w_res rs); w_state s; WL (refs [] ops)].

(* ----------------------------------------------------------------- Utils *)

Definition run_map (x fl fh tl th : pynum) : wv :=
  match umap_py x fl fh tl th with
  | None => WL [WI 3]
  | Some (UOk q) => wok [wq q]
  | Some (URaise e) => w_raise e
  end.

Definition run_sleep (d : pynum) : wv :=
  let '(calls, r) := usleep d in
  match r with
  | UOk _ => WL [WI 0; WL (map wq calls)]
  | URaise e => WL [WI 1; WI (exn_code e); WL (map wq calls)]
  end.

(* ---------------------------------------------------------------- Button *)

Definition un_bop (v : wv) : option bop :=
  match v with
  | WL [WI 0; x] => match un_num x with Some a => Some (BSet a) | None => None end
  | WL [WI 1; x] => match un_num x with Some a => Some (BPoll a) | None => None end
  | _ => None
  end.

Definition run_button (pin : pynum) (click provider : bool) (ops : list bop) : wv :=
  match button_new pin click provider with
  | URaise e => w_raise e
  | UOk s =>
      wok [WL (map (fun x => match x with
                             | None => WL []
                             | Some (ret, fired) => WL [WI ret; wbool fired]
                             end) (brun s ops))]
  end.

(* ------------------------------------------------------------ pot / ultra *)

Definition w_ures {A} (f : A -> wv) (r : ures A) : wv :=
  match r with UOk a => wok [f a] | URaise e => w_raise e end.

Definition run_pot (pin : option text) (provider : bool) (samples : list pynum) : wv :=
  match pot_new pin with
  | URaise e => w_raise e
  | UOk stored =>
      wok [wtext stored;
           WL (map (fun v => w_ures WI (pot_read (if provider then Some v else None))) samples)]
  end.

Definition run_ultra (sensor model : option text) (trig echo default : pynum)
                     (provider : bool) (samples : list pynum) : wv :=
  match ultra_new sensor model trig echo default with
  | URaise e => w_raise e
  | UOk d =>
      wok [WL (map (fun v => w_ures wq (ultra_measure d (if provider then Some v else None))) samples)]
  end.

(* ---------------------------------------------------------------- Serial *)

Definition un_sval (v : wv) : option sval :=
  match v with
  | WL [WI 0; WI z] => Some (SInt z)
  | WL [WI 2; b] => match un_bool b with Some x => Some (SBool x) | None => None end
  | WL [WI 4; t] => match un_text t with Some x => Some (SStr x) | None => None end
  | _ => None
  end.

Definition un_sop (v : wv) : option sop :=
  match v with
  | WL [WI 0; x] => match un_sval x with Some a => Some (SWrite a) | None => None end
  | WL [WI 1] => Some SClose
  | WL [WI 2] => Some SConnect
  | _ => None
  end.

Definition w_sres (r : sres) : wv :=
  match r with
  | SRet t => WL [WI 0; wtext t]
  | SNone => WL [WI 0]
  | SRaise e => w_raise e
  end.

Definition run_serial (backend : bool) (baud : Z) (port_given : bool) (newline : text)
                      (ops : list sop) : wv :=
  match mon_new backend baud port_given newline with
  | URaise e => w_raise e
  | UOk s => wok [WL (map (fun wr => WL [WL (map wtext (fst wr)); w_sres (snd wr)]) (srun s ops))]
  end.

(* ------------------------------------------------- bit-exact Utils (float) *)

Definition un_sf (v : wv) : option sf :=
  match v with
  | WL [WI 0; s] => match un_bool s with Some b => Some (S754_zero b) | None => None end
  | WL [WI 1; s] => match un_bool s with Some b => Some (S754_infinity b) | None => None end
  | WL [WI 2] => Some S754_nan
  | WL [WI 3; s; WI (Zpos m); WI e] =>
      match un_bool s with
      | Some b => let f := S754_finite b m e in if fvalid f then Some f else None
      | None => None
      end
  | _ => None
  end.

Definition w_sf (f : sf) : wv :=
  match f with
  | S754_zero s => WL [WI 0; wbool s]
  | S754_infinity s => WL [WI 1; wbool s]
  | S754_nan => WL [WI 2]
  | S754_finite s m e => WL [WI 3; wbool s; WI (Zpos m); WI e]
  end.

Definition un_fnum (v : wv) : option fnum :=
  match v with
  | WL [WI 0; WI z] => Some (NI z)
  | WL [WI 1; f] => match un_sf f with Some x => Some (NF x) | None => None end
  | WL [WI 2; b] => match un_bool b with Some x => Some (NB x) | None => None end
  | WL [WI 3] => Some NN
  | _ => None
  end.

Definition run_fmap (x fl fh tl th : fnum) : wv :=
  match fmap x fl fh tl th with
  | FOk f => wok [w_sf f]
  | FRaise e => WL [WI 1; WI (fexn_code e)]
  end.

Definition run_fsleep (d : fnum) : wv :=
  let '(calls, r) := fsleep d in
  match r with
  | FOk _ => WL [WI 0; WL (map w_sf calls)]
  | FRaise e => WL [WI 1; WI (fexn_code e); WL (map w_sf calls)]
  end.

(* ------------------------------------------------------ Core, extended pins *)

Definition un_xpin (v : wv) : option xpin :=
  match v with
  | WL [WI 0; WI z] => Some (XI z)
  | WL [WI 1; t] => match un_text t with Some x => Some (XS x) | None => None end
  | WL [WI 2; b] => match un_bool b with Some x => Some (XB x) | None => None end
  | WL [WI 3; q] => match un_q q with Some x => Some (XF x) | None => None end
  | WL [WI 4] => Some XNone
  | WL [WI 5] => Some XUnhashable
  | _ => None
  end.

Definition un_xop (v : wv) : option xop :=
  match v with
  | WL [WI 0; p; m] =>
      match un_xpin p, un_text m with Some a, Some b => Some (XPinMode a b) | _, _ => None end
  | WL [WI 1; p; x] =>
      match un_xpin p, un_num x with Some a, Some b => Some (XDWrite a b) | _, _ => None end
  | WL [WI 2; p; x] =>
      match un_xpin p, un_num x with Some a, Some b => Some (XAWrite a b) | _, _ => None end
  | WL [WI 3; p] => match un_xpin p with Some a => Some (XDRead a) | None => None end
  | WL [WI 4; p] => match un_xpin p with Some a => Some (XARead a) | None => None end
  | _ => None
  end.

Definition run_xcore (ops : list xop) : wv :=
  let '(s, rs) := xrun_from init ops in
  wok [WL (map w_res rs); w_state s].

(* ------------------------------------------------------------------- run *)

Definition run (v : wv) : wv :=
  match v with
  | WL [WI 0; WL ops] =>
      match un_list un_op ops with Some l => run_core l | None => wbad end
  | WL [WI 1; x; fl; fh; tl; th] =>
      match un_num x, un_num fl, un_num fh, un_num tl, un_num th with
      | Some a, Some b, Some c, Some d, Some e => run_map a b c d e
      | _, _, _, _, _ => wbad
      end
  | WL [WI 2; d] =>
      match un_num d with Some a => run_sleep a | None => wbad end
  | WL [WI 3; pin; click; provider; WL ops] =>
      match un_num pin, un_bool click, un_bool provider, un_list un_bop ops with
      | Some a, Some b, Some c, Some l => run_button a b c l
      | _, _, _, _ => wbad
      end
  | WL [WI 4; pin; provider; WL samples] =>
      match un_opt un_text pin, un_bool provider, un_list un_num samples with
      | Some a, Some b, Some l => run_pot a b l
      | _, _, _ => wbad
      end
  | WL [WI 5; sensor; model; trig; echo; default; provider; WL samples] =>
      match un_opt un_text sensor, un_opt un_text model, un_num trig, un_num echo,
            un_num default, un_bool provider, un_list un_num samples with
      | Some a, Some b, Some c, Some d, Some e, Some f, Some l => run_ultra a b c d e f l
      | _, _, _, _, _, _, _ => wbad
      end
  | WL [WI 6; backend; WI baud; portgiven; newline; WL ops] =>
      match un_bool backend, un_bool portgiven, un_text newline, un_list un_sop ops with
      | Some a, Some b, Some c, Some l => run_serial a baud b c l
      | _, _, _, _ => wbad
      end
  | WL [WI 7; x; fl; fh; tl; th] =>
      match un_fnum x, un_fnum fl, un_fnum fh, un_fnum tl, un_fnum th with
      | Some a, Some b, Some c, Some d, Some e => run_fmap a b c d e
      | _, _, _, _, _ => wbad
      end
  | WL [WI 8; d] =>
      match un_fnum d with Some a => run_fsleep a | None => wbad end
  | WL [WI 9; WL ops] =>
      match un_list un_xop ops with Some l => run_xcore l | None => wbad end
  | _ => wbad
  end.
