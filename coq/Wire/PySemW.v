(* run: (env expr) -> result of the reference Python semantics; used to validate PySem against CPython *)
From Coq Require Import ZArith List.
From RV Require Import Base.Wire Lang.PyAst Lang.PySem Lang.PyAstWire.
Import ListNotations.
Definition run (v : wv) : wv :=
  match v with
  | WL [WL en; ex] =>
      match dec_env en, dec_expr ex with
      | Some rho, Some e => enc_res (peval rho e)
      | _, _ => wbad
      end
  | _ => wbad
  end.
