"""C01: generated programs whose HELPER FUNCTIONS matter (the property quantifies over "any number of helper
functions"; harness/progen.py only produces helpers with one trailing `return <int expr>` that are called from two
statement shapes).

What is generated here (statement trees of harness/progen.py, extended by ("return", expr|None), ("global", [names]),
("call", f, args); `head` = statements rendered above the function definitions):

* helpers with SEVERAL RETURN STATEMENTS: guard chains (if / elif / else, every arm returns), early return out of a
  for loop / a bounded while loop, return under nested ifs after local computations, a final fall-through return;
  return KINDS: int (every return an int expression), bool (every return a truth value), boolint (truth values and
  numbers mixed - the C return type must then be int, CPython returns the object of the executed return), float (every
  return a float expression);
* helpers with OBSERVABLE EFFECTS: serial lines, delays, pin writes, updates of a module-level counter (`global`),
  bare `return` in helpers called as statements;
* helpers that call other helpers, 1-3 parameters, 2-5 helpers per program, every helper called from several sites;
* CALL SITES in every expression position: right-hand sides of tuple assignments through the temporaries (first AND
  later elements effectful: the order e0, e1, ..., en is observable), single and augmented assignments, arithmetic
  operands, conditions of if / elif / while, arguments of mon.write / sleep, f-string fields, arguments of other
  helpers, arms of conditional expressions, and / or operands, expression statements; in setup, in the main loop,
  inside for / while / if bodies and inside other helpers (tuple assignment to function locals).

Guards (each is the guard of a listed finding; programs never leave them, so every difference found is new):
* F-C01-eval-order: one C++ expression contains at most one effectful helper call per sequenced region (the operands
  of and / or and the arms of a conditional expression are sequenced) and never reads a global that the call writes;
* F-C01-helper-mixed-return: the returns of one helper have one kind - int-like (int, bool) or float;
* F-C01-def-before-global: the module-level counter a helper updates is assigned above the definitions;
* F-C01-macro-double-eval / F-C01-chain-double-eval / F-C01-range-bound-reeval: no effectful call inside abs / min /
  max, as the middle operand of a chain, or in a range() bound;
* F-C01-str-bool: a result that may be a bool (kinds bool, boolint) never reaches an f-string field or a variable:
  it is printed directly, or used as an operand of + - * or of a comparison with a number;
* F-C06-call-site-unspecialised / overload findings of C02: every parameter is an int at every call site.
"""
from __future__ import annotations

from harness import progen

KINDS = ("int", "boolint", "bool", "float")


class HGen(progen.Gen):
    def __init__(self, rng, features=()):
        super().__init__(rng, features)
        self.helpers = []          # dicts: name, params, kind, fx ("pure" | "print" | "count" | "void")
        self.counter_name = "g0"   # module-level counter updated by the "count" helpers
        self.stats = {"helpers": 0, "returns": 0, "kinds": {}, "fx": {}, "shapes": {}, "sites": {}}

    # ------------------------------------------------------------------ helper bodies
    def _site(self, name):
        self.stats["sites"][name] = self.stats["sites"].get(name, 0) + 1

    def _ret(self, sub, kind, force=None):
        """a return expression of the helper's kind over the parameters / locals of `sub`"""
        r = self.rng
        want = force or (r.choice(["bool", "int", "int"]) if kind == "boolint" else kind)
        self.stats["returns"] += 1
        if want == "int":
            e = sub.int_expr(1)
            if r.random() < 0.5:      # keep the numeric path away from 0 / 1: a result collapsed to a truth value must show
                e = f"({e} + {r.choice([2, 3, 5, 10, 14])})" if r.random() < 0.6 else f"({e} * {r.choice([2, 3, 7])} + {r.choice([2, 5, 9])})"
            return e
        if want == "bool":
            return r.choice(["True", "False", sub.bool_expr(0), sub.bool_expr(1), f"(not {sub.bool_expr(0)})"])
        return f"({sub.int_expr(1)} * {r.choice(['0.5', '0.25', '1.5'])})" if r.random() < 0.7 else f"({sub.int_expr(0)} / {r.choice(['2.0', '4.0'])})"

    def _effect(self, sub, fx):
        r = self.rng
        if fx == "count":
            return [("assign", self.counter_name, f"({self.counter_name} + {sub.int_atom()})")]
        k = r.random()
        if k < 0.6:
            a = sub.int_atom()
            return [("write", a if r.random() < 0.5 else 'f"' + r.choice(["rd ", "ch", "#"]) + "{" + a + '}"')]
        if k < 0.8:
            return [("sleep", r.choice(["1", "5", "20"]))]
        return [("dw", r.choice(["13", "7"]), sub.bool_expr(0))]

    def make_helper(self, i, kind, fx):
        r = self.rng
        name = f"h{i}"
        params = [f"p{j}" for j in range(r.choice([1, 1, 2, 2, 3]))]
        sub = progen.Gen(r, (self.f - {"funcs", "continue", "tuple", "branch_first"}) | ({"float"} if kind == "float" else set()))
        sub.ints = list(params)
        # earlier pure int helpers may be called from this body (helpers calling helpers)
        callee = [h for h in self.helpers if h["fx"] == "pure" and h["kind"] == "int"]
        body = []
        if fx == "count":
            body.append(("global", [self.counter_name]))
        eff = (lambda: self._effect(sub, fx)) if fx in ("print", "count") else (lambda: [])
        shape = r.choice(["chain", "chain", "forloop", "while", "nested", "single"])
        if kind == "boolint" and shape == "single":
            shape = "chain"
        self.stats["shapes"][shape] = self.stats["shapes"].get(shape, 0) + 1
        forced = ["bool", "int"] if kind == "boolint" else [None, None]
        r.shuffle(forced)

        def ret(j=None):
            e = self._ret(sub, kind, forced[j] if j is not None and j < 2 else None)
            if callee and kind in ("int", "boolint") and r.random() < 0.2:
                c = r.choice(callee)
                e = f"({c['name']}({', '.join(sub.int_atom() for _ in c['params'])}) + {sub.int_atom()})"
            return ("return", e)
        if shape == "single":
            body += eff() + [ret()]
        elif shape == "chain":
            n = r.choice([1, 2, 2, 3])
            body += eff() if r.random() < 0.7 else []
            arms = []
            for j in range(n):
                arms.append((sub.bool_expr(r.choice([0, 1])), (eff() if r.random() < 0.3 else []) + [ret(j)]))
            if r.random() < 0.4:
                body.append(("if", arms, (eff() if r.random() < 0.3 else []) + [ret(n)]))
            else:
                body.append(("if", arms, []))
                body += (eff() if r.random() < 0.3 else []) + [ret(n)]
        elif shape == "forloop":
            v = "k9"
            sub.loopvars.append(v)
            inner = [("if", [(sub.bool_expr(1), (eff() if r.random() < 0.4 else []) + [ret(0)])], [])]
            if r.random() < 0.5:
                inner = eff() + inner
            sub.loopvars.pop()
            body += [("for", v, r.choice(["3", "4", "6", "(abs(p0) % 5)"]), inner)] + (eff() if r.random() < 0.4 else []) + [ret(1)]
        elif shape == "while":
            body += [("assign", "w9", "0"), ("assign", "t9", sub.int_expr(1))]
            sub.ints.append("t9")
            loop = [("assign", "w9", "(w9 + 1)"), ("assign", "t9", f"(t9 + {sub.int_atom()})")] + (eff() if r.random() < 0.5 else []) + \
                   [("if", [(sub.bool_expr(1), [ret(0)])], [])]
            body += [("while", f"(w9 < {r.choice([2, 3, 4])})", loop), ret(1)]
        else:   # nested
            body += [("assign", "t9", sub.int_expr(1))]
            sub.ints.append("t9")
            inner = [("assign", "t9", f"(t9 {r.choice(['+', '-', '*'])} {sub.int_atom()})")] + (eff() if r.random() < 0.5 else []) + \
                    [("if", [(sub.bool_expr(0), [ret(0)])], [])] + [ret(1)]
            body += (eff() if r.random() < 0.5 else []) + [("if", [(sub.bool_expr(1), inner)], [])] + [ret(2)]
        h = {"name": name, "params": params, "kind": kind, "fx": fx, "body": body}
        self.helpers.append(h)
        self.stats["helpers"] += 1
        self.stats["kinds"][kind] = self.stats["kinds"].get(kind, 0) + 1
        self.stats["fx"][fx] = self.stats["fx"].get(fx, 0) + 1
        return h

    def make_void(self, i):
        """a helper without a result, called as a statement; bare `return` on an early path"""
        r = self.rng
        params = [f"p{j}" for j in range(r.choice([1, 2]))]
        sub = progen.Gen(r, ())
        sub.ints = list(params)
        body = self._effect(sub, "print")
        if r.random() < 0.6:
            body.append(("if", [(sub.bool_expr(1), self._effect(sub, "print") + [("return", None)])], []))
        body += self._effect(sub, "print")
        h = {"name": f"h{i}", "params": params, "kind": "void", "fx": "void", "body": body}
        self.helpers.append(h)
        self.stats["helpers"] += 1
        self.stats["kinds"]["void"] = self.stats["kinds"].get("void", 0) + 1
        return h

    # ------------------------------------------------------------------ call sites
    def args(self, h, pure_only=True):
        return ", ".join(self.int_expr(1) if self.rng.random() < 0.5 else self.int_atom() for _ in h["params"])

    def call(self, h, nest=True):
        """source text of one call; for an effectful helper no argument contains another effectful call"""
        r = self.rng
        parts = []
        for _ in h["params"]:
            pure = [g for g in self.helpers if g["fx"] == "pure" and g["kind"] == "int" and g is not h]
            if nest and pure and r.random() < 0.15:
                g = r.choice(pure)
                parts.append(f"{g['name']}({', '.join(self.int_atom() for _ in g['params'])})")
                self._site("argument-of-helper")
            else:
                parts.append(self.int_expr(1) if r.random() < 0.4 else self.int_atom())
        return f"{h['name']}({', '.join(parts)})"

    def numeric(self, h, nest=True):
        """an int-valued (float-valued for kind float) expression around one call of h: the result is used as a number"""
        r = self.rng
        c = self.call(h, nest)
        k = r.random()
        if h["kind"] == "float":
            return c if k < 0.4 else f"({c} {r.choice(['+', '-', '*'])} {r.choice(['0.5', '2.0', '1.25'])})"
        if h["kind"] == "bool":
            return f"({c} + {r.choice([2, 5, 9])})" if k < 0.5 else f"({r.choice([3, 10])} * {c} + {r.choice([0, 4])})"
        if h["kind"] == "int" and k < 0.3:
            return c
        if k < 0.55:
            return f"({c} + {self.int_atom()})"
        if k < 0.75:
            return f"({c} * {r.choice([2, 3, 10, 100])})"
        if k < 0.9:
            return f"({self.int_atom()} - {c})"
        return f"({c} * {r.choice([2, 5])} + {self.int_atom()})"

    def truth(self, h):
        """a bool expression around one call"""
        r = self.rng
        c = self.call(h)
        if h["kind"] == "bool" and r.random() < 0.5:
            return c if r.random() < 0.6 else f"(not {c})"
        if h["kind"] == "float":
            return f"({c} {r.choice(['<', '>'])} {r.choice(['1.5', '4.0', '0.25'])})"
        return f"({c} {r.choice(['<', '<=', '>', '>=', '==', '!='])} {r.choice([1, 2, 3, 5, 10, 15])})"

    def valued(self, fx=None, kinds=("int", "boolint", "bool")):
        hs = [h for h in self.helpers if h["kind"] in kinds and (fx is None or h["fx"] in fx)]
        return self.rng.choice(hs) if hs else None

    def reads_counter_ok(self, h):
        """F-C01-eval-order: an expression with a call that writes the counter does not read the counter"""
        return h["fx"] != "count"

    def helper_stmt(self, depth, in_loop):
        """one statement whose expression positions hold helper calls"""
        r = self.rng
        k = r.random()
        ints = [x for x in self.ints if x != self.counter_name] or ["i0"]
        if k < 0.22 and len(ints) >= 2:
            # tuple assignment through the temporaries: every element is its own C++ statement, so every element may
            # hold an effectful call; the FIRST and a LATER element are effectful whenever an effectful helper exists
            n = 3 if (len(ints) >= 3 and r.random() < 0.35) else 2
            tg = r.sample(ints, n)
            rhs = []
            for j in range(n):
                h = self.valued(fx=("print", "count")) if (j == 0 or j == n - 1 or r.random() < 0.5) else None
                h = h or self.valued()
                rhs.append(self.numeric(h, nest=False) if h else self.int_expr(1))
            self._site("tuple-rhs")
            return ("tuple", tg, rhs)
        hf = self.valued(kinds=("float",))
        if hf is not None and r.random() < 0.12:
            # float-only helpers: printed, compared, or stored in a float variable (never in an int one: F-C01-retype-truncates)
            self._site("float-result")
            j = r.random()
            if j < 0.5 or not self.floats:
                return ("write", self.numeric(hf))
            if j < 0.8:
                return ("assign", r.choice(self.floats), self.numeric(hf))
            return ("if", [(self.truth(hf), [("write", self.write_expr())])], [])
        h = self.valued() if r.random() < 0.8 else None
        if h is None:
            v = [g for g in self.helpers if g["kind"] == "void"]
            if v:
                g = r.choice(v)
                self._site("statement(void)")
                return ("call", g["name"], [self.int_expr(1) for _ in g["params"]])
            h = self.valued()
            if h is None:
                return ("write", self.write_expr())
        if k < 0.36:
            self._site("assignment")
            return ("assign", r.choice(ints), self.numeric(h))
        if k < 0.44:
            self._site("augmented-assignment")
            return ("aug", r.choice(ints), r.choice(["+", "-", "*"] if h["kind"] != "int" else ["+", "-"]), self.numeric(h))
        if k < 0.58:
            self._site("write-argument")
            if r.random() < 0.5:
                return ("write", self.call(h))                 # printed directly (a bool prints True/False vs 1/0: value level)
            return ("write", self.numeric(h))
        if k < 0.64 and h["kind"] == "int":
            self._site("f-string-field")
            return ("write", 'f"' + r.choice(["v=", "", "r "]) + "{" + self.call(h) + "}" + r.choice(["", "!", " u"]) + '"')
        if k < 0.70:
            self._site("statement(result discarded)")
            return ("call", h["name"], [self.int_expr(1) for _ in h["params"]])
        if k < 0.82 and depth > 0:
            arms = [(self.truth(h), self.block(depth - 1, in_loop, False, n=r.choice([1, 2])))]
            if r.random() < 0.4:
                g = self.valued() or h
                arms.append((self.truth(g), self.block(depth - 1, in_loop, False, n=1)))
                self._site("elif-condition")
            self._site("if-condition")
            return ("if", arms, self.block(depth - 1, in_loop, False, n=1) if r.random() < 0.5 else [])
        if k < 0.88:
            # and / or: the operands are sequenced in C++ as in Python, each may hold one effectful call
            g = self.valued() or h
            self._site("and-or-operand")
            return ("write", f"({self.truth(h)} {r.choice(['and', 'or'])} {self.truth(g)})")
        if k < 0.93 and h["kind"] in ("int", "boolint"):
            g = self.valued(kinds=("int", "boolint")) or h
            self._site("conditional-expression-arm")
            return ("assign", r.choice(ints), f"({self.numeric(h)} if {self.bool_expr(0)} else {self.numeric(g)})")
        if k < 0.97 and h["kind"] == "int" and h["fx"] == "pure":
            self._site("sleep-argument")
            return ("sleep", f"(abs({self.call(h, nest=False)}) % 7)")
        self._site("assignment")
        return ("assign", r.choice(ints), self.numeric(h))

    def stmt(self, depth, in_loop, top):
        if self.helpers and self.rng.random() < 0.45:
            s = self.helper_stmt(depth, in_loop)
            if s is not None:
                return s
        return super().stmt(depth, in_loop, top)

    def while_with_call(self):
        """bounded while whose condition calls a helper on every test"""
        r = self.rng
        h = self.valued(kinds=("int", "boolint", "bool"))
        if h is None:
            return []
        c = f"w{self.counter}"
        self.counter += 1
        self.loop_kinds.append("while")
        # the counter advances FIRST: a `continue` in the body cannot skip it
        body = [("assign", c, f"({c} + 1)")] + self.block(1, True, False, n=r.choice([1, 2]))
        self.loop_kinds.pop()
        self._site("while-condition")
        cond = self.truth(h)
        return [("assign", c, "0"), ("while", f"({c} < {r.choice([1, 2, 3])} and {cond})", body)]

    # ------------------------------------------------------------------ programs
    def program(self, with_main=True):
        r = self.rng
        n = r.choice([2, 3, 3, 4, 5])
        plan = []
        # every program: one helper with mixed bool / int returns, one effectful helper, the rest drawn
        plan.append(("boolint", r.choice(["pure", "pure", "print"])))
        plan.append((r.choice(["int", "int", "boolint"]), r.choice(["print", "print", "count"])))
        for _ in range(n - 2):
            kind = r.choice(["int", "int", "bool", "boolint", "float" if "float" in self.f else "int", "void"])
            plan.append((kind, "void" if kind == "void" else r.choice(["pure", "pure", "print", "count"])))
        plan.sort(key=lambda kf: 0 if (kf[1] == "pure" and kf[0] == "int") else 1)     # pure int helpers first: later bodies call them
        for i, (kind, fx) in enumerate(plan):
            if kind == "void":
                self.make_void(i)
            else:
                self.make_helper(i, kind, fx)
        head = [("assign", self.counter_name, str(r.choice([0, 1, 4])))]
        pre = []
        for _ in range(r.choice([3, 4])):
            nm = self.new_int()
            pre.append(("assign", nm, str(r.choice([0, 1, 2, 5, 7, -2, 12]))))
            self.ints.append(nm)
        if "float" in self.f:
            pre.append(("assign", "f0", self.float_expr(1)))
            self.floats.append("f0")
        body_pre = self.block(2, False, True, n=r.choice([3, 4, 6]))
        if r.random() < 0.5:
            body_pre += self.while_with_call()
        body_pre.append(("write", self.counter_name))
        self.in_main = True
        main = None
        if with_main:
            main = self.block(2, False, False, n=r.choice([2, 3, 4]))
            if r.random() < 0.4:
                main += self.while_with_call()
            main.append(("write", f"({self.counter_name} + {self.ints[0]})"))
        self.in_main = False
        wdecl = [("assign", "n0", str(r.choice([0, 1, 2, 3])))] + [("assign", f"w{j}", "0") for j in range(self.counter)]
        funcs = [(h["name"], h["params"], h["body"], None) for h in self.helpers]
        return {"head": head, "funcs": funcs, "pre": wdecl + pre + body_pre, "main": main,
                "helpers": [{k: h[k] for k in ("name", "params", "kind", "fx")} for h in self.helpers], "stats": self.stats}


def count_value_returns(body):
    """number of `return e` statements (bare returns not counted), nested blocks included"""
    n = 0
    for s in body or []:
        if s[0] == "return":
            n += 1 if s[1] is not None else 0
        elif s[0] == "if":
            n += sum(count_value_returns(b) for _, b in s[1]) + count_value_returns(s[2])
        elif s[0] in ("while", "for"):
            n += count_value_returns(s[-1])
    return n


# hand-written helper programs (run first, every tier): the shapes of the seeded regressions of round 3, recursion,
# early return from nested loops, bare return, helpers calling helpers, tuple assignment to function locals
CORPUS = [
    # False-or-number helper; the number path is taken with values other than 0 / 1 and used in arithmetic
    "def credit(amount):\n    if amount < 0:\n        return False\n    return amount + 10\nbalance = 0\nbalance = balance + credit(-3)\n"
    "mon.write(balance)\nmon.write(credit(-3))\nwhile True:\n    balance = balance + credit(5)\n    mon.write(balance)\n",
    # number-or-comparison helper with elif / else arms
    "def grade(points, limit):\n    if points > limit:\n        return points - limit\n    elif points == limit:\n        return True\n    else:\n        return points == limit - 1\n"
    "level = 0\nwhile True:\n    level = level + 4\n    bonus = grade(level, 6) * 100\n    mon.write(f\"level={level} bonus={bonus}\")\n    if grade(level, 8) > 1:\n        mon.write(\"big\")\n",
    # truth values only / numbers only (control)
    "def clamp(v, lo, hi):\n    if v < lo:\n        return lo\n    elif v > hi:\n        return hi\n    return v\ndef inside(v):\n    return 0 <= v and v <= 9\nn = -4\n"
    "while True:\n    n = n + 7\n    if inside(n):\n        mon.write(clamp(n * 3, 0, 20))\n    else:\n        mon.write(clamp(n, 0, 20) + 100)\n",
    # tuple assignment from a reporting helper, at module level (declared targets) and in the main loop
    "def sample(channel):\n    mon.write(f\"read ch{channel}\")\n    return channel * 10 + 1\nleft = 0\nright = 0\nleft, right = sample(1), sample(2)\nmon.write(f\"{left} {right}\")\n"
    "while True:\n    left, right = sample(right % 7), sample(left % 5)\n    mon.write(f\"{left} {right}\")\n",
    # three-way tuple assignment to function locals; helper calling a helper
    "def step(n):\n    mon.write(n)\n    return n + 1\ndef rotate(seed):\n    x = seed\n    y = seed\n    z = seed\n    x, y, z = step(x), step(x + 10), step(x + 20)\n    return x + y + z\n"
    "turn = 0\nwhile True:\n    turn = turn + 1\n    mon.write(f\"sum {rotate(turn)}\")\n",
    # a later element sees the global the first element updated; sleeping / pin-driving elements
    "total = 0\ndef bump(k):\n    global total\n    total = total + k\n    return total\ndef pulse(ms):\n    digital_write(13, ms > 2)\n    sleep(ms)\n    return ms * 2\n"
    "a = 0\nb = 0\nc = 0\na, b = bump(1), bump(10)\nmon.write(a * 100 + b)\nwhile True:\n    a, b, c = pulse(3), bump(a), pulse(1)\n    mon.write(a + b + c)\n    b, a = bump(2) + 1, pulse(b % 4) - 1\n    mon.write(a * 1000 + b)\n",
    # early return out of for / while loops, fall-through return
    "def first_over(lim):\n    for k in range(10):\n        if k * k > lim:\n            return k\n    return -1\ndef count_down(n):\n    w = n\n    s = 0\n    while w > 0:\n        s = s + w\n"
    "        if s > 12:\n            return s\n        w = w - 1\n    return s\nmon.write(first_over(10))\nmon.write(first_over(200))\nmon.write(count_down(3))\nmon.write(count_down(9))\n",
    # recursion; bare return in a helper called as a statement
    "def fact(n):\n    if n <= 1:\n        return 1\n    return n * fact(n - 1)\ndef fib(n):\n    if n < 2:\n        return n\n    return fib(n - 1) + fib(n - 2)\ndef log(a):\n    mon.write(a)\n"
    "    if a > 3:\n        return\n    sleep(a)\nmon.write(fact(5))\nmon.write(fib(9))\nlog(2)\nlog(5)\nk = 0\nwhile True:\n    k = k + 1\n    log(fact(k))\n",
    # calls in while / if / elif conditions, and / or operands, conditional-expression arms, f-string fields
    "def show(a):\n    mon.write(a)\n    return a * 2\ni0 = 3\ni0 = show(i0) if i0 > 2 else show(0)\nif show(8) > 3 and show(9) > 100 and show(10) > 0:\n    mon.write(\"no\")\n"
    "if show(11) > 300 or show(12) > 3:\n    mon.write(\"yes\")\nelif show(13) > 0:\n    mon.write(\"never\")\nw = 0\nwhile show(w) < 5:\n    w = w + 1\nmon.write(f\"v={show(4)}!\")\nmon.write(-show(14))\nshow(7)\n",
    # one helper, two call signatures (int and float variants), early return
    "def scale(a):\n    if a > 100:\n        return a - 100\n    return a * 2\nf0 = 2.5\ny = scale(f0)\nx = scale(3)\nmon.write(y)\nmon.write(x)\n"
    "while True:\n    x = scale(x) - 1\n    y = scale(y) + 0.25\n    mon.write(x)\n    mon.write(y)\n",
    # float-only and bool-only helpers
    "def half(a):\n    if a > 4:\n        return a * 0.25\n    return a * 0.5\ndef neg(a):\n    if a == 0:\n        return False\n    return a < 0\nmon.write(half(3))\nmon.write(half(10) + 1.5)\n"
    "mon.write(neg(3))\nmon.write(neg(-3))\nb = neg(-1)\nif neg(-4) and b:\n    mon.write(\"both\")\nmon.write(neg(-2) + 5)\n",
]

WITNESSES = {
    "F-C01-helper-mixed-return": {
        "src": progen.HEADER + "def h(a):\n    if a > 2:\n        return a * 0.5\n    return a\nmon.write(h(1))\nmon.write(h(7))\n", "loops": 0},
    "F-C01-eval-order": {
        "src": progen.HEADER + "def noisy(a):\n    mon.write(a)\n    return a + 1\ndef add(a, b):\n    return a + b\nmon.write(add(noisy(1), noisy(2)))\n", "loops": 0},
    "F-C01-def-before-global": {
        "src": progen.HEADER + "def bump(k):\n    global total\n    total = total + k\n    return total\ntotal = 0\na = bump(2)\nmon.write(a == 2)\nmon.write(total)\n", "loops": 0},
}
