"""C02: generated scripts / helper bodies with control flow for (e) and (f) of harness/props/c02.py.

Three things are rendered from ONE statement tree (the tuples of harness/props/c02.py):
  * the plain script (real transpiler -> firmware under the mock core, and CPython: the value oracle),
  * the wire form of the Gallina statement syntax (Lang/Decl.v) for the extracted model
    (script_guard / fn_guard, exec_prog / exec_block of Lang/StmtRef.v),
  * an INSTRUMENTED script for CPython that records every decision (branch index of an if, passes of a while,
    length of a range) in the pre-order the model's oracle is consumed in, and every store / return with its value.

The generators are deliberately liberal: most programs are meant to be inside the theorem's guard (every store infers the
label the name finally has), some break it on purpose (a store of another kind, branches that disagree, a name read
before the line that types it).  The extracted guard - not the generator - decides which programs the value oracle
may blame."""
from __future__ import annotations

from fractions import Fraction

KINDS = ("int", "float", "bool", "str")


# --------------------------------------------------------------------------- instrumented rendering
class Instr:
    def __init__(self):
        self.k = 0

    def nid(self):
        self.k += 1
        return self.k

    def block(self, stmts, lvl, out, loopvars):
        pad = "    " * lvl
        if not any(st[0] != "write" for st in stmts):
            out.append(pad + "pass\n")
        for st in stmts:
            k = st[0]
            if k == "assign":
                out.append(f"{pad}{st[1]} = {st[2]}\n")
                out.append(f"{pad}__T.{'lv' if st[1] in loopvars else 'st'}({st[1]!r}, {st[1]})\n")
            elif k == "aug":
                out.append(f"{pad}{st[1]} {st[2]}= {st[3]}\n")
                out.append(f"{pad}__T.{'lv' if st[1] in loopvars else 'st'}({st[1]!r}, {st[1]})\n")
            elif k == "tassign":
                out.append(f"{pad}{', '.join(st[1])} = {', '.join(st[2])}\n")
                for x in st[1]:
                    out.append(f"{pad}__T.{'lv' if x in loopvars else 'st'}({x!r}, {x})\n")
            elif k == "write":
                pass
            elif k == "return":
                out.append(pad + ("return\n" if st[1] is None else f"return __T.ret({st[1]})\n"))
            elif k == "if":
                n = self.nid()
                out.append(f"{pad}__n{n} = __T.new()\n")
                for i, (c, b) in enumerate(st[1]):
                    out.append(f"{pad}{'if' if i == 0 else 'elif'} {c}:\n")
                    out.append(f"{pad}    with __T.take(__n{n}, {i}):\n")
                    self.block(b, lvl + 2, out, loopvars)
                out.append(pad + "else:\n")
                out.append(f"{pad}    with __T.take(__n{n}, {len(st[1])}):\n")
                self.block(st[2] if st[2] is not None else [], lvl + 2, out, loopvars)
            elif k == "while":
                n = self.nid()
                out.append(f"{pad}__n{n} = __T.new()\n")
                out.append(f"{pad}while {st[1]}:\n")
                out.append(f"{pad}    with __T.it(__n{n}):\n")
                self.block(st[2], lvl + 2, out, loopvars)
            elif k == "for":
                n = self.nid()
                out.append(f"{pad}__r{n} = len(range({st[2]}))\n")
                out.append(f"{pad}__n{n} = __T.new(__r{n})\n")
                out.append(f"{pad}for {st[1]} in range(__r{n}):\n")
                out.append(f"{pad}    with __T.enter(__n{n}):\n")
                out.append(f"{pad}        __T.lv({st[1]!r}, {st[1]})\n")
                self.block(st[3], lvl + 2, out, loopvars | {st[1]})
            else:
                raise ValueError(k)


def render_instr_script(pre, main, passes):
    out = []
    ins = Instr()
    ins.block(pre, 0, out, frozenset())
    out.append("__nm = __T.new()\n")
    out.append(f"for __pass in range({passes}):\n")
    out.append("    with __T.it(__nm):\n")
    ins.block(main, 2, out, frozenset())
    return "".join(out)


def render_instr_def(name, params, body):
    out = [f"def {name}({', '.join(params)}):\n"]
    Instr().block(body, 1, out, frozenset())
    return "".join(out)


def reads_loopvar_after(stmts):
    """True if some statement mentions the target of a for loop after that loop (outside the fragment of StmtRef.v)"""
    import re
    def walk(block):
        for idx, st in enumerate(block):
            if st[0] == "for":
                rest = repr(block[idx + 1:])
                if re.search(r"\b" + re.escape(st[1]) + r"\b", rest):
                    return True
                if walk(st[3]):
                    return True
            elif st[0] == "while" and walk(st[2]):
                return True
            elif st[0] == "if":
                if any(walk(b) for _, b in st[1]) or (st[2] is not None and walk(st[2])):
                    return True
        return False
    return walk(stmts)


# --------------------------------------------------------------------------- values
def dec_pyval(j):
    t = j[0]
    if t == 0:
        return int(j[1])
    if t == 1:
        return bool(j[1])
    if t == 2:
        return Fraction(int(j[1]), int(j[2]))
    if t == 3:
        return j[1]
    if t == 4:
        return [dec_pyval(x) for x in j[1]]
    if t == 6:
        return None
    return ("unrepresentable", j[1])


def same_model_py(mv, pv):
    """model value (decoded by pyast_wire.dec_val: Fractions for floats) vs CPython value (dec_pyval): exact"""
    if isinstance(pv, Fraction):
        return isinstance(mv, Fraction) and mv == pv
    if isinstance(pv, bool) or isinstance(mv, bool):
        return type(mv) is type(pv) and mv == pv
    if isinstance(pv, list):
        return isinstance(mv, list) and len(mv) == len(pv) and all(same_model_py(a, b) for a, b in zip(mv, pv))
    return type(mv) is type(pv) and mv == pv


def compare_traces(model_out, py, W, C):
    """model_out: wire result of op 11/13; py: result of the instrumented CPython run.  Returns None or a description."""
    pev = py["trace"]
    if "exc" in py:
        # the exception may come from a condition / loop bound (not part of the model's syntax): the model, following the
        # recorded decisions, either fails too or goes on - what it stored up to that point must be what CPython stored
        if model_out[0] == 1:
            return None
        mev = model_out[1][:len(pev)]
        if len(mev) < len(pev):
            return f"CPython raises {py['exc']} after {len(pev)} stores, the reference semantics ends after {len(mev)}"
    else:
        if model_out[0] != 0:
            return f"the reference semantics fails (code {model_out[1]}), CPython does not"
        mev = model_out[1]
        if len(mev) != len(pev):
            return f"trace lengths differ: model {len(mev)}, CPython {len(pev)}"
    for i, (m, p) in enumerate(zip(mev, pev)):
        if m[0] != p[0]:
            return f"event {i}: kinds differ (model {m[0]}, CPython {p[0]})"
        if m[0] in (0, 1):
            if C.wstr(m[1]) != p[1]:
                return f"event {i}: names differ (model {C.wstr(m[1])}, CPython {p[1]})"
            mv, pv = W.dec_val(m[2]), dec_pyval(p[2])
        else:
            mv, pv = W.dec_val(m[1]), dec_pyval(p[1])
        if not same_model_py(mv, pv):
            return f"event {i}: values differ (model {mv!r}, CPython {pv!r})"
    return None


# --------------------------------------------------------------------------- scripts
class CtlGen:
    """scripts: statements at column 0 (with nested if / elif / else, while, for), then an optional main loop"""

    def __init__(self, rng, RunGen):
        self.rng = rng
        self.g = RunGen(rng)
        self.kind = {}
        self.n = 0
        self.deviations = 0       # stores of a kind other than the declared one / disagreeing branches / early reads
        self.shapes = {"if": 0, "elif": 0, "else": 0, "while": 0, "for": 0, "aug": 0, "hoisted_if": 0, "hoisted_loop": 0,
                       "store_in_nested_block": 0, "early_read": 0, "branch_disagree": 0, "other_kind_store": 0}

    def fresh(self, p="v"):
        self.n += 1
        return f"{p}{self.n}"

    def rd(self, readable):
        out = {"int": [], "float": [], "bool": [], "str": []}
        for x in sorted(readable):
            out[self.kind[x]].append(x)
        return out

    def store(self, readable, known, nested, force_new=False, kind=None):
        rng = self.rng
        rd = self.rd(readable)
        cands = sorted(known)
        if cands and not force_new and rng.random() < 0.5:
            x = rng.choice(cands)
            K = self.kind[x]
        else:
            x = self.fresh()
            K = kind or rng.choice(["int", "int", "float", "float", "bool", "str"])
            self.kind[x] = K
            known.add(x)
            if nested:
                self.shapes["store_in_nested_block"] += 1
        k = K
        narrower = {"float": ["int", "bool"], "int": ["bool"]}.get(K, [])
        if narrower and x in known and rng.random() < 0.10:
            k = rng.choice(narrower)            # a narrower value into a wider variable: inside the guard while x is not read
            self.shapes["narrower_store"] = self.shapes.get("narrower_store", 0) + 1
        elif rng.random() < 0.02:
            k = rng.choice([kk for kk in KINDS if kk != K])
            self.deviations += 1
            self.shapes["other_kind_store"] += 1
        if k == K and x in readable and K in ("int", "float") and rng.random() < 0.2:
            self.shapes["aug"] += 1
            ek = rng.choice(["int", "bool"] if K == "int" else ["int", "float", "bool"])
            return [("aug", x, rng.choice(["+", "-", "*"]), self.g.expr(ek, rng.choice([0, 1]), rd)), ("write", x)]
        src = self.g.expr(k, rng.choice([0, 1, 1, 2]), rd)
        if k == K:
            readable.add(x)
        else:
            readable.discard(x)
        return [("assign", x, src), ("write", x)]

    def block(self, readable, known, depth, nested, n=None):
        rng = self.rng
        out = []
        for _ in range(n if n is not None else rng.choice([1, 2, 3])):
            r = rng.random()
            if depth > 0 and r < 0.22:
                nb = rng.choice([1, 1, 2, 3])
                self.shapes["if"] += 1
                self.shapes["elif"] += nb - 1
                hoist = self.fresh("h") if rng.random() < 0.6 else None
                hk = rng.choice(["int", "float", "bool", "str"])
                if hoist:
                    self.kind[hoist] = hk
                    self.shapes["hoisted_if"] += 1
                disagree = hoist is not None and rng.random() < 0.04
                brs = []
                for bi in range(nb):
                    ch = set(readable)
                    head = []
                    if hoist:
                        kk = hk
                        if disagree and bi == nb - 1:
                            kk = "float" if hk != "float" else "int"
                        head = [("assign", hoist, self.g.expr(kk, 1, self.rd(ch))), ("write", hoist)]
                    body = head + self.block(ch, known, depth - 1, True)
                    brs.append((self.g.bool_e(1, self.rd(readable)), body))
                els = None
                if rng.random() < 0.6 or disagree:
                    self.shapes["else"] += 1
                    ch = set(readable)
                    head = []
                    if hoist:
                        kk = ("float" if hk != "float" else "int") if (disagree and nb == 1) else hk
                        head = [("assign", hoist, self.g.expr(kk, 1, self.rd(ch))), ("write", hoist)]
                    els = head + self.block(ch, known, depth - 1, True)
                if disagree:
                    self.deviations += 1
                    self.shapes["branch_disagree"] += 1
                out.append(("if", brs, els))
                if hoist:
                    known.add(hoist)
            elif depth > 0 and r < 0.34:
                self.shapes["while"] += 1
                k = self.fresh("k")
                self.kind[k] = "int"
                out.append(("assign", k, "0"))
                ch = set(readable) | {k}
                body = []
                early = rng.random() < 0.04
                if early:                                   # a name read (in text order) before the line that types it
                    z, b = self.fresh("z"), self.fresh("b")
                    self.kind[z], self.kind[b] = "float", "float"
                    body.append(("if", [(f"{k} > 0", [("assign", b, z), ("write", b)])], None))
                    self.deviations += 1
                    self.shapes["early_read"] += 1
                body += self.block(ch, known, depth - 1, True)
                if rng.random() < 0.5:
                    t = self.fresh("t")
                    self.kind[t] = rng.choice(["int", "float"])
                    body += [("assign", t, self.g.expr(self.kind[t], 1, self.rd(ch))), ("write", t)]
                    self.shapes["hoisted_loop"] += 1
                    known.add(t)
                if early:
                    body += [("assign", z, "2.5")]
                    known.add(z)
                    known.add(b)
                body.append(("assign", k, f"{k} + 1"))
                out.append(("while", f"{k} < {rng.choice([0, 1, 2, 3])}", body))
            elif depth > 0 and r < 0.44:
                self.shapes["for"] += 1
                i = self.fresh("i")
                self.kind[i] = "int"
                ch = set(readable) | {i}
                body = self.block(ch, known, depth - 1, True)
                out.append(("for", i, str(rng.choice([0, 1, 2, 3])), body))
            elif 0.44 <= r < 0.52:
                out += self.tuple_store(readable, known)
            else:
                out += self.store(readable, known, nested)
        return out

    def tuple_store(self, readable, known):
        """x, y = e1, e2 declaring two or three new names of different kinds, or a swap of two readable names of one kind"""
        rng = self.rng
        rd = self.rd(readable)
        # never a loop counter / for target: swapping one would change how often the loop runs
        sw = {k: [n for n in rd[k] if n in known] for k in ("int", "float")}
        same = [k for k in ("int", "float") if len(sw[k]) >= 2]
        self.shapes["tuple"] = self.shapes.get("tuple", 0) + 1
        if same and rng.random() < 0.4:
            a, b = rng.sample(sw[rng.choice(same)], 2)
            return [("tassign", [a, b], [b, a]), ("write", a), ("write", b)]
        kinds = [rng.choice(["int", "float", "bool", "str"]) for _ in range(rng.choice([2, 2, 3]))]
        srcs = [self.g.expr(k, rng.choice([0, 1]), rd) for k in kinds]
        names = []
        for k in kinds:
            x = self.fresh()
            self.kind[x] = k
            known.add(x)
            readable.add(x)
            names.append(x)
        return [("tassign", names, srcs)] + [("write", x) for x in names]

    def program(self):
        rng = self.rng
        readable, known = set(), set()
        pre = self.block(readable, known, 2, False, n=rng.choice([3, 4, 5, 6]))
        main = []
        passes = 0
        if rng.random() < 0.55:
            main = self.block(set(readable), known, 1, False, n=rng.choice([1, 2, 3]))
            passes = rng.choice([1, 2])
        return pre, main, passes


# --------------------------------------------------------------------------- helper bodies
class FnBodyGen:
    """one helper `def f(p[, q])` whose body mixes locals, if / for / while blocks and returns at any depth, called under
    two or three signatures.  The body is generated for the first signature; the other signatures may leave the guard."""

    SIG_VALUES = {"int": [3, 0, 7, -2], "float": [2.5, 0.5, -1.25, 4.0], "bool": [True, False]}

    def __init__(self, rng, RunGen):
        self.rng = rng
        self.g = RunGen(rng)
        self.kind = {}
        self.n = 0
        self.returns = 0
        self.nested_returns = 0

    def fresh(self, p="w"):
        self.n += 1
        return f"{p}{self.n}"

    def rd(self, readable):
        out = {"int": [], "float": [], "bool": [], "str": []}
        for x in sorted(readable):
            out[self.kind[x]].append(x)
        return out

    def ret(self, readable, rk, nested):
        self.returns += 1
        self.nested_returns += bool(nested)
        k = self.rng.choice([kk for kk in ("bool", "int", "float") if kk != "float" or rk == "float"]) if rk != "str" else "str"
        if rk == "int" and k == "float":
            k = "int"
        return ("return", self.g.expr(k, self.rng.choice([0, 1, 1]), self.rd(readable)))

    def block(self, readable, known, depth, rk, nested, n=None):
        rng = self.rng
        out = []
        for _ in range(n if n is not None else rng.choice([1, 2, 2])):
            r = rng.random()
            if depth > 0 and r < 0.25:
                brs = []
                hoist = self.fresh("y") if rng.random() < 0.5 else None
                if hoist:
                    self.kind[hoist] = rng.choice(["int", "float"])
                for _b in range(rng.choice([1, 1, 2])):
                    ch = set(readable)
                    head = [("assign", hoist, self.g.expr(self.kind[hoist], 1, self.rd(ch)))] if hoist else []
                    body = head + self.block(ch, known, depth - 1, rk, True)
                    if rng.random() < 0.4:
                        body.append(self.ret(ch, rk, True))
                    brs.append((self.g.bool_e(1, self.rd(readable)), body))
                els = None
                if hoist or rng.random() < 0.4:
                    ch = set(readable)
                    head = [("assign", hoist, self.g.expr(self.kind[hoist], 1, self.rd(ch)))] if hoist else []
                    els = head + self.block(ch, known, depth - 1, rk, True)
                out.append(("if", brs, els))
                if hoist:
                    known.add(hoist)
                    if els is not None and not any(b and b[-1][0] == "return" for _, b in brs):
                        readable.add(hoist)
            elif depth > 0 and r < 0.38:
                i = self.fresh("i")
                self.kind[i] = "int"
                ch = set(readable) | {i}
                head = [("if", [(self.g.bool_e(1, self.rd(ch)), [self.ret(ch, rk, True)])], None)] if rng.random() < 0.4 else []
                body = head + self.block(ch, known, depth - 1, rk, True)
                out.append(("for", i, str(rng.choice([1, 2, 3])), body))
            elif depth > 0 and r < 0.46:
                k = self.fresh("k")
                self.kind[k] = "int"
                out.append(("assign", k, "0"))
                ch = set(readable) | {k}
                body = self.block(ch, known, depth - 1, rk, True)
                body.append(("assign", k, f"{k} + 1"))
                out.append(("while", f"{k} < {rng.choice([1, 2])}", body))
                readable.add(k)
            else:
                cands = sorted(x for x in known if not x.startswith(("p", "q")))
                if cands and rng.random() < 0.45:
                    x = rng.choice(cands)
                else:
                    x = self.fresh()
                    self.kind[x] = rng.choice(["int", "int", "float", "float", "bool"])
                    known.add(x)
                if x in readable and self.kind[x] in ("int", "float") and rng.random() < 0.2:
                    ek = rng.choice(["int", "bool"] if self.kind[x] == "int" else ["int", "float"])
                    out.append(("aug", x, rng.choice(["+", "-", "*"]), self.g.expr(ek, 0, self.rd(readable))))
                else:
                    out.append(("assign", x, self.g.expr(self.kind[x], rng.choice([0, 1, 1, 2]), self.rd(readable))))
                    readable.add(x)
        return out

    def program(self):
        rng = self.rng
        ar = rng.choice([1, 2, 2])
        params = ["p", "q"][:ar]
        sig0 = [rng.choice(["int", "float", "int", "bool"]) for _ in params]
        for p, k in zip(params, sig0):
            self.kind[p] = k
        rk = rng.choice(["int", "float", "float", "bool"])
        readable, known = set(params), set(params)
        body = self.block(readable, known, 2, rk, False, n=rng.choice([2, 3, 4]))
        body.append(self.ret(readable, rk, False))
        sigs = [sig0]
        for _ in range(rng.choice([1, 1, 2])):
            s = [rng.choice(["int", "float", "bool"]) for _ in params]
            if s not in sigs:
                sigs.append(s)
        calls = []
        for s in sigs:
            calls.append((s, [rng.choice(self.SIG_VALUES[k]) for k in s]))
        return "f", params, body, calls
