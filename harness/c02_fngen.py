"""C02 oracle programs with GENERATED helper functions (used by harness/props/c02.py part (d)).

The helper bodies are polymorphic in their parameters (the same `def` is called with int, float, bool and str
arguments, in every order), mix differently typed return expressions on value-dependent paths, first-assign
locals inside if/elif/else branches and inside loops (so that they are hoisted), share local names across
functions, call earlier helpers, and are preceded (or not) by top-level hoists.

`Checker` is an abstract interpreter over kinds (bool < int < float, str alone) that decides, per call
signature, whether a body stays inside the guard of the property oracle (the listed findings of C02); only
programs whose every parsed variant is inside the guard are emitted, so whatever the firmware-vs-CPython
comparison finds on them is new.

Guard, per function variant (= per call signature; the all-int signature of the def-time parse included):
  * every name is declared by its first assignment in text order with kind K, later assignments have kind <= K
    (str: equal); names first assigned inside a nested block keep ONE kind; a parameter is declared from the label it
    has at the END of the body (finding F-C02-param-declared-from-last-label), so it may only be re-assigned at its
    current kind or - directly at body level - at a WIDER numeric kind (`a = a + b`: the variant requested as
    (int, float) is then emitted as (float, float) and reached through the signature alias); it is never narrowed;
  * all requested signatures of one helper that end on the same final signature type every local and the result
    alike (finding F-C02-widened-variant-overwritten: they share ONE emitted function, the body parsed last wins);
  * a name is read only where it is definitely assigned (CPython would raise otherwise) and its current label
    equals its declared kind (finding F-C02-flow-insensitive-label);
  * expressions: + - * on numeric operands, `/` only by a float literal, comparisons, not, and/or on bools,
    conditional expressions with equal or numeric kinds, abs/min/max on int/bool operands, int(), float();
  * return expressions are all str or all numeric (a str/number mix is rejected by the transpiler);
  * names first assigned directly inside a loop body (t*) are never names that an if/else hoists anywhere in the
    program (y*, g*) (finding F-C02-stale-promotion-type); function-local names never coincide with globals;
  * call arguments are names or int/bool literals (a float literal is a double: overload ambiguity is C06's);
  * a helper that calls another helper shares no local name with it (the callee variant parsed on demand inherits the
    caller's declared names and never declares its own same-named local: the sketch does not compile, C06's subject).
"""
from __future__ import annotations

import ast

KORD = {"bool": 0, "int": 1, "float": 2, "str": 9}
NUM = ("bool", "int", "float")


class OutOfGuard(Exception):
    pass


def njoin(ks):
    return "float" if "float" in ks else "int"


def ret_join(ks):
    """kind of a function result from the kinds of its return expressions (all str, or numeric)"""
    s = set(ks)
    if not s:
        raise OutOfGuard("no return")
    if "str" in s:
        if s != {"str"}:
            raise OutOfGuard("str/number return mix")
        return "str"
    if "float" in s:
        return "float"
    if s == {"bool"}:
        return "bool"
    return "int"


def always_returns(body):
    if not body:
        return False
    last = body[-1]
    if last[0] == "return":
        return True
    return last[0] == "if" and last[2] is not None and all(always_returns(b) for _, b in last[1]) and always_returns(last[2])


class Checker:
    """funcs: name -> (params, body stmts) in definition order"""

    def __init__(self, funcs, global_names=()):
        self.funcs = dict(funcs)
        self.order = list(self.funcs)
        self.memo = {}
        self.globals = set(global_names)
        self.ret_sets = {}            # (fname, sig) -> list of return kinds
        self.local_kinds = {}         # (fname, sig) -> local name -> declared kind
        self.final_sig = {}           # (fname, requested sig) -> signature the variant is emitted with (widened parameters)
        self.call_log = set()         # (fname, sig) of every helper call met inside a helper body
        self.sig_order = {}           # fname -> signatures in the order the transpiler records them (function_call_signatures)
        self._argchecks = None        # (name, label) of Name arguments of helper calls inside the variant being checked
        # forward calls: a helper called ABOVE its definition has no source at that moment; the call is labelled int and the
        # signature stays pending until the def is met (then the variant is parsed).  `known` = helpers whose source the
        # transpiler holds at the simulated moment (simulate_defs walks the defs in script order; default: all of them)
        self.known = set(self.funcs)
        self.pending = {}             # fname -> signatures recorded before its def
        self.unknown_calls = []       # (variant key of the caller, callee, signature): calls typed int for lack of a source
        self._current = None          # key of the variant being checked
        self.parsed_with = {}         # variant key -> frozenset(known) at the time it was parsed (first parse wins)

    # ---- expressions
    def kind(self, node, env, caller=None):
        if isinstance(node, str):
            node = ast.parse(node, mode="eval").body
        k = self.kind
        if isinstance(node, ast.Constant):
            v = node.value
            if isinstance(v, bool):
                return "bool"
            if isinstance(v, int):
                return "int"
            if isinstance(v, float):
                return "float"
            if isinstance(v, str):
                return "str"
            raise OutOfGuard("constant")
        if isinstance(node, ast.Name):
            if node.id not in env:
                raise OutOfGuard("unreadable " + node.id)
            return env[node.id]
        if isinstance(node, ast.BinOp):
            a, b = k(node.left, env, caller), k(node.right, env, caller)
            if a == "str" or b == "str":
                if isinstance(node.op, ast.Add) and a == "str" and b == "str" and isinstance(node.left, ast.Name):
                    return "str"
                raise OutOfGuard("str operand")
            if isinstance(node.op, (ast.Add, ast.Sub, ast.Mult)):
                return njoin((a, b))
            if isinstance(node.op, ast.Div):
                if isinstance(node.right, ast.Constant) and isinstance(node.right.value, float) and node.right.value != 0:
                    return "float"
                raise OutOfGuard("division")
            raise OutOfGuard("operator")
        if isinstance(node, ast.UnaryOp) and isinstance(node.op, ast.Not):
            k(node.operand, env, caller)
            return "bool"
        if isinstance(node, ast.BoolOp):
            for v in node.values:
                if k(v, env, caller) != "bool":
                    raise OutOfGuard("and/or on non-bool")
            return "bool"
        if isinstance(node, ast.Compare):
            ks = [k(node.left, env, caller)] + [k(c, env, caller) for c in node.comparators]
            if any(x == "str" for x in ks) or len(node.ops) != 1:
                raise OutOfGuard("compare")
            return "bool"
        if isinstance(node, ast.IfExp):
            k(node.test, env, caller)
            a, b = k(node.body, env, caller), k(node.orelse, env, caller)
            if a == b:
                return a
            if a in NUM and b in NUM:
                return njoin((a, b))
            raise OutOfGuard("ifexp")
        if isinstance(node, ast.Call) and isinstance(node.func, ast.Name) and not node.keywords:
            f = node.func.id
            ks = [k(a, env, caller) for a in node.args]
            if f in ("abs", "min", "max"):
                if all(x in ("int", "bool") for x in ks) and len(ks) == (1 if f == "abs" else 2):
                    return "int"
                raise OutOfGuard(f)
            if f in ("int", "float") and len(ks) == 1 and ks[0] in NUM:
                return f
            if f in self.funcs:
                if caller is not None and f == caller:
                    raise OutOfGuard("recursion")
                for a in node.args:
                    if not arg_shape_ok(a):
                        raise OutOfGuard("call argument shape")
                self.note_call(f, tuple(ks))
                if caller is not None:
                    self.call_log.add((f, tuple(ks)))
                    if self._argchecks is not None:
                        self._argchecks += [(a.id, kk) for a, kk in zip(node.args, ks) if isinstance(a, ast.Name)]
                        for a in node.args:
                            if not isinstance(a, ast.Name):
                                for sub in ast.walk(a):
                                    if isinstance(sub, ast.Name):
                                        if env.get(sub.id) == "bool":
                                            raise OutOfGuard("bool name inside an expression argument")
                                        self._argchecks.append((sub.id, env.get(sub.id)))
                if f not in self.known:
                    if caller is None or "str" in ks:
                        raise OutOfGuard("call of a helper that has no source yet")
                    if len(ks) != len(self.funcs[f][0]):
                        raise OutOfGuard("arity")
                    self.unknown_calls.append((self._current, f, tuple(ks)))
                    if tuple(ks) not in self.pending.setdefault(f, []):
                        self.pending[f].append(tuple(ks))
                    return "int"
                return self.variant(f, tuple(ks))
            raise OutOfGuard("call " + f)
        raise OutOfGuard(type(node).__name__)

    # ---- statements
    def variant(self, f, sig):
        key = (f, sig)
        if key in self.memo:
            r = self.memo[key]
            if isinstance(r, OutOfGuard):
                raise r
            return r
        params, body = self.funcs[f]
        try:
            if len(sig) != len(params):
                raise OutOfGuard("arity")
            st = {"decl": dict(zip(params, sig)), "assigned": set(params), "label_ok": set(params),
                  "nested": set(), "params": set(params), "rets": [], "fn": f}
            for p in params:
                if p in self.globals:
                    raise OutOfGuard("parameter shadows a global")
            saved_checks, self._argchecks = self._argchecks, []
            saved_cur, self._current = self._current, key
            self.parsed_with[key] = frozenset(self.known)
            try:
                self.block(body, st, False)
                mine = self._argchecks
            finally:
                self._argchecks = saved_checks
                self._current = saved_cur
            for n_, lab in mine:                             # the C++ argument type is the declared type: it must be the label
                if st["decl"].get(n_) != lab:
                    raise OutOfGuard("helper argument whose label differs from its declared type")
            if not always_returns(body):
                raise OutOfGuard("falls off the end")
            r = ret_join(st["rets"])
            self.ret_sets[key] = list(st["rets"])
            self.local_kinds[key] = {n: k for n, k in st["decl"].items() if n not in st["params"]}
            self.final_sig[key] = tuple(st["decl"][p] for p in params)
        except OutOfGuard as e:
            self.memo[key] = e
            raise
        self.memo[key] = r
        return r

    def env(self, st):
        return {n: st["decl"][n] for n in st["assigned"] & st["label_ok"]}

    def note_call(self, f, sig):
        lst = self.sig_order.setdefault(f, [])
        if sig not in lst:
            lst.append(sig)

    def simulate_defs(self, skip_def_time=()):
        """walk the defs in script order like parse() does: the def-time parse (every un-annotated parameter int) sees only the
        sources of the helpers defined so far (its own included); afterwards the signatures recorded for it by calls ABOVE its
        def are parsed.  Raises OutOfGuard when one of those parses leaves the guard."""
        self.known = set()
        try:
            for f in self.order:
                self.known.add(f)
                params, _ = self.funcs[f]
                if f not in skip_def_time:
                    self.variant(f, tuple("int" for _ in params))
                for sg in list(self.pending.get(f, [])):
                    self.variant(f, sg)
        finally:
            self.known = set(self.funcs)

    def stale_forward_variants(self):
        """variants typed while a callee had no source (its result labelled int) although that callee's variant returns
        another kind: finding F-C02-forward-call-result-typed-int; such a variant must never be emitted"""
        out = set()
        for key, h, ks in self.unknown_calls:
            r = self.memo.get((h, ks))
            if r != "int":
                out.add(key)
        return out

    def overwritten_variants(self):
        """requested signatures of one helper that end on the same final signature but type a local or the result
        differently (the emitted function is the one parsed last: finding F-C02-widened-variant-overwritten)"""
        groups = {}
        for (f, sg), r in self.memo.items():
            if isinstance(r, OutOfGuard):
                continue
            groups.setdefault((f, self.final_sig[(f, sg)]), set()).add((r, tuple(sorted(self.local_kinds[(f, sg)].items()))))
        return [k for k, v in groups.items() if len(v) > 1]

    @staticmethod
    def child(st):
        c = dict(st)
        c["assigned"] = set(st["assigned"])
        c["label_ok"] = set(st["label_ok"])
        return c

    def store(self, st, x, k, nested, declaring_allowed=True):
        if x in self.globals and st.get("fn"):
            raise OutOfGuard("local coincides with a global")
        if x not in st["decl"]:
            if not declaring_allowed:
                raise OutOfGuard("aug on undeclared")
            st["decl"][x] = k
            if nested:
                st["nested"].add(x)
        else:
            K = st["decl"][x]
            if x in st["params"] and not nested and K in NUM and k in NUM and KORD[k] > KORD[K]:
                st["decl"][x] = k                  # widened at body level: the parameter is declared from this (final) label
            elif K == "str" or k == "str" or x in st["nested"] or x in st["params"]:
                if k != K:
                    raise OutOfGuard(f"{x}: {k} into {K}")
            elif KORD[k] > KORD[K]:
                raise OutOfGuard(f"{x}: {k} into {K}")
        if k == st["decl"][x]:
            st["label_ok"].add(x)
        else:
            st["label_ok"].discard(x)
        st["assigned"].add(x)

    def block(self, stmts, st, nested):
        for s in stmts:
            t = s[0]
            if t == "assign":
                self.store(st, s[1], self.kind(s[2], self.env(st), st.get("fn")), nested)
            elif t == "aug":
                k = self.kind(f"({s[1]} {s[2]} ({s[3]}))", self.env(st), st.get("fn"))
                self.store(st, s[1], k, nested, declaring_allowed=False)
            elif t == "write":
                self.kind(s[1], self.env(st), st.get("fn"))
            elif t == "return":
                if "rets" not in st or s[1] is None:
                    raise OutOfGuard("return")
                st["rets"].append(self.kind(s[1], self.env(st), st.get("fn")))
            elif t == "comp":                                 # ("comp", L, target, elt, n):  L = [elt for target in range(n)]
                L, tgt, elt = s[1], s[2], s[3]
                if L in st["decl"] or (L in self.globals and st.get("fn")):
                    raise OutOfGuard("list name re-used")
                e2 = dict(self.env(st))
                e2[tgt] = "int"                                # the target shadows whatever the name meant outside
                k = self.kind(elt, e2, st.get("fn"))
                if k == "str":
                    raise OutOfGuard("list of str")
                st["decl"][L] = "list[" + k + "]"              # never readable by an expression of the generator
            elif t == "if":
                kids = []
                for c, b in s[1]:
                    self.kind(c, self.env(st), st.get("fn"))
                    ch = self.child(st)
                    self.block(b, ch, True)
                    kids.append(ch)
                if s[2] is not None:
                    ch = self.child(st)
                    self.block(s[2], ch, True)
                    kids.append(ch)
                    both = set.intersection(*[c["assigned"] for c in kids]) - st["assigned"]
                    for n in both:                          # hoisted, assigned on every path, one kind
                        st["assigned"].add(n)
                        st["label_ok"].add(n)
            elif t == "for":
                i, n, b = s[1], s[2], s[3]
                if i in st["decl"] and st["decl"][i] != "int":
                    raise OutOfGuard("loop variable")
                st["decl"].setdefault(i, "int")
                ch = self.child(st)
                ch["assigned"].add(i)
                ch["label_ok"].add(i)
                self.block(b, ch, True)
                if n.isdigit() and int(n) >= 1:
                    for x in ch["assigned"] - st["assigned"] - {i}:
                        st["assigned"].add(x)
                        st["label_ok"].add(x)
            elif t == "while":                               # ("while", k, bound, body): k = 0 ... while k < bound: body; k = k + 1
                kname, bound, b = s[1], s[2], s[3]
                self.store(st, kname, "int", nested)
                ch = self.child(st)
                self.block(b, ch, True)
                if int(bound) >= 1:
                    for x in ch["assigned"] - st["assigned"]:
                        st["assigned"].add(x)
                        st["label_ok"].add(x)
            else:
                raise OutOfGuard(t)


def arg_shape_ok(a, top=True):
    """call arguments whose C++ type is exactly their label: names, int / bool literals, and + - * over int / float NAMES and int
    literals (float op int is float in C++; a float literal would be a double: overload ambiguity is C06's subject)"""
    if isinstance(a, ast.Name):
        return True
    if isinstance(a, ast.Constant):
        if isinstance(a.value, bool):
            return top
        return isinstance(a.value, int)
    if isinstance(a, ast.BinOp) and isinstance(a.op, (ast.Add, ast.Sub, ast.Mult)):
        return arg_shape_ok(a.left, False) and arg_shape_ok(a.right, False)
    if top and isinstance(a, ast.Call) and isinstance(a.func, ast.Name) and a.func.id.startswith("h") and not a.keywords:
        # the result of another helper call: its C++ type is the return type of the variant reached = its label
        return all(isinstance(x, ast.Name) or (isinstance(x, ast.Constant) and isinstance(x.value, int)) for x in a.args)
    return False


def cxx_rank(arg, par):
    """rank of the implicit conversion of a C++ argument of kind arg to a parameter of kind par (None: not viable)"""
    if arg == par:
        return 0
    if "str" in (arg, par):
        return None
    if arg == "bool" and par == "int":
        return 1                                              # integral promotion
    return 2                                                  # conversion


def cxx_pick(args, candidates):
    """the overload C++ selects for a call with argument kinds args, or None when the call is ambiguous / not viable"""
    viable = []
    for c in candidates:
        if len(c) == len(args):
            rk = [cxx_rank(a, p) for a, p in zip(args, c)]
            if None not in rk:
                viable.append((c, rk))
    best = [c for c, rk in viable
            if all(c is d or (all(x <= y for x, y in zip(rk, rd)) and any(x < y for x, y in zip(rk, rd))) for d, rd in viable)]
    return best[0] if len(best) == 1 else None


def assigned_names(stmts):
    out = set()
    for s in stmts:
        if s[0] in ("assign", "aug", "comp"):
            out.add(s[1])
        elif s[0] == "if":
            for _, b in s[1]:
                out |= assigned_names(b)
            if s[2] is not None:
                out |= assigned_names(s[2])
        elif s[0] == "for":
            out.add(s[1])
            out |= assigned_names(s[3])
        elif s[0] == "while":
            out.add(s[1])
            out |= assigned_names(s[3])
    return out


def called_helpers(stmts, fnames):
    import re
    src = []
    render_block(stmts, 0, src)
    text = "".join(src)
    return {f for f in fnames if re.search(r"\b" + f + r"\(", text)}


# --------------------------------------------------------------------------- rendering
def render_block(stmts, lvl, out):
    pad = "    " * lvl
    for s in stmts:
        t = s[0]
        if t == "assign":
            out.append(f"{pad}{s[1]} = {s[2]}\n")
        elif t == "aug":
            out.append(f"{pad}{s[1]} {s[2]}= {s[3]}\n")
        elif t == "write":
            out.append(f"{pad}mon.write({s[1]})\n")
        elif t == "return":
            out.append(f"{pad}return {s[1]}\n")
        elif t == "comp":
            out.append(f"{pad}{s[1]} = [{s[3]} for {s[2]} in range({s[4]})]\n")
        elif t == "if":
            for i, (c, b) in enumerate(s[1]):
                out.append(f"{pad}{'if' if i == 0 else 'elif'} {c}:\n")
                render_block(b, lvl + 1, out)
            if s[2] is not None:
                out.append(pad + "else:\n")
                render_block(s[2], lvl + 1, out)
        elif t == "for":
            out.append(f"{pad}for {s[1]} in range({s[2]}):\n")
            render_block(s[3], lvl + 1, out)
        elif t == "while":
            out.append(f"{pad}{s[1]} = 0\n")
            out.append(f"{pad}while {s[1]} < {s[2]}:\n")
            render_block(s[3] + [("assign", s[1], f"{s[1]} + 1")], lvl + 1, out)
        else:
            raise ValueError(t)


def render(header, items):
    out = [header]
    for it in items:
        if it[0] == "def":
            out.append(f"def {it[1]}({', '.join(it[2])}):\n")
            render_block(it[3], 1, out)
        elif it[0] == "stmt":
            render_block([it[1]], 0, out)
        else:
            out.append("while True:\n")
            render_block(it[1], 1, out)
    return "".join(out)


# --------------------------------------------------------------------------- generator
INT_LITS = ["0", "1", "2", "3", "5", "7", "10"]
FLT_LITS = ["0.5", "2.5", "0.25", "1.5", "7.75", "1.0"]
GLOBALS = [("n1", "int", "3"), ("n2", "int", "12"), ("n3", "int", "(0 - 2)"), ("n4", "int", "1"),
           ("x1", "float", "1.25"), ("x2", "float", "0.75"), ("x3", "float", "7.5"), ("x4", "float", "(0.0 - 2.5)"),
           ("b1", "bool", "True"), ("b2", "bool", "False"), ("s1", "str", "\"ab\""), ("s2", "str", "\"\"")]
STR_FUNCS = [
    ("tag", ["p"], [("if", [("p > 1", [("return", "\"hi\"")])], None), ("return", "\"lo\"")]),
    ("ech", ["p"], [("return", "p")]),
    ("pick2", ["p", "q"], [("if", [("p > 2", [("assign", "y1", "q")])], [("assign", "y1", "q")]), ("return", "y1")]),
]


class FnGen:
    def __init__(self, rng):
        self.rng = rng
        self.stats = {"functions": 0, "variants": 0, "return_kind_sets": {}, "calls": 0, "regenerated_bodies": 0,
                      "branch_first_locals": 0, "loop_first_locals": 0, "helper_calls_helper": 0, "aug": 0,
                      "top_hoist_before_def": 0, "mixed_conditional_expressions": 0, "if_inside_loop_locals": 0,
                      "loop_inside_if_locals": 0, "top_loop_hoist": 0, "m2_combination": 0, "shared_local_different_kind": 0,
                      "param_widening_statements": 0, "calls_reaching_their_variant_through_an_alias": 0,
                      "alias_call_after_a_call_with_the_final_signature": 0, "alias_call_before_a_call_with_the_final_signature": 0,
                      "rejected_overwritten_variant": 0, "rejected_ambiguous_overload": 0, "comprehensions_in_helpers": 0,
                      "comprehension_target_shadows_a_name": 0, "helper_accumulators_shadowed": 0,
                      "forward_programs": 0, "callers_defined_above_their_helper": 0, "forward_call_sites": 0,
                      "forward_call_sites_reaching_a_variant_other_than_the_first_declared": 0,
                      "forward_calls_through_another_helper": 0, "helpers_with_two_variants": 0, "helpers_with_three_or_more_variants": 0,
                      "forward_callee_variants_by_kind": {}, "rejected_stale_forward_variant": 0, "forward_orders": {},
                      "later_helper_calling_a_caller_above": 0, "expression_arguments": 0, "helper_results_as_arguments": 0}

    # ---- polymorphic expressions over names
    def atom(self, names, lits=True):
        rng = self.rng
        r = rng.random()
        if names and r < 0.6:
            return rng.choice(names)
        if r < 0.8:
            return rng.choice(INT_LITS)
        if r < 0.95:
            return rng.choice(FLT_LITS)
        return rng.choice(["True", "False"])

    def expr(self, d, names):
        rng = self.rng
        if d <= 0 or rng.random() < 0.3:
            return self.atom(names)
        r = rng.random()
        if r < 0.45:
            return f"({self.expr(d - 1, names)} {rng.choice(['+', '-', '*', '+'])} {self.expr(d - 1, names)})"
        if r < 0.60:
            return f"({self.expr(d - 1, names)} * {rng.choice(['0.5', '2', '2.5'])})"
        if r < 0.68:
            return f"({self.expr(d - 1, names)} / {rng.choice(['2.0', '4.0'])})"
        if r < 0.76:
            return f"({self.expr(d - 1, names)} if {self.cond(names)} else {self.expr(d - 1, names)})"
        if r < 0.80:                                          # bool / number join of a conditional expression, both orders
            a, b = rng.choice(["True", "False", self.cond(names)]), self.expr(d - 1, names)
            if rng.random() < 0.5:
                a, b = b, a
            self.stats["mixed_conditional_expressions"] += 1
            return f"({a} if {self.cond(names)} else {b})"
        if r < 0.86:
            return f"{rng.choice(['min', 'max'])}({self.atom(names)}, {self.atom(names)})"
        if r < 0.90:
            return f"abs({self.atom(names)} - 7)"
        if r < 0.95:
            return f"{rng.choice(['int', 'float'])}({self.atom(names)})"
        return self.cond(names)

    def cond(self, names):
        rng = self.rng
        a = rng.choice(names) if names else rng.choice(INT_LITS)
        r = rng.random()
        if r < 0.7 or len(names) < 2:
            return f"({a} {rng.choice(['>', '<', '>=', '<=', '==', '!='])} {rng.choice(['0', '1', '2', '5', '0.5'])})"
        if r < 0.9:
            b = rng.choice([n for n in names if n != a] or names)
            return f"({a} {rng.choice(['>', '<', '>='])} {b})"
        return f"(not ({a} > 1))"

    # ---- one helper body
    def body(self, params, earlier):
        rng = self.rng
        names = list(params)
        out = []
        cnt = {"w": 0, "y": 0, "t": 0, "i": 0, "k": 0, "u": 0, "c": 0, "L": 0}
        # a variant parsed on demand from inside another helper's body inherits the caller's declared names, and a callee
        # local of the same name is then never declared (the sketch does not compile: C06's subject).  A helper that calls
        # another helper therefore gets local names of its own; all other helpers share y1, t1, w1, ...
        can_call = bool(earlier) and rng.random() < 0.4
        suffix = f"c{len(earlier) + 1}" if can_call else ""

        def fresh(p):
            cnt[p] += 1
            return f"{p}{cnt[p]}{suffix}"

        for _ in range(rng.choice([1, 2, 2, 3, 4])):
            if rng.random() < 0.16:                           # a parameter widened at body level, depending on another name
                p_ = rng.choice(params)
                others = [n for n in names if n != p_]
                o_ = rng.choice(others) if others and rng.random() < 0.7 else rng.choice(FLT_LITS + ["2", "1"])
                shape = rng.random()
                if shape < 0.45:
                    out.append(("assign", p_, f"({p_} {rng.choice(['+', '+', '-', '*'])} {o_})"))
                elif shape < 0.6:
                    out.append(("assign", p_, f"({o_} + {p_})"))
                elif shape < 0.85:
                    out.append(("aug", p_, rng.choice(["+", "-", "*"]), o_))
                else:
                    out.append(("assign", p_, f"({p_} * {rng.choice(['0.5', '2.5', '1.0'])})"))
                self.stats["param_widening_statements"] += 1
                continue
            if rng.random() < 0.14:                           # a list comprehension whose target shadows a parameter / local
                shape = rng.random()
                if shape < 0.5:                               # accumulator with a (mostly falsy) known constant, updated in a loop only
                    a = fresh("w")
                    init = rng.choice(["0.0", "0.0", "0", "1.5"])
                    step = rng.choice(["0.25", "0.5"] + ([params[0]] if init != "0" else [])) if init != "0" else rng.choice(["1", "2"])
                    out.append(("assign", a, init))
                    out.append(("for", fresh("i"), rng.choice(["2", "3"]), [("assign", a, f"({a} + {step})")]))
                    tgt = a
                    self.stats["helper_accumulators_shadowed"] += 1
                elif shape < 0.85 and names:
                    tgt = rng.choice(names)
                else:
                    tgt = fresh("c")
                elt = self.expr(1, [n for n in names if n != tgt] + [tgt, tgt])
                out.append(("comp", fresh("L"), tgt, elt, rng.choice(["2", "3"])))
                self.stats["comprehensions_in_helpers"] += 1
                if tgt in names or tgt.startswith("w"):
                    w = fresh("w")
                    out.append(("assign", w, rng.choice([f"({tgt} * 3)", f"({tgt} + 1)", tgt])))
                    if tgt not in names:
                        names.append(tgt)
                    names.append(w)
                    self.stats["comprehension_target_shadows_a_name"] += 1
                continue
            r = rng.random()
            if r < 0.18:
                w = fresh("w")
                out.append(("assign", w, self.expr(rng.choice([1, 2]), names)))
                names.append(w)
            elif r < 0.48:                                    # local first assigned inside if / elif / else
                y = fresh("y")
                e1 = self.expr(rng.choice([0, 1, 1]), names)
                shape = rng.random()
                if shape < 0.4:
                    e2 = self.expr(rng.choice([0, 1]), names)
                elif shape < 0.7:
                    e2 = f"({e1} + {rng.choice(names) if names else '1'})"
                else:
                    e2 = f"({e1} * {rng.choice(['2', '3'])})"
                brs = [(self.cond(names), [("assign", y, e1)])]
                if rng.random() < 0.3:
                    brs.append((self.cond(names), [("assign", y, e2 if rng.random() < 0.5 else e1)]))
                out.append(("if", brs, [("assign", y, e2)]))
                names.append(y)
                self.stats["branch_first_locals"] += 1
            elif r < 0.66:                                    # local first assigned inside a loop
                t = fresh("t")
                e = self.expr(1, names)
                if rng.random() < 0.5:
                    out.append(("for", fresh("i"), rng.choice(["1", "2", "3"]), [("assign", t, e)]))
                else:
                    out.append(("while", fresh("k"), rng.choice(["1", "2"]), [("assign", t, e)]))
                names.append(t)
                self.stats["loop_first_locals"] += 1
            elif r < 0.72:                                    # if/else hoist inside a loop body, then hoisted out of the loop
                y = fresh("y")
                e1 = self.expr(rng.choice([0, 1]), names)
                inner = ("if", [(self.cond(names), [("assign", y, e1)])], [("assign", y, f"({e1} + 1)")])
                if rng.random() < 0.5:
                    out.append(("for", fresh("i"), rng.choice(["1", "2"]), [inner]))
                else:
                    out.append(("while", fresh("k"), rng.choice(["1", "2"]), [inner]))
                names.append(y)
                self.stats["if_inside_loop_locals"] += 1
            elif r < 0.76:                                    # loop hoist inside a branch, then hoisted out of the if/else
                u = fresh("u")
                e1 = self.expr(rng.choice([0, 1]), names)
                out.append(("if", [(self.cond(names), [("for", fresh("i"), rng.choice(["1", "2"]), [("assign", u, e1)])])],
                            [("assign", u, f"({e1} * 2)")]))
                names.append(u)
                self.stats["loop_inside_if_locals"] += 1
            elif r < 0.86:                                    # early return on a value-dependent path
                out.append(("if", [(self.cond(names), [("return", self.ret_expr(names))])], None))
            elif r < 0.92 and [n for n in names if n not in params]:
                x = rng.choice([n for n in names if n not in params])
                out.append(("aug", x, rng.choice(["+", "-", "*"]), self.atom(names)))
                self.stats["aug"] += 1
            elif can_call:
                f, ar = rng.choice(earlier)
                if len(names) >= 1:
                    z = fresh("w")
                    args = [rng.choice(names + ["1", "2"]) for _ in range(ar)]
                    out.append(("assign", z, f"{f}({', '.join(args)})"))
                    names.append(z)
                    self.stats["helper_calls_helper"] += 1
        if rng.random() < 0.35:
            out.append(("if", [(self.cond(names), [("return", self.ret_expr(names))])],
                        [("return", self.ret_expr(names))] if rng.random() < 0.3 else None))
        out.append(("return", self.ret_expr(names)))
        return out

    def ret_expr(self, names):
        rng = self.rng
        r = rng.random()
        if r < 0.22:
            return rng.choice(["True", "False"])
        if r < 0.34:
            return self.cond(names)
        if r < 0.46:
            return rng.choice(INT_LITS + ["7", "12"])
        if r < 0.54:
            return rng.choice(FLT_LITS)
        return self.expr(rng.choice([0, 1, 1, 2]), names)

    def expr_arg(self, kind, by_kind):
        """an argument EXPRESSION whose C++ type is its label: int names / literals with + - *, a float name with an int operand"""
        rng = self.rng
        self.stats["expression_arguments"] += 1
        ints = by_kind.get("int") or ["3"]
        if kind == "int":
            return f"({rng.choice(ints)} {rng.choice(['+', '-', '*'])} {rng.choice(['1', '2', rng.choice(ints)])})"
        x = rng.choice(by_kind["float"])
        other = rng.choice(["2", "3", rng.choice(ints), rng.choice(by_kind["float"])])
        return f"({x} {rng.choice(['+', '-', '*'])} {other})" if rng.random() < 0.7 else f"({other} + {x})"

    # ---- callers emitted ABOVE the helper they call (forward calls; prototypes decide the overload inside their bodies)
    def caller_body(self, params, callees, sfx):
        """a body that calls the helpers in `callees` [(name, arity)] with its parameters, locals and int / bool literals"""
        rng = self.rng
        names = list(params)
        out = []
        nloc = 0

        def arg():
            r = rng.random()
            if r < 0.12:
                self.stats["expression_arguments"] += 1
                return f"({rng.choice(names)} {rng.choice(['+', '-', '*'])} {rng.choice(['1', '2', rng.choice(names)])})"
            if r < 0.7:
                return rng.choice(names)
            if r < 0.9:
                return rng.choice(["1", "2", "3"])
            return rng.choice(["True", "False"])

        def call():
            f, ar = rng.choice(callees)
            args = [arg() for _ in range(ar)]
            if not any(n_ in a for a in args for n_ in names):
                args[rng.randrange(ar)] = rng.choice(names)
            return f"{f}({', '.join(args)})"

        for _ in range(rng.choice([1, 1, 2, 3])):
            r = rng.random()
            nloc += 1
            if r < 0.35:
                w = f"w{nloc}{sfx}"
                out.append(("assign", w, call()))
                names.append(w)
            elif r < 0.55:
                w = f"w{nloc}{sfx}"
                out.append(("assign", w, f"({rng.choice(names)} {rng.choice(['*', '+', '-'])} {rng.choice(['2', '3', '0.5', '1.5'])})"))
                names.append(w)
            elif r < 0.75:
                y = f"y{nloc}{sfx}"
                c1, c2 = call(), call()
                out.append(("if", [(self.cond(list(params)), [("assign", y, c1)])], [("assign", y, c2 if rng.random() < 0.5 else c1)]))
                names.append(y)
            elif r < 0.9:
                out.append(("if", [(self.cond(list(params)), [("return", call())])], None))
            else:
                t = f"t{nloc}{sfx}"
                out.append(("for", f"i{nloc}{sfx}", rng.choice(["1", "2"]), [("assign", t, call())]))
                names.append(t)
        r = rng.random()
        if r < 0.4:
            out.append(("return", f"({call()} {rng.choice(['+', '-', '*'])} {rng.choice(['1', '2', rng.choice(names)])})"))
        elif r < 0.6:
            out.append(("return", f"({call()} + {call()})"))
        elif r < 0.8 and len(names) > len(params):
            out.append(("return", rng.choice(names[len(params):])))
        else:
            out.append(("return", call()))
        return out

    def _program_fwd(self):
        """defs in an order in which at least one helper is called ABOVE its definition: caller first, helper later (and a
        helper in between / on top that reaches it through the caller; a later helper that calls the caller); every helper is
        requested under 2-3 signatures, directly from the top level and through the callers"""
        rng = self.rng
        gl = [g for g in GLOBALS if g[1] != "str"]
        gnames = {g[0] for g in gl}
        shape = rng.choice(["C L", "C L", "T C L", "C L K", "C M L", "C L1 L2", "T C L K"])
        roles = shape.split()
        funcs = []                       # (name, params, body) in def order
        arity = {}
        names = {}
        for j, role in enumerate(roles):
            names[role] = f"h{j + 1}"
            arity[role] = rng.choice([1, 1, 2]) if role.startswith("L") else 1
        leaves = [r_ for r_ in roles if r_.startswith("L")]
        for j, role in enumerate(roles):
            name = names[role]
            params = ["p", "q"][:arity[role]]
            sfx = f"c{j + 1}"
            if role.startswith("L"):
                body = self.body(params, [])
            elif role == "C":                                   # calls the leaves defined BELOW it
                body = self.caller_body(params, [(names[l_], arity[l_]) for l_ in leaves], sfx)
            elif role == "M":                                   # between caller and leaf: calls the leaf (below), is called by nobody above
                body = self.caller_body(params, [(names[l_], arity[l_]) for l_ in leaves] + [(names["C"], 1)], sfx)
            elif role == "T":                                   # on top: reaches the leaf through the caller (both below it)
                body = self.caller_body(params, [(names["C"], 1)], sfx)
            else:                                               # K: defined last, calls the caller that sits above the leaf
                body = self.caller_body(params, [(names["C"], 1)] + ([(names[leaves[0]], arity[leaves[0]])] if rng.random() < 0.4 else []), sfx)
            funcs.append((name, params, body))
        for f, ps, b in funcs:                                  # local names of a caller and of everything it can reach are disjoint
            mine = assigned_names(b)
            for g_, _, gb in funcs:
                if g_ != f and called_helpers(b, [g_]) and mine & assigned_names(gb):
                    return None
        ck = Checker([(f, (ps, b)) for f, ps, b in funcs], global_names=gnames | {"m1", "g1", "g2", "j1"})
        try:
            ck.simulate_defs()
        except OutOfGuard:
            return None
        by_kind = {k: [g[0] for g in gl if g[1] == k] for k in ("int", "float", "bool")}
        seq = []
        valid = []
        for f, ps, b in funcs:
            sigs = []
            for _ in range(rng.choice([2, 3, 3])):
                sg = tuple(rng.choice(["int", "float", "float", "bool"]) for _ in ps)
                try:
                    ck.variant(f, sg)
                except OutOfGuard:
                    continue
                if (f, sg) in ck.stale_forward_variants():
                    continue
                sigs.append(sg)
                valid.append((f, sg))
            for sg in sigs:
                for _ in range(rng.choice([1, 1, 2])):
                    seq.append((f, sg))
        if not seq:
            return None
        rng.shuffle(seq)
        call_items, used_calls, res_decl, nres = [], [], {}, 0
        for f, sg in seq[:rng.choice([4, 5, 6, 8])]:
            args = []
            for kx in sg:
                inner = [(g_, s2) for (g_, s2) in valid if len(s2) == 1 and g_ != f and ck.memo.get((g_, s2)) == kx]
                if inner and rng.random() < 0.15:
                    g_, s2 = rng.choice(inner)
                    a_ = rng.choice(by_kind[s2[0]]) if by_kind[s2[0]] else None
                    if a_ is not None:
                        args.append(f"{g_}({a_})")
                        ck.note_call(g_, s2)
                        used_calls.append((g_, s2))
                        self.stats["helper_results_as_arguments"] += 1
                        continue
                if kx in ("int", "float") and rng.random() < 0.2:
                    args.append(self.expr_arg(kx, by_kind))
                elif by_kind[kx] and (kx == "float" or rng.random() < 0.7):
                    args.append(rng.choice(by_kind[kx]))
                else:
                    args.append(rng.choice(["0", "1", "2", "3", "7"]) if kx == "int" else rng.choice(["True", "False"]))
            rk = ck.variant(f, sg)
            ck.note_call(f, sg)
            cands = [n for n, K in res_decl.items() if KORD[rk] <= KORD[K]]
            if cands and rng.random() < 0.3:
                r_ = rng.choice(cands)
            else:
                nres += 1
                r_ = f"r{nres}"
                res_decl[r_] = rk
            call_items.append([("assign", r_, f"{f}({', '.join(args)})"), ("write", r_)])
            used_calls.append((f, sg))
        all_calls = set(used_calls) | set(ck.call_log)
        if ck.stale_forward_variants() & all_calls:
            self.stats["rejected_stale_forward_variant"] += 1
            return None
        if ck.overwritten_variants():
            self.stats["rejected_overwritten_variant"] += 1
            return None
        emitted = {}
        for f_, sg_ in all_calls:
            if (f_, sg_) not in ck.final_sig:
                return None                                      # a recorded signature whose variant leaves the guard
            emitted.setdefault(f_, set()).add(ck.final_sig[(f_, sg_)])
        for f_, sg_ in all_calls:
            if cxx_pick(sg_, emitted[f_]) != ck.final_sig[(f_, sg_)]:
                self.stats["rejected_ambiguous_overload"] += 1
                return None
        # reachable forward call sites: a call written in a body emitted above the definition of its callee
        order = [f for f, _, _ in funcs]
        reach, todo = set(), list(set(used_calls))
        inner = {}
        for key, h, ks in ck.unknown_calls:
            inner.setdefault(key, set()).add((h, ks))
        # calls met while a variant was parsed (known callees): recover them from the body text per variant is not needed for
        # the statistics below; forward sites are counted per emitted caller variant from a re-parse with every source known
        fwd_sites = fwd_nonfirst = through = 0
        ck2 = Checker([(f, (ps, b)) for f, ps, b in funcs], global_names=gnames | {"m1", "g1", "g2", "j1"})
        for f_, sg_ in sorted(all_calls):
            before = set(ck2.call_log)
            ck2.memo.pop((f_, sg_), None)
            try:
                ck2.variant(f_, sg_)
            except OutOfGuard:
                continue
        for (f_, sg_) in sorted(all_calls):
            ck3 = Checker([(f, (ps, b)) for f, ps, b in funcs], global_names=gnames | {"m1", "g1", "g2", "j1"})
            for (g_, s2), r in ck2.memo.items():
                if (g_, s2) != (f_, sg_):
                    ck3.memo[(g_, s2)] = r
                    ck3.final_sig[(g_, s2)] = ck2.final_sig.get((g_, s2), s2)
                    ck3.local_kinds[(g_, s2)] = ck2.local_kinds.get((g_, s2), {})
                    ck3.ret_sets[(g_, s2)] = ck2.ret_sets.get((g_, s2), [])
            try:
                ck3.variant(f_, sg_)
            except OutOfGuard:
                continue
            for (h, ks) in ck3.call_log:
                if order.index(h) > order.index(f_):
                    fwd_sites += 1
                    first = ck.sig_order.get(h, [ks])[0]
                    if ck.final_sig.get((h, first), first) != ck.final_sig.get((h, ks), ks):
                        fwd_nonfirst += 1
                    if (f_, sg_) not in set(used_calls):
                        through += 1
        placed, loop_body, declared_top = [], [], set()
        for pair in call_items:
            r_ = pair[0][1]
            where = rng.random()
            if where < 0.75 or r_ not in declared_top:
                placed += [("stmt", s_) for s_ in pair]
                declared_top.add(r_)
            elif where < 0.85:
                placed.append(("stmt", ("if", [("n1 > 1", pair)], None)))
            else:
                loop_body += pair
        items = [("stmt", ("assign", g[0], g[2])) for g in gl] + [("def", f, ps, b) for f, ps, b in funcs] + placed
        if loop_body:
            items.append(("loop", loop_body))
        st = self.stats
        st["forward_programs"] += 1
        st["functions"] += len(funcs)
        st["calls"] += len(call_items)
        st["forward_orders"][shape] = st["forward_orders"].get(shape, 0) + 1
        st["callers_defined_above_their_helper"] += sum(1 for r_ in roles if r_ in ("C", "M", "T"))
        st["later_helper_calling_a_caller_above"] += ("K" in roles)
        st["forward_call_sites"] += fwd_sites
        st["forward_call_sites_reaching_a_variant_other_than_the_first_declared"] += fwd_nonfirst
        st["forward_calls_through_another_helper"] += through
        for f_, v in emitted.items():
            st["variants"] += len(v)
            if len(v) == 2:
                st["helpers_with_two_variants"] += 1
            elif len(v) >= 3:
                st["helpers_with_three_or_more_variants"] += 1
            if f_ in {names[l_] for l_ in leaves}:
                for sg_ in v:
                    k_ = "+".join(sg_)
                    st["forward_callee_variants_by_kind"][k_] = st["forward_callee_variants_by_kind"].get(k_, 0) + 1
        return items, (1 if loop_body else 0)

    # ---- a whole program
    def program(self):
        rng = self.rng
        fwd = rng.random() < 0.4
        for _ in range(400):
            p = self._program_fwd() if fwd else self._program()
            if p is not None:
                return p
            self.stats["regenerated_bodies"] += 1
        raise RuntimeError("FnGen: no program inside the guard after 400 attempts")

    def _program(self):
        rng = self.rng
        gl = [g for g in GLOBALS if rng.random() < 0.8 or g[0] in ("n1", "x1")]
        gnames = {g[0] for g in gl}
        funcs, items_def = [], []
        nf = rng.choice([1, 1, 2, 2, 3])
        use_str = rng.random() < 0.2
        for j in range(nf):
            name = f"h{j + 1}"
            params = ["p", "q"][:rng.choice([1, 1, 2])]
            body = self.body(params, [(f, len(ps)) for f, ps, _ in funcs])
            funcs.append((name, params, body))
        if use_str:
            funcs.append(rng.choice(STR_FUNCS))
        for f, ps, b in funcs:                                   # caller / callee local names are disjoint (see body())
            mine = assigned_names(b)
            for g_ in called_helpers(b, [x[0] for x in funcs]):
                if mine & assigned_names(next(x[2] for x in funcs if x[0] == g_)):
                    return None
        ck = Checker([(f, (ps, b)) for f, ps, b in funcs], global_names=gnames | {"m1", "g1", "g2", "j1"})
        # call signatures per function: the all-int variant of the def-time parse must be inside the guard too
        calls = []
        try:
            ck.simulate_defs(skip_def_time={sf[0] for sf in STR_FUNCS})
        except OutOfGuard:
            return None
        for f, ps, b in funcs:
            is_str = any(f == sf[0] for sf in STR_FUNCS)
            pool = ["int", "float", "bool"] + (["str"] if is_str else [])
            sigs = []
            for _ in range(rng.choice([2, 3, 3, 4])):
                sg = tuple(rng.choice(pool) for _ in ps)
                try:
                    ck.variant(f, sg)
                except OutOfGuard:
                    continue
                sigs.append(sg)
            if not sigs:
                return None
            calls.append((f, ps, sigs))
        if ck.overwritten_variants():
            self.stats["rejected_overwritten_variant"] += 1
            return None
        # every variant the transpiler will parse on the way (callees of callees) is inside the guard by construction of
        # Checker.variant (it recurses); names hoisted by if/else (y*) and by loops (t*) are disjoint by construction
        by_kind = {k: [g[0] for g in gl if g[1] == k] for k in ("int", "float", "bool", "str")}
        top = []
        hoist_first = rng.random() < 0.6
        k1 = rng.choice(["float", "int", "bool"])
        lit1, lit2 = {"float": ("1.5", "0.5"), "int": ("3", "4"), "bool": ("True", "False")}[k1]
        hoist = [("stmt", ("assign", "m1", rng.choice(["2", "0"]))),
                 ("stmt", ("if", [("m1 > 1", [("assign", "g1", lit1)])], [("assign", "g1", lit2)])),
                 ("stmt", ("write", "g1"))]
        if rng.random() < 0.4:                                # a global first assigned inside a top-level loop, read afterwards
            k2 = rng.choice(["float", "int", "bool"])
            hoist += [("stmt", ("for", "j1", rng.choice(["1", "2"]), [("assign", "g2", {"float": "j1 * 0.5", "int": "j1 + 3", "bool": "j1 > 0"}[k2])])),
                      ("stmt", ("write", "g2"))]
            self.stats["top_loop_hoist"] += 1
        gl_items = [("stmt", ("assign", g[0], g[2])) for g in gl]
        defs = [("def", f, ps, b) for f, ps, b in funcs]
        call_items = []
        res_decl = {}
        nres = 0
        seq = []
        for f, ps, sigs in calls:
            for sg in sigs:
                for _ in range(rng.choice([1, 2, 2])):
                    seq.append((f, sg))
        rng.shuffle(seq)
        seen_final = {}
        used_calls = []
        for f, sg in seq[:rng.choice([5, 6, 8])]:
            args = []
            for kx in sg:
                if kx in ("int", "float") and by_kind[kx] and rng.random() < 0.15:
                    args.append(self.expr_arg(kx, by_kind))
                elif by_kind[kx] and (kx in ("float", "str") or rng.random() < 0.7):
                    args.append(rng.choice(by_kind[kx]))
                elif kx == "int":
                    args.append(rng.choice(["0", "1", "2", "3", "7"]))
                elif kx == "bool":
                    args.append(rng.choice(["True", "False"]))
                else:
                    args = None
                    break
            if args is None:
                continue
            rk = ck.variant(f, sg)
            cands = [n for n, K in res_decl.items() if (K == rk if "str" in (K, rk) else KORD[rk] <= KORD[K])]
            if cands and rng.random() < 0.35:
                r_ = rng.choice(cands)                       # a narrower result into a wider, already declared variable
            else:
                nres += 1
                r_ = f"r{nres}"
                res_decl[r_] = rk
            call_items.append([("assign", r_, f"{f}({', '.join(args)})"), ("write", r_)])
            self.stats["calls"] += 1
            used_calls.append((f, sg))
            fin = ck.final_sig[(f, sg)]
            if fin != sg:
                self.stats["calls_reaching_their_variant_through_an_alias"] += 1
                if (f, fin) in seen_final.get("direct", set()):
                    self.stats["alias_call_after_a_call_with_the_final_signature"] += 1
                seen_final.setdefault("alias", set()).add((f, fin))
            else:
                if (f, fin) in seen_final.get("alias", set()):
                    self.stats["alias_call_before_a_call_with_the_final_signature"] += 1
                seen_final.setdefault("direct", set()).add((f, fin))
        if not call_items:
            return None
        # every call whose requested signature is widened (reached through the alias) must select, by C++ overload
        # resolution among the variants that can be emitted, exactly the variant the transpiler means (an ambiguous call
        # does not compile: C06's subject, not this property's)
        all_calls = set(used_calls) | set(ck.call_log)
        emitted = {}
        for f_, sg_ in all_calls:
            if (f_, sg_) in ck.final_sig:
                emitted.setdefault(f_, set()).add(ck.final_sig[(f_, sg_)])
        for f_, sg_ in all_calls:
            if (f_, sg_) in ck.final_sig and cxx_pick(sg_, emitted[f_]) != ck.final_sig[(f_, sg_)]:
                self.stats["rejected_ambiguous_overload"] += 1
                return None
        # placement of the calls: column 0, inside a top-level branch / loop, inside the main loop
        placed, loop_body = [], []
        declared_top = set()
        for pair in call_items:
            r_ = pair[0][1]
            where = rng.random()
            if where < 0.6 or r_ not in declared_top and where < 0.8:
                placed += [("stmt", s) for s in pair]
                declared_top.add(r_)
            elif where < 0.8:
                placed.append(("stmt", ("if", [("n1 > 1", pair)], None)))
            elif r_ in declared_top:
                loop_body += pair
            else:
                placed += [("stmt", s) for s in pair]
                declared_top.add(r_)
        order = rng.random()
        if order < 0.5:
            items = (hoist if hoist_first else []) + gl_items + defs + ([] if hoist_first else hoist) + placed
        else:
            items = gl_items + (hoist if hoist_first else []) + defs + placed + ([] if hoist_first else hoist)
        if loop_body:
            items.append(("loop", loop_body))
        # statistics
        self.stats["functions"] += len(funcs)
        if hoist_first:
            self.stats["top_hoist_before_def"] += 1
        seen_kinds = {}
        for (f_, sg_), d in ck.local_kinds.items():
            for n, k in d.items():
                seen_kinds.setdefault(n, set()).add(k)
        if any(len(v) >= 2 for v in seen_kinds.values()):
            self.stats["shared_local_different_kind"] += 1
        for f, ps, sigs in calls:
            self.stats["variants"] += len(set(sigs))
            for sg in set(sigs):
                ks = "+".join(sorted(set(ck.ret_sets.get((f, sg), []))))
                self.stats["return_kind_sets"][ks] = self.stats["return_kind_sets"].get(ks, 0) + 1
        has_branch_local = any(s[0] == "if" and s[2] is not None and s[2] and s[2][0][0] == "assign" for f, ps, b in funcs for s in b)
        if hoist_first and has_branch_local and any(len(set(sigs)) >= 2 for _, _, sigs in calls):
            self.stats["m2_combination"] += 1
        return items, (1 if loop_body else 0)


# --------------------------------------------------------------------------- fixed class representatives
def fixed_programs():
    """hand-written representatives of every class the generator draws from (so that the class is exercised at every
    seed): differently typed returns on value-dependent paths, branch-/loop-first locals under several call signatures
    after a top-level hoist, shared local names, calls in every order, a helper calling a helper, str helpers."""
    G = [("stmt", ("assign", g[0], g[2])) for g in GLOBALS]
    hoist = [("stmt", ("assign", "m1", "2")),
             ("stmt", ("if", [("m1 > 1", [("assign", "g1", "1.5")])], [("assign", "g1", "0.5")])),
             ("stmt", ("write", "g1"))]

    def calls(lst, start=1):
        out = []
        for i, c in enumerate(lst):
            out += [("stmt", ("assign", f"r{i + start}", c)), ("stmt", ("write", f"r{i + start}"))]
        return out

    deb = ("def", "h1", ["p", "q"], [("if", [("p < 0", [("return", "False")])], None),
                                     ("if", [("p >= q", [("return", "True")])], None), ("return", "p + 1")])
    ratio = ("def", "h2", ["p", "q"], [("if", [("q == 0", [("return", "False")])], None), ("return", "p * 0.5")])
    mixif = ("def", "h3", ["p"], [("if", [("p > 5", [("return", "7")])], None), ("return", "2.5")])
    cmpf = ("def", "h4", ["p"], [("if", [("p > 2", [("return", "p > 5")])], [("return", "p * 3")])])
    scale = ("def", "h1", ["p"], [("if", [("p > 1", [("assign", "y1", "p * 2")])], [("assign", "y1", "p")]), ("return", "y1")])
    scale3 = ("def", "h2", ["p", "q"], [("if", [("p > 1", [("assign", "y1", "p + q")]), ("p > 0", [("assign", "y1", "q")])],
                                         [("assign", "y1", "p - q")]), ("return", "y1")])
    loopf = ("def", "h3", ["p"], [("for", "i1", "2", [("assign", "t1", "p * 2")]), ("return", "t1")])
    loopw = ("def", "h4", ["p"], [("while", "k1", "2", [("assign", "t1", "p + k1")]), ("return", "t1")])
    other = ("def", "h5", ["p"], [("if", [("p > 1", [("assign", "y1", "\"big\"")])], [("assign", "y1", "\"small\"")]), ("return", "y1")])
    nest = ("def", "h6", ["p"], [("assign", "w1", "h1(p)"), ("return", "w1 + 1")])
    cexp = ("def", "h5", ["p"], [("assign", "w1", "(True if p > 5 else p + 2)"), ("return", "w1")])
    cexp2 = ("def", "h6", ["p"], [("return", "(p * 2 if p > 1 else False)")])
    # parameters widened by the body depending on another parameter: the requested signature is emitted under a wider
    # final one and found through the signature alias; call sites in both orders (final first / alias first)
    blend = ("def", "h1", ["p", "q"], [("assign", "p", "p + q"), ("return", "p")])
    augw = ("def", "h2", ["p", "q"], [("aug", "p", "+", "q"), ("return", "p * 2")])
    half = ("def", "h3", ["p"], [("assign", "p", "p * 0.5"), ("return", "p")])
    early = ("def", "h4", ["p", "q"], [("if", [("q > 1", [("return", "p")])], None), ("assign", "p", "(q + p)"), ("return", "p")])
    keepw = ("def", "h5", ["p", "q"], [("assign", "w1", "q * 2"), ("assign", "p", "p - q"), ("return", "p + w1")])
    # list comprehensions whose target re-uses the name of a local accumulator / of a parameter (it does not leak)
    spread = ("def", "h1", ["p"], [("assign", "w1", "0.0"), ("for", "i1", "3", [("assign", "w1", "w1 + 0.25")]),
                                   ("comp", "L1", "w1", "w1 + p", "3"), ("assign", "w2", "w1 * 3"), ("return", "w2")])
    shadp = ("def", "h2", ["p", "q"], [("comp", "L1", "p", "p * q", "2"), ("assign", "w1", "p * 2"), ("return", "w1")])
    count = ("def", "h3", ["p"], [("assign", "w1", "0"), ("for", "i1", "2", [("assign", "w1", "w1 + 2")]),
                                  ("comp", "L1", "w1", "w1 * 0.5", "2"), ("return", "w1 + p")])
    # callers emitted ABOVE the helper they call: inside their bodies the overload is chosen among the prototypes alone.
    # (1) the helper gets an int variant from the def-time parse of the caller and a float variant from the real call;
    # (2) three variants, reached directly, through the caller, through a helper on top of the caller and from a helper
    #     defined last; (3) two-parameter helper: (float, int), (int, int), (bool, bool), (float, float) variants
    fsc = ("def", "h1", ["p"], [("return", "h2(p) + 1")])
    ftw = ("def", "h2", ["p"], [("return", "p * 2")])
    ftop = ("def", "h1", ["p"], [("assign", "w1c1", "h2(p)"), ("return", "w1c1 * 2")])
    fmid = ("def", "h2", ["p"], [("if", [("p > 1", [("return", "h3(p, 1)")])], None), ("return", "h3(p, p)")])
    flow = ("def", "h3", ["p", "q"], [("return", "p + q")])
    flast = ("def", "h4", ["p"], [("assign", "w1c4", "h2(p)"), ("return", "w1c4 + h3(p, 2)")])
    fhalf = ("def", "h1", ["p"], [("if", [("p > 2", [("assign", "y1c1", "h2(p)")])], [("assign", "y1c1", "h2(p) + h2(2)")]), ("return", "y1c1 + h2(p)")])
    fsq = ("def", "h2", ["p"], [("assign", "w1", "p * p"), ("return", "w1 - p")])
    progs = [
        (G + [fsc, ftw] + calls(["h1(x1)", "h2(n1)", "h1(x2)", "h2(x3)", "h1(x4)"]), 0),
        (G + [ftop, fmid, flow, flast]
         + calls(["h1(x1)", "h1(n1)", "h1(b1)", "h4(x2)", "h4(n2)", "h3(x1, n1)", "h2(x3)", "h3(b1, b2)", "h2(n3)", "h4(b2)", "h1(x4)"]), 0),
        (G + [fhalf, fsq] + calls(["h1(x3)", "h1(x2)", "h2(b1)", "h2(x1)"]) +
         [("loop", [("assign", "r1", "h1(x1)"), ("write", "r1"), ("assign", "r4", "h2(x4)"), ("write", "r4")])], 2),
        (G + [spread, shadp, count]
         + calls(["h1(n1)", "h1(x1)", "h2(x1, n1)", "h2(n1, x2)", "h2(b1, n1)", "h3(n1)", "h3(x2)"]), 0),
        (G + [blend, augw, half, early, keepw]
         + calls(["h1(x1, x2)", "h1(n1, x2)", "h1(n4, x1)", "h1(b1, x3)", "h2(n1, x1)", "h2(x1, x2)", "h2(n2, x3)", "h2(x3, x1)",
                  "h3(n1)", "h3(x1)", "h3(b1)", "h3(n3)", "h4(x2, x1)", "h4(n1, x1)", "h4(x3, x3)", "h4(n2, x3)",
                  "h5(x1, x2)", "h5(n1, x2)", "h5(n2, x4)"]), 0),
        (G + [deb, ratio, mixif, cmpf, cexp, cexp2]
         + calls(["h1(n1, n2)", "h1(n3, n2)", "h1(n2, n1)", "h1(r1, n2)", "h2(n1, n2)", "h2(n1, 0)", "h3(n1)", "h3(n2)", "h4(n1)", "h4(n2)",
                  "h4(n4)", "h4(x3)", "h4(x1)", "h5(n1)", "h5(n2)", "h5(x1)", "h6(n1)", "h6(n4)", "h6(x1)", "h6(x2)"]), 0),
        (hoist + G + [scale, scale3, loopf, loopw, other, nest]
         + calls(["h1(n1)", "h1(x1)", "h1(x2)", "h1(n4)", "h2(n1, x1)", "h2(x2, x1)", "h2(n4, n1)", "h2(x4, x1)",
                  "h3(x1)", "h3(n1)", "h4(x2)", "h4(n1)", "h5(n1)", "h5(x2)", "h6(x1)", "h6(n1)"]), 0),
        (G + hoist + [scale, scale3, loopf, loopw] +
         calls(["h1(x1)", "h1(n1)", "h2(x2, x3)", "h2(n1, n2)", "h3(x1)", "h4(x2)"]) +
         [("loop", [("assign", "r1", "h1(x2)"), ("write", "r1"), ("assign", "r2", "h1(n3)"), ("write", "r2"),
                    ("assign", "r5", "h3(b1)"), ("write", "r5")])], 2),
    ]
    return progs


def validate_fixed():
    """the fixed programs are inside the guard: every call at column 0 / in the main loop resolves to a variant the
    Checker accepts, and so does the all-int variant of every def (parsed in script order: a helper called above its def has
    no source there); no emitted variant was typed while a callee with a non-int result had no source
    (harness self-check, raises on a harness bug)"""
    genv = {g[0]: g[1] for g in GLOBALS}
    for items, _ in fixed_programs():
        funcs = [(it[1], (it[2], it[3])) for it in items if it[0] == "def"]
        ck = Checker(funcs, global_names=set(genv) | {"m1", "g1"})
        env = dict(genv)
        ck.simulate_defs(skip_def_time={f for f, (ps, b) in funcs if f == "h5" and "\"big\"" in str(b)})
        stmts = []
        for it in items:
            if it[0] == "stmt":
                stmts.append(it[1])
            elif it[0] == "loop":
                stmts += it[1]
        for s_ in stmts:
            if s_[0] == "assign" and "(" in s_[2] and s_[2][0] == "h":
                k = ck.kind(s_[2], env)
                if s_[1] in env and env[s_[1]] != k and ("str" in (k, env[s_[1]]) or KORD[k] > KORD[env[s_[1]]]):
                    raise OutOfGuard(f"fixed program: {s_[1]} = {s_[2]}: {k} into {env[s_[1]]}")
                env.setdefault(s_[1], k)
        requested = {(f, sg) for f, sgs in ck.sig_order.items() for sg in sgs}
        stale = ck.stale_forward_variants() & requested
        if stale:
            raise OutOfGuard(f"fixed program: emitted variant typed before its callee had a source: {sorted(stale)}")
        emitted = {}
        for f, sg in requested:
            if (f, sg) not in ck.final_sig:
                raise OutOfGuard(f"fixed program: recorded signature outside the guard: {f}{sg}")
            emitted.setdefault(f, set()).add(ck.final_sig[(f, sg)])
        for f, sg in requested:
            if cxx_pick(sg, emitted[f]) != ck.final_sig[(f, sg)]:
                raise OutOfGuard(f"fixed program: overload resolution does not reach the variant meant for {f}{sg}")
    return True
