"""C02 value-oracle programs of two classes the other generators never drew (used by harness/props/c02.py part (h)).

(T) tuple assignments whose right-hand elements READ a name that another target of the SAME statement re-types
    (`acc, prev = 0, acc` with acc a float; `n, old = True, n` with n an int): Python evaluates the whole right-hand
    side before binding, so every element is typed from the state BEFORE the statement.  Drawn at column 0, inside
    for / while / if blocks, in the main loop and inside helper bodies (result returned to the caller under an int and a
    float call signature); the re-typed target stands before, between and after the elements that read it; the reading
    element is the bare name or an expression over it; the receiving names are new or already declared.

(B) helper functions whose float (or bool) call signature occurs ONLY at call sites nested inside a builtin call
    (str / bool / abs / min / max / len / int / float, one or two deep, alone or inside arithmetic, a conditional
    expression, a tuple element, an augmented assignment, a list comprehension element, a unary minus) on the right-hand
    side of an assignment or of a return: the variant for that signature must still be instantiated, otherwise C++
    converts the argument at the call and the parameter is narrowed.

Guard (the listed findings of C02 stay outside by construction):
  * a name is declared by its first assignment with kind K and only ever receives kinds <= K (bool < int < float);
    after the tuple statement the re-typed name is not read again until it is re-assigned at its declared kind
    (F-C02-flow-insensitive-label); names first assigned inside a nested block keep one kind;
  * a NEW name declared at column 0 by a tuple assignment that also re-assigns an old name is a local of setup(): it is
    only read at column 0 (its scope is C05/C06's subject); programs with a main loop declare the receivers first;
  * abs / min / max only on int / bool operands (F-C02-abs-min-max-float-typed-int); str() only of int results (the text
    form of floats and bools is C01's subject); no `/` of ints, no and/or on non-bools;
  * a user-function call never stands where the transpiler does not type it at all: operand of a comparison, of `not`,
    of and/or, condition of if / while / conditional expression, range() bound, argument of mon.write, f-string
    (F-C02-call-site-never-typed);
  * call arguments are names or int literals (a float literal is a double: overload ambiguity is C06's subject).
"""
from __future__ import annotations

FLOATS = [("x1", "2.5"), ("x2", "1.5"), ("x3", "7.75"), ("x4", "0.75")]
INTS = [("n1", "3"), ("n2", "12"), ("n4", "1")]
GLOB = "".join(f"{n} = {v}\n" for n, v in FLOATS + INTS) + "b1 = True\n"


# --------------------------------------------------------------------------- (T) tuple assignments
def _reader(rng, x, K, aux="n1"):
    """an element that reads x; its kind is K (the kind x has BEFORE the statement); aux: an int name readable there"""
    if K == "float":
        return rng.choice([x, x, f"({x} + 1)", f"({x} * 3)", f"({x} - {aux})", f"({x} + 0.25)", f"({aux} + {x})", f"({x} if {aux} > 1 else 0.5)"])
    return rng.choice([x, x, f"({x} + 1)", f"({x} * 3)", f"({x} - {aux})", f"({aux} + {x})"])


def _narrow(rng, K, aux="n1"):
    """(kind, source) of the expression the re-typed target receives: a kind strictly below K"""
    k = rng.choice(["int", "int", "bool"]) if K == "float" else "bool"
    if k == "int":
        return k, rng.choice(["0", "0", "1", "7"] + ([aux, f"({aux} + 2)"] if aux == "n1" else []))
    return k, rng.choice(["False", "True", f"({aux} > 1)"])


def _tuple_stmt(rng, x, K, recv, aux="n1"):
    """targets, sources of one statement; recv: names receiving the elements that read x (1 or 2)"""
    _, e0 = _narrow(rng, K, aux)
    readers = [_reader(rng, x, K, aux) for _ in recv]
    shape = rng.random()
    if shape < 0.6 or len(recv) == 2 and shape < 0.8:
        tg, sr = [x] + recv, [e0] + readers                        # re-typed target first
    elif shape < 0.85 and len(recv) == 2:
        tg, sr = [recv[0], x, recv[1]], [readers[0], e0, readers[1]]   # in the middle
    else:
        tg, sr = recv + [x], readers + [e0]                        # last (an element to its LEFT reads it)
    return f"{', '.join(tg)} = {', '.join(sr)}\n"


def tuple_program(rng, stats, place=None):
    place = place or rng.choice(["top", "top", "for", "while", "if", "main", "fn", "fn", "fnloop"])
    K = rng.choice(["float", "float", "float", "int"])
    init = rng.choice(["2.5", "0.75", "7.25", "x1", "(x2 * 3)"]) if K == "float" else rng.choice(["5", "7", "n2", "(n1 + 4)"])
    back = (lambda y: f"({y} + 0.5)") if K == "float" else (lambda y: f"({y} + 2)")
    nrecv = rng.choice([1, 1, 2])
    stats["tuple_by_place"][place] = stats["tuple_by_place"].get(place, 0) + 1
    stats["tuple_retyped_kind"][K] = stats["tuple_retyped_kind"].get(K, 0) + 1
    zero = "0.0" if K == "float" else "0"
    loops = 0
    if place in ("fn", "fnloop"):
        acc, recv = "acc", ["prev", "old"][:nrecv]
        first = rng.choice(["(p * 0.5)", "(p + 0.25)", "(p * 2.5)"]) if K == "float" else rng.choice(["(p + 2)", "(p * 3)"])
        b = f"def f1(p):\n    {acc} = {first}\n"
        if place == "fn":
            b += "    " + _tuple_stmt(rng, acc, K, recv, "p")
            if rng.random() < 0.4:
                b += f"    {acc} = {back(recv[0])}\n    return {acc}\n"
            else:
                b += f"    return {rng.choice([recv[0], recv[-1], f'({recv[-1]} * 3)'])}\n"
        else:
            b += "    for i in range(2):\n        " + _tuple_stmt(rng, acc, K, recv, "i") + f"        {acc} = {back(recv[-1])}\n"
            b += f"    return {rng.choice([recv[0], acc])}\n"
        sigs = ["n1", "x1", "x4", "n2"] if K == "float" else ["n1", "n2", "n4"]
        rng.shuffle(sigs)
        body = GLOB + b
        for j, a in enumerate(sigs[:rng.choice([2, 3])]):
            body += f"r{j + 1} = f1({a})\nmon.write(r{j + 1})\n"
        return body, 0
    x, recv = "lvl", ["last", "prev"][:nrecv]
    predeclare = place == "main" or rng.random() < 0.4
    body = GLOB + f"{x} = {init}\n"
    if predeclare:
        body += "".join(f"{y} = {zero}\n" for y in recv)
        stats["tuple_receivers_predeclared"] += 1
    ws = "".join(f"mon.write({y})\n" for y in recv)

    def blk(pad):
        s = pad + _tuple_stmt(rng, x, K, recv) + "".join(pad + ln + "\n" for ln in ws.splitlines())
        return s + f"{pad}{x} = {back(recv[0])}\n{pad}mon.write({x})\n"

    if place == "top":
        body += blk("")
    elif place == "for":
        body += f"for i in range({rng.choice([1, 2, 3])}):\n" + blk("    ")
    elif place == "while":
        body += f"k = 0\nwhile k < {rng.choice([1, 2])}:\n" + blk("    ") + "    k = k + 1\n"
    elif place == "if":
        body += f"if n1 > 1:\n" + blk("    ")
    else:
        body += "while True:\n" + blk("    ")
        loops = rng.choice([1, 2])
    return body, loops


# --------------------------------------------------------------------------- (B) call sites nested in builtins
# helper bodies: (lines, result kind as a function of the parameter kind)
HELPERS = {
    "dbl": (["return int(p * 2)"], lambda k: "int"),
    "stp": (["if p > 2:", "    return 3", "return 1"], lambda k: "int"),
    "dec": (["return p - 1"], lambda k: "float" if k == "float" else "int"),
    "gt2": (["return p > 2"], lambda k: "bool"),
    "tag": (["if p > 2:", "    return \"hi\"", "return \"l\""], lambda k: "str"),
    "loc": (["w = p * 2", "return int(w) + 1"], lambda k: "int"),
}


def _wrap(rng, c, r, stats):
    """(source, kind) of a builtin call around the helper call c whose result kind is r"""
    opts = []
    if r == "int":
        opts += [("str", f"str({c})", "str"), ("abs", f"abs({c} - 9)", "int"), ("abs", f"abs({c})", "int"),
                 ("min", f"min({c}, n2)", "int"), ("max", f"max(n4, {c})", "int"), ("min", f"min(n1, {c})", "int")]
    if r == "bool":
        opts += [("abs", f"abs({c})", "int"), ("max", f"max({c}, 2)", "int")]       # max(True, 0) IS True in Python: text "True"
    if r in ("int", "float", "bool"):
        opts += [("bool", f"bool({c})", "bool"), ("int", f"int({c})", "int"), ("float", f"float({c})", "float")]
    if r == "str":
        opts += [("len", f"len({c})", "int"), ("len", f"len({c})", "int")]
    name, src, k = rng.choice(opts)
    stats["builtin_wrappers"][name] = stats["builtin_wrappers"].get(name, 0) + 1
    return src, k


def _site(rng, c, r, stats):
    """an assignment right-hand side whose only user-function call is c, nested inside a builtin; (source, kind)"""
    src, k = _wrap(rng, c, r, stats)
    sh = rng.random()
    if sh < 0.45:
        return src, k
    if sh < 0.6 and k in ("int", "bool"):                        # two deep
        stats["builtin_two_deep"] += 1
        if k == "int":
            return rng.choice([(f"str({src})", "str"), (f"bool({src})", "bool"), (f"abs({src} - 2)", "int"), (f"max({src}, n1)", "int")])
        return rng.choice([(f"int({src})", "int"), (f"abs({src})", "int")])
    if sh < 0.75 and k in ("int", "float"):
        stats["builtin_inside_arithmetic"] += 1
        return rng.choice([f"({src} + 1)", f"(n1 + {src})", f"({src} * 3)", f"(-{src})"]), k
    if sh < 0.88 and k in ("int", "float", "str"):
        stats["builtin_inside_conditional_expression"] += 1
        other = {"int": "0", "float": "0.5", "str": "\"x\""}[k]
        return (f"({src} if n1 > 1 else {other})" if rng.random() < 0.7 else f"({other} if n1 > 5 else {src})"), k
    return src, k


def builtin_program(rng, stats):
    names = list(HELPERS)
    rng.shuffle(names)
    body = GLOB
    out = []
    nv = 0
    for j, hn in enumerate(names[:rng.choice([1, 2, 2, 3])]):
        lines, resk = HELPERS[hn]
        f = f"h{j + 1}"
        body += f"def {f}(p):\n" + "".join("    " + ln + "\n" for ln in lines)
        kinds = rng.choice([["float"], ["float"], ["float", "int"], ["int", "float"], ["float", "float"], ["float", "bool"]])
        if hn == "tag" and "bool" in kinds:
            kinds = ["float"]
        place = rng.choice(["top", "top", "top", "nested", "wrapper", "wrapper", "main", "tuple", "aug", "comp"])
        stats["builtin_sites_by_place"][place] = stats["builtin_sites_by_place"].get(place, 0) + 1
        via = None
        if hn != "tag" and rng.random() < 0.2:                     # the result passes through a second helper, itself only called there
            via = f"g{j + 1}"
            body += f"def {via}(p):\n    return p\n"
            stats["builtin_site_through_two_helpers"] += 1
        for kx in kinds:
            stats["builtin_call_signatures"][kx] = stats["builtin_call_signatures"].get(kx, 0) + 1
            arg = {"float": rng.choice(["x1", "x2", "x3", "x4"]), "int": rng.choice(["n1", "n2", "n4", "2", "7"]), "bool": "b1"}[kx]
            r = resk(kx)
            nv += 1
            v = f"v{nv}"
            if place == "wrapper":
                src, k = _site(rng, f"{via}({f}(q))" if via else f"{f}(q)", r, stats)
                src = src.replace("n1", "3").replace("n2", "12").replace("n4", "1")      # helper bodies read no globals
                w = f"w{nv}"
                if rng.random() < 0.5:
                    body += f"def {w}(q):\n    return {src}\n"
                else:
                    body += f"def {w}(q):\n    u{nv} = {src}\n    return u{nv}\n"
                out.append(("top", f"{v} = {w}({arg})\nmon.write({v})\n"))
                continue
            src, k = _site(rng, f"{via}({f}({arg}))" if via else f"{f}({arg})", r, stats)
            if place == "tuple":
                out.append(("top", f"{v}, t{nv} = {src}, 1\nmon.write({v})\n"))
            elif place == "aug" and k in ("int", "float"):
                out.append(("top", f"{v} = {'0.5' if k == 'float' else '1'}\n{v} += {src}\nmon.write({v})\n"))
            elif place == "comp" and k in ("int", "float", "bool"):
                out.append(("top", f"L{nv} = [{src} for c{nv} in range(2)]\nmon.write(L{nv}[1])\n"))
            elif place == "nested":
                hd = rng.choice(["if n1 > 1:", "for i in range(2):"])
                out.append(("top", f"{hd}\n    {v} = {src}\n    mon.write({v})\n"))
            elif place == "main":
                zero = {"int": "0", "float": "0.0", "bool": "False", "str": "\"\""}[k]
                out.append(("top", f"{v} = {zero}\n"))
                out.append(("main", f"    {v} = {src}\n    mon.write({v})\n"))
            else:
                out.append(("top", f"{v} = {src}\nmon.write({v})\n"))
    body += "".join(s for w, s in out if w == "top")
    main = "".join(s for w, s in out if w == "main")
    if main:
        body += "while True:\n" + main
    stats["builtin_programs"] += 1
    return body, (rng.choice([1, 2]) if main else 0)


# --------------------------------------------------------------------------- fixed class representatives
FIXED = [
    # (T) reset-and-remember at column 0, in a loop, in the main loop, in a helper (result returned under two signatures)
    ("lvl = 2.5\nlvl, last = 0, lvl\nmon.write(lvl)\nmon.write(last)\nlvl = last + 0.5\nmon.write(lvl)\n", 0),
    ("n = 5\nn, old = True, n\nmon.write(old)\nn = old + 2\nmon.write(n)\n", 0),
    ("lvl = 7.25\nlast, lvl, twice = lvl, 1, (lvl * 3)\nmon.write(last)\nmon.write(twice)\n", 0),
    ("lvl = 2.5\nfor i in range(2):\n    lvl, last = 0, (lvl + 1)\n    mon.write(last)\n    lvl = last * 1.5\n", 0),
    ("lvl = 0.75\nlast = 0.0\nwhile True:\n    lvl, last = False, lvl\n    mon.write(last)\n    lvl = last + 0.25\n", 2),
    ("def drain(p):\n    acc = p * 0.5\n    acc, prev = 0, acc\n    return prev\nn1 = 5\nx1 = 1.5\nr1 = drain(n1)\nmon.write(r1)\nr2 = drain(x1)\nmon.write(r2)\n", 0),
    ("def ramp(p):\n    acc = p * 0.5\n    for i in range(2):\n        acc, prev = 1, acc + i\n        acc = prev + 0.5\n    return prev\nn1 = 5\nr1 = ramp(n1)\nmon.write(r1)\n", 0),
    # (B) the float signature only inside str / bool / abs / min / max / len, at column 0 and on a return
    ("x1 = 2.5\nx2 = 1.5\nn1 = 3\ndef h1(p):\n    return int(p * 2)\ndef h2(p):\n    return p - 1\ns = str(h1(x1))\nmon.write(s)\nb = bool(h2(x2))\nmon.write(b)\n", 0),
    ("x1 = 2.5\nn1 = 3\nn2 = 12\ndef h1(p):\n    return int(p * 2)\ndef h2(p):\n    if p > 2:\n        return 3\n    return 1\ndef h3(p):\n    if p > 2:\n        return \"hi\"\n    return \"l\"\ndef h4(p):\n    if p > 2:\n        return 3\n    return 1\n"
     "a = abs(h1(x1) - 9)\nmon.write(a)\nm = min(h2(x1), n2)\nmon.write(m)\nk = max(n1 - 2, h4(x1))\nmon.write(k)\nj = len(h3(x1))\nmon.write(j)\n", 0),
    ("x1 = 2.5\nn1 = 3\nb1 = True\ndef h1(p):\n    return int(p * 2)\ndef w1(q):\n    return str(h1(q))\ndef w2(q):\n    u = abs(h1(q))\n    return u + 1\n"
     "r1 = w1(x1)\nmon.write(r1)\nr2 = w1(n1)\nmon.write(r2)\nr3 = w2(x1)\nmon.write(r3)\nr4 = str(h1(b1))\nmon.write(r4)\n", 0),
    # ... as the right-hand side of an augmented assignment, a tuple element, a comprehension element
    ("x1 = 2.5\nn1 = 3\ndef h1(p):\n    return int(p * 2)\ndef h2(p):\n    if p > 2:\n        return 3\n    return 1\ndef h3(p):\n    return int(p * 2)\n"
     "a = 1\na += abs(h1(x1) - 9)\nmon.write(a)\nb, c = max(h2(x1), 0), 1\nmon.write(b)\nL = [min(h3(x1), 9) for t in range(2)]\nmon.write(L[1])\n", 0),
    # ... in the else branch of a conditional expression, under a unary minus, as the right operand of arithmetic, through two helpers
    ("x1 = 2.5\nn1 = 3\ndef h1(p):\n    return int(p * 2)\ndef h2(p):\n    if p > 2:\n        return 3\n    return 1\ndef h3(p):\n    return int(p * 2)\n"
     "def h4(p):\n    return p - 1\ndef g4(p):\n    return p\ndef h5(p):\n    return int(p * 2)\n"
     "d = (0 if n1 > 5 else abs(h1(x1)))\nmon.write(d)\ne = (-abs(h2(x1)))\nmon.write(e)\nf = (n1 + max(h3(x1), 1))\nmon.write(f)\n"
     "s = (\"x\" if n1 > 5 else str(h5(x1)))\nmon.write(s)\nt = bool(g4(h4(x1) - 1))\nmon.write(t)\n", 0),
    ("x1 = 2.5\nn1 = 3\ndef h1(p):\n    return int(p * 2)\ndef h2(p):\n    return p > 2\nv = 0\nwhile True:\n    v = max(h1(x1), v)\n    mon.write(v)\n    t = int(bool(h2(x1)))\n    mon.write(t)\n", 1),
]


def programs(rng, n, stats):
    stats.update({"tuple_by_place": {}, "tuple_retyped_kind": {}, "tuple_receivers_predeclared": 0, "tuple_programs": 0,
                  "builtin_wrappers": {}, "builtin_two_deep": 0, "builtin_inside_arithmetic": 0,
                  "builtin_inside_conditional_expression": 0, "builtin_site_through_two_helpers": 0, "builtin_sites_by_place": {}, "builtin_call_signatures": {},
                  "builtin_programs": 0})
    out = list(FIXED)
    for i in range(n):
        if i % 2 == 0:
            out.append(tuple_program(rng, stats))
            stats["tuple_programs"] += 1
        else:
            out.append(builtin_program(rng, stats))
    return out
