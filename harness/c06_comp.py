"""C06, part L: names bound in a scope of their own that re-use the name of an outer variable.

A list comprehension `[elt for v in range(n)]` binds v inside the comprehension only (Python 3); the transpiler renders it as
a lambda with its own `int v` parameter.  When v is also the name of an existing variable of another type, that variable's
declaration - and the declared type of everything that is later copied from it, returned from a function, first assigned in
the main loop - must not change: "every identifier it uses is declared before use with a consistent type".  The same holds for
the other binders with a scope of their own: a function parameter, a function's local / for variable of the name of a global.

A scenario = (type of the outer variable, where the comprehension stands, its element expression, which uses come before /
after).  build() writes a script from 1..k scenarios and returns, for every name whose declared type is fixed by the
construction, that type; declared_type() reads the declarations back from the emitted text.

The model side is coq/Lang/CompScope.v (wire op 12): flat_cases() produces sequences of top-level assignments in the
syntax that model covers, for the correspondence.
"""
from __future__ import annotations

import re

HEAD = ("from Reduino import target\ntarget(\"COM3\")\nfrom Reduino.Communication import SerialMonitor\n"
        "from Reduino.Utils import sleep\nmon = SerialMonitor(9600)\n")

TYPES = {
    "int": dict(lits=["7", "0", "-3", "12"], cpp="int", ann="int", scalar=True),
    "float": dict(lits=["2.5", "0.5", "-1.25", "3.0"], cpp="float", ann="float", scalar=True),
    "String": dict(lits=['"cm"', '"a b"', '""', '"x\\"y"'], cpp="String", ann="str", scalar=True),
    "bool": dict(lits=["True", "False"], cpp="bool", ann="bool", scalar=True),
    "list[int]": dict(lits=["[1, 2, 3]", "[4]"], cpp="__redu_list<int>", ann=None, scalar=False),
    "list[float]": dict(lits=["[1.5, 2.5]", "[0.25]"], cpp="__redu_list<float>", ann=None, scalar=False),
    "list[String]": dict(lits=['["a", "b"]', '["k"]'], cpp="__redu_list<String>", ann=None, scalar=False),
}
TYPE_NAMES = list(TYPES)
NAME_POOL = ["unit", "v", "ratio", "label", "flag", "gain", "tags", "pts", "level", "mode", "scale", "k", "n", "idx", "w", "t"]

# where the binder stands
COMP_SITES = ["setup", "setup_if", "setup_else", "setup_for", "setup_while", "setup_try", "fn_global", "fn_param", "fn_branch",
              "nested", "nested_same", "twice", "range_self", "loop", "loop_if", "loop_for", "loop_try", "copy_of_comp",
              "fn_return", "len_arg", "call_arg", "reassign"]
OTHER_BINDERS = ["fn_shadow_param", "fn_shadow_for"]      # "fn_shadow_local" (a function local of the name of a global) is outside the guard:
                                                          # F-C06-fn-local-shadows-global, shape fn-local-shadows-global of c06_gen.shapes_of
ALL_SITES = COMP_SITES + OTHER_BINDERS

# element expressions over the comprehension variable {v}; the label of the list they make.  hf / hu / hys / dbl are helper
# globals of every script (a float, a String, a list of floats, an annotated function)
ELTS = [("{v} * 2", "int"), ("{v} + 1", "int"), ("{v}", "int"), ("{v} * {v}", "int"), ("({v} + 1) * 3", "int"),
        ("{v} * 0.5", "float"), ("{v} / 2.0", "float"), ("{v} + 0.25", "float"),
        ("str({v})", "String"), ('"a"', "String"), ('f"n{{{v}}}"', "String"), ("{v} if {v} > 1 else 0", "int"), ("{v} > 1", "bool"),
        ("{v} * hf", "float"), ("str({v}) + hu", "String"), ("hys[{v}]", "float"), ("dbl({v})", "int")]
DEFAULT_OF = {"int": "0", "float": "0.5", "String": '""', "bool": "False"}
# range(...) forms over the size {n} (1..5); sel is a run-time int (3)
RFORMS = ["range({n})", "range(1, {n} + 1)", "range(0, {n} + 2, 2)", "range({n}, 0, -1)", "range(sel)", "range(sel, 6)", "range({n})", "range({n})"]
HELPERS = ["hf = 1.5", "hu = \"cm\"", "hys = [1.5, 2.5, 3.5, 4.5, 5.5, 6.5, 7.5]", "def dbl(q: int):", "    return q * 2"]


def _ind(lines, n=1):
    return [("    " * n) + l for l in lines]


def _show(name, ty):
    return f"mon.write({name})" if TYPES[ty]["scalar"] else f"mon.write({name}[0])"


def scenario(rng, ty=None, site=None):
    ty = ty or rng.choice(TYPE_NAMES)
    site = site or rng.choice(ALL_SITES)
    if site == "range_self":
        ty = "int"
    if site in ("fn_param", "fn_shadow_param") and not TYPES[ty]["scalar"]:
        ty = rng.choice(["float", "String", "bool", "int"])
    return {"type": ty, "site": site, "lit": rng.choice(TYPES[ty]["lits"]), "elt": rng.randrange(len(ELTS)),
            "elt2": rng.randrange(len(ELTS)), "n": rng.choice([1, 2, 3, 5]), "rform": rng.randrange(len(RFORMS)), "before": rng.random() < 0.6,
            "tag": rng.random() < 0.6, "name": rng.choice(NAME_POOL)}


def build(scens):
    """-> (script, expect) with expect = {"vars": {name: cpp type}, "fns": {name: cpp return type}}"""
    pre, fns_late, loop = ["sel = 3"], [], []
    ev, ef = {"sel": "int"}, {}
    for k, sc in enumerate(scens):
        T, site = sc["type"], sc["site"]
        cpp = TYPES[T]["cpp"]
        o = f"{sc['name']}{k}"
        x, b, a, s, c, r = f"xs{k}", f"bef{k}", f"aft{k}", f"cur{k}", f"loc{k}", f"res{k}"
        mk, tag = f"mk{k}", f"tag{k}"
        elt, lab = ELTS[sc["elt"]]
        elt2, lab2 = ELTS[sc["elt2"]]
        rform = RFORMS[sc.get("rform", 0)].format(n=sc["n"])
        cexpr = f"[{elt.format(v=o)} for {o} in {rform}]"
        comp = f"{x} = {cexpr}"
        xcpp = f"__redu_list<{lab}>"
        pre.append(f"{o} = {sc['lit']}")
        ev[o] = cpp
        if sc["before"]:
            pre += [f"{b} = {o}", _show(b, T)]
            ev[b] = cpp
        in_loop = site.startswith("loop")
        if site == "setup":
            pre.append(comp); ev[x] = xcpp
        elif site == "setup_if":
            pre += ["if sel > 2:"] + _ind([comp, f"mon.write({x}[0])"]); ev[x] = xcpp
        elif site == "setup_else":
            pre += ["if sel > 5:", "    mon.write(sel)", "else:"] + _ind([comp, f"mon.write({x}[0])"]); ev[x] = xcpp
        elif site == "setup_for":
            pre += ["for q%d in range(2):" % k] + _ind([comp, f"mon.write({x}[0])"]); ev[x] = xcpp
        elif site == "setup_while":
            pre += [f"cnt{k} = 0", f"while cnt{k} < 2:"] + _ind([comp, f"cnt{k} = cnt{k} + 1"]); ev[x] = xcpp; ev[f"cnt{k}"] = "int"
        elif site == "setup_try":
            pre += ["try:"] + _ind([comp, f"mon.write({x}[0])"]) + ["except Exception:", "    mon.write(\"e\")"]; ev[x] = xcpp
        elif site == "fn_global":
            pre += [f"def {mk}():"] + _ind([comp, f"return {x}[0]"]) + [f"{r} = {mk}()", f"mon.write({r})"]
            ef[mk] = lab; ev[r] = lab
        elif site == "fn_branch":
            pre += [f"def {mk}(q: int):"] + _ind(["if q > 1:"] + _ind([comp, f"return {x}[0]"]) + [f"return {DEFAULT_OF[lab]}"]) + [f"{r} = {mk}(sel)", f"mon.write({r})"]
            ef[mk] = lab; ev[r] = lab
        elif site == "fn_param":
            pre += [f"def {mk}({o}: {TYPES[T]['ann']}):"] + _ind([comp, f"{c} = {o}", f"return {c}"]) + [f"{r} = {mk}({o})", _show(r, T)]
            ev[c] = cpp; ef[mk] = cpp; ev[r] = cpp
        elif site == "nested":
            pre.append(f"{x} = [[{elt.format(v=o)} for {o} in range(2)] for jj{k} in range({sc['n']})]"); ev[x] = f"__redu_list<__redu_list<{lab}>>"
        elif site == "nested_same":
            pre.append(f"{x} = [[{elt.format(v=o)} for {o} in range(2)] for {o} in range({sc['n']})]"); ev[x] = f"__redu_list<__redu_list<{lab}>>"
        elif site == "twice":
            pre += [comp, f"mid{k} = {o}", f"ys{k} = [{elt2.format(v=o)} for {o} in range(3)]"]
            ev[x] = xcpp; ev[f"mid{k}"] = cpp; ev[f"ys{k}"] = f"__redu_list<{lab2}>"
        elif site == "range_self":
            pre.append(f"{x} = [{elt.format(v=o)} for {o} in range({o})]"); ev[x] = xcpp
        elif site == "copy_of_comp":            # the element expression mentions a SECOND outer variable that keeps its type inside
            pre += [f"f{k} = 1.5", f"{x} = [{o} * f{k} for {o} in range({sc['n']})]"]; ev[f"f{k}"] = "float"; ev[x] = "__redu_list<float>"
        elif site == "fn_return":              # the comprehension is the returned expression
            pre += [f"def {mk}():", f"    return {cexpr}", f"{r} = {mk}()", f"mon.write({r}[0])"]
            ef[mk] = xcpp; ev[r] = xcpp
        elif site == "len_arg":                # ... the argument of len()
            pre += [f"{r} = len({cexpr})", f"mon.write({r})"]; ev[r] = "int"
        elif site == "call_arg":               # ... the argument of a helper with an un-annotated parameter
            pre += [f"def tot{k}(q):", "    return len(q)", f"{r} = tot{k}({cexpr})", f"mon.write({r})"]; ev[r] = "int"; ef[f"tot{k}"] = "int"
        elif site == "reassign":               # assigned twice: declared once
            pre += [comp, f"mon.write({x}[0])", f"{x} = [{elt.format(v=o)} for {o} in range(4)]"]; ev[x] = xcpp
        elif site == "fn_shadow_param":
            pre += [f"def {mk}({o}: int):"] + _ind([f"{c} = {o} + 1", f"return {c}"]) + [f"{r} = {mk}(sel)", f"mon.write({r})"]
            ev[c] = "int"; ef[mk] = "int"; ev[r] = "int"
        elif site == "fn_shadow_for":
            pre += [f"def {mk}():"] + _ind([f"{c} = 0", f"for {o} in range(3):", f"    {c} = {c} + {o}", f"return {c}"]) + [f"{r} = {mk}()", f"mon.write({r})"]
            ev[c] = "int"; ef[mk] = "int"; ev[r] = "int"
        elif site == "fn_shadow_local":
            pre += [f"def {mk}():"] + _ind([f"{o} = 4", f"{c} = {o} * 2", f"return {c}"]) + [f"{r} = {mk}()", f"mon.write({r})"]
            ev[c] = "int"; ef[mk] = "int"; ev[r] = "int"
        if not in_loop:
            pre += [f"{a} = {o}", _show(a, T)]
            ev[a] = cpp
        if sc["tag"]:
            fns_late += [f"def {tag}():", f"    return {o}"]
            ef[tag] = cpp
        if site == "loop":
            loop.append(comp); ev[x] = xcpp
        elif site == "loop_if":
            loop += ["if sel > 2:"] + _ind([comp, f"mon.write({x}[0])"]); ev[x] = xcpp
        elif site == "loop_for":
            loop += ["for q%d in range(2):" % k] + _ind([comp, f"mon.write({x}[0])"]); ev[x] = xcpp
        elif site == "loop_try":
            loop += ["try:"] + _ind([comp, f"mon.write({x}[0])"]) + ["except Exception:", "    mon.write(\"e\")"]; ev[x] = xcpp
        loop += [f"{s} = {o}", _show(s, T)]
        ev[s] = cpp
        if sc["tag"]:
            loop.append(f"mon.write({tag}())" if TYPES[T]["scalar"] else f"mon.write({tag}()[0])")
    body = "\n".join(pre + fns_late + loop)
    helpers = []                                   # only the helper globals some element expression mentions
    for key, lines in (("hf", HELPERS[0:1]), ("hu", HELPERS[1:2]), ("hys", HELPERS[2:3]), ("dbl(", HELPERS[3:5])):
        if key in body:
            helpers += lines
    pre = pre[:1] + helpers + pre[1:]
    src = HEAD + "\n".join(pre + fns_late + ["while True:"] + _ind(loop + ["sleep(100)"])) + "\n"
    return src, {"vars": ev, "fns": ef}


_TY = r"([A-Za-z_]\w*(?:<[^=;(){}]*>)?)"
_NOT_A_TYPE = {"return", "else", "delete", "new", "case", "goto", "typename", "throw", "using"}


def declared_types(cpp, name):
    """every type the emitted text declares variable `name` with (in order of appearance)"""
    out = []
    for m in re.finditer(rf"^[ \t]*(?:static[ \t]+)?{_TY}[ \t]+{re.escape(name)}[ \t]*(?:=|;)", cpp, re.M):
        if m.group(1) not in _NOT_A_TYPE:
            out.append(m.group(1).replace(" ", ""))
    return out


def function_types(cpp, name):
    """return types of the definitions / prototypes of `name`"""
    return sorted({m.group(1).replace(" ", "") for m in re.finditer(rf"^{_TY}[ \t]+{re.escape(name)}\(", cpp, re.M)})


def check_expect(cpp, expect):
    """-> list of (name, expected, observed)"""
    bad = []
    for n, want in expect["vars"].items():
        got = declared_types(cpp, n)
        if got != [want]:
            bad.append((n, want, got))
    for n, want in expect["fns"].items():
        got = function_types(cpp, n)
        if got != [want]:
            bad.append((n + "()", want, got))
    return bad


def exhaustive_scenarios(rng, per_site_types):
    """every site with `per_site_types` outer types in rotation (all of them when None)"""
    out, j = [], 0
    for site in ALL_SITES:
        tys = TYPE_NAMES if per_site_types is None else [TYPE_NAMES[(j + i * 3) % len(TYPE_NAMES)] for i in range(per_site_types)]
        j += 1
        for ty in tys:
            sc = scenario(rng, ty, site)
            sc["elt"], sc["rform"] = len(out) % len(ELTS), (len(out) * 3) % len(RFORMS)     # every element form / range form in rotation
            out.append(sc)
    return out


# ----------------------------------------------------------------------------- cases for the model (wire op 12)
FLAT_LITS = {"int": ["7", "0"], "float": ["2.5", "0.5"], "String": ['"cm"'], "bool": ["True"],
             "list[int]": ["[1, 2]"], "list[float]": ["[1.5]"], "list[String]": ['["a"]']}


def flat_program(rng, n_stmts):
    """a sequence of top-level assignments  name = expression | [elt for t in range(k)]  (targets nested up to 2 deep) in which
    comprehension targets re-use declared names; -> list of (name, [targets outermost first], element / plain expression source)"""
    names, decl, prog = ["a", "b", "c", "d", "e", "u", "v"], {}, []
    for _ in range(n_stmts):
        k = rng.random()
        fresh = [n for n in names if n not in decl]
        if (k < 0.3 and fresh) or not decl:
            x = rng.choice(fresh or names)
            ty = rng.choice(list(FLAT_LITS))
            if x in decl:
                ty = decl[x]
            prog.append((x, [], rng.choice(FLAT_LITS[ty])))
            decl.setdefault(x, ty)
        elif k < 0.55 and fresh:                     # copy of a declared variable
            x, y = rng.choice(fresh), rng.choice(sorted(decl))
            prog.append((x, [], y))
            decl[x] = decl[y]
        elif k < 0.65 and fresh:                     # arithmetic over a declared numeric variable
            nums = [n for n, t in decl.items() if t in ("int", "float")]
            if not nums:
                continue
            x, y = rng.choice(fresh), rng.choice(nums)
            prog.append((x, [], f"{y} * 2"))
            decl[x] = decl[y]
        else:
            cands = [n for n in names if n not in decl or decl[n].startswith("list[")]
            if not cands:
                continue
            x = rng.choice(cands)
            t1 = rng.choice(sorted(decl)) if rng.random() < 0.7 else rng.choice(["i", "j"])
            depth2 = rng.random() < 0.3
            t2 = rng.choice(sorted(decl) + [t1]) if depth2 else None
            inner = t2 or t1
            others = [n for n, t in decl.items() if t in ("int", "float") and n not in (t1, t2)]
            elt, lab = rng.choice([(f"{inner} * 2", "int"), (f"{inner} + 1", "int"), (inner, "int"), (f"{inner} * 0.5", "float")])
            if others and rng.random() < 0.3:
                y = rng.choice(others)
                elt, lab = f"{inner} * {y}", ("float" if decl[y] == "float" else "int")
            full = f"list[list[{lab}]]" if depth2 else f"list[{lab}]"
            if x in decl and decl[x] != full:
                continue
            prog.append((x, [t1] + ([t2] if depth2 else []), elt))
            decl[x] = full
    return prog


def flat_source(prog):
    lines = []
    for x, targets, e in prog:
        rhs = e
        for t in reversed(targets):
            rhs = f"[{rhs} for {t} in range(3)]"
        lines.append(f"{x} = {rhs}")
    return lines
