"""Generator of accepted-style Reduino scripts for C06 (the compiler is the oracle).

A script is   header, imports, device declarations (before the main loop), globals, lists,
user functions, pre-loop statements, `while True:` with (optionally) hoistable device
declarations at the top of its body, then loop statements.  Every expression is generated
together with the C++ type label Reduino's own inference gives it (int/float/bool/String or
list[...]), so that the scripts stay inside the guard of the listed findings *by
construction* (one type class per name, append arguments of exactly the element type, no
`**`, functions defined before their callers, ...); `shapes_of(script)` re-checks this on the
finished text with `ast` and is what the harness uses as the executable guard.
"""
from __future__ import annotations

import ast
from collections import Counter
import keyword
import re

# ----------------------------------------------------------------------------- strings
ASCII_PRINTABLE = [chr(c) for c in range(0x20, 0x7F)]
SPECIAL_STRINGS = [
    "", " ", "\\", "\"", "'", "\\\\", "\\\"", "\"\\", "a\\", "\\n", "\\t", "\\0", "\\x41", "\\u00e9", "??/", "??=", "??/n",
    "%d %s %%", "#not a comment", "a # b", "a) # b", "(", ")", "((", ", ", "a, b", "x=1", "a:b", "if x:", "while True:",
    "{", "}", "{}", "{0}", "{{x}}", "/*", "*/", "// c", "/* c */", "\\\"\\\"", "'\"'", "\"'\"", "R\"(", "u8", "L", "<<", "\\a\\b",
    "tab\\there", "é", "√2", "漢字", "😀", "ÿ", "Ω≈ç", "naïve café", "…", "á", "日本語 テキスト", "€uro", "¿?", "end\\",
    "#", "##case 1", "target", "print(1)", "def f():", "0", "-1", "1e3", "None", "True", "\"quoted\"", "it's", "a;b", ";", "`", "~", "@", "$", "^", "&&", "||", "|",
    "ab" * 40,
]
UNICODE_POOL = "éèüñçßøåæœÿžłśΩπλΔ√∞≈≠≤≥±×÷€£¥©®™°µ¶§•…‰←→↑↓♥♦♣♠★☆☺☻漢字日本語テキストかなカナ한국어中文😀🚀🎉👍абвгдежзийклмн"


def is_printable(s: str) -> bool:
    return s.isprintable()


def gen_printable(rng, maxlen=12):
    """a printable (str.isprintable) string: ASCII printable incl. quote/backslash, some Unicode"""
    r = rng.random()
    if r < 0.25:
        return rng.choice(SPECIAL_STRINGS)
    n = rng.randint(0, maxlen)
    out = []
    for _ in range(n):
        q = rng.random()
        if q < 0.12:
            out.append(rng.choice("\\\"'"))
        elif q < 0.22:
            out.append(rng.choice("#(),:=%?/*{}[]<>;& "))
        elif q < 0.32:
            out.append(rng.choice(UNICODE_POOL))
        else:
            out.append(rng.choice(ASCII_PRINTABLE))
    s = "".join(out)
    assert s.isprintable()
    return s


def _py_ctl(rng, ch: str) -> str:
    """one of the Python spellings of a control character inside a (non-raw) string literal; every spelling has a fixed
    number of digits, so that a digit that follows is not absorbed"""
    o = ord(ch)
    named = {"\n": "\\n", "\r": "\\r", "\t": "\\t", "\a": "\\a", "\b": "\\b", "\f": "\\f", "\v": "\\v"}
    opts = ["\\x%02x" % o, "\\%03o" % o, "\\u%04x" % o] if o < 0x100 else ["\\u%04x" % o]
    if ch in named:
        opts += [named[ch]] * 3
    return rng.choice(opts)


def _is_ctl(ch: str) -> bool:
    """must be written as an escape in the Python source: the C0 controls and DEL, and the other characters str.splitlines() cuts
    at (NEL, LS, PS) - the transpiler reads the script line by line and silently drops the pieces (C07's business)"""
    return ord(ch) < 0x20 or ord(ch) == 0x7F or ch in "\x85\u2028\u2029"


def _py_body(rng, s: str, quote: str, braces=False) -> str:
    out = []
    for ch in s:
        if ch == "\\":
            out.append("\\\\")
        elif ch == quote:
            out.append("\\" + quote)
        elif _is_ctl(ch):
            out.append(_py_ctl(rng, ch))
        elif braces and ch in "{}":
            out.append(ch * 2)
        else:
            out.append(ch)
    return "".join(out)


def py_literal(rng, s: str, allow_fprefix=False) -> str:
    """render the value s as a Python string literal (value-preserving); several spellings; control characters are written
    as escapes (a raw line end cannot stand inside a one-line literal)"""
    style = rng.randint(0, 3)
    if style == 1:
        return "'" + _py_body(rng, s, "'") + "'"
    if style == 2:
        return repr(s)
    return '"' + _py_body(rng, s, '"') + '"'


def fstring_literal(rng, parts) -> str:
    """parts: list of ('s', text) | ('e', expr_src).  Rendered as an f"..." literal."""
    out = []
    for kind, val in parts:
        if kind == "s":
            out.append(_py_body(rng, val, '"', braces=True))
        else:
            out.append("{" + val + "}")
    return 'f"' + "".join(out) + '"'


def gen_any_string(rng, maxlen=12):
    """any string: the printable generator with control characters (0x00..0x1f, 0x7f; line ends and tab most often) mixed in,
    often right before a digit / hex digit / backslash / quote"""
    s = list(gen_printable(rng, maxlen))
    for _ in range(rng.choice([0, 1, 1, 2, 3])):
        q = rng.random()
        ch = rng.choice("\n\r\t") if q < 0.5 else (chr(rng.randrange(0, 32)) if q < 0.9 else "\x7f")
        k = rng.randint(0, len(s))
        s.insert(k, ch)
        if rng.random() < 0.4:
            s.insert(k + 1, rng.choice("0178afx\\\"n"))
    return "".join(s)


# ----------------------------------------------------------------------------- names
CPP_RESERVED = {
    "alignas", "alignof", "and", "and_eq", "asm", "auto", "bitand", "bitor", "bool", "break", "case", "catch", "char", "char16_t",
    "char32_t", "class", "compl", "const", "constexpr", "const_cast", "continue", "decltype", "default", "delete", "do", "double",
    "dynamic_cast", "else", "enum", "explicit", "export", "extern", "false", "float", "for", "friend", "goto", "if", "inline", "int",
    "long", "mutable", "namespace", "new", "noexcept", "not", "not_eq", "nullptr", "operator", "or", "or_eq", "private", "protected",
    "public", "register", "reinterpret_cast", "return", "short", "signed", "sizeof", "static", "static_assert", "static_cast", "struct",
    "switch", "template", "this", "thread_local", "throw", "true", "try", "typedef", "typeid", "typename", "union", "unsigned", "using",
    "virtual", "void", "volatile", "wchar_t", "while", "xor", "xor_eq",
}
ARDUINO_NAMES = {
    "HIGH", "LOW", "INPUT", "OUTPUT", "INPUT_PULLUP", "LED_BUILTIN", "PI", "DEC", "HEX", "OCT", "BIN", "F", "PROGMEM", "PSTR",
    "A0", "A1", "A2", "A3", "A4", "A5", "A6", "A7", "byte", "boolean", "word", "String", "Serial", "Servo", "LiquidCrystal",
    "LiquidCrystal_I2C", "Wire", "pinMode", "digitalWrite", "digitalRead", "analogWrite", "analogRead", "delay", "delayMicroseconds",
    "millis", "micros", "pulseIn", "tone", "noTone", "random", "randomSeed", "map", "min", "max", "abs", "setup", "loop", "main",
    "size_t", "uint8_t", "strlen", "printf", "exit", "time", "index", "round", "floor", "ceil", "sqrt", "pow", "sin", "cos", "tan",
    "log", "exp", "y0", "y1", "yn", "j0", "j1", "jn", "gamma", "remove", "rename", "signal", "div", "std", "NULL", "EOF", "stdin", "stdout",
    "constrain", "sq", "radians", "degrees", "bit", "lowByte", "highByte", "interrupts", "noInterrupts", "isnan", "isinf", "free", "malloc",
    "rand", "abort", "system", "atoi", "atof", "atol", "link", "unlink", "read", "write", "open", "close", "pipe", "dup", "nice", "sleep", "pause", "alarm", "sync", "access",
}
# names of the C library that the hosted mock core (and avr-libc through Arduino.h) declares at file scope; the transpiler does not
# know them (F-C06-libc-name-identifier): the generators never declare them
LIBC_NAMES = {
    "EOF", "abort", "access", "alarm", "atof", "atoi", "atol", "close", "div", "dup", "exit", "free", "gamma", "index", "j0", "j1", "jn",
    "link", "malloc", "nice", "open", "pause", "pipe", "printf", "rand", "read", "remove", "rename", "signal", "sleep", "std", "stdin",
    "stdout", "strlen", "sync", "system", "time", "unlink", "write", "y0", "y1", "yn",
}
# what the transpiler refuses to declare since the repair of F-C06-cpp-keyword-identifier (ValueError "identifier ... is reserved in
# C++"): the C++ keywords, the entry points of the sketch and the identifiers of the Arduino core.  The harness keeps its OWN list (it
# must not follow a mutated parser): a script that declares one of these is inside the guard - it is either rejected or it compiles.
REJECTED_NAMES = (CPP_RESERVED | ARDUINO_NAMES) - LIBC_NAMES
VAR_POOL = ["count", "total", "n", "k", "idx", "level", "speed", "angle", "ratio", "flag", "ready", "msg", "label", "name", "text",
            "value", "reading", "dist", "temp", "acc", "lo", "hi", "step", "a", "b", "c", "d", "x", "y", "z", "w", "q", "t1", "t2",
            "samples", "items", "vals", "pattern", "note", "mode_s", "state", "limit", "delta", "gain", "offs", "pct", "tmp_v"]
FN_POOL = ["helper", "compute", "scale_it", "clampv", "show", "announce", "blink_n", "tick", "update", "avg2", "pick", "fmt", "beep_n", "stepper", "report"]


def ok_name(n: str) -> bool:
    return n.isidentifier() and not keyword.iskeyword(n) and n not in CPP_RESERVED and n not in ARDUINO_NAMES and not n.startswith("__")


# ----------------------------------------------------------------------------- environment
NUM = ("int", "float", "bool")


class Var:
    def __init__(self, name, ty):
        self.name, self.ty = name, ty


class Env:
    def __init__(self, rng, opts):
        self.rng = rng
        self.o = opts
        self.vars = {}           # name -> type label ('int','float','bool','String','list[int]',...)
        self.devs = {}           # kind -> [names]
        self.dev_opts = {}       # name -> dict (e.g. lcd interface/backlight, rows/cols)
        self.funcs = {}          # name -> (param types, ret type or None)
        self.poly = {}           # name -> info of a polymorphic helper (gen_poly_function)
        self.used = set()
        self.in_fn = None        # name of the function being generated
        self.loop_depth = 0
        self.in_main = False
        self.features = {}

    def feat(self, k):
        self.features[k] = self.features.get(k, 0) + 1

    def fresh(self, pool):
        for _ in range(50):
            n = self.rng.choice(pool)
            if self.rng.random() < 0.3:
                n = n + str(self.rng.randint(1, 9))
            if n not in self.used and ok_name(n):
                self.used.add(n)
                return n
        n = f"v{len(self.used)}_{self.rng.randint(0, 999)}"
        self.used.add(n)
        return n

    def vars_of(self, *tys):
        return [n for n, t in self.vars.items() if t in tys]

    def dev(self, kind):
        l = self.devs.get(kind, [])
        return self.rng.choice(l) if l else None

    def clone_scope(self):
        e = Env(self.rng, self.o)
        e.vars = dict(self.vars)
        e.devs = {k: list(v) for k, v in self.devs.items()}
        e.dev_opts = self.dev_opts
        e.funcs = self.funcs
        e.poly = self.poly
        e.pin_vars = getattr(self, "pin_vars", [])
        e.used = self.used
        e.in_fn, e.loop_depth, e.in_main = self.in_fn, self.loop_depth, self.in_main
        e.features = self.features
        return e


# ----------------------------------------------------------------------------- expressions
def lit_int(rng):
    return str(rng.choice([0, 1, 2, 3, 5, 7, 10, 16, 42, 100, 127, 128, 255, 256, 500, 1023, 1000, 30000]))


def lit_float(rng):
    return rng.choice(["0.0", "0.5", "1.0", "1.5", "2.25", "3.75", "10.0", "0.125", "99.5", "0.001", "100.0"])


def gen_num(env, depth, want=None):
    """-> (src, type) of a numeric expression; want in {None,'int','float','bool'} is a preference only
    (all numeric types inter-convert in C++)."""
    rng = env.rng
    want = want or rng.choice(["int", "int", "float", "bool"])
    if want == "bool":
        return gen_bool(env, depth)
    if want == "float":
        return gen_float(env, depth)
    return gen_int(env, depth)


def gen_int(env, depth):
    rng = env.rng
    choices = ["lit", "lit"]
    if env.vars_of("int"):
        choices += ["var"] * 4
    if depth > 0:
        choices += ["bin", "bin", "abs", "minmax", "cast", "neg", "ifexp", "int-of-literals"]
        if env.vars_of("String") or any(t.startswith("list[") for t in env.vars.values()):
            choices += ["len"]
        choices += ["aread", "dread"]
        for k, g in (("Potentiometer", "pot"), ("Button", "btn"), ("Led", "ledb")):
            if env.devs.get(k):
                choices.append(g)
        if [f for f, (p, r) in env.funcs.items() if r == "int" and f != env.in_fn]:
            choices += ["call", "call"]
        if env.vars_of("list[int]"):
            choices += ["idx", "idx"]
    c = rng.choice(choices)
    if c == "lit":
        return lit_int(rng), "int"
    if c == "var":
        return rng.choice(env.vars_of("int")), "int"
    if c == "bin":
        a, _ = gen_int(env, depth - 1)
        b, _ = gen_int(env, depth - 1)
        op = rng.choice(["+", "-", "*", "+", "-", "//", "%", "&", "|", "^", "<<", ">>"]) if env.o.get("int_ops_all", True) else rng.choice(["+", "-", "*"])
        if op in ("//", "%"):
            b = "(" + b + " + 1)" if not b.isdigit() or b == "0" else b
        env.feat("binop " + op)
        return f"({a} {op} {b})", "int"
    if c == "abs":
        a, _ = gen_int(env, depth - 1)
        env.feat("abs")
        return f"abs({a})", "int"
    if c == "minmax":
        a, _ = gen_int(env, depth - 1)
        b, _ = gen_int(env, depth - 1)
        f = rng.choice(["min", "max"])
        env.feat(f)
        if rng.random() < 0.2:
            c3, _ = gen_int(env, depth - 1)
            return f"{f}({a}, {b}, {c3})", "int"
        return f"{f}({a}, {b})", "int"
    if c == "cast":
        a, _ = gen_float(env, depth - 1)
        env.feat("int()")
        return f"int({a})", "int"
    if c == "neg":
        a, _ = gen_int(env, depth - 1)
        return f"(-{a})", "int"
    if c == "int-of-literals":   # int() of a const char* expression (repaired: F-C01-int-strlit-cond)
        env.feat("int(choice between literals)")
        return f"int({gen_charp(env, depth - 1, numeric=True)})", "int"
    if c == "ifexp":
        cnd, _ = gen_bool(env, depth - 1)
        a, _ = gen_int(env, depth - 1)
        b, _ = gen_int(env, depth - 1)
        env.feat("ifexp int")
        return f"({a} if {cnd} else {b})", "int"
    if c == "len":
        cands = env.vars_of("String") + [n for n, t in env.vars.items() if t.startswith("list[")]
        env.feat("len(var)")
        return f"len({rng.choice(cands)})", "int"
    if c == "aread":
        env.feat("analog_read")
        return rng.choice(['analog_read("A0")', 'analog_read("A3")', "analog_read(1)"]), "int"
    if c == "dread":
        env.feat("digital_read")
        return f"digital_read({rng.choice([2, 3, 4, 7])})", "int"
    if c == "pot":
        env.feat("pot.read")
        return f"{env.dev('Potentiometer')}.read()", "int"
    if c == "btn":
        env.feat("btn.is_pressed")
        return f"{env.dev('Button')}.is_pressed()", "int"
    if c == "ledb":
        env.feat("led.get_brightness")
        return f"{env.dev('Led')}.get_brightness()", "int"
    if c == "call":
        return gen_call(env, depth, "int"), "int"
    if c == "idx":
        l = rng.choice(env.vars_of("list[int]"))
        i = rng.choice(["0", "1", "-1"]) if rng.random() < 0.6 or not env.vars_of("int") else rng.choice(env.vars_of("int"))
        env.feat("list index")
        return f"{l}[{i}]", "int"
    raise AssertionError(c)


def gen_float(env, depth):
    rng = env.rng
    choices = ["lit", "lit"]
    if env.vars_of("float"):
        choices += ["var"] * 4
    if depth > 0:
        choices += ["bin", "bin", "cast", "div", "ifexp"]
        if env.devs.get("Ultrasonic"):           # also inside user functions (prototypes: fix of F-C06-fn-uses-ultrasonic)
            choices += ["ultra", "ultra"]
        if env.devs.get("Servo"):
            choices += ["servo"]
        if [f for f, (p, r) in env.funcs.items() if r == "float" and f != env.in_fn]:
            choices += ["call", "call"]
        if env.vars_of("list[float]"):
            choices += ["idx"]
    c = rng.choice(choices)
    if c == "lit":
        return lit_float(rng), "float"
    if c == "var":
        return rng.choice(env.vars_of("float")), "float"
    if c == "bin":
        a, _ = gen_float(env, depth - 1)
        b, _ = (gen_float if rng.random() < 0.6 else gen_int)(env, depth - 1)
        op = rng.choice(["+", "-", "*", "/"])
        if op == "/":
            b = "(" + b + " + 1.5)"
        if rng.random() < 0.5:
            a, b = (b, a) if op in "+*" else (a, b)
        env.feat("float binop " + op)
        return f"({a} {op} {b})", "float"
    if c == "cast":
        a, _ = gen_int(env, depth - 1)
        env.feat("float()")
        return f"float({a})", "float"
    if c == "div":
        a, _ = gen_int(env, depth - 1)
        env.feat("int / float-lit")
        return f"({a} / {rng.choice(['4.0', '1023.0', '2.5'])})", "float"
    if c == "ifexp":
        cnd, _ = gen_bool(env, depth - 1)
        a, _ = gen_float(env, depth - 1)
        b, _ = gen_float(env, depth - 1)
        env.feat("ifexp float")
        return f"({a} if {cnd} else {b})", "float"
    if c == "ultra":
        env.feat("u.measure_distance")
        return f"{env.dev('Ultrasonic')}.measure_distance()", "float"
    if c == "servo":
        env.feat("servo.read")
        return f"{env.dev('Servo')}.{rng.choice(['read', 'read_us'])}()", "float"
    if c == "call":
        return gen_call(env, depth, "float"), "float"
    if c == "idx":
        l = rng.choice(env.vars_of("list[float]"))
        env.feat("list index")
        return f"{l}[{rng.choice(['0', '1', '-1'])}]", "float"
    raise AssertionError(c)


def gen_bool(env, depth):
    rng = env.rng
    choices = ["lit"]
    if env.vars_of("bool"):
        choices += ["var"] * 3
    if depth > 0:
        choices += ["cmp"] * 4 + ["and", "or", "not", "chain"]
        if env.vars_of("String"):
            choices += ["scmp", "scmp"]
        if env.devs.get("Led"):
            choices += ["led"]
        if env.devs.get("Button"):
            choices += ["btn", "btn"]
        if [f for f, (p, r) in env.funcs.items() if r == "bool" and f != env.in_fn]:
            choices += ["call"]
    c = rng.choice(choices)
    if c == "lit":
        return rng.choice(["True", "False"]), "bool"
    if c == "var":
        return rng.choice(env.vars_of("bool")), "bool"
    if c == "cmp":
        g = gen_float if rng.random() < 0.3 else gen_int
        a, _ = g(env, depth - 1)
        b, _ = g(env, depth - 1)
        op = rng.choice(["<", "<=", ">", ">=", "==", "!="])
        env.feat("compare")
        return f"({a} {op} {b})", "bool"
    if c == "chain":
        a, _ = gen_int(env, depth - 1)
        b, _ = gen_int(env, depth - 1)
        c3, _ = gen_int(env, depth - 1)
        env.feat("chained compare")
        return f"({a} < {b} <= {c3})", "bool"
    if c in ("and", "or"):
        a, _ = gen_bool(env, depth - 1)
        b, _ = gen_bool(env, depth - 1)
        env.feat("boolop")
        return f"({a} {c} {b})", "bool"
    if c == "not":
        a, _ = gen_bool(env, depth - 1)
        env.feat("not")
        return f"(not {a})", "bool"
    if c == "scmp":
        s = rng.choice(env.vars_of("String"))
        lit = py_literal(rng, gen_printable(rng, 6))
        op = rng.choice(["==", "!="])
        env.feat("string compare")
        return f"({s} {op} {lit})", "bool"
    if c == "led":
        env.feat("led.get_state")
        return f"{env.dev('Led')}.get_state()", "bool"
    if c == "btn":
        env.feat("btn.is_pressed")
        return f"({env.dev('Button')}.is_pressed() == 1)", "bool"
    if c == "call":
        return gen_call(env, depth, "bool"), "bool"
    raise AssertionError(c)


def gen_str_literal(env):
    env.feat("string literal")
    return py_literal(env.rng, gen_printable(env.rng))


def gen_charp(env, depth, numeric=False):
    """an expression the emitter prints as const char*: a literal, an f-string without fields, a choice between such"""
    rng = env.rng
    if depth <= 0 or rng.random() < 0.5:
        if numeric:
            return rng.choice(['"12"', '"13"', '"-3"', '" 7 "', '"0"', '"+41"', 'f"25"'])
        txt = gen_printable(rng, 6)
        if rng.random() < 0.2:
            return fstring_literal(rng, [("s", txt)])
        return py_literal(rng, txt)
    cnd, _ = gen_bool(env, depth - 1)
    return f"({gen_charp(env, depth - 1, numeric)} if {cnd} else {gen_charp(env, depth - 1, numeric)})"


def gen_str(env, depth, allow_literal=True):
    """-> (src, 'String', is_literal)"""
    rng = env.rng
    choices = []
    if allow_literal:
        choices += ["lit"] * 3
    if env.vars_of("String"):
        choices += ["var"] * 3
    if depth > 0:
        choices += ["str()", "fstr", "fstr", "litcat"]
        if env.vars_of("String"):
            choices += ["concat", "concat", "ifexp"]
        if env.devs.get("SerialMonitor") and env.o.get("mon_read", True):
            choices += ["read"]
        if [f for f, (p, r) in env.funcs.items() if r == "String" and f != env.in_fn]:
            choices += ["call", "call"]
        if env.vars_of("list[String]"):
            choices += ["idx"]
    if not choices:
        choices = ["str()"]
    c = rng.choice(choices)
    if c == "lit":
        return gen_str_literal(env), "String", True
    if c == "var":
        return rng.choice(env.vars_of("String")), "String", False
    if c == "str()":
        a, _ = gen_num(env, max(depth - 1, 0), rng.choice(["int", "float"]))
        env.feat("str()")
        return f"str({a})", "String", False
    if c == "fstr":
        parts = []
        for _ in range(rng.randint(1, 4)):
            if rng.random() < 0.5:
                parts.append(("s", gen_printable(rng, 6)))
            else:
                k = rng.random()
                if k < 0.5 or not env.vars_of("String"):
                    e, _ = gen_num(env, 0)
                    if " " in e or not (e.replace("_", "").isalnum()):
                        e, _ = (lit_int(rng), "int")
                else:
                    e = rng.choice(env.vars_of("String"))
                parts.append(("e", e))
        env.feat("f-string")
        return fstring_literal(rng, parts), "String", False
    if c == "concat":
        s = rng.choice(env.vars_of("String"))
        k = rng.random()
        env.feat("string concat")
        if k < 0.4:
            return f"({s} + {gen_str_literal(env)})", "String", False
        if k < 0.6:
            return f"({gen_str_literal(env)} + {s})", "String", False
        if k < 0.8:
            a, _ = gen_int(env, 0)
            return f"({s} + str({a}))", "String", False
        return f"({s} + {rng.choice(env.vars_of('String'))})", "String", False
    if c == "litcat":       # `+` of two const char* expressions (repaired: F-C06-literal-concat)
        a, b = gen_charp(env, depth - 1), gen_charp(env, depth - 1)
        env.feat("literal + literal")
        k = rng.random()
        if k < 0.5:
            return f"({a} + {b})", "String", False
        if k < 0.65:
            return f"(({a} + {b}) + {gen_charp(env, depth - 1)})", "String", False
        if k < 0.8:
            return f"({a} + ({b} + {gen_charp(env, depth - 1)}))", "String", False
        if env.vars_of("String"):
            sv = rng.choice(env.vars_of("String"))
            return (f"(({a} + {b}) + {sv})" if k < 0.9 else f"({sv} + ({a} + {b}))"), "String", False
        return f"({a} + {b})", "String", False
    if c == "ifexp":
        cnd, _ = gen_bool(env, depth - 1)
        s = rng.choice(env.vars_of("String"))
        t = rng.choice(env.vars_of("String"))
        env.feat("ifexp String")
        return f"({s} if {cnd} else {t})", "String", False
    if c == "read":
        env.feat("mon.read")
        return f"{env.dev('SerialMonitor')}.read()", "String", False
    if c == "call":
        return gen_call(env, depth, "String"), "String", False
    if c == "idx":
        env.feat("list index")
        return f"{rng.choice(env.vars_of('list[String]'))}[{rng.choice(['0', '1'])}]", "String", False
    raise AssertionError(c)


def gen_typed(env, depth, ty):
    if ty == "int":
        return gen_int(env, depth)[0]
    if ty == "float":
        return gen_float(env, depth)[0]
    if ty == "bool":
        return gen_bool(env, depth)[0]
    if ty == "String":
        return gen_str(env, depth)[0]
    raise AssertionError(ty)


def gen_exact(env, ty):
    """an argument whose *C++* type is exactly ty (for append/remove/function arguments)"""
    rng = env.rng
    vs = env.vars_of(ty)
    if ty == "int":
        return rng.choice(vs) if vs and rng.random() < 0.5 else lit_int(rng)
    if ty == "bool":
        return rng.choice(vs) if vs and rng.random() < 0.5 else rng.choice(["True", "False"])
    if ty == "float":
        return rng.choice(vs) if vs else None
    if ty == "String":
        return rng.choice(vs) if vs else None
    return None


def gen_call(env, depth, ret):
    rng = env.rng
    f = rng.choice([f for f, (p, r) in env.funcs.items() if r == ret and f != env.in_fn])
    params, _ = env.funcs[f]
    args = []
    for pt in params:
        if pt == "String":
            s, _, _ = gen_str(env, 0)
            args.append(s)
        elif pt.startswith("list["):
            args.append(rng.choice(env.vars_of(pt)))
        else:
            args.append(gen_typed(env, max(depth - 1, 0), pt))
    env.feat("user function call")
    return f"{f}({', '.join(args)})"


# ----------------------------------------------------------------------------- device method tables
def num_arg(env, kind="int", runtime_p=0.45):
    """argument for a device call: literal or run-time expression"""
    rng = env.rng
    if rng.random() < runtime_p:
        env.feat("device arg runtime")
        return gen_typed(env, 1, kind)
    env.feat("device arg literal")
    return lit_float(rng) if kind == "float" else lit_int(rng)


def kw(rng, name, val, p=0.5):
    return f"{name}={val}" if rng.random() < p else val


def call_with(rng, fn, req, opt):
    """req: list of (kwname, value) positional-or-keyword; opt: list of (kwname, value) optional.
    Emits a valid Python call: positionals first, then keywords."""
    args = []
    kwmode = False
    items = list(req)
    for o in opt:
        if rng.random() < 0.5:
            items.append(o)
        else:
            kwmode_after = True
            # skipping an optional forces keywords for the following ones
            items.append(None)
    pos_ok = True
    for it in items:
        if it is None:
            pos_ok = False
            continue
        name, val = it
        if pos_ok and not kwmode and rng.random() < 0.6:
            args.append(val)
        else:
            kwmode = True
            args.append(f"{name}={val}")
    return f"{fn}({', '.join(args)})"


def dev_stmt(env, kind, name):
    """one statement (list of lines) using device `name` of `kind`; returns None if none applies"""
    rng = env.rng
    A = lambda k="int": num_arg(env, k)
    if kind == "Led":
        m = rng.choice(["on", "off", "toggle", "set_brightness", "blink", "fade_in", "fade_out", "flash_pattern"])
        env.feat("Led." + m)
        if m in ("on", "off", "toggle"):
            return [f"{name}.{m}()"]
        if m == "set_brightness":
            return [call_with(rng, f"{name}.{m}", [("value", A())], [])]
        if m == "blink":
            return [call_with(rng, f"{name}.{m}", [("duration_ms", A())], [("times", A())])]
        if m in ("fade_in", "fade_out"):
            return [call_with(rng, f"{name}.{m}", [], [("step", A()), ("delay_ms", A())])]
        if m == "flash_pattern":
            pat = "[" + ", ".join(rng.choice("01") for _ in range(rng.randint(0, 6))) + "]"
            lists = [n for n in env.o.get("const_patterns", []) if n in env.vars]
            if lists and rng.random() < 0.3:
                pat = rng.choice(lists)
            return [call_with(rng, f"{name}.{m}", [("pattern", pat)], [("delay_ms", A())])]
    if kind == "RGBLed":
        m = rng.choice(["set_color", "on", "off", "fade", "blink"])
        env.feat("RGBLed." + m)
        if m == "off":
            return [f"{name}.off()"]
        if m == "on":
            return [f"{name}.on()"] if rng.random() < 0.5 else [f"{name}.on({A()}, {A()}, {A()})"]
        rgb = [("red", A()), ("green", A()), ("blue", A())]
        if m == "set_color":
            return [call_with(rng, f"{name}.{m}", rgb, [])]
        if m == "fade":
            return [call_with(rng, f"{name}.{m}", rgb, [("duration_ms", A()), ("steps", A())])]
        if m == "blink":
            return [call_with(rng, f"{name}.{m}", rgb, [("times", A()), ("delay_ms", A())])]
    if kind == "Buzzer":
        m = rng.choice(["play_tone", "stop", "beep", "sweep", "melody"])
        env.feat("Buzzer." + m)
        if m == "stop":
            return [f"{name}.stop()"]
        if m == "play_tone":
            return [call_with(rng, f"{name}.{m}", [("frequency", A(rng.choice(["int", "float"])))], [("duration_ms", A())])]
        if m == "beep":
            return [call_with(rng, f"{name}.{m}", [], [("frequency", A()), ("on_ms", A()), ("off_ms", A()), ("times", A())])]
        if m == "sweep":
            return [call_with(rng, f"{name}.{m}", [("start_hz", A()), ("end_hz", A()), ("duration_ms", A())], [("steps", A())])]
        if m == "melody":
            mel = rng.choice(["success", "error", "startup", "notify", "alarm", "scale_c", "siren"])
            q = rng.choice(['"', "'"])
            return [call_with(rng, f"{name}.{m}", [("name", q + mel + q)], [("tempo", A(rng.choice(["int", "float"])))])]
    if kind == "Servo":
        m = rng.choice(["write", "write_us"])
        env.feat("Servo." + m)
        if m == "write":
            return [f"{name}.write({kw(rng, 'angle', A(rng.choice(['int', 'float'])), 0.2)})"]
        return [f"{name}.write_us({kw(rng, 'pulse_us', A(), 0.2)})"]
    if kind == "DCMotor":
        m = rng.choice(["set_speed", "backward", "stop", "coast", "invert", "ramp", "run_for"])
        env.feat("DCMotor." + m)
        if m in ("stop", "coast", "invert"):
            return [f"{name}.{m}()"]
        if m == "set_speed":
            return [f"{name}.set_speed({A('float')})"]
        if m == "backward":
            return [f"{name}.backward()"] if rng.random() < 0.4 else [f"{name}.backward({kw(rng, 'speed', A('float'))})"]
        if m == "ramp":
            return [call_with(rng, f"{name}.{m}", [("target_speed", A("float")), ("duration_ms", A())], [])]
        if m == "run_for":
            return [call_with(rng, f"{name}.{m}", [("duration_ms", A()), ("speed", A("float"))], [])]
    if kind == "LCD":
        o = env.dev_opts[name]
        ms = ["write", "line", "message", "clear", "display", "backlight", "glyph", "progress", "animate"]
        if o.get("backlight_pin"):
            ms.append("brightness")
        m = rng.choice(ms)
        env.feat("LCD." + m)
        txt = lambda: gen_str(env, 1)[0]
        align = lambda: rng.choice(['"left"', '"center"', "'right'", '"LEFT"', '"Center"'])
        row = lambda: (str(rng.randint(0, o["rows"] - 1)) if rng.random() < 0.7 else gen_int(env, 1)[0])
        if m == "clear":
            return [f"{name}.clear()"]
        if m in ("display", "backlight"):
            v = rng.choice(["True", "False"]) if rng.random() < 0.7 else gen_bool(env, 1)[0]
            return [f"{name}.{m}({kw(rng, 'on', v, 0.3)})"]
        if m == "brightness":
            return [f"{name}.brightness({kw(rng, 'level', A(), 0.3)})"]
        if m == "write":
            args = [A() if rng.random() < 0.3 else str(rng.randint(0, 5)), row(), txt()]
            if rng.random() < 0.4:
                args.append("clear_row=" + rng.choice(["True", "False"]))
            if rng.random() < 0.4:
                args.append("align=" + align())
            return [f"{name}.write({', '.join(args)})"]
        if m == "line":
            args = [row(), txt()]
            if rng.random() < 0.4:
                args.append("align=" + align())
            if rng.random() < 0.3:
                args.append("clear_row=" + rng.choice(["True", "False"]))
            return [f"{name}.line({', '.join(args)})"]
        if m == "message":
            k = rng.random()
            args = []
            if k < 0.4:
                args = [txt(), txt()]
            elif k < 0.6:
                args = [txt(), "bottom=" + txt()]
            elif k < 0.75:
                args = ["top=" + txt(), "bottom=None"]
            elif k < 0.9:
                args = [txt()]
            else:
                args = ["bottom=" + txt()]
            if rng.random() < 0.3:
                args.append("top_align=" + align())
            if rng.random() < 0.3:
                args.append("bottom_align=" + align())
            if rng.random() < 0.2:
                args.append("clear_rows=" + rng.choice(["True", "False"]))
            return [f"{name}.message({', '.join(args)})"]
        if m == "glyph":
            bm = "[" + ", ".join(str(rng.randint(0, 31)) for _ in range(8)) + "]"
            return [f"{name}.glyph({rng.randint(0, 7)}, {bm})"]
        if m == "progress":
            args = [row(), A()]
            if rng.random() < 0.5:
                args.append("max_value=" + rng.choice(["100", "255", "1023"]))
            if rng.random() < 0.4:
                args.append("width=" + str(rng.randint(1, o["cols"])))
            if rng.random() < 0.4:
                args.append("label=" + txt())
            if rng.random() < 0.4:
                args.append("style=" + rng.choice(['"block"', '"hash"', "'pipe'", '"dot"']))
            return [f"{name}.progress({', '.join(args)})"]
        if m == "animate":
            st = rng.choice(["scroll", "blink", "typewriter", "bounce"])
            args = [f'"{st}"', row(), txt()]
            if rng.random() < 0.5:
                args.append("speed_ms=" + A())
            if rng.random() < 0.5:
                args.append("loop=" + rng.choice(["True", "False"]))
            return [f"{name}.animate({', '.join(args)})"]
    if kind == "SerialMonitor":
        k = rng.random()
        env.feat("mon.write")
        if k < 0.45:
            s, _, _ = gen_str(env, 2)
            return [f"{name}.write({s})"]
        if k < 0.9:
            return [f"{name}.write({gen_num(env, 2)[0]})"]
        return [f"{name}.write()"]
    if kind in ("Button", "Potentiometer", "Ultrasonic"):
        return None
    return None


# ----------------------------------------------------------------------------- statements
def assign_new(env, ty=None, global_ok=True):
    rng = env.rng
    ty = ty or rng.choice(["int", "int", "float", "bool", "String", "String"])
    name = env.fresh(VAR_POOL)
    src = gen_typed(env, 2, ty)
    env.vars[name] = ty
    env.feat("declare " + ty)
    return [f"{name} = {src}"]


def stmt(env, depth):
    """-> list of source lines (relative indentation with 4 spaces)"""
    rng = env.rng
    kinds = ["assign_new"] * 3 + ["assign_old"] * 3 + ["aug"] * 2 + ["dev"] * 8 + ["serial"] * 3 + ["sleep", "core", "print"]
    if depth > 0:
        kinds += ["if"] * 4 + ["for"] * 2 + ["while", "try"]
    if len(env.vars) >= 2:
        kinds += ["tuple"]
    kinds += ["tuple_new"]
    if any(t.startswith("list[") for t in env.vars.values()):
        kinds += ["listop"] * 3
    kinds += ["listnew"]
    if env.funcs:
        kinds += ["callstmt"] * 2
    if poly_callable(env):
        kinds += ["polycall"] * (6 if env.o.get("poly") else 3)
    if env.loop_depth > 0:
        kinds += ["break_or_continue"]
    k = rng.choice(kinds)
    if k == "assign_new":
        return assign_new(env)
    if k == "assign_old":
        if not env.vars:
            return assign_new(env)
        name = rng.choice(list(env.vars))
        ty = env.vars[name]
        if ty.startswith("list["):
            return stmt(env, depth)
        # (no int/bool value into a float variable: the transpiler then re-labels the variable, and a user function called
        #  with it gets a second overload - listed finding F-C06-overload-ambiguous; guard: one type label per name)
        env.feat("assign existing")
        return [f"{name} = {gen_typed(env, 2, ty)}"]
    if k == "aug":
        cands = env.vars_of("int", "float", "String")
        if not cands:
            return assign_new(env)
        name = rng.choice(cands)
        ty = env.vars[name]
        if ty == "String":
            env.feat("augassign String")
            if rng.random() < 0.6:
                return [f"{name} += {gen_str_literal(env)}"]
            return [f"{name} += {gen_str(env, 1)[0]}"]
        op = rng.choice(["+=", "-=", "*=", "+=", "-="] + (["//=", "%=", "|=", "&=", "<<=", ">>=", "^="] if ty == "int" else ["/="]))
        env.feat("augassign " + op)
        rhs = gen_typed(env, 1, "int" if ty == "int" else rng.choice(["int", "float"]))
        if op in ("//=", "%=", "/="):
            rhs = f"({rhs} + 1)"
        return [f"{name} {op} {rhs}"]
    if k == "dev":
        avail = [(kd, n) for kd, ns in env.devs.items() for n in ns if kd not in ("Button", "Potentiometer", "Ultrasonic")]
        if not avail:
            return assign_new(env)
        kd, n = rng.choice(avail)
        r = dev_stmt(env, kd, n)
        return r or assign_new(env)
    if k == "serial":
        n = env.dev("SerialMonitor")
        if not n:
            return assign_new(env)
        return dev_stmt(env, "SerialMonitor", n)
    if k == "sleep":
        env.feat("sleep")
        return [f"sleep({num_arg(env, rng.choice(['int', 'int', 'float']))})"]
    if k == "print":
        env.feat("print")
        return [f"print({gen_str(env, 1)[0] if rng.random() < 0.5 else gen_num(env, 1)[0]})"]
    if k == "core":
        c = rng.choice(["pin_mode", "digital_write", "analog_write", "dw_read"])
        env.feat("core " + c)
        if c == "pin_mode":
            return [f"pin_mode({rng.choice([2, 3, 4, 7, 8])}, {rng.choice(['OUTPUT', 'INPUT', 'INPUT_PULLUP'])})"]
        if c == "digital_write":
            return [f"digital_write({rng.choice([2, 3, 4, 7, 8])}, {rng.choice(['HIGH', 'LOW', '1', '0'])})"]
        if c == "analog_write":
            return [f"analog_write({rng.choice([3, 5, 6, 9])}, {num_arg(env)})"]
        return [f"digital_write({rng.choice([7, 8])}, digital_read({rng.choice([2, 3])}))"]
    if k == "tuple":
        names = rng.sample(list(env.vars), 2)
        a, b = names
        ta, tb = env.vars[a], env.vars[b]
        if ta.startswith("list[") or tb.startswith("list["):
            return assign_new(env)
        if ta == tb and rng.random() < 0.5:       # same type only: swapping an int with a float makes later int-only operations invalid PYTHON
            env.feat("tuple swap")
            return [f"{a}, {b} = {b}, {a}"]
        env.feat("tuple assign")
        return [f"{a}, {b} = {gen_typed(env, 1, ta)}, {gen_typed(env, 1, tb)}"]
    if k == "tuple_new":
        # both names new: plain declarations (globals at top level, locals elsewhere) - inside the guard
        ta, tb = rng.choice(["int", "float", "bool", "String"]), rng.choice(["int", "int", "float", "String"])
        ea, eb = gen_typed(env, 1, ta), gen_typed(env, 1, tb)
        a, b = env.fresh(VAR_POOL), env.fresh(VAR_POOL)
        env.vars[a], env.vars[b] = ta, tb
        env.feat("tuple all-new")
        return [f"{a}, {b} = {ea}, {eb}"]
    if k == "listnew":
        return list_new(env)
    if k == "listop":
        return list_op(env)
    if k == "callstmt":
        cands = [f for f in env.funcs if f != env.in_fn]
        if not cands:
            return assign_new(env)
        f = rng.choice(cands)
        params, ret = env.funcs[f]
        env.funcs_tmp = None
        src = gen_call_named(env, f)
        env.feat("call statement")
        if ret and rng.random() < 0.5:
            name = env.fresh(VAR_POOL)
            env.vars[name] = ret
            return [f"{name} = {src}"]
        return [src]
    if k == "polycall":
        return poly_call_stmt(env)
    if k == "break_or_continue":
        c, _ = gen_bool(env, 1)
        # never at depth 1 of the main loop (the parser rejects break there); continue is fine anywhere in a loop
        word = "continue" if (env.in_main and env.loop_depth == 1) or rng.random() < 0.4 else "break"
        env.feat(word)
        return [f"if {c}:", f"    {word}"]
    if k == "if":
        return if_stmt(env, depth)
    if k == "for":
        return for_stmt(env, depth)
    if k == "while":
        return while_stmt(env, depth)
    if k == "try":
        return try_stmt(env, depth)
    raise AssertionError(k)


def gen_call_named(env, f):
    params, _ = env.funcs[f]
    args = []
    for pt in params:
        if pt == "String":
            args.append(gen_str(env, 0)[0])
        elif pt.startswith("list["):
            args.append(env.rng.choice(env.vars_of(pt)))
        else:
            args.append(gen_typed(env, 1, pt))
    env.feat("user function call")
    return f"{f}({', '.join(args)})"


def list_new(env):
    rng = env.rng
    name = env.fresh(["items", "vals", "samples", "pattern", "names", "levels", "flags", "seq", "buf", "xs", "ys"])
    k = rng.random()
    if k < 0.35:
        n = rng.randint(0, 5)
        elems = ', '.join(lit_int(rng) if rng.random() < 0.7 else gen_int(env, 1)[0] for _ in range(n))
        env.vars[name] = "list[int]"
        env.feat("list literal int")
        return [f"{name} = [{elems}]"]
    if k < 0.5:
        env.vars[name] = "list[float]"
        env.feat("list literal float")
        return [f"{name} = [{', '.join(lit_float(rng) for _ in range(rng.randint(1, 4)))}]"]
    if k < 0.6:
        env.vars[name] = "list[bool]"
        env.feat("list literal bool")
        return [f"{name} = [{', '.join(rng.choice(['True', 'False']) for _ in range(rng.randint(1, 4)))}]"]
    if k < 0.75:
        elems = ', '.join(gen_str_literal(env) for _ in range(rng.randint(1, 4)))
        env.vars[name] = "list[String]"
        env.feat("list literal String")
        return [f"{name} = [{elems}]"]
    # comprehension over range
    v = rng.choice(["i", "j", "e"])
    while v in env.vars or v in env.used:
        v = v + "x"
    # the comprehension variable lives in the comprehension only: every third one re-uses the name of a variable that exists
    # already (of any type - the variable keeps its type and its declaration; harness/c06_comp.py is the systematic part)
    outer = [n for n in env.vars if n != name and ok_name(n)]
    if outer and rng.random() < 0.35:
        v = rng.choice(outer)
        env.feat("list comprehension over the name of an outer variable (" + env.vars[v].split("[")[0] + ")")
    rngarg = lit_int(rng) if rng.random() < 0.6 or not env.vars_of("int") else rng.choice(env.vars_of("int"))
    k2 = rng.random()
    if k2 < 0.25:             # range() with two / three arguments, a negative step
        lo, hi = rng.randint(0, 3), rng.randint(4, 9)
        rngarg = rng.choice([f"{lo}, {hi}", f"{lo}, {hi}, 2", f"{hi}, {lo}, -1", f"{lo}, {rngarg}"])
        env.feat("list comprehension over range() with 2-3 arguments")
    k3 = rng.random()
    if k3 < 0.55:
        body = rng.choice([f"{v} * {v}", f"{v} + 1", f"{v}", f"{v} * 2 + {lit_int(rng)}", f"({v} % 3)", f"({v} if {v} > 1 else 0)"])
        env.vars[name] = "list[int]"
    elif k3 < 0.75:
        body = rng.choice([f"{v} * 0.5", f"{v} / 2.0"] + [f"{v} * {f}" for f in env.vars_of("float") if f != v][:2])
        env.vars[name] = "list[float]"
    elif k3 < 0.9:
        body = rng.choice([f"str({v})", gen_str_literal(env), f"str({v}) + {gen_str_literal(env)}"] + [f"str({v}) + {t}" for t in env.vars_of("String") if t != v][:2])
        env.vars[name] = "list[String]"
        env.feat("list comprehension of strings")
    else:
        body = rng.choice([f"{v} > 1", f"{v} % 2 == 0"])
        env.vars[name] = "list[bool]"
        env.feat("list comprehension of bools")
    env.feat("list comprehension")
    return [f"{name} = [{body} for {v} in range({rngarg})]"]


def list_op(env):
    rng = env.rng
    cands = [n for n, t in env.vars.items() if t.startswith("list[")]
    l = rng.choice(cands)
    et = env.vars[l][5:-1]
    k = rng.choice(["append", "remove", "setitem", "len", "read"])
    if k in ("append", "remove"):
        a = gen_exact(env, et)
        if a is None:
            k = "len"
        else:
            env.feat("list." + k)
            return [f"{l}.{k}({a})"]
    if k == "setitem":
        env.feat("list setitem")
        return [f"{l}[{rng.choice(['0', '1', '-1'])}] = {gen_typed(env, 1, et)}"]
    if k == "len":
        name = env.fresh(VAR_POOL)
        env.vars[name] = "int"
        env.feat("len(list)")
        return [f"{name} = len({l})"]
    name = env.fresh(VAR_POOL)
    env.vars[name] = et
    env.feat("list index")
    return [f"{name} = {l}[{rng.choice(['0', '1', '-1'])}]"]


def block(env, depth, n):
    lines = []
    for _ in range(n):
        lines += stmt(env, depth)
    return lines or ["pass"]


def indent(lines):
    return ["    " + l for l in lines]


def merge_branch_vars(env, branches):
    """names first assigned in *some* branch are promoted by the transpiler to the enclosing scope;
    they stay usable afterwards iff every branch gave them the same type class (guard: one type per name)."""
    new = {}
    for b in branches:
        for n, t in b.vars.items():
            if n not in env.vars:
                new.setdefault(n, set()).add(t)
    for n, ts in new.items():
        if len(ts) == 1:
            env.vars[n] = next(iter(ts))
            env.feat("hoisted from block")


def if_stmt(env, depth):
    rng = env.rng
    c, _ = gen_bool(env, 2)
    out = [f"if {c}:"]
    branches = []
    b = env.clone_scope()
    out += indent(block(b, depth - 1, rng.randint(1, 3)))
    branches.append(b)
    for _ in range(rng.choice([0, 0, 1, 2])):
        c2, _ = gen_bool(env, 1)
        b = env.clone_scope()
        out.append(f"elif {c2}:")
        out += indent(block(b, depth - 1, rng.randint(1, 2)))
        branches.append(b)
        env.feat("elif")
    if rng.random() < 0.6:
        b = env.clone_scope()
        out.append("else:")
        out += indent(block(b, depth - 1, rng.randint(1, 2)))
        branches.append(b)
        env.feat("else")
    env.feat("if")
    merge_branch_vars(env, branches)
    return out


def for_stmt(env, depth):
    rng = env.rng
    v = rng.choice(["i", "j", "k2", "idx2", "r"])
    if v in env.vars and env.vars[v] != "int":
        v = env.fresh(["i", "j", "r"])
    cnt = lit_int(rng) if rng.random() < 0.6 else gen_int(env, 1)[0]
    b = env.clone_scope()
    b.vars[v] = "int"
    b.used.add(v)
    b.loop_depth += 1
    out = [f"for {v} in range({cnt}):"] + indent(block(b, depth - 1, rng.randint(1, 3)))
    env.feat("for range")
    merge_branch_vars(env, [b_without(b, v)])
    return out


def b_without(b, v):
    b.vars = {n: t for n, t in b.vars.items() if n != v}
    return b


def while_stmt(env, depth):
    rng = env.rng
    c, _ = gen_bool(env, 2)
    if c in ("True", "False"):
        # `while True:` is the main loop of the documented style, never an ordinary statement
        c = f"({c} and (digital_read(2) == 1))"
    b = env.clone_scope()
    b.loop_depth += 1
    out = [f"while {c}:"] + indent(block(b, depth - 1, rng.randint(1, 3)))
    env.feat("while")
    merge_branch_vars(env, [b])
    return out


def try_stmt(env, depth):
    rng = env.rng
    b1 = env.clone_scope()
    out = ["try:"] + indent(block(b1, depth - 1, rng.randint(1, 2)))
    # handlers: bare, named, named with a target, dotted class, several in a row (repaired: F-C06-named-except)
    form = rng.choice(["bare", "bare", "named", "named", "as", "as", "dotted", "two", "three"])
    heads = {"bare": ["except:"], "named": ["except {E}:"], "as": ["except {E} as {t}:"], "dotted": ["except {D}:"],
             "two": ["except {E} as {t}:", "except:"], "three": ["except {E}:", "except {D} as {t}:", "except {E2}:"]}[form]
    excs = rng.sample(EXC_NAMES, 2)
    branches = [b1]
    for h in heads:
        b2 = env.clone_scope()
        tgt = env.fresh(["err", "exc", "e1", "problem"]) if "{t}" in h else None
        if tgt:
            b2.used.add(tgt)
        out += [h.format(E=excs[0], E2=excs[1], D=rng.choice(EXC_DOTTED), t=tgt)] + indent(block(b2, depth - 1, rng.randint(1, 2)))
        branches.append(b2)
    env.feat("try/except")
    env.feat("except handler: " + form)
    merge_branch_vars(env, branches)
    return out


EXC_NAMES = ["ValueError", "Exception", "TypeError", "KeyError", "ZeroDivisionError", "RuntimeError", "OSError", "MyError"]
EXC_DOTTED = ["errors.Timeout", "pkg.sub.Failure", "errors.Busy"]


# ----------------------------------------------------------------------------- devices
IMPORT_OF = {
    "Led": "from Reduino.Actuators import Led", "RGBLed": "from Reduino.Actuators import RGBLed",
    "Buzzer": "from Reduino.Actuators import Buzzer", "Servo": "from Reduino.Actuators import Servo",
    "DCMotor": "from Reduino.Actuators import DCMotor", "LCD": "from Reduino.Displays import LCD",
    "Button": "from Reduino.Sensors import Button", "Potentiometer": "from Reduino.Sensors import Potentiometer",
    "Ultrasonic": "from Reduino.Sensors import Ultrasonic", "SerialMonitor": "from Reduino.Communication import SerialMonitor",
}
HOISTABLE = ["Led", "RGBLed", "Servo", "DCMotor", "Button", "Potentiometer", "Ultrasonic"]
ALL_KINDS = ["Led", "RGBLed", "Buzzer", "Servo", "DCMotor", "LCD", "Button", "Potentiometer", "Ultrasonic", "SerialMonitor"]
DEV_NAMES = {"Led": ["led", "led2", "status_led", "lamp"], "RGBLed": ["rgb", "rgb2", "pixel"], "Buzzer": ["bz", "buzzer", "spk"],
             "Servo": ["servo", "arm", "sv2"], "DCMotor": ["motor", "left_m", "right_m"], "LCD": ["lcd", "panel", "disp"],
             "Button": ["btn", "button", "key1"], "Potentiometer": ["pot", "knob", "dial"], "Ultrasonic": ["sonar", "us", "ranger"],
             "SerialMonitor": ["mon", "ser", "monitor"]}


def declare_device(env, kind, pins, iface=None):
    """iface: None | 'i2c' | 'parallel' (LCD only: force the interface)"""
    rng = env.rng
    name = None
    for cand in rng.sample(DEV_NAMES[kind], len(DEV_NAMES[kind])):
        if cand not in env.used:
            name = cand
            break
    if name is None:
        return None
    env.used.add(name)
    def P():
        # a pin is a literal, or (when the script has pin variables) a global int variable / a sum of one and a literal
        pv = getattr(env, "pin_vars", [])
        if pv and rng.random() < 0.4:
            env.feat("device pin from a variable")
            v = rng.choice(pv)
            return v if rng.random() < 0.6 else f"{v} + {rng.randint(1, 4)}"
        return pins.pop() if pins else rng.randint(2, 13)
    env.feat("declare " + kind)
    if kind == "Led":
        src = rng.choice([f"Led({P()})", f"Led(pin={P()})", "Led()"])
    elif kind == "RGBLed":
        src = f"RGBLed({P()}, {P()}, {P()})"
    elif kind == "Buzzer":
        src = rng.choice([f"Buzzer({P()})", f"Buzzer(pin={P()}, default_frequency={rng.choice(['440.0', '880', '523.25'])})", "Buzzer()"])
    elif kind == "Servo":
        src = rng.choice([f"Servo({P()})", f"Servo(pin={P()}, min_angle=10, max_angle=170)", f"Servo({P()}, min_pulse_us=600, max_pulse_us=2300)"])
    elif kind == "DCMotor":
        src = rng.choice([f"DCMotor({P()}, {P()}, {P()})", f"DCMotor(in1={P()}, in2={P()}, enable={P()})"])
    elif kind == "Button":
        src = rng.choice([f"Button({P()})", f"Button(pin={P()})"])
    elif kind == "Potentiometer":
        a = rng.choice(["A0", "A1", "A2", "A3"])
        src = rng.choice([f'Potentiometer("{a}")', f"Potentiometer(pin='{a}')", f"Potentiometer({a})"])
    elif kind == "Ultrasonic":
        src = rng.choice([f"Ultrasonic({P()}, {P()})", f"Ultrasonic(trig={P()}, echo={P()})", f'Ultrasonic({P()}, {P()}, sensor="HC-SR04")'])
    elif kind == "SerialMonitor":
        src = rng.choice(["SerialMonitor(9600)", 'SerialMonitor(baud_rate=115200, port="COM4")', "SerialMonitor()", 'SerialMonitor(9600, "COM3")'])
    elif kind == "LCD":
        k = rng.random()
        if iface is not None:
            k = 0.0 if iface == "i2c" else 1.0
        if k < 0.4:
            cols, rows = rng.choice([(16, 2), (20, 4)])
            addr = rng.choice(["0x27", "39", "0x3F", "0x26"])
            src = rng.choice([f"LCD(i2c_addr={addr}, cols={cols}, rows={rows})", f"LCD(cols={cols}, rows={rows}, i2c_addr={addr})"])
            if (cols, rows) == (16, 2) and rng.random() < 0.4:
                src = "LCD(i2c_addr=0x3F)"
            env.dev_opts[name] = {"interface": "i2c", "cols": cols, "rows": rows}
        else:
            bl = rng.random() < 0.5
            rw = rng.random() < 0.3
            cols, rows = rng.choice([(16, 2), (16, 2), (20, 4), (8, 1)])
            args = f"rs={P()}, en={P()}, d4={P()}, d5={P()}, d6={P()}, d7={P()}" if rng.random() < 0.5 else f"{P()}, {P()}, {P()}, {P()}, {P()}, {P()}"
            if (cols, rows) != (16, 2):
                args += f", cols={cols}, rows={rows}"
            if rw:
                args += f", rw={P()}"
            if bl:
                args += f", backlight_pin={rng.choice([3, 5, 6, 9, 10])}"
            src = f"LCD({args})"
            env.dev_opts[name] = {"interface": "parallel", "cols": cols, "rows": rows, "backlight_pin": bl}
    env.devs.setdefault(kind, []).append(name)
    if kind == "Button" and env.funcs and rng.random() < 0.4 and not env.in_main:
        # on_click callback: a previously defined zero-parameter function
        zero = [f for f, (p, r) in env.funcs.items() if not p]
        if zero:
            src = src[:-1] + f", on_click={rng.choice(zero)})"
            env.feat("Button on_click")
    return f"{name} = {src}"


# ----------------------------------------------------------------------------- functions
def gen_function(env, numeric_only=False):
    rng = env.rng
    name = env.fresh(FN_POOL)
    nparams = rng.choice([0, 1, 1, 2, 3])
    ptypes = [rng.choice(["int", "int", "float", "bool", "String"]) for _ in range(nparams)]
    pnames = []
    fe = env.clone_scope()
    fe.in_fn = name
    fe.loop_depth = 0
    annotate = rng.random() < 0.5
    sig = []
    for t in ptypes:
        pn = env.fresh(["p", "q1", "arg", "val", "amount", "who", "times", "lvl"])
        pnames.append(pn)
        fe.vars[pn] = t
        ann = {"int": "int", "float": "float", "bool": "bool", "String": "str"}[t]
        # unannotated parameters are typed int by the transpiler: only annotate-free when int
        sig.append(f"{pn}: {ann}" if (annotate or t != "int") else pn)
    ret = rng.choice([None, None, "int", "float", "bool", "String"] if not numeric_only else [None, "int", "int", "int"])
    prelude = []
    if not ret and rng.random() < 0.3:
        c, _ = gen_bool(fe, 1)
        prelude = [f"if {c}:", "    return"]
    body = prelude + block(fe, 2, rng.randint(1, 4))
    if ret:
        if rng.random() < 0.4:
            c, _ = gen_bool(fe, 1)
            body += [f"if {c}:", f"    return {gen_typed(fe, 1, ret)}"]
        body += [f"return {gen_typed(fe, 2, ret)}"]
    env.funcs[name] = (ptypes, ret)
    env.feat("def")
    env.feat(f"def returning {ret}")
    return [f"def {name}({', '.join(sig)}):"] + indent(body)


# ----------------------------------------------------------------------------- polymorphic helpers
# User functions with UN-ANNOTATED parameters, which the transpiler specialises per call signature, called with several
# argument types - inside the guard of F-C06-overload-ambiguous (never two numeric overloads of one function), of
# F-C06-param-rebound-string (a parameter is only ever re-bound within the numeric types) and of
# F-C06-call-site-unspecialised (a helper that really has two overloads is only called as the right-hand side of an assignment,
# the only place where the transpiler records a call signature):
#   rebind     def f(x): x = x / 2.0 ; return x            int and float arguments -> ONE float variant (alias int -> float)
#   rebind2    def f(a, b): a = a / 4.0 ; return a + b      (int,int) and (float,int) -> one variant (float,int)
#   overload   def f(x): return x + x                       T and String arguments -> two real overloads (T one numeric type)
#   show       def f(v): <serial>.write(v)                  int arguments only, called as a bare statement (a void helper is never
#                                                           specialised: listed finding F-C06-call-site-unspecialised)
#   mono       def f(a, b): return a * b + 1                always (int, int): one variant, many call sites
#   same       def f(n): n = n + 1 ; return n * 2           re-bound to its own type, one argument type
#   strsame    def f(s): s = s + "!" ; return s             String only
#   via        def g(y: int): return f(y)  /  def g(z: float): return f(z)     calls of a rebind helper from inside functions
#   recursive  def f(n): if n <= 1: return 1 ; return n * f(n - 1)                  a function that mentions itself
#   listparam  def f(xs): t = 0 ; for i in range(len(xs)): t = t + xs[i] ; return t   called with a list variable
#   listret    def f(n: int): out = [n, n + 1] ; return out                          returns a list
#   globalmut  def f(): global g ; g = g + 1                                          assigns a global
#   nothing    def f(): pass     /    def f(): return                                 empty bodies
POLY_KINDS = ["rebind", "rebind", "rebind2", "overload", "overload", "show", "mono", "same", "strsame",
              "recursive", "listparam", "listret", "globalmut", "nothing"]
POLY_FN_POOL = ["half", "halve", "scale2", "twice", "dup", "emit_v", "show_v", "mul1", "bump", "exclaim", "quarter", "norm", "mixin", "echo_v", "tag"]


def _num_exact(env, ty):
    """an argument whose inferred label AND C++ type are exactly ty (int/float): a literal or a variable of that type"""
    rng = env.rng
    vs = env.vars_of(ty)
    if vs and rng.random() < 0.5:
        return rng.choice(vs)
    return lit_int(rng) if ty == "int" else lit_float(rng)


def _str_exact(env):
    rng = env.rng
    vs = env.vars_of("String")
    if vs and rng.random() < 0.5:
        return rng.choice(vs)
    return py_literal(rng, gen_printable(rng, 6))


def gen_poly_function(env, kind=None):
    rng = env.rng
    kind = kind or rng.choice(POLY_KINDS)
    if kind == "show" and not env.devs.get("SerialMonitor"):
        kind = "overload"
    name = env.fresh(POLY_FN_POOL)
    p = env.fresh(["x", "v", "n", "w", "u", "arg", "val"])
    q = env.fresh(["b", "m", "k", "other"])
    num = rng.choice(["int", "float"])
    info = {"kind": kind, "num": num, "sites": 0}
    if kind == "rebind":
        op = rng.choice([f"{p} / 2.0", f"{p} * 0.5", f"{p} + 0.25", f"{p} / 4.0 + 1.0", f"({p} + {p}) / 3.0"])
        body = [f"{p} = {op}", f"return {p}"]
        if rng.random() < 0.3:
            body = [f"{p} = {op}", f"if {p} > 10.0:", f"    {p} = 10.0", f"return {p}"]
        lines = [f"def {name}({p}):"] + indent(body)
    elif kind == "rebind2":
        lines = [f"def {name}({p}, {q}):"] + indent([f"{p} = {p} / 4.0", f"return {p} + {q}"])
    elif kind == "overload":
        lines = [f"def {name}({p}):"] + indent([f"return {p} + {p}"])
    elif kind == "show":
        lines = [f"def {name}({p}):"] + indent([f"{env.dev('SerialMonitor')}.write({p})"])
    elif kind == "mono":
        lines = [f"def {name}({p}, {q}):"] + indent([f"return {p} * {q} + 1"])
    elif kind == "same":
        lines = [f"def {name}({p}):"] + indent([f"{p} = {p} + 1", f"return {p} * 2"])
        info["num"] = "int"
    elif kind == "strsame":
        lines = [f"def {name}({p}: str):"] + indent([f"{p} = {p} + {py_literal(rng, gen_printable(rng, 3) or '!')}", f"return {p}"])
    elif kind == "recursive":
        ann = rng.choice(["", ": int"])
        lines = [f"def {name}({p}{ann}):"] + indent([f"if {p} <= 1:", "    return 1", f"return {p} * {name}({p} - 1)"])
    elif kind == "listparam":
        et = rng.choice(["int", "float"])
        info["num"] = et
        zero = "0" if et == "int" else "0.0"
        ann = rng.choice(["", "", f": list[{et}]"])
        lines = [f"def {name}({p}{ann}):"] + indent([f"{q} = {zero}", f"for i in range(len({p})):", f"    {q} = {q} + {p}[i]", f"return {q}"])
    elif kind == "listret":
        lines = [f"def {name}({p}: int):"] + indent([f"{q} = [{p}, {p} + 1]", f"return {q}"])
    elif kind == "globalmut":
        gs = [n for n, t in env.vars.items() if t == "int"]
        if not gs:
            return gen_poly_function(env, "nothing")
        info["global"] = rng.choice(gs)
        lines = [f"def {name}():"] + indent([f"global {info['global']}", f"{info['global']} = {info['global']} + 1"])
    elif kind == "nothing":
        lines = [f"def {name}():"] + indent([rng.choice(["pass", "return"])])
    elif kind == "via":
        targets = [f for f, i in env.poly.items() if i["kind"] == "rebind"]
        if not targets:
            return gen_poly_function(env, "rebind")
        t = rng.choice(targets)
        ann = rng.choice(["int", "float"])
        info["num"] = ann
        info["target"] = t
        lines = [f"def {name}({p}: {ann}):"] + indent([f"return {t}({p})"])
    else:
        raise AssertionError(kind)
    env.poly[name] = info
    env.feat("poly def " + kind)
    return lines


def poly_callable(env):
    return [f for f in getattr(env, "poly", {}) if f != env.in_fn]


def poly_call(env, f=None, alt=None):
    """-> (call source, result type or None); alt in (0, 1) forces the first / second argument class of the helper"""
    rng = env.rng
    f = f or rng.choice(poly_callable(env))
    i = env.poly[f]
    kind = i["kind"]
    i["sites"] += 1
    a = rng.randint(0, 1) if alt is None else alt
    env.feat(f"poly call {kind} arg class {a}")
    if kind == "rebind":
        return f"{f}({_num_exact(env, ['int', 'float'][a])})", "float"
    if kind == "rebind2":
        return f"{f}({_num_exact(env, ['int', 'float'][a])}, {_num_exact(env, 'int')})", "float"
    if kind == "overload":
        if a == 0:
            return f"{f}({_num_exact(env, i['num'])})", i["num"]
        return f"{f}({_str_exact(env)})", "String"
    if kind == "show":
        return f"{f}({_num_exact(env, 'int')})", None
    if kind == "mono":
        return f"{f}({_num_exact(env, 'int')}, {_num_exact(env, 'int')})", "int"
    if kind == "same":
        return f"{f}({_num_exact(env, 'int')})", "int"
    if kind == "strsame":
        return f"{f}({_str_exact(env)})", "String"
    if kind == "via":
        return f"{f}({_num_exact(env, i['num'])})", "float"
    if kind == "recursive":
        return f"{f}({rng.choice(['1', '3', '5'] + env.vars_of('int'))})", "int"
    if kind == "listparam":
        ls = env.vars_of(f"list[{i['num']}]")
        if not ls:
            return f"{f}([{', '.join((lit_int if i['num'] == 'int' else lit_float)(rng) for _ in range(rng.randint(1, 3)))}])", i["num"]
        return f"{f}({rng.choice(ls)})", i["num"]
    if kind == "listret":
        return f"{f}({_num_exact(env, 'int')})", "list[int]"
    if kind in ("globalmut", "nothing"):
        return f"{f}()", None
    raise AssertionError(kind)


def poly_call_stmt(env, f=None, alt=None):
    rng = env.rng
    src, ty = poly_call(env, f, alt)
    if ty is None:
        return [src]
    r = rng.random()
    if env.poly[src.split("(")[0]]["kind"] in ("overload", "listret", "listparam"):
        r *= 0.75                                # assignment contexts only
    if r < 0.55:
        name = env.fresh(VAR_POOL)
        env.vars[name] = ty
        return [f"{name} = {src}"]
    old = env.vars_of(ty)
    if r < 0.75:
        if old:
            return [f"{rng.choice(old)} = {src}"]
        name = env.fresh(VAR_POOL)
        env.vars[name] = ty
        return [f"{name} = {src}"]
    mon = env.dev("SerialMonitor")
    if mon:
        return [f"{mon}.write({src})"]
    return [src]


# ----------------------------------------------------------------------------- whole script
def gen_script(rng, opts=None):
    opts = dict(opts or {})
    env = Env(rng, opts)
    kinds_pre = [k for k in ALL_KINDS if rng.random() < opts.get("p_kind", 0.45)]
    if opts.get("force_kinds"):
        kinds_pre = list(dict.fromkeys(list(opts["force_kinds"]) + kinds_pre))
    if "SerialMonitor" not in kinds_pre and rng.random() < 0.8:
        kinds_pre.append("SerialMonitor")
    # a hoistable kind may ALSO be declared before the loop (two instances, one of them hoisted) when opts["multi"]
    multi = opts.get("multi", False)
    kinds_loop = [k for k in HOISTABLE if (multi and rng.random() < 0.5 or k not in kinds_pre) and rng.random() < opts.get("p_hoist", 0.3)]
    if opts.get("force_hoist"):
        kinds_loop = [k for k in dict.fromkeys(list(opts["force_hoist"]) + kinds_loop) if k in HOISTABLE]
        if not multi:
            kinds_pre = [k for k in kinds_pre if k not in kinds_loop]
    if opts.get("lcd_both") and "LCD" not in kinds_pre:
        kinds_pre.append("LCD")
    pins = list(range(2, 14)) + list(range(22, 54))
    rng.shuffle(pins)
    lines = ["from Reduino import target", 'target("COM3")' if rng.random() < 0.8 else 'target("/dev/ttyACM0", upload=False)']
    for k in dict.fromkeys(kinds_pre + kinds_loop):
        lines.append(IMPORT_OF[k])
    lines += ["from Reduino.Utils import sleep", "from Reduino.Core import pin_mode, digital_write, digital_read, analog_read, analog_write, OUTPUT, INPUT, INPUT_PULLUP, HIGH, LOW", ""]
    # some functions may come before the devices (then they cannot use them) - keep it simple: devices first
    rng.shuffle(kinds_pre)
    early_fns = []
    if rng.random() < 0.3:
        early_fns = gen_function(env)          # zero-device function usable as Button callback
    lines += early_fns
    # pin numbers kept in global variables (declared above the devices that use them)
    env.pin_vars = []
    if rng.random() < opts.get("p_pinvars", 0.25):
        for _ in range(rng.randint(1, 3)):
            v = env.fresh(["pin_a", "led_pin", "base_pin", "first_pin", "out_pin"])
            env.vars[v] = "int"
            env.pin_vars.append(v)
            lines.append(f"{v} = {pins.pop()}")
    # how many instances of each kind: one, or (multi) up to three - the emitter keeps per-NAME state and per-KIND flags
    plan = []
    for k in kinds_pre:
        n = 1
        if multi and k != "SerialMonitor":
            n = rng.choice([1, 2, 2, 3])
        ifaces = [None] * n
        if k == "LCD":
            if opts.get("lcd_both"):
                n = max(n, 2)
                ifaces = rng.choice([["parallel", "i2c"], ["i2c", "parallel"]]) + [None] * (n - 2)
            elif opts.get("lcd_only"):
                ifaces = [opts["lcd_only"]] * n
        plan += [(k, i) for i in ifaces]
    if multi:
        rng.shuffle(plan)                      # kinds interleaved: led, lcd(i2c), servo, led2, lcd(parallel), ...
    # layout of the part before the main loop ("devices declared before the main loop" - anywhere before it):
    #   default             devices, globals, functions, statements
    #   interleave          devices and globals alternate (a global may read a device declared above it)
    #   fns_before_devices  globals, functions, devices, statements: a function is DEFINED above the device it drives
    layout = opts.get("layout", "default")
    sec_devs, sec_globals, sec_fns = [], [], []

    def declare_next():
        k, iface = plan.pop(0)
        d = declare_device(env, k, pins, iface=iface)
        if d:
            (sec_globals if layout == "interleave" else sec_devs).append(d)
            if len(env.devs.get(k, [])) > 1:
                env.feat("second instance of " + k)

    def globals_(n_vars, n_lists):
        for _ in range(n_vars):
            sec_globals.extend(assign_new(env))
        for _ in range(n_lists):
            sec_globals.extend(list_new(env))

    n_vars, n_lists = rng.randint(1, 5), rng.randint(0, 2)
    if layout == "fns_before_devices":
        globals_(n_vars, n_lists)              # generated before any device exists: they cannot read one
        while plan:
            declare_next()
    elif layout == "interleave":
        todo = ["d"] * len(plan) + ["v"] * n_vars + ["l"] * n_lists
        rng.shuffle(todo)
        for t in todo:
            if t == "d":
                declare_next()
            else:
                globals_(1 if t == "v" else 0, 1 if t == "l" else 0)
        env.feat("layout interleave")
    else:
        while plan:
            declare_next()
        globals_(n_vars, n_lists)
    ifs = {env.dev_opts[n]["interface"] for n in env.devs.get("LCD", [])}
    if len(ifs) == 2:
        env.feat("both LCD interfaces")
    # polymorphic helpers first (the ordinary functions below may call them; nothing calls forward)
    npoly = opts.get("poly", 0) if opts.get("poly") is not None else 0
    if not npoly and rng.random() < 0.25:
        npoly = 1
    for j in range(npoly):
        sec_fns += gen_poly_function(env, (opts.get("poly_kinds") or [None] * npoly)[j % max(1, len(opts.get("poly_kinds") or [None]))])
    if npoly and any(i["kind"] == "rebind" for i in env.poly.values()) and rng.random() < 0.5:
        sec_fns += gen_poly_function(env, "via")
    # functions; each may call the ones generated before it.  In "forward" mode the definitions are written in REVERSE order, so
    # that every such call is a call of a function defined further down (prototypes: fix of F-C06-fn-forward-call); a function
    # called forward returns an int or nothing (guard of F-C06-fn-forward-call-return-type)
    forward = opts.get("forward", rng.random() < 0.3)
    blocks = []
    for _ in range(rng.choice([0, 1, 1, 2, 3]) if not opts.get("forward") else rng.choice([2, 3, 3, 4])):
        blocks.append(gen_function(env, numeric_only=forward))
    if forward and len(blocks) > 1:
        blocks.reverse()
        env.feat("functions defined in reverse order (forward calls)")
    for b in blocks:
        sec_fns += b
    if layout == "fns_before_devices":
        lines += sec_globals + sec_fns + sec_devs
        if sec_fns and sec_devs:
            env.feat("layout functions before devices")
    else:
        lines += sec_devs + sec_globals + sec_fns
    # boundary call sites: each polymorphic helper is called with BOTH argument classes - in either order, at top level
    # (setup) or later from the main loop / a nested block (then only the generic polycall statements reach it)
    late = []
    for f, i in list(env.poly.items()):
        if i["kind"] == "listparam":
            # an un-annotated parameter that is used as a list must see a list argument in an assignment, or the helper keeps
            # its int default (listed finding F-C06-call-site-unspecialised)
            lines += poly_call_stmt(env, f, 0)
        if i["kind"] in ("rebind", "rebind2", "overload", "via"):
            order = rng.choice([[0, 1], [1, 0], [0, 1, 0], [1, 1, 0]])
            where = rng.random()
            for a in order:
                if where < 0.6 or (where < 0.8 and a == order[0]):
                    lines += poly_call_stmt(env, f, a)
                else:
                    late.append((f, a))          # generated when the loop body is (names declared there are not visible before)
    # pre-loop statements (setup)
    lines += block(env, 2, rng.randint(0, 5)) if rng.random() < 0.9 else []
    lines = [l for l in lines if l != "pass"]
    # main loop
    env.in_main = True
    env.loop_depth = 1
    body = []
    for k in kinds_loop:
        d = declare_device(env, k, pins)
        if d:
            body.append(d)
            env.feat("hoisted " + k)
    for f, a in late:
        body += poly_call_stmt(env, f, a)
    body += block(env, 3, rng.randint(2, 7))
    lines.append("while True:")
    lines += indent(body)
    src = "\n".join(lines) + "\n"
    return src, env.features


# ----------------------------------------------------------------------------- executable guard (shapes of listed findings)
def _calls_in(node, attr=None):
    for n in ast.walk(node):
        if isinstance(n, ast.Call):
            yield n


def shapes_of(src: str):
    """-> set of finding-shape keys the script exhibits (empty = inside the guard).
    Purely syntactic (Python ast of the script)."""
    out = set()
    try:
        tree = ast.parse(src)
    except SyntaxError:
        return {"not-python"}
    fdefs = [n for n in tree.body if isinstance(n, ast.FunctionDef)]
    order = {f.name: i for i, f in enumerate(fdefs)}
    # a function that assigns (without a `global` statement) a name that is also a module-level variable, and evidently a value
    # of ANOTHER type (both values literals): in Python a local of the function, in the sketch an assignment to the global
    # (F-C06-fn-local-shadows-global).  (With values of one type the sketch compiles: the generator writes globals that way.)
    def _lit_kind(v):
        if isinstance(v, ast.Constant):
            return type(v.value).__name__
        if isinstance(v, ast.List):
            return "list"
        return None
    mod_kind = {}
    for st in tree.body:
        for n in ast.walk(st) if not isinstance(st, ast.FunctionDef) else []:
            if isinstance(n, ast.Assign) and len(n.targets) == 1 and isinstance(n.targets[0], ast.Name) and _lit_kind(n.value):
                mod_kind.setdefault(n.targets[0].id, _lit_kind(n.value))
    for f in fdefs:
        globs = {g for n in ast.walk(f) if isinstance(n, ast.Global) for g in n.names}
        params = {a.arg for a in f.args.args}
        for n in ast.walk(f):
            if isinstance(n, ast.Assign) and len(n.targets) == 1 and isinstance(n.targets[0], ast.Name):
                x = n.targets[0].id
                if x in mod_kind and x not in globs and x not in params and _lit_kind(n.value) not in (None, mod_kind[x]):
                    out.add("fn-local-shadows-global")
    # a call of a function defined further down whose result is not evidently an int or nothing: the caller is translated before
    # the callee's return type is known and treats the result as int (F-C06-fn-forward-call-return-type)
    numeric = _evidently_numeric_functions(tree, fdefs)
    for f in fdefs:
        for n in ast.walk(f):
            if isinstance(n, ast.Call) and isinstance(n.func, ast.Name) and n.func.id in order and order[n.func.id] > order[f.name] \
                    and n.func.id not in numeric:
                out.add("fn-forward-call-return-type")
    # a function defined ABOVE the RGBLed it drives: .on() / .off() / .blink() / .toggle() are then translated as Led methods
    rgb_line = {}
    for st in tree.body:
        if isinstance(st, ast.Assign) and isinstance(st.value, ast.Call) and isinstance(st.value.func, ast.Name) and st.value.func.id == "RGBLed":
            for t in st.targets:
                if isinstance(t, ast.Name):
                    rgb_line.setdefault(t.id, st.lineno)
    for f in fdefs:
        for n in ast.walk(f):
            if isinstance(n, ast.Call) and isinstance(n.func, ast.Attribute) and isinstance(n.func.value, ast.Name) \
                    and n.func.attr in ("on", "off", "blink", "toggle") and rgb_line.get(n.func.value.id, 0) > f.lineno:
                out.add("fn-above-rgbled")
    # un-annotated parameters: (1) re-bound in the body to a string-valued expression (the C++ parameter becomes String, int call
    # sites no longer convert); (2) given a string / float literal at a call site outside an assignment or return value (no call
    # signature is recorded there, so no variant for that argument type is emitted)
    unann = {f.name: [i for i, a in enumerate(f.args.args) if a.annotation is None] for f in fdefs}
    for f in fdefs:
        pn = {a.arg for a in f.args.args if a.annotation is None}
        for n in ast.walk(f):
            if isinstance(n, (ast.Assign, ast.AugAssign)):
                tg = n.targets if isinstance(n, ast.Assign) else [n.target]
                if any(isinstance(t, ast.Name) and t.id in pn for t in tg):
                    for m in ast.walk(n.value):
                        if (isinstance(m, ast.Constant) and isinstance(m.value, str)) or isinstance(m, ast.JoinedStr) or \
                                (isinstance(m, ast.Call) and isinstance(m.func, ast.Name) and m.func.id in ("str", "len")):
                            out.add("param-rebound-string")
    recorded = set()
    for n in ast.walk(tree):
        val = None
        if isinstance(n, (ast.Assign, ast.AugAssign, ast.AnnAssign)):
            val = n.value
        elif isinstance(n, ast.Return):
            val = n.value
        if val is not None:
            for m in ast.walk(val):
                recorded.add(id(m))
    for n in ast.walk(tree):
        if isinstance(n, ast.Call) and isinstance(n.func, ast.Name) and n.func.id in unann and id(n) not in recorded:
            for i in unann[n.func.id]:
                if i < len(n.args):
                    a = n.args[i]
                    if isinstance(a, ast.JoinedStr) or (isinstance(a, ast.Constant) and isinstance(a.value, (str, float)) and not isinstance(a.value, bool)):
                        out.add("call-site-unspecialised")
    # a tuple assignment at top level that introduces SOME new names (not all): the new ones become locals of setup()
    assigned = set()
    for st in tree.body:
        if isinstance(st, ast.While):
            break
        if isinstance(st, ast.Assign) and len(st.targets) == 1 and isinstance(st.targets[0], ast.Tuple):
            names = [t.id for t in st.targets[0].elts if isinstance(t, ast.Name)]
            new = [n for n in names if n not in assigned]
            if new and len(new) != len(names):
                out.add("tuple-new-name-local-to-setup")
        for n in ast.walk(st):
            if isinstance(n, ast.Name) and isinstance(n.ctx, ast.Store):
                assigned.add(n.id)
    # a Servo / Buzzer name bound twice with different arguments besides the pin: two global lines for one state variable
    bound = {}
    for n in ast.walk(tree):
        if isinstance(n, ast.Assign) and len(n.targets) == 1 and isinstance(n.targets[0], ast.Name) and isinstance(n.value, ast.Call) \
                and isinstance(n.value.func, ast.Name) and n.value.func.id in ("Servo", "Buzzer"):
            rest = [ast.dump(a) for a in n.value.args[1:]] + sorted(k.arg + "=" + ast.dump(k.value) for k in n.value.keywords if k.arg and k.arg != "pin")
            bound.setdefault(n.targets[0].id, set()).add((n.value.func.id, tuple(rest)))
    if any(len(v) > 1 for v in bound.values()):
        out.add("device-rebound-globals")
    # a for-loop variable mentioned after its loop (C++: declared by the for header only)
    fors = [n for n in ast.walk(tree) if isinstance(n, ast.For) and isinstance(n.target, ast.Name)]
    plain = {}
    for n in ast.walk(tree):
        if isinstance(n, (ast.Assign, ast.AnnAssign)):
            tg = n.targets if isinstance(n, ast.Assign) else [n.target]
            for t in tg:
                for m in ast.walk(t):
                    if isinstance(m, ast.Name):
                        plain.setdefault(m.id, []).append(n.lineno)
    for f in fors:
        v = f.target.id
        if any(l < f.lineno for l in plain.get(v, [])):
            continue
        spans = [(g.lineno, g.end_lineno) for g in fors if g.target.id == v]
        for n in ast.walk(tree):
            if isinstance(n, ast.Name) and n.id == v and n.lineno > f.end_lineno and not any(a <= n.lineno <= b for a, b in spans):
                out.add("for-var-after-loop")
    for n in ast.walk(tree):
        # a `for` STATEMENT over anything but range(...) is rejected by the transpiler since "fix: reject statements the
        # transpiler cannot translate instead of dropping them" (finding F-C06-for-over-list, fixed): no longer a guard shape
        if isinstance(n, ast.comprehension) and not (isinstance(n.iter, ast.Call) and isinstance(n.iter.func, ast.Name) and n.iter.func.id == "range"):
            out.add("comprehension-not-range")
        if isinstance(n, ast.ExceptHandler) and n.type is not None and not _is_dotted_name(n.type):
            out.add("except-tuple")
        if isinstance(n, ast.Call) and isinstance(n.func, ast.Attribute) and n.func.attr == "get_mode":
            out.add("get-mode")
        if isinstance(n, ast.Name) and n.id in LIBC_NAMES and isinstance(n.ctx, ast.Store):
            out.add("libc-name")
        if isinstance(n, ast.arg) and n.arg in LIBC_NAMES:
            out.add("libc-name")
        if isinstance(n, ast.FunctionDef) and n.name in LIBC_NAMES:
            out.add("libc-name")
        if isinstance(n, ast.ExceptHandler) and (n.name in LIBC_NAMES or (n.type is not None and any(
                isinstance(m, ast.Name) and m.id in LIBC_NAMES or isinstance(m, ast.Attribute) and m.attr in LIBC_NAMES for m in ast.walk(n.type)))):
            out.add("libc-name")
    return out


def _is_dotted_name(n):
    while isinstance(n, ast.Attribute):
        n = n.value
    return isinstance(n, ast.Name)


_INT_CALLS = {"int", "len", "analog_read", "digital_read", "millis"}
_INT_ARITH = (ast.Add, ast.Sub, ast.Mult, ast.FloorDiv, ast.Mod, ast.BitAnd, ast.BitOr, ast.BitXor, ast.LShift, ast.RShift)


def _numeric_expr(e, names, fns):
    """conservative: True only if the expression evidently denotes an int (not a bool, not a float)"""
    if isinstance(e, ast.Constant):
        return isinstance(e.value, int) and not isinstance(e.value, bool)
    if isinstance(e, ast.Name):
        return e.id in names
    if isinstance(e, ast.BinOp):
        return isinstance(e.op, _INT_ARITH) and _numeric_expr(e.left, names, fns) and _numeric_expr(e.right, names, fns)
    if isinstance(e, ast.UnaryOp):
        return isinstance(e.op, (ast.USub, ast.UAdd, ast.Invert)) and _numeric_expr(e.operand, names, fns)
    if isinstance(e, ast.IfExp):
        return _numeric_expr(e.body, names, fns) and _numeric_expr(e.orelse, names, fns)
    if isinstance(e, ast.Call) and isinstance(e.func, ast.Name) and not e.keywords:
        if e.func.id in ("abs", "min", "max"):
            return bool(e.args) and all(_numeric_expr(a, names, fns) for a in e.args)
        return e.func.id in _INT_CALLS or e.func.id in fns
    return False


def _numeric_names(body_nodes, start, fns):
    """names whose EVERY assignment among the given statements is evidently an int (fixpoint)"""
    assigns = {}
    for st in body_nodes:
        for n in ast.walk(st):
            if isinstance(n, ast.Assign):
                for tg in n.targets:
                    if isinstance(tg, ast.Name):
                        assigns.setdefault(tg.id, []).append(n.value)
                    else:
                        for m in ast.walk(tg):
                            if isinstance(m, ast.Name) and isinstance(m.ctx, ast.Store):
                                assigns.setdefault(m.id, []).append(None)
            elif isinstance(n, ast.AugAssign) and isinstance(n.target, ast.Name):
                assigns.setdefault(n.target.id, []).append(n.value)
            elif isinstance(n, (ast.For, ast.comprehension)) and isinstance(n.target, ast.Name):
                assigns.setdefault(n.target.id, []).append(ast.Constant(0))
    names = set(start) | set(assigns)
    changed = True
    while changed:
        changed = False
        for nm, vals in assigns.items():
            if nm in names and not all(v is not None and _numeric_expr(v, names, fns) for v in vals):
                names.discard(nm)
                changed = True
    return names


def _evidently_numeric_functions(tree, fdefs):
    """user functions every return value of which is evidently an int (or that return nothing)"""
    fns = {f.name for f in fdefs}
    top = [st for st in tree.body if not isinstance(st, ast.FunctionDef)]
    changed = True
    while changed:
        changed = False
        glob = _numeric_names(top, [], fns)
        for f in fdefs:
            if f.name not in fns:
                continue
            params = [a.arg for a in f.args.args if isinstance(a.annotation, ast.Name) and a.annotation.id == "int"]
            local_assigned = {m.id for n in ast.walk(f) for m in ast.walk(n) if isinstance(m, ast.Name) and isinstance(m.ctx, ast.Store)}
            names = _numeric_names(f.body, params, fns) | (glob - local_assigned - {a.arg for a in f.args.args})
            rets = [n.value for n in ast.walk(f) if isinstance(n, ast.Return) and n.value is not None]
            if not all(_numeric_expr(v, names, fns) for v in rets):
                fns.discard(f.name)
                changed = True
    return fns


def repaired_region(src: str):
    """-> feature counts of the region the guards of the repaired findings used to exclude (measured, for the distribution):
    calls of a function defined further down, measure_distance() inside a function, string constants with control characters"""
    out = Counter()
    try:
        tree = ast.parse(src)
    except SyntaxError:
        return out
    fdefs = [n for n in tree.body if isinstance(n, ast.FunctionDef)]
    order = {f.name: i for i, f in enumerate(fdefs)}
    for f in fdefs:
        for n in ast.walk(f):
            if isinstance(n, ast.Call) and isinstance(n.func, ast.Attribute) and n.func.attr == "measure_distance":
                out["measure_distance() inside a function"] += 1
            if isinstance(n, ast.Call) and isinstance(n.func, ast.Name) and n.func.id in order and order[n.func.id] > order[f.name]:
                out["call of a function defined further down"] += 1
    for n in ast.walk(tree):
        if isinstance(n, ast.Constant) and isinstance(n.value, str) and not n.value.isprintable():
            out["string constant with a control character"] += 1
        if isinstance(n, ast.For) and not (isinstance(n.iter, ast.Call) and isinstance(n.iter.func, ast.Name) and n.iter.func.id == "range"):
            out["for statement over something else than range(...) (rejected since the repair of the silent drops)"] += 1
        if isinstance(n, ast.BinOp) and isinstance(n.op, ast.Add) and _is_charp(n.left) and _is_charp(n.right):
            out["+ of two const char* expressions"] += 1
        if isinstance(n, ast.Call) and isinstance(n.func, ast.Name) and n.func.id in ("int", "float") and len(n.args) == 1 \
                and isinstance(n.args[0], ast.IfExp) and _is_charp(n.args[0]):
            out["int() / float() of a choice between literals"] += 1
        if isinstance(n, ast.ExceptHandler) and n.type is not None and _is_dotted_name(n.type):
            out["named except handler"] += 1
        if (isinstance(n, ast.Name) and isinstance(n.ctx, ast.Store) and n.id in REJECTED_NAMES) or (isinstance(n, ast.arg) and n.arg in REJECTED_NAMES) \
                or (isinstance(n, ast.FunctionDef) and n.name in REJECTED_NAMES) or (isinstance(n, ast.ExceptHandler) and n.name in REJECTED_NAMES):
            out["declaration of a name reserved in C++"] += 1
    return out


def _is_charp(n):
    """the harness's own reading of 'emitted as const char*': a literal, an f-string without fields, a choice between such"""
    if isinstance(n, ast.IfExp):
        return _is_charp(n.body) and _is_charp(n.orelse)
    return _is_strlit(n)


def _is_strlit(n):
    return (isinstance(n, ast.Constant) and isinstance(n.value, str)) or (isinstance(n, ast.JoinedStr) and not any(isinstance(v, ast.FormattedValue) for v in n.values))


def string_constants(src: str):
    try:
        tree = ast.parse(src)
    except SyntaxError:
        return []
    return [n.value for n in ast.walk(tree) if isinstance(n, ast.Constant) and isinstance(n.value, str)]
